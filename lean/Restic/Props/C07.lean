import Restic.Model.Unpacked
import Restic.Gen.Source
/-!
# C07 — Index, snapshot, lock and config files decode to what was saved

Theorems about `Restic.Model.Unpacked` (transcription of compressUnpacked / decompressUnpacked /
saveUnpacked / verifyUnpacked / LoadUnpacked). All statements hold for **every** payload
(`List UInt8`: empty, binary, starting with the version byte, with `[` or `{`), every repository
version `v : Nat`, every file type `t : Nat` and every nonce of the right size. The encoding
constants are the regenerated facts of `Restic.Gen` (see `facts_*` below), not literals.

Assumed of the primitives (`Codec.Lawful`, validated case by case in the correspondence run):
decrypting what was just sealed gives the plaintext back, sealing adds `crypto_macSize` bytes,
zstd decoding inverts zstd encoding.
-/
namespace Restic.Props.C07
open Restic.Model.Unpacked Restic.Gen

/-- the assumed laws of AES-CTR + Poly1305 (`sealB`/`openB`) and zstd (`zenc`/`zdec`) -/
structure Codec.Lawful (c : Codec) : Prop where
  open_seal : ∀ n p, n.length = crypto_ivSize → c.openB n (c.sealB n p) = some p
  seal_len : ∀ n p, (c.sealB n p).length = p.length + crypto_macSize
  zdec_zenc : ∀ p, c.zdec (c.zenc p) = some p

/-! ## Regenerated facts the proofs depend on (re-proved against the current source) -/

/-- `Extension = ivSize + macSize` -/
theorem facts_extension : crypto_Extension = crypto_ivSize + crypto_macSize := by decide

/-- the version byte is a byte and differs from the two legacy pass-through bytes, which are the
only pass-through bytes -/
theorem facts_bytes : unpacked_versionByte < 256 ∧ unpacked_versionByte ≠ unpacked_rawByte0 ∧
    unpacked_versionByte ≠ unpacked_rawByte1 ∧ unpacked_rawByteCount = 2 := by decide

/-- index, snapshot and lock files are not the config file -/
theorem facts_types : restic_IndexFile ≠ restic_ConfigFile ∧ restic_SnapshotFile ≠ restic_ConfigFile ∧
    restic_LockFile ≠ restic_ConfigFile := by decide

private def idxOf (l : List String) (s : String) : Nat := l.findIdx (· == s)

/-- call order in `saveUnpacked`: compress, then seal, then verify, and only then the backend
`Save` (nothing unverified is stored) -/
theorem facts_save_order :
    idxOf saveUnpacked_calls "r.compressUnpacked" < idxOf saveUnpacked_calls "r.key.Seal" ∧
    idxOf saveUnpacked_calls "r.key.Seal" < idxOf saveUnpacked_calls "r.verifyUnpacked" ∧
    idxOf saveUnpacked_calls "r.verifyUnpacked" < idxOf saveUnpacked_calls "r.be.Save" ∧
    idxOf saveUnpacked_calls "r.be.Save" < saveUnpacked_calls.length := by decide

/-- call order in `LoadUnpacked`: raw load, decrypt, then decompress -/
theorem facts_load_order :
    idxOf LoadUnpacked_calls "r.LoadRaw" < idxOf LoadUnpacked_calls "r.key.Open" ∧
    idxOf LoadUnpacked_calls "r.key.Open" < idxOf LoadUnpacked_calls "r.decompressUnpacked" ∧
    idxOf LoadUnpacked_calls "r.decompressUnpacked" < LoadUnpacked_calls.length := by decide

/-- `verifyUnpacked` decrypts, decompresses and compares with the caller's bytes -/
theorem facts_verify_order :
    idxOf verifyUnpacked_calls "r.key.Open" < idxOf verifyUnpacked_calls "r.decompressUnpacked" ∧
    idxOf verifyUnpacked_calls "r.decompressUnpacked" < idxOf verifyUnpacked_calls "bytes.Equal" ∧
    idxOf verifyUnpacked_calls "bytes.Equal" < verifyUnpacked_calls.length := by decide

/-! ## helper lemmas -/

theorem versionByte_toNat : (UInt8.ofNat unpacked_versionByte).toNat = unpacked_versionByte := by decide

theorem splitAt?_append (n : Nat) (a b : Bytes) (h : a.length = n) :
    splitAt? n (a ++ b) = some (a, b) := by
  unfold splitAt?
  have : ¬ (a ++ b).length < n := by simp only [List.length_append]; omega
  simp only [this, if_false]
  subst h
  simp

theorem openStored_append (c : Codec) (nonce ct : Bytes) (h : nonce.length = crypto_ivSize) :
    openStored c (nonce ++ ct) = match c.openB nonce ct with
      | none => .err .openFailed | some p => .ok p := by
  unfold openStored
  rw [splitAt?_append _ _ _ h]
  rfl

/-- decompressing a compressed payload gives the payload, for every repository version and every
payload — including payloads that start with the version byte, `[` or `{`, and the empty one -/
theorem decompress_compress (c : Codec) (hz : ∀ p, c.zdec (c.zenc p) = some p) (v : Nat) (p : Bytes) :
    decompressUnpacked c v (compressUnpacked c v p) = .ok p := by
  unfold decompressUnpacked compressUnpacked
  by_cases hv : v < unpacked_minCompressVersion
  · simp only [hv, if_true]
  · simp only [hv, if_false, versionByte_toNat]
    have := facts_bytes
    have h1 : ¬ (unpacked_versionByte = unpacked_rawByte0 ∨ unpacked_versionByte = unpacked_rawByte1) := by
      omega
    simp only [h1, if_false, ne_eq, not_true_eq_false, hz]

/-- the bytes `saveUnpacked` hands to `verifyUnpacked` and then to the backend -/
def ctOf (c : Codec) (v t : Nat) (nonce buf : Bytes) : Bytes :=
  nonce ++ c.sealB nonce (if t ≠ restic_ConfigFile then compressUnpacked c v buf else buf)

theorem save_ok_iff (c : Codec) (v t : Nat) (nev : Bool) (nonce buf stored : Bytes) :
    saveUnpacked c v t nev nonce buf = .ok stored ↔
      verifyUnpacked c v t nev (ctOf c v t nonce buf) buf = .ok () ∧ stored = ctOf c v t nonce buf := by
  show (match verifyUnpacked c v t nev (ctOf c v t nonce buf) buf with
    | .panic => .panic | .err e => .err e | .ok () => .ok (ctOf c v t nonce buf)) = Res.ok stored ↔ _
  cases verifyUnpacked c v t nev (ctOf c v t nonce buf) buf with
  | panic => simp
  | err e => simp
  | ok u => cases u; simp [eq_comm]

/-! ## The property -/

/-- **Round trip.** For every repository version, file type, payload and nonce of the right size,
`saveUnpacked` succeeds and `LoadUnpacked` of the stored bytes returns exactly the payload. -/
theorem roundtrip (c : Codec) (hc : Codec.Lawful c) (v t : Nat) (nev : Bool) (nonce buf : Bytes)
    (hn : nonce.length = crypto_ivSize) :
    ∃ stored, saveUnpacked c v t nev nonce buf = .ok stored ∧ loadUnpacked c v t stored = .ok buf := by
  have hext := facts_extension
  by_cases ht : t = restic_ConfigFile
  · refine ⟨nonce ++ c.sealB nonce buf, ?_, ?_⟩
    · unfold saveUnpacked verifyUnpacked
      cases nev <;>
        simp [ht, openStored_append c nonce _ hn, hc.open_seal nonce buf hn]
    · unfold loadUnpacked
      have hl : ¬ (nonce ++ c.sealB nonce buf).length < crypto_Extension := by
        have := hc.seal_len nonce buf
        simp only [List.length_append]; omega
      simp only [hl, if_false]
      simp [ht, openStored_append c nonce _ hn, hc.open_seal nonce buf hn]
  · refine ⟨nonce ++ c.sealB nonce (compressUnpacked c v buf), ?_, ?_⟩
    · unfold saveUnpacked verifyUnpacked
      cases nev <;>
        simp [ht, openStored_append c nonce _ hn, hc.open_seal nonce _ hn,
          decompress_compress c hc.zdec_zenc]
    · unfold loadUnpacked
      have hl : ¬ (nonce ++ c.sealB nonce (compressUnpacked c v buf)).length < crypto_Extension := by
        have := hc.seal_len nonce (compressUnpacked c v buf)
        simp only [List.length_append]; omega
      simp only [hl, if_false]
      simp [ht, openStored_append c nonce _ hn, hc.open_seal nonce _ hn,
        decompress_compress c hc.zdec_zenc]

/-- **Nothing unverified is stored** (no law about zstd or the cipher needed): whenever
`saveUnpacked` with the extra verification returns bytes to store, loading those bytes returns the
payload — for *any* behaviour of the primitives, as long as the stored file is not shorter than
`crypto_Extension` (true of every real ciphertext). -/
theorem save_ok_load (c : Codec) (v t : Nat) (nonce buf stored : Bytes)
    (hs : saveUnpacked c v t false nonce buf = .ok stored) (hl : crypto_Extension ≤ stored.length) :
    loadUnpacked c v t stored = .ok buf := by
  obtain ⟨hv, hst⟩ := (save_ok_iff c v t false nonce buf stored).1 hs
  rw [← hst] at hv
  unfold loadUnpacked
  have : ¬ stored.length < crypto_Extension := by omega
  simp only [this, if_false]
  unfold verifyUnpacked at hv
  simp only [Bool.false_eq_true, if_false] at hv
  cases ho : openStored c stored with
  | panic => simp [ho] at hv
  | err e => simp [ho] at hv
  | ok plaintext =>
    simp only [ho] at hv ⊢
    by_cases ht : t = restic_ConfigFile
    · simp only [ht, ne_eq, not_true_eq_false, if_false] at hv ⊢
      by_cases hq : plaintext = buf
      · rw [hq]
      · simp [hq] at hv
    · simp only [ne_eq, ht, not_false_eq_true, if_true] at hv ⊢
      cases hd : decompressUnpacked c v plaintext with
      | panic => simp [hd] at hv
      | err e => simp [hd] at hv
      | ok q =>
        simp only [hd] at hv
        by_cases hq : q = buf
        · rw [hq]
        · simp [hq] at hv

/-- **Stored form.** What restic stores for a non-config file in a repository that compresses is
the version byte followed by the zstd stream — so the legacy "raw JSON" branch of
`decompressUnpacked` is never taken for data restic wrote, whatever the payload starts with. -/
theorem stored_form (c : Codec) (hc : Codec.Lawful c) (v t : Nat) (nev : Bool) (nonce buf stored : Bytes)
    (hn : nonce.length = crypto_ivSize) (ht : t ≠ restic_ConfigFile) (hv : ¬ v < unpacked_minCompressVersion)
    (hs : saveUnpacked c v t nev nonce buf = .ok stored) :
    openStored c stored = .ok (UInt8.ofNat unpacked_versionByte :: c.zenc buf) := by
  obtain ⟨_, hst⟩ := (save_ok_iff c v t nev nonce buf stored).1 hs
  rw [hst, ctOf, openStored_append c nonce _ hn, hc.open_seal nonce _ hn]
  simp [ht, compressUnpacked, hv]

/-- **Config bypass.** The config file is stored as `nonce ‖ seal(payload)` without any
compression or version byte, in every repository version. -/
theorem config_raw (c : Codec) (v : Nat) (nev : Bool) (nonce buf stored : Bytes)
    (hs : saveUnpacked c v restic_ConfigFile nev nonce buf = .ok stored) :
    stored = nonce ++ c.sealB nonce buf := by
  obtain ⟨_, hst⟩ := (save_ok_iff c v restic_ConfigFile nev nonce buf stored).1 hs
  rw [hst, ctOf]
  simp

/-- and loading the config never looks at the first byte: it returns the decrypted bytes as is -/
theorem config_load_raw (c : Codec) (v : Nat) (stored : Bytes) (hl : crypto_Extension ≤ stored.length) :
    loadUnpacked c v restic_ConfigFile stored = openStored c stored := by
  unfold loadUnpacked
  have : ¬ stored.length < crypto_Extension := by omega
  simp only [this, if_false, ne_eq, not_true_eq_false]
  cases openStored c stored <;> rfl

/-- **Unknown encoding versions are rejected** (pure part): in a repository that compresses, bytes
starting with anything but the version byte or the two legacy bytes do not decode. -/
theorem decompress_unknown_rejected (c : Codec) (v : Nat) (b : UInt8) (rest : Bytes)
    (hv : ¬ v < unpacked_minCompressVersion)
    (hb : b.toNat ≠ unpacked_versionByte ∧ b.toNat ≠ unpacked_rawByte0 ∧ b.toNat ≠ unpacked_rawByte1) :
    decompressUnpacked c v (b :: rest) = .err .unsupported := by
  unfold decompressUnpacked
  simp [hv, hb.1, hb.2.1, hb.2.2]

/-- … and so `LoadUnpacked` of any stored non-config file whose decrypted content starts with such
a byte fails with "not supported encoding format" — for every behaviour of the primitives. -/
theorem unknown_version_rejected (c : Codec) (v t : Nat) (stored : Bytes) (b : UInt8) (rest : Bytes)
    (hv : ¬ v < unpacked_minCompressVersion) (ht : t ≠ restic_ConfigFile)
    (hl : crypto_Extension ≤ stored.length)
    (ho : openStored c stored = .ok (b :: rest))
    (hb : b.toNat ≠ unpacked_versionByte ∧ b.toNat ≠ unpacked_rawByte0 ∧ b.toNat ≠ unpacked_rawByte1) :
    loadUnpacked c v t stored = .err .unsupported := by
  unfold loadUnpacked
  have : ¬ stored.length < crypto_Extension := by omega
  simp only [this, if_false, ho, ne_eq, ht, not_false_eq_true, if_true]
  exact decompress_unknown_rejected c v b rest hv hb

theorem decompress_no_panic (c : Codec) (v : Nat) (p : Bytes) : decompressUnpacked c v p ≠ .panic := by
  unfold decompressUnpacked
  repeat' split
  all_goals simp

theorem openStored_no_panic (c : Codec) (buf : Bytes) (h : crypto_ivSize ≤ buf.length) :
    openStored c buf ≠ .panic := by
  unfold openStored splitAt?
  have : ¬ buf.length < crypto_ivSize := by omega
  simp only [this, if_false]
  cases c.openB (buf.take crypto_ivSize) (buf.drop crypto_ivSize) <;> simp

/-- **No panic on load**: `LoadUnpacked` never slices out of range, whatever bytes the backend
returned and however the primitives behave. -/
theorem load_no_panic (c : Codec) (v t : Nat) (buf : Bytes) : loadUnpacked c v t buf ≠ .panic := by
  unfold loadUnpacked
  by_cases hl : buf.length < crypto_Extension
  · simp [hl]
  · simp only [hl, if_false]
    have hext := facts_extension
    have hno := openStored_no_panic c buf (by omega)
    cases ho : openStored c buf with
    | panic => exact absurd ho hno
    | err e => simp
    | ok p =>
      simp only
      split
      · exact decompress_no_panic c v p
      · simp

/-- **No panic on save** for a nonce of the right size. -/
theorem save_no_panic (c : Codec) (v t : Nat) (nev : Bool) (nonce buf : Bytes)
    (hn : nonce.length = crypto_ivSize) : saveUnpacked c v t nev nonce buf ≠ .panic := by
  show (match verifyUnpacked c v t nev (ctOf c v t nonce buf) buf with
    | .panic => .panic | .err e => .err e | .ok () => .ok (ctOf c v t nonce buf)) ≠ Res.panic
  have hv : verifyUnpacked c v t nev (ctOf c v t nonce buf) buf ≠ .panic := by
    unfold verifyUnpacked
    cases nev
    · simp only [Bool.false_eq_true, if_false]
      have hno := openStored_no_panic c (ctOf c v t nonce buf) (by unfold ctOf; simp only [List.length_append]; omega)
      cases ho : openStored c (ctOf c v t nonce buf) with
      | panic => exact absurd ho hno
      | err e => simp
      | ok q =>
        simp only
        by_cases ht : t = restic_ConfigFile
        · simp only [ht, ne_eq, not_true_eq_false, if_false]
          split <;> simp
        · simp only [ne_eq, ht, not_false_eq_true, if_true]
          have hd := decompress_no_panic c v q
          cases hdd : decompressUnpacked c v q with
          | panic => exact absurd hdd hd
          | err e => simp
          | ok r => simp only; split <;> simp
    · simp
  cases hvv : verifyUnpacked c v t nev (ctOf c v t nonce buf) buf with
  | panic => exact absurd hvv hv
  | err e => simp
  | ok u => cases u; simp

/-! ## Link to the executable statement used by the driver -/

/-- the model meets `specRoundTrip` (what the driver evaluates on the implementation's output) -/
theorem roundtrip_spec (c : Codec) (hc : Codec.Lawful c) (v t : Nat) (nev : Bool) (nonce buf : Bytes)
    (hn : nonce.length = crypto_ivSize) :
    ∃ stored, saveUnpacked c v t nev nonce buf = .ok stored ∧
      specRoundTrip t buf true (c.openB (stored.take crypto_ivSize) (stored.drop crypto_ivSize))
        (loadUnpacked c v t stored) = true := by
  obtain ⟨stored, hs, hl⟩ := roundtrip c hc v t nev nonce buf hn
  refine ⟨stored, hs, ?_⟩
  unfold specRoundTrip
  by_cases ht : t = restic_ConfigFile
  · subst ht
    have := config_raw c v nev nonce buf stored hs
    subst this
    have h1 : (nonce ++ c.sealB nonce buf).take crypto_ivSize = nonce := by
      rw [← hn]; simp
    have h2 : (nonce ++ c.sealB nonce buf).drop crypto_ivSize = c.sealB nonce buf := by
      rw [← hn]; simp
    simp [hl, h1, h2, hc.open_seal nonce buf hn]
  · simp [hl, ht]

/-- the model meets `specReject` for every stored file and every behaviour of the primitives -/
theorem reject_spec (c : Codec) (v t : Nat) (stored plain : Bytes)
    (ho : openStored c stored = .ok plain) :
    specReject v t plain (loadUnpacked c v t stored) = true := by
  unfold specReject
  cases plain with
  | nil => rfl
  | cons b rest =>
    simp only
    by_cases h1 : v < unpacked_minCompressVersion ∨ t = restic_ConfigFile
    · simp [h1]
    · simp only [h1, if_false]
      by_cases h2 : b.toNat = unpacked_rawByte0 ∨ b.toNat = unpacked_rawByte1 ∨ b.toNat = unpacked_versionByte
      · simp [h2]
      · simp only [h2, if_false]
        have hv : ¬ v < unpacked_minCompressVersion := fun h => h1 (Or.inl h)
        have ht : t ≠ restic_ConfigFile := fun h => h1 (Or.inr h)
        by_cases hl : stored.length < crypto_Extension
        · unfold loadUnpacked; simp [hl]
        · have hb : b.toNat ≠ unpacked_versionByte ∧ b.toNat ≠ unpacked_rawByte0 ∧ b.toNat ≠ unpacked_rawByte1 :=
            ⟨fun h => h2 (Or.inr (Or.inr h)), fun h => h2 (Or.inl h), fun h => h2 (Or.inr (Or.inl h))⟩
          rw [unknown_version_rejected c v t stored b rest hv ht (by omega) ho hb]

/-! ## Non-vacuity: the laws are satisfiable, and the interesting payloads are covered -/

/-- a toy codec satisfying the laws: "encryption" appends 16 zero bytes, "zstd" is the identity -/
def toyCodec : Codec where
  sealB := fun _ p => p ++ List.replicate crypto_macSize 0
  openB := fun _ ct => if crypto_macSize ≤ ct.length then some (ct.take (ct.length - crypto_macSize)) else none
  zenc := fun p => p
  zdec := fun p => some p

theorem toyCodec_lawful : Codec.Lawful toyCodec where
  open_seal := by
    intro n p _
    simp [toyCodec]
  seal_len := by intro n p; simp [toyCodec]
  zdec_zenc := by intro p; rfl

/-- the hypotheses of `roundtrip` are satisfiable -/
example : ∃ c : Codec, Codec.Lawful c := ⟨toyCodec, toyCodec_lawful⟩

/-- example (labelled as such): a payload that starts with the version byte, stored in a version-2
repository as an index file, comes back unchanged and is stored with a second version byte in front -/
example : loadUnpacked toyCodec 2 restic_IndexFile
    ((saveUnpacked toyCodec 2 restic_IndexFile false (List.replicate 16 1) [2, 91, 123]).rec
      (fun s => s) (fun _ => []) []) = .ok [2, 91, 123] := by decide

/-- example: in a version-2 repository a stored lock file whose content starts with byte 3 is rejected -/
example : loadUnpacked toyCodec 2 restic_LockFile
    (List.replicate 16 1 ++ toyCodec.sealB [] [3, 1, 2]) = .err .unsupported := by decide

/-- example: the same bytes are returned as they are from a version-1 repository -/
example : loadUnpacked toyCodec 1 restic_LockFile
    (List.replicate 16 1 ++ toyCodec.sealB [] [3, 1, 2]) = .ok [3, 1, 2] := by decide

end Restic.Props.C07
