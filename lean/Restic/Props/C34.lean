import Restic.Model.RepairPacks
import Restic.Proofs.C33_Rewrite
import Restic.Props.C33
import Restic.Gen.Source
/-!
# C34 — repair packs and repair snapshots salvage all intact data

Theorems about `Restic.Model.RepairPacks` (transcription of `RepairPacks` /
`reuploadBlobsFromPack` with `MasterIndex.Rewrite` reused from C33, and of the repair callbacks
of `repair snapshots` over `TreeRewriter.RewriteTree`). All statements are for all inputs: any
set of named packs, any index / header entry lists, any loadability oracle, any tree.
-/
namespace Restic.Props.C34
open Restic.Model.RepairIndex Restic.Model.RepairPacks Restic.Proofs.C33

/-! ### repair packs -/

abbrev PEv := Restic.Model.RepairPacks.Ev
abbrev PTEv := Restic.Model.RepairPacks.TEv

theorem mem_reupload {loadable : ID → Entry → Bool} {p : ID} {blobs : List Entry} {h : Handle} :
    h ∈ reupload loadable p blobs ↔ ∃ e ∈ blobs, loadable p e = true ∧ handleOf e = h := by
  unfold reupload
  simp only [List.mem_map, List.mem_filter, mem_sortOff]
  constructor
  · rintro ⟨e, ⟨h1, h2⟩, h3⟩; exact ⟨e, h1, h2, h3⟩
  · rintro ⟨e, h1, h2, h3⟩; exact ⟨e, ⟨h1, h2⟩, h3⟩

/-- per pack: every blob listed by the index or by the pack header that can be loaded is
    uploaded again -/
theorem repairOne_salvages (loadable : ID → Entry → Bool) (np : NamedPack) (e : Entry)
    (he : e ∈ np.idx ∨ e ∈ np.hdr.getD []) (hl : loadable np.id e = true) :
    handleOf e ∈ repairOne loadable np := by
  unfold repairOne
  rw [List.mem_append]
  rcases he with he | he
  · exact Or.inl (mem_reupload.mpr ⟨e, he, hl, rfl⟩)
  · cases hh : np.hdr with
    | none => rw [hh] at he; cases he
    | some hb =>
      rw [hh] at he; simp only [Option.getD_some] at he
      by_cases hs : sortOff np.idx = sortOff hb
      · -- index entry and header agree: the blob was already handled through the index entry
        have : e ∈ np.idx := by
          have h1 : e ∈ sortOff hb := mem_sortOff.mpr he
          rw [← hs] at h1; exact mem_sortOff.mp h1
        exact Or.inl (mem_reupload.mpr ⟨e, this, hl, rfl⟩)
      · right
        simp only [bne_iff_ne, ne_eq, hs, not_false_eq_true, if_true]
        exact mem_reupload.mpr ⟨e, he, hl, rfl⟩

/-- **salvage_all**: every blob of a named pack — listed by the index or by the readable pack
    header — that `loadBlobsFromPack` can still deliver is uploaded again … -/
theorem salvage_all (loadable : ID → Entry → Bool) (named : List NamedPack) (idxs : List IdxFile)
    (np : NamedPack) (hnp : np ∈ named) (e : Entry)
    (he : e ∈ np.idx ∨ e ∈ np.hdr.getD []) (hl : loadable np.id e = true) :
    handleOf e ∈ (repairPacks loadable named idxs).uploaded := by
  unfold repairPacks
  simp only [List.mem_flatMap]
  exact ⟨np, hnp, repairOne_salvages loadable np e he hl⟩

/-- nothing is invented: an uploaded handle is a loadable blob of a named pack -/
theorem uploaded_sound (loadable : ID → Entry → Bool) (named : List NamedPack) (idxs : List IdxFile)
    (h : Handle) (hh : h ∈ (repairPacks loadable named idxs).uploaded) :
    ∃ np ∈ named, ∃ e, (e ∈ np.idx ∨ e ∈ np.hdr.getD []) ∧ loadable np.id e = true ∧ handleOf e = h := by
  unfold repairPacks at hh
  simp only [List.mem_flatMap] at hh
  obtain ⟨np, hnp, hh⟩ := hh
  refine ⟨np, hnp, ?_⟩
  unfold repairOne at hh
  rw [List.mem_append] at hh
  rcases hh with hh | hh
  · obtain ⟨e, h1, h2, h3⟩ := mem_reupload.mp hh
    exact ⟨e, Or.inl h1, h2, h3⟩
  · cases hdr : np.hdr with
    | none => rw [hdr] at hh; cases hh
    | some hb =>
      rw [hdr] at hh; simp only at hh
      split at hh
      · obtain ⟨e, h1, h2, h3⟩ := mem_reupload.mp hh
        exact ⟨e, Or.inr (by simpa using h1), h2, h3⟩
      · cases hh

def isRemovePack : PEv → Bool | .removePack _ => true | _ => false

/-- … **before the pack is removed**: the command's trace is `pre ++ removals` where `pre`
    contains every upload, the flush that stores the new packs and their index, and the index
    rewrite; the removals are exactly the named packs. -/
theorem uploads_before_removes (loadable : ID → Entry → Bool) (named : List NamedPack) (idxs : List IdxFile) :
    ∃ pre, (repairPacks loadable named idxs).trace = pre ++ named.map (fun np => Restic.Model.RepairPacks.Ev.removePack np.id) ∧
      (∀ ev ∈ pre, isRemovePack ev = false) ∧
      (∀ h ∈ (repairPacks loadable named idxs).uploaded, Restic.Model.RepairPacks.Ev.upload h ∈ pre) ∧
      Restic.Model.RepairPacks.Ev.flush ∈ pre := by
  refine ⟨_, rfl, ?_, ?_, ?_⟩
  · intro ev hev
    simp only [List.mem_append, List.mem_map, List.mem_singleton] at hev
    rcases hev with (⟨h, _, rfl⟩ | rfl) | (hev | ⟨i, _, rfl⟩)
    · rfl
    · rfl
    · split at hev
      · cases hev
      · simp only [List.mem_singleton] at hev; subst hev; rfl
    · rfl
  · intro h hh
    simp only [List.mem_append, List.mem_map]
    repeat (first | exact ⟨h, hh, rfl⟩ | left)
  · simp

/-- the index afterwards (old files kept or rewritten by `Rewrite(excludePacks = ids)`): exactly
    the old entries of the packs that were not named; the named packs are no longer indexed -/
theorem index_after (loadable : ID → Entry → Bool) (named : List NamedPack) (idxs : List IdxFile)
    (hnd : idxs.Nodup) (x : ID × Entry) :
    x ∈ out (repairPacks loadable named idxs).rw ↔
      x.1 ∉ named.map (·.id) ∧ x ∈ loadedEntries idxs := by
  have h : (repairPacks loadable named idxs).rw = rewrite (named.map (·.id)) idxs [] := rfl
  rw [h]
  have := Restic.Props.C33.rewrite_exact (named.map (·.id)) idxs [] hnd x
  exact this

theorem named_deindexed (loadable : ID → Entry → Bool) (named : List NamedPack) (idxs : List IdxFile)
    (hnd : idxs.Nodup) (np : NamedPack) (hnp : np ∈ named) (e : Entry) :
    (np.id, e) ∉ out (repairPacks loadable named idxs).rw := by
  intro h
  exact ((index_after loadable named idxs hnd (np.id, e)).mp h).1 (List.mem_map.mpr ⟨np, hnp, rfl⟩)

/-- the transcription meets the executable statement `specPacks`, for an abstract final state:
    handles available afterwards ⊇ `other` ∪ uploaded, named packs neither stored nor indexed -/
theorem repairPacks_spec (loadable : ID → Entry → Bool) (named : List NamedPack) (idxs : List IdxFile)
    (other availAfter : List Handle) (packsAfter idxPacksAfter : List ID)
    (h1 : ∀ h ∈ (repairPacks loadable named idxs).uploaded, h ∈ availAfter)
    (h2 : ∀ h ∈ other, h ∈ availAfter)
    (h3 : ∀ np ∈ named, np.id ∉ packsAfter ∧ np.id ∉ idxPacksAfter) :
    specPacks loadable named other availAfter packsAfter idxPacksAfter = true := by
  unfold specPacks
  simp only [Bool.and_eq_true, List.all_eq_true, List.mem_append, Bool.or_eq_true,
    Bool.not_eq_true', List.contains_eq_mem, decide_eq_true_eq, decide_eq_false_iff_not]
  refine ⟨⟨?_, h2⟩, h3⟩
  intro np hnp e he
  by_cases hl : loadable np.id e = true
  · exact Or.inr (h1 _ (salvage_all loadable named idxs np hnp e he hl))
  · exact Or.inl (by simpa using hl)

/-! recorded traces: what acceptance by `acceptTrace` implies -/

theorem phase2_only_removes (named : List ID) (t : List PTEv)
    (h : acceptFrom named 2 t = true) : ∀ e ∈ t, ∃ i, e = Restic.Model.RepairPacks.TEv.removeData i ∧ i ∈ named := by
  induction t with
  | nil => intro e he; cases he
  | cons a t ih =>
    intro e he
    cases a with
    | saveData i => simp [acceptFrom] at h
    | saveIndex i => simp [acceptFrom] at h
    | removeIndex i => simp [acceptFrom] at h
    | other w => simp [acceptFrom] at h
    | removeData i =>
      simp only [acceptFrom, Bool.and_eq_true, List.contains_eq_mem, decide_eq_true_eq] at h
      rcases List.mem_cons.mp he with rfl | he
      · exact ⟨i, rfl, h.1⟩
      · exact ih h.2 e he

/-- In an accepted trace, once a pack has been removed nothing is saved any more, and only named
    packs are removed: every salvaged blob and the index describing it were stored before. -/
theorem accept_remove_last (named : List ID) (a b : List PTEv) (x : ID) :
    ∀ ph, acceptFrom named ph (a ++ Restic.Model.RepairPacks.TEv.removeData x :: b) = true →
      x ∈ named ∧ ∀ e ∈ b, ∃ i, e = Restic.Model.RepairPacks.TEv.removeData i ∧ i ∈ named := by
  induction a with
  | nil =>
    intro ph h
    simp only [List.nil_append, acceptFrom, Bool.and_eq_true, List.contains_eq_mem, decide_eq_true_eq] at h
    exact ⟨h.1, phase2_only_removes named b h.2⟩
  | cons e a ih =>
    intro ph h
    cases e with
    | saveData i => simp only [List.cons_append, acceptFrom, Bool.and_eq_true] at h; exact ih 0 h.2
    | saveIndex i => simp only [List.cons_append, acceptFrom, Bool.and_eq_true] at h; exact ih 0 h.2
    | removeIndex i => simp only [List.cons_append, acceptFrom, Bool.and_eq_true] at h; exact ih 1 h.2
    | removeData i => simp only [List.cons_append, acceptFrom, Bool.and_eq_true] at h; exact ih 2 h.2
    | other w => simp [acceptFrom] at h

/-! ### repair snapshots -/

theorem fixContent_all (avail : ID → Option Nat) (c : List ID) :
    (fixContent avail c).all (fun i => (avail i).isSome) = true := by
  unfold fixContent
  rw [List.all_eq_true]
  intro i hi
  exact (List.mem_filter.mp hi).2

theorem fixContent_id (avail : ID → Option Nat) (c : List ID)
    (h : c.all (fun i => (avail i).isSome) = true) : fixContent avail c = c := by
  unfold fixContent
  rw [List.filter_eq_self]
  simpa [List.all_eq_true] using h

mutual
/-- **repaired_snapshots_checkok** (tree level): whatever the tree looked like, the rewritten
    tree satisfies everything `check` demands: all file contents are indexed, sizes agree, every
    subtree is present and OK, no node of invalid type is left. -/
theorem rwNode_ok (avail : ID → Option Nat) : ∀ (n n' : Node), rwNode avail n = some n' → nodeOK avail n' = true
  | .file nm m c s, n', h => by
    simp only [rwNode, Option.some.injEq] at h; subst h
    simp [nodeOK, fixContent_all]
  | .dir nm m sub, n', h => by
    simp only [rwNode, Option.some.injEq] at h; subst h
    simp only [nodeOK, subOK]; exact rwSub_ok avail sub
  | .other nm m, n', h => by
    simp only [rwNode, Option.some.injEq] at h; subst h; rfl
  | .invalid nm m, n', h => by simp [rwNode] at h
theorem rwSub_ok (avail : ID → Option Nat) : ∀ (s : Sub), nodesOK avail (rwSub avail s) = true
  | .missing => by simp [rwSub, nodesOK]
  | .tree ns => by simp only [rwSub]; exact rwNodes_ok avail ns
theorem rwNodes_ok (avail : ID → Option Nat) : ∀ (ns : Nodes), nodesOK avail (rwNodes avail ns) = true
  | .nil => by simp [rwNodes, nodesOK]
  | .cons n rest => by
    simp only [rwNodes]
    cases h : rwNode avail n with
    | none => simp only; exact rwNodes_ok avail rest
    | some n' =>
      simp only [nodesOK, Bool.and_eq_true]
      exact ⟨rwNode_ok avail n n' h, rwNodes_ok avail rest⟩
end

/-- snapshot level: a repaired snapshot (root readable) has an OK tree -/
theorem repaired_snapshots_checkok (avail : ID → Option Nat) (root : Sub) (ns : Nodes)
    (h : rwRoot avail root = some ns) : nodesOK avail ns = true := by
  cases root with
  | missing => simp [rwRoot] at h
  | tree t => simp only [rwRoot, Option.some.injEq] at h; subst h; exact rwNodes_ok avail t

/-- **intact_files_unchanged** (node level): a file whose blobs are all available and whose
    recorded size is the sum of the blob sizes is returned unchanged -/
theorem intact_file_unchanged (avail : ID → Option Nat) (n : Node) (h : intactFile avail n = true) :
    rwNode avail n = some n := by
  cases n with
  | file nm m c s =>
    simp only [intactFile, Bool.and_eq_true, beq_iff_eq] at h
    simp only [rwNode, Option.some.injEq]
    rw [fixContent_id avail c h.1, ← h.2]
  | dir nm m sub => simp [intactFile] at h
  | other nm m => simp [intactFile] at h
  | invalid nm m => simp [intactFile] at h

mutual
/-- a tree that is OK is not changed at all (healthy snapshots are left alone) -/
theorem ok_node_unchanged (avail : ID → Option Nat) : ∀ (n : Node), nodeOK avail n = true → rwNode avail n = some n
  | .file nm m c s, h => intact_file_unchanged avail _ (by simpa [intactFile, nodeOK] using h)
  | .dir nm m sub, h => by
    cases sub with
    | missing => simp [nodeOK, subOK] at h
    | tree ns =>
      simp only [nodeOK, subOK] at h
      simp only [rwNode, rwSub, Option.some.injEq]
      rw [ok_nodes_unchanged avail ns h]
  | .other nm m, _ => rfl
  | .invalid nm m, h => by simp [nodeOK] at h
theorem ok_nodes_unchanged (avail : ID → Option Nat) : ∀ (ns : Nodes), nodesOK avail ns = true → rwNodes avail ns = ns
  | .nil, _ => rfl
  | .cons n rest, h => by
    simp only [nodesOK, Bool.and_eq_true] at h
    simp only [rwNodes, ok_node_unchanged avail n h.1, ok_nodes_unchanged avail rest h.2]
end

/-- repairing twice changes nothing more -/
theorem rw_idempotent (avail : ID → Option Nat) (ns : Nodes) :
    rwNodes avail (rwNodes avail ns) = rwNodes avail ns :=
  ok_nodes_unchanged avail _ (rwNodes_ok avail ns)

theorem rwNode_name (avail : ID → Option Nat) (n n' : Node) (h : rwNode avail n = some n') :
    n'.name = n.name := by
  cases n <;> simp only [rwNode, Option.some.injEq] at h <;> first | (subst h; rfl) | cases h

theorem find_rw (avail : ID → Option Nat) (x : String) : ∀ (ns : Nodes) (n n' : Node),
    ns.find x = some n → rwNode avail n = some n' → (rwNodes avail ns).find x = some n'
  | .nil, n, n', h, _ => by simp [Nodes.find] at h
  | .cons a rest, n, n', h, hr => by
    simp only [Nodes.find] at h
    by_cases hx : (a.name == x) = true
    · simp only [hx, if_true, Option.some.injEq] at h; subst h
      have hn := rwNode_name avail a n' hr
      simp only [rwNodes, hr, Nodes.find, hn, hx, if_true]
    · simp only [hx, Bool.false_eq_true, if_false] at h
      simp only [rwNodes]
      cases ha : rwNode avail a with
      | none => exact find_rw avail x rest n n' h hr
      | some a' =>
        have hn := rwNode_name avail a a' ha
        simp only [Nodes.find, hn, hx, Bool.false_eq_true, if_false]
        exact find_rw avail x rest n n' h hr

/-- **intact_files_unchanged** (path level): a file reachable under some path through loadable
    directories whose data is fully available is found unchanged under the same path in the
    repaired tree. -/
theorem intact_files_unchanged (avail : ID → Option Nat) : ∀ (path : List String) (ns : Nodes) (f : Node),
    lookup path ns = some f → intactFile avail f = true → lookup path (rwNodes avail ns) = some f
  | [], ns, f, h, _ => by simp [lookup] at h
  | [x], ns, f, h, hi => by
    simp only [lookup] at h ⊢
    exact find_rw avail x ns f f h (intact_file_unchanged avail f hi)
  | x :: y :: rest, ns, f, h, hi => by
    simp only [lookup] at h ⊢
    cases hf : ns.find x with
    | none => rw [hf] at h; simp at h
    | some d =>
      rw [hf] at h
      cases d with
      | dir nm m sub =>
        cases sub with
        | missing => simp at h
        | tree t =>
          simp only at h
          have := find_rw avail x ns (.dir nm m (.tree t)) (.dir nm m (.tree (rwNodes avail t))) hf
            (by simp [rwNode, rwSub])
          rw [this]
          exact intact_files_unchanged avail (y :: rest) t f h hi
      | file nm m c s => simp at h
      | other nm m => simp at h
      | invalid nm m => simp at h

/-! ### T1: call orders regenerated from the current source -/

/-- `RepairPacks`: blobs are re-uploaded inside `WithBlobUploader` (which flushes packs and index
    when it returns) before the index is rewritten, and the pack files are removed last. -/
theorem repairPacks_call_order :
    Restic.Gen.RepairPacks_calls.idxOf "reuploadBlobsFromPack" < Restic.Gen.RepairPacks_calls.idxOf "repo.WithBlobUploader"
    ∧ Restic.Gen.RepairPacks_calls.idxOf "repo.WithBlobUploader" < Restic.Gen.RepairPacks_calls.idxOf "rewriteIndexFiles"
    ∧ Restic.Gen.RepairPacks_calls.idxOf "rewriteIndexFiles" < Restic.Gen.RepairPacks_calls.idxOf "restic.ParallelRemove"
    ∧ "restic.ParallelRemove" ∈ Restic.Gen.RepairPacks_calls := by decide

/-- `reuploadBlobsFromPack` saves what `loadBlobsFromPack` delivers -/
theorem reupload_calls :
    "uploader.SaveBlob" ∈ Restic.Gen.reuploadBlobsFromPack_calls
    ∧ "repo.loadBlobsFromPack" ∈ Restic.Gen.reuploadBlobsFromPack_calls := by decide

/-! ### Non-vacuity -/

def b1 : Entry := ⟨0, "b1", 0, 100, 0⟩
def b2 : Entry := ⟨0, "b2", 100, 50, 0⟩
def b3 : Entry := ⟨0, "b3", 150, 60, 0⟩
/-- pack "p": the index knows b1, b2; the header also lists b3; b2 is damaged -/
def exNamed : List NamedPack := [⟨"p", [b1, b2], some [b1, b2, b3]⟩]
def exLoadable : ID → Entry → Bool := fun _ e => e.id != "b2"

example : (repairPacks exLoadable exNamed []).uploaded = [⟨0, "b1"⟩, ⟨0, "b1"⟩, ⟨0, "b3"⟩] := by decide
example : specPacks exLoadable exNamed [] [⟨0, "b1"⟩, ⟨0, "b3"⟩] [] [] = true := by decide
/-- the spec is not trivial: losing b3 violates it -/
example : specPacks exLoadable exNamed [] [⟨0, "b1"⟩] [] [] = false := by decide

def exAvail : ID → Option Nat := fun i => if i == "gone" then none else some 10
def exTree : Nodes :=
  .cons (.file "a" "m" ["x", "gone", "y"] 30)
  (.cons (.dir "d" "m" .missing)
  (.cons (.invalid "weird" "m")
  (.cons (.dir "e" "m" (.tree (.cons (.file "ok" "m" ["x"] 10) .nil))) .nil)))
example : rwNodes exAvail exTree =
  .cons (.file "a" "m" ["x", "y"] 20)
  (.cons (.dir "d" "m" (.tree .nil))
  (.cons (.dir "e" "m" (.tree (.cons (.file "ok" "m" ["x"] 10) .nil))) .nil)) := by rfl
example : nodesOK exAvail exTree = false := by decide
example : lookup ["e", "ok"] exTree = some (.file "ok" "m" ["x"] 10) := by rfl
example : intactFile exAvail (.file "ok" "m" ["x"] 10) = true := by decide

end Restic.Props.C34
