import Restic.Model.Keys
import Restic.Gen.Source
import Restic.Gen.Consts
namespace Restic.Props.C29
end Restic.Props.C29
