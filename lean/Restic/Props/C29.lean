import Restic.Model.Keys
import Restic.Gen.Source
import Restic.Gen.Consts
/-!
# C29 — a repository opens with exactly the passwords of its current keys

Theorems about `Restic.Model.Keys` (transcription of `openKey`, `searchKey`, `Repository.SearchKey`
and of the key-file writes of `key add` / `key passwd` / `key remove`), for **all** key sets,
passwords, hints, list orders and crash points.

Partial on the KDF/MAC: `openKey` is idealised (a key created with `p` opens with `p` and is
`ErrUnauthenticated` for every other password); scrypt, AES-CTR and Poly1305 are not modelled.
The correspondence run checks the idealisation on every open attempt against the real code.

Boundary made explicit by the theorems: `opens_iff` needs every key file to be one restic wrote
(`allGood`): an unparsable file listed *before* the matching key aborts the search with an error
(`bad_key_blocks`). Histories of restic's own commands never produce such files.
-/
namespace Restic.Props.C29
open Restic.Model.Keys

/-! ## searching -/

/-- whatever `searchKey` opens is a listed key created with exactly this password (no hypothesis) -/
theorem searchList_sound (mk : Nat) (pw : Password) (n : Nat) (l : Listing) (id : KeyID) (m : Nat)
    (h : searchList mk pw n l = .ok id m) : (id, .good pw m) ∈ l := by
  induction l generalizing n with
  | nil => simp [searchList] at h
  | cons e rest ih =>
    obtain ⟨eid, kf⟩ := e
    simp only [searchList] at h
    split at h
    · cases h
    · cases kf with
      | bad => simp [openKey] at h
      | good p m' =>
        simp only [openKey] at h
        by_cases hp : p = pw
        · simp only [hp, if_true, SearchRes.ok.injEq] at h
          obtain ⟨rfl, rfl⟩ := h
          rw [hp]; exact List.mem_cons_self
        · simp only [hp, if_false] at h
          exact List.mem_cons_of_mem _ (ih _ h)

theorem findPrefix_mem (l : Listing) (pfx : String) (e : KeyID × KeyFile) (h : findPrefix l pfx = some e) : e ∈ l := by
  unfold findPrefix at h
  split at h
  · rename_i e' he
    simp only [Option.some.injEq] at h
    subst h
    have : e' ∈ l.filter (fun x => hasPrefix pfx x.1) := by rw [he]; exact List.mem_singleton.mpr rfl
    exact (List.mem_filter.mp this).1
  · cases h

/-- **soundness**: a password that opens belongs to some key file present (any number of keys,
    any hint, unparsable files allowed) -/
theorem search_sound (mk : Nat) (pw : Password) (hint : String) (l : Listing) (id : KeyID) (m : Nat)
    (h : searchKey mk pw hint l = .ok id m) : (id, .good pw m) ∈ l := by
  unfold searchKey at h
  by_cases hh : hint.isEmpty = true
  · simp only [hh, if_true] at h
    exact searchList_sound mk pw 0 l id m h
  · simp only [hh, Bool.false_eq_true, if_false] at h
    cases hf : findPrefix l hint with
    | none => simp only [hf] at h; exact searchList_sound mk pw 0 l id m h
    | some e =>
      obtain ⟨eid, kf⟩ := e
      simp only [hf] at h
      cases kf with
      | bad => simp only [openKey] at h; exact searchList_sound mk pw 0 l id m h
      | good p m' =>
        simp only [openKey] at h
        by_cases hp : p = pw
        · simp only [hp, if_true, SearchRes.ok.injEq] at h
          obtain ⟨rfl, rfl⟩ := h
          have := findPrefix_mem l hint _ hf
          rw [hp] at this; exact this
        · simp only [hp, if_false] at h
          exact searchList_sound mk pw 0 l id m h

theorem hasPw_iff (l : Listing) (pw : Password) : hasPw l pw = true ↔ ∃ id m, (id, KeyFile.good pw m) ∈ l := by
  unfold hasPw
  rw [List.any_eq_true]
  constructor
  · rintro ⟨⟨id, kf⟩, hm, h⟩
    cases kf with
    | bad => simp at h
    | good p m => simp only [beq_iff_eq] at h; subst h; exact ⟨id, m, hm⟩
  · rintro ⟨id, m, hm⟩
    exact ⟨_, hm, by simp⟩

/-- the list loop finds a key of the password when all files are real keys and the counter stays
    within `maxKeys` (or `maxKeys = 0`: unlimited) -/
theorem searchList_complete (mk : Nat) (pw : Password) (n : Nat) (l : Listing)
    (hg : allGood l = true) (hb : mk = 0 ∨ n + l.length ≤ mk) (hp : hasPw l pw = true) :
    ∃ id m, searchList mk pw n l = .ok id m := by
  induction l generalizing n with
  | nil => simp [hasPw] at hp
  | cons e rest ih =>
    obtain ⟨eid, kf⟩ := e
    simp only [allGood, List.all_cons, Bool.and_eq_true] at hg
    simp only [searchList]
    rw [if_neg (by simp only [List.length_cons] at hb; omega)]
    cases kf with
    | bad => simp at hg
    | good p m' =>
      simp only [openKey]
      by_cases hpe : p = pw
      · simp only [hpe, if_true]; exact ⟨eid, m', rfl⟩
      · simp only [hpe, if_false]
        apply ih (n + 1) hg.2
        · simp only [List.length_cons] at hb; omega
        · simp only [hasPw, List.any_cons, Bool.or_eq_true] at hp
          rcases hp with hp | hp
          · simp only [beq_iff_eq] at hp; exact absurd hp hpe
          · exact hp

theorem isOk_of_complete (mk : Nat) (pw : Password) (hint : String) (l : Listing)
    (hg : allGood l = true) (hb : mk = 0 ∨ l.length ≤ mk) (hp : hasPw l pw = true) :
    ∃ id m, searchKey mk pw hint l = .ok id m := by
  have hl := searchList_complete mk pw 0 l hg (by omega) hp
  unfold searchKey
  by_cases hh : hint.isEmpty = true
  · simp only [hh, if_true]; exact hl
  · simp only [hh, Bool.false_eq_true, if_false]
    cases hf : findPrefix l hint with
    | none => exact hl
    | some e =>
      obtain ⟨eid, kf⟩ := e
      cases kf with
      | bad => simp only [openKey]; exact hl
      | good p m' =>
        simp only [openKey]
        by_cases hpe : p = pw
        · simp only [hpe, if_true]; exact ⟨eid, m', rfl⟩
        · simp only [hpe, if_false]; exact hl

/-- **opens_iff**: with at most `maxKeys` key files, all of them written by restic, a password opens
    the repository if and only if some key file present was created with it — for every hint and
    every list order. -/
theorem opens_iff (mk : Nat) (pw : Password) (hint : String) (l : Listing)
    (hg : allGood l = true) (hb : mk = 0 ∨ l.length ≤ mk) :
    (∃ id m, searchKey mk pw hint l = .ok id m) ↔ hasPw l pw = true := by
  constructor
  · rintro ⟨id, m, h⟩
    exact (hasPw_iff l pw).mpr ⟨id, m, search_sound mk pw hint l id m h⟩
  · exact isOk_of_complete mk pw hint l hg hb

/-- **hinted**: naming the key with `--key-hint` opens it whatever the number of keys and whatever
    else lies in `keys/` -/
theorem hint_opens (mk : Nat) (pw : Password) (hint : String) (l : Listing) (id : KeyID) (m : Nat)
    (hne : hint.isEmpty = false) (hf : findPrefix l hint = some (id, .good pw m)) :
    searchKey mk pw hint l = .ok id m := by
  unfold searchKey
  simp [hne, hf, openKey]

/-- a wrong password never opens: without a key of that password the result is not `ok` -/
theorem wrong_password_rejected (mk : Nat) (pw : Password) (hint : String) (l : Listing)
    (hp : hasPw l pw = false) : ∀ id m, searchKey mk pw hint l ≠ .ok id m := by
  intro id m h
  have := (hasPw_iff l pw).mpr ⟨id, m, search_sound mk pw hint l id m h⟩
  rw [hp] at this; cases this

/-- the boundary of `opens_iff` (negation witness for the statement without `allGood`): an
    unparsable file listed before the key of the password aborts the search -/
theorem bad_key_blocks : ∃ (l : Listing) (pw : Password), hasPw l pw = true ∧ l.length ≤ 20 ∧
    searchKey 20 pw "" l = .err "b" :=
  ⟨[("b", .bad), ("k", .good "pw" 1)], "pw", by decide, by decide, by decide⟩

/-- and the boundary of the key limit: 21 keys, no hint, the matching key listed last -/
theorem max_keys_blocks : ∃ (l : Listing) (pw : Password), allGood l = true ∧ hasPw l pw = true ∧
    searchKey 20 pw "" l = .maxKeysReached :=
  ⟨(List.replicate 20 ("o", .good "other" 1)) ++ [("k", .good "pw" 1)], "pw", by decide, by decide, by decide⟩

/-! ## one master key -/

/-- every key file present seals the master key `M` -/
def allMaster (M : Nat) (l : Listing) : Prop := ∀ id pw m, (id, KeyFile.good pw m) ∈ l → m = M

/-- **same_master**: when all keys seal the same master key, whichever key a password opens, the
    repository gets that master key and `Repository.SearchKey` accepts the config -/
theorem same_master (M mk : Nat) (pw : Password) (hint : String) (l : Listing) (hm : allMaster M l)
    (id : KeyID) (m : Nat) (h : searchKey mk pw hint l = .ok id m) :
    m = M ∧ repoSearchKey M mk pw hint l = .ok id := by
  have hmem := search_sound mk pw hint l id m h
  have := hm id pw m hmem
  subst this
  exact ⟨rfl, by simp [repoSearchKey, h]⟩

theorem mem_applyK_save (ks : Listing) (n : KeyID) (kf : KeyFile) (e : KeyID × KeyFile)
    (h : e ∈ applyK ks (.save n kf)) : e = (n, kf) ∨ e ∈ ks := by
  simp only [applyK, List.mem_cons, List.mem_filter] at h
  rcases h with h | h
  · exact Or.inl h
  · exact Or.inr h.1

theorem mem_applyK_remove (ks : Listing) (n : KeyID) (e : KeyID × KeyFile)
    (h : e ∈ applyK ks (.remove n)) : e ∈ ks := by
  simp only [applyK, List.mem_filter] at h
  exact h.1

/-- the key commands keep the invariant: new keys are sealed with the session's master key
    (`AddKey(…, template = repo.Key())`) -/
theorem allMaster_opTrace (M : Nat) (ks : Listing) (cur : KeyID) (op : KeyOp) (hm : allMaster M ks) (k : Nat) :
    allMaster M (applyAllK ks ((opTrace cur M op).take k)) := by
  have step : ∀ (l : Listing) (ev : KEv), allMaster M l →
      (∀ n kf, ev = .save n kf → ∃ pw, kf = .good pw M) → allMaster M (applyK l ev) := by
    intro l ev hl hs id pw m hmem
    cases ev with
    | save n kf =>
      rcases mem_applyK_save l n kf _ hmem with h | h
      · obtain ⟨pw', hkf⟩ := hs n kf rfl
        simp only [Prod.mk.injEq] at h
        rw [hkf] at h
        simp only [KeyFile.good.injEq] at h
        exact h.2.2
      · exact hl id pw m h
    | remove n => exact hl id pw m (mem_applyK_remove l n _ hmem)
  have all : ∀ (evs : List KEv) (l : Listing), allMaster M l →
      (∀ ev ∈ evs, ∀ n kf, ev = .save n kf → ∃ pw, kf = .good pw M) → allMaster M (applyAllK l evs) := by
    intro evs
    induction evs with
    | nil => intro l hl _; exact hl
    | cons ev rest ih =>
      intro l hl hs
      simp only [applyAllK, List.foldl_cons]
      exact ih _ (step l ev hl (hs ev List.mem_cons_self)) (fun e he => hs e (List.mem_cons_of_mem _ he))
  apply all _ ks hm
  intro ev hev n kf he
  have hev' := List.mem_of_mem_take hev
  subst he
  cases op with
  | add n' pw v => cases v <;> simp [opTrace] at hev' <;> exact ⟨pw, hev'.2⟩
  | passwd n' pw v => cases v <;> simp [opTrace] at hev' <;> exact ⟨pw, hev'.2⟩
  | remove id' => simp only [opTrace] at hev'; split at hev' <;> simp at hev'

/-! ## at least one working key at every interruption point -/

/-- some key file present seals the repository's master key -/
def working (M : Nat) (l : Listing) : Prop := ∃ id pw, (id, KeyFile.good pw M) ∈ l

theorem mem_save_self (ks : Listing) (n : KeyID) (kf : KeyFile) : (n, kf) ∈ applyK ks (.save n kf) := by
  simp [applyK]

theorem mem_save_other (ks : Listing) (n : KeyID) (kf : KeyFile) (e : KeyID × KeyFile) (he : e ∈ ks) (hne : e.1 ≠ n) :
    e ∈ applyK ks (.save n kf) := by
  simp only [applyK, List.mem_cons, List.mem_filter]
  exact Or.inr ⟨he, by simpa using hne⟩

theorem mem_remove_other (ks : Listing) (n : KeyID) (e : KeyID × KeyFile) (he : e ∈ ks) (hne : e.1 ≠ n) :
    e ∈ applyK ks (.remove n) := by
  simp only [applyK, List.mem_filter]
  exact ⟨he, by simpa using hne⟩

/-- **always_a_key**: a session that opened the repository with key `cur` runs `key add`,
    `key passwd` or `key remove`; the run is cut after any number `k` of completed key-file writes.
    Some key sealing the master key is present — the old one until the new one is stored.
    `hfresh`: the new key's id (SHA-256 over a fresh random salt) differs from the current key's. -/
theorem always_a_key (M : Nat) (ks : Listing) (cur : KeyID) (pwc : Password)
    (hcur : (cur, KeyFile.good pwc M) ∈ ks) (op : KeyOp) (hfresh : ∀ n, op.newID = some n → n ≠ cur) (k : Nat) :
    working M (applyAllK ks ((opTrace cur M op).take k)) := by
  have w0 : working M ks := ⟨cur, pwc, hcur⟩
  cases op with
  | add n pw v =>
    have hn : n ≠ cur := hfresh n rfl
    cases v
    · -- verification failed: save n, remove n
      rcases k with _ | _ | k
      · exact w0
      · exact ⟨n, pw, mem_save_self ks n _⟩
      · simp only [opTrace, List.take_succ_cons, List.take_nil, applyAllK, List.foldl_cons, List.foldl_nil]
        refine ⟨cur, pwc, mem_remove_other _ n _ (mem_save_other ks n _ _ hcur (Ne.symm hn)) (Ne.symm hn)⟩
    · rcases k with _ | k
      · exact w0
      · exact ⟨n, pw, by simp [opTrace, applyAllK, applyK]⟩
  | passwd n pw v =>
    have hn : n ≠ cur := hfresh n rfl
    cases v
    · rcases k with _ | _ | k
      · exact w0
      · exact ⟨n, pw, mem_save_self ks n _⟩
      · simp only [opTrace, List.take_succ_cons, List.take_nil, applyAllK, List.foldl_cons, List.foldl_nil]
        refine ⟨cur, pwc, mem_remove_other _ n _ (mem_save_other ks n _ _ hcur (Ne.symm hn)) (Ne.symm hn)⟩
    · rcases k with _ | _ | k
      · exact w0
      · exact ⟨n, pw, mem_save_self ks n _⟩
      · -- new key stored, old key removed: the new key is the working one
        simp only [opTrace, List.take_succ_cons, List.take_nil, applyAllK, List.foldl_cons, List.foldl_nil]
        exact ⟨n, pw, mem_remove_other _ cur _ (mem_save_self ks n _) hn⟩
  | remove id =>
    simp only [opTrace]
    split
    · simpa [applyAllK] using w0
    · rename_i hne
      rcases k with _ | k
      · exact w0
      · simp only [List.take_succ_cons, List.take_nil, applyAllK, List.foldl_cons, List.foldl_nil]
        exact ⟨cur, pwc, mem_remove_other ks id _ hcur (Ne.symm hne)⟩

/-- a working key is one some password opens (composition with `opens_iff`): after any interrupted
    key command on a repository of restic-written keys within the key limit, some password opens it -/
theorem working_opens (M mk : Nat) (l : Listing) (hw : working M l) (hg : allGood l = true)
    (hb : mk = 0 ∨ l.length ≤ mk) : ∃ pw id m, searchKey mk pw "" l = .ok id m := by
  obtain ⟨id, pw, hmem⟩ := hw
  obtain ⟨id', m, h⟩ := isOk_of_complete mk pw "" l hg hb ((hasPw_iff l pw).mpr ⟨id, M, hmem⟩)
  exact ⟨pw, id', m, h⟩

/-- **current_not_removable**: `key remove` of the key in use writes nothing -/
theorem current_not_removable (cur : KeyID) (m : Nat) : opTrace cur m (.remove cur) = [] := by
  simp [opTrace]

/-- the key in use survives every command except a completed `key passwd` (which replaces it) -/
theorem current_survives (M : Nat) (ks : Listing) (cur : KeyID) (kf : KeyFile) (hcur : (cur, kf) ∈ ks)
    (op : KeyOp) (hfresh : ∀ n, op.newID = some n → n ≠ cur) (hop : ∀ n pw, op ≠ .passwd n pw true) (k : Nat) :
    (cur, kf) ∈ applyAllK ks ((opTrace cur M op).take k) := by
  have keep : ∀ (evs : List KEv) (l : Listing), (cur, kf) ∈ l →
      (∀ ev ∈ evs, (∀ n kf', ev = .save n kf' → n ≠ cur) ∧ (∀ n, ev = .remove n → n ≠ cur)) →
      (cur, kf) ∈ applyAllK l evs := by
    intro evs
    induction evs with
    | nil => intro l hl _; exact hl
    | cons ev rest ih =>
      intro l hl hs
      simp only [applyAllK, List.foldl_cons]
      apply ih _ _ (fun e he => hs e (List.mem_cons_of_mem _ he))
      have := hs ev List.mem_cons_self
      cases ev with
      | save n kf' => exact mem_save_other l n kf' _ hl (Ne.symm (this.1 n kf' rfl))
      | remove n => exact mem_remove_other l n _ hl (Ne.symm (this.2 n rfl))
  apply keep _ ks hcur
  intro ev hev
  have hev' := List.mem_of_mem_take hev
  cases op with
  | add n pw v =>
    have hn := hfresh n rfl
    cases v <;> simp [opTrace] at hev' <;> (try rcases hev' with rfl | rfl) <;> (try subst hev') <;> simp [hn]
  | passwd n pw v =>
    have hn := hfresh n rfl
    cases v
    · simp [opTrace] at hev'
      rcases hev' with rfl | rfl <;> simp [hn]
    · exact absurd rfl (hop n pw)
  | remove id =>
    simp only [opTrace] at hev'
    split at hev'
    · simp at hev'
    · rename_i hne
      simp at hev'
      subst hev'
      simp [hne]

/-! ## the transcription meets the executable statement -/

def SearchRes.isOk : SearchRes → Bool
  | .ok _ _ => true
  | _ => false

/-- **Main theorem (opening)**: for every key set, password, hint and list order, the outcome of
    `searchKey` satisfies `specOpen`, where `hintHit` may only be claimed when the hint really
    names a key of that password. -/
theorem searchKey_spec (mk : Nat) (pw : Password) (hint : String) (l : Listing) (hintHit : Bool)
    (hh : hintHit = true → hint.isEmpty = false ∧ ∃ id m, findPrefix l hint = some (id, .good pw m)) :
    specOpen mk l pw hintHit (SearchRes.isOk (searchKey mk pw hint l)) = true := by
  unfold specOpen
  cases hg : allGood l with
  | false => simp
  | true =>
  simp only [Bool.not_true, Bool.false_or, Bool.and_eq_true, Bool.or_eq_true, Bool.not_eq_true',
    decide_eq_true_eq, beq_iff_eq]
  constructor
  · -- soundness
    cases hr : searchKey mk pw hint l with
    | ok id m => right; exact (hasPw_iff l pw).mpr ⟨id, m, search_sound mk pw hint l id m hr⟩
    | _ => left; rfl
  · cases hlen : decide (l.length ≤ mk) <;> cases hhit : hintHit
    · left; simp
    all_goals right
    all_goals
      cases hp : hasPw l pw with
      | true =>
        have : ∃ id m, searchKey mk pw hint l = .ok id m := by
          first
            | (have hc : l.length ≤ mk := of_decide_eq_true hlen
               exact isOk_of_complete mk pw hint l hg (Or.inr hc) hp)
            | (obtain ⟨hne, id, m, hf⟩ := hh hhit
               exact ⟨id, m, hint_opens mk pw hint l id m hne hf⟩)
        obtain ⟨id, m, h⟩ := this
        rw [h]; rfl
      | false =>
        cases hr : searchKey mk pw hint l with
        | ok id m => exact absurd hr (wrong_password_rejected mk pw hint l hp id m)
        | _ => rfl

/-! ## ties to the current source (T1) -/

/-- `OpenRepository` searches with the limit the statement names; the limit is positive
    (0 would mean "unlimited" in `searchKey`) -/
theorem maxKeys_positive : 0 < Restic.Gen.global_maxKeys := by decide

theorem opens_iff_current (pw : Password) (hint : String) (l : Listing)
    (hg : allGood l = true) (hb : l.length ≤ Restic.Gen.global_maxKeys) :
    (∃ id m, searchKey Restic.Gen.global_maxKeys pw hint l = .ok id m) ↔ hasPw l pw = true :=
  opens_iff _ pw hint l hg (Or.inr hb)

/-- `changePassword`: the new key is stored and verified before the old one is removed — the order
    `opTrace (.passwd …)` transcribes, on which `always_a_key` rests -/
theorem passwd_order :
    Restic.Gen.C29_changePassword_calls.filter (fun c => c ∈ ["repository.AddKey", "switchToNewKeyAndRemoveIfBroken", "repository.RemoveKey"])
      = ["repository.AddKey", "switchToNewKeyAndRemoveIfBroken", "repository.RemoveKey"] := by decide

theorem add_order :
    Restic.Gen.C29_addKey_calls.filter (fun c => c ∈ ["repository.AddKey", "switchToNewKeyAndRemoveIfBroken", "repository.RemoveKey"])
      = ["repository.AddKey", "switchToNewKeyAndRemoveIfBroken"] ∧
    Restic.Gen.C29_switchToNewKey_calls.filter (fun c => c ∈ ["repo.SearchKey", "repository.RemoveKey"])
      = ["repo.SearchKey", "repository.RemoveKey"] := by decide

/-- `deleteKey` and `RemoveKey` both compare with `repo.KeyID()` before the backend `Remove` -/
theorem remove_guard :
    Restic.Gen.C29_deleteKey_calls.filter (fun c => c ∈ ["restic.Find", "repo.KeyID", "repository.RemoveKey"])
      = ["restic.Find", "repo.KeyID", "repository.RemoveKey"] ∧
    Restic.Gen.C29_RemoveKey_calls.filter (fun c => c ∈ ["repo.KeyID", "repo.be.Remove"])
      = ["repo.KeyID", "repo.be.Remove"] := by decide

/-- `searchKey`: hint lookup and its `openKey` come before the list loop; `Repository.SearchKey`
    loads the config with the key found -/
theorem search_order :
    Restic.Gen.C29_searchKey_calls.filter (fun c => c ∈ ["restic.Find", "openKey", "s.List"])
      = ["restic.Find", "openKey", "openKey", "s.List"] ∧
    Restic.Gen.C29_SearchKey_calls.filter (fun c => c ∈ ["searchKey", "restic.LoadConfig"])
      = ["searchKey", "restic.LoadConfig"] ∧
    "s.SearchKey" ∈ Restic.Gen.C29_decryptRepository_calls := by decide

/-! ## non-vacuity -/

def exKeys : Listing := [("aa11", .good "alpha" 7), ("bb22", .good "beta" 7), ("cc33", .good "alpha" 7)]

example : allGood exKeys = true ∧ allMaster 7 exKeys := ⟨by decide, by
  intro id pw m h; simp [exKeys] at h; rcases h with ⟨_, _, rfl⟩ | ⟨_, _, rfl⟩ | ⟨_, _, rfl⟩ <;> rfl⟩
example : searchKey 20 "beta" "" exKeys = .ok "bb22" 7 := by decide
example : searchKey 20 "gamma" "" exKeys = .noKeyFound := by decide
/-- two keys of the same password: the hint decides which one becomes the key in use -/
example : searchKey 20 "alpha" "cc" exKeys = .ok "cc33" 7 ∧ searchKey 20 "alpha" "" exKeys = .ok "aa11" 7 := by decide
/-- `key passwd` cut after the first write: both keys present; completed: only the new one -/
example : (applyAllK exKeys ((opTrace "bb22" 7 (.passwd "dd44" "delta" true)).take 1)).map (·.1) = ["dd44", "aa11", "bb22", "cc33"] := by decide
example : (applyAllK exKeys (opTrace "bb22" 7 (.passwd "dd44" "delta" true))).map (·.1) = ["dd44", "aa11", "cc33"] := by decide

end Restic.Props.C29
