import Restic.Model.Find
/-!
# C57 — ID prefixes resolve to the unique matching file or an error

Theorems about `Restic.Model.Find` (transcription of `restic.Find`). All statements hold for every
listing (any length, any order, duplicates and the all-zero ID included), every prefix (empty,
odd length, longer than a name, non-hex bytes) and every naming function.
-/
namespace Restic.Props.C57
open Restic.Model.Find

variable {ID : Type} (name : ID → List UInt8)

/-- the Go comparison `len(name) >= len(prefix) && prefix == name[:len(prefix)]` is "is a prefix of" -/
theorem matchesP_eq (p : List UInt8) (id : ID) : matchesP name p id = p.isPrefixOf (name id) := by
  unfold matchesP
  rw [Bool.eq_iff_iff]
  simp only [Bool.and_eq_true, decide_eq_true_eq, beq_iff_eq, List.isPrefixOf_iff_prefix]
  constructor
  · rintro ⟨_, h⟩; exact List.prefix_iff_eq_take.mpr h
  · intro h; exact ⟨h.length_le, List.prefix_iff_eq_take.mp h⟩

/-- what the listing loop computes, in terms of the list of matching entries -/
theorem loop_char (p : List UInt8) (ids : List ID) (st : Option ID) :
    loop name p st ids =
      match st, matching name ids p with
      | none, [] => some none
      | none, [x] => some (some x)
      | none, _ :: _ :: _ => none
      | some m, [] => some (some m)
      | some _, _ :: _ => none := by
  induction ids generalizing st with
  | nil => cases st <;> simp [loop, matching]
  | cons a as ih =>
    simp only [loop, step, matchesP_eq, matching, List.filter_cons]
    by_cases hm : p.isPrefixOf (name a) = true
    · simp only [hm, if_true]
      cases st with
      | none =>
        simp only [ih, matching]
        cases List.filter (fun id => p.isPrefixOf (name id)) as <;> rfl
      | some m => rfl
    · simp only [hm]
      simp only [Bool.false_eq_true, if_false, ih, matching]

/-- **C57, full statement**: for every listing and every prefix, `Find` returns the unique
    listed ID whose name starts with the prefix, `NoIDByPrefixError` when there is none, and
    `MultipleIDMatchesError` when there are several. -/
theorem find_spec (ids : List ID) (p : List UInt8) :
    find name ids false p = expected name ids p := by
  unfold find expected
  rw [loop_char]
  cases matching name ids p with
  | nil => rfl
  | cons x xs => cases xs <;> rfl

/-- the transcription meets the executable specification used by the driver -/
theorem find_specOK [BEq ID] [LawfulBEq ID] (ids : List ID) (p : List UInt8) :
    specOK name ids p (find name ids false p) = true := by
  unfold specOK
  rw [find_spec]
  cases expected name ids p <;> simp [BEq.beq, instBEqRes.beq]

/-- an `ok` answer is a listed ID matching the prefix, and it is the only listed entry that matches -/
theorem find_ok_unique (ids : List ID) (p : List UInt8) (x : ID)
    (h : find name ids false p = .ok x) :
    x ∈ ids ∧ p <+: name x ∧ ∀ y ∈ ids, p <+: name y → y = x := by
  rw [find_spec] at h
  unfold expected at h
  have hm : matching name ids p = [x] := by
    revert h
    cases hq : matching name ids p with
    | nil => intro h; cases h
    | cons a as => cases as with
      | nil => intro h; injection h with h; rw [h]
      | cons b bs => intro h; cases h
  have hx : x ∈ matching name ids p := by rw [hm]; exact List.mem_singleton.mpr rfl
  simp only [matching, List.mem_filter, List.isPrefixOf_iff_prefix] at hx
  refine ⟨hx.1, hx.2, ?_⟩
  intro y hy hp
  have : y ∈ matching name ids p := by
    simp only [matching, List.mem_filter, List.isPrefixOf_iff_prefix]; exact ⟨hy, hp⟩
  rw [hm] at this
  exact List.mem_singleton.mp this

/-- no match ⇒ `NoIDByPrefixError`, and conversely -/
theorem find_noID_iff (ids : List ID) (p : List UInt8) :
    find name ids false p = .noID ↔ ∀ y ∈ ids, ¬ p <+: name y := by
  rw [find_spec]; unfold expected
  have : matching name ids p = [] ↔ ∀ y ∈ ids, ¬ p <+: name y := by
    simp [matching, List.filter_eq_nil_iff]
  rw [← this]
  cases matching name ids p with
  | nil => simp
  | cons a as => cases as <;> simp

/-- more than one matching entry ⇔ `MultipleIDMatchesError` -/
theorem find_multiple_iff (ids : List ID) (p : List UInt8) :
    find name ids false p = .multiple ↔ 2 ≤ (matching name ids p).length := by
  rw [find_spec]; unfold expected
  cases matching name ids p with
  | nil => simp
  | cons a as => cases as <;> simp

/-- the result does not depend on the order in which the backend lists the files
    (map iteration order, parallel listing) -/
theorem find_perm (ids ids' : List ID) (p : List UInt8) (h : ids.Perm ids') :
    find name ids false p = find name ids' false p := by
  rw [find_spec, find_spec]
  unfold expected
  have hp : (matching name ids p).Perm (matching name ids' p) := h.filter _
  cases h1 : matching name ids p with
  | nil => rw [h1] at hp; rw [List.nil_perm.mp hp]
  | cons a as =>
    cases as with
    | nil => rw [h1] at hp; rw [List.singleton_perm.mp hp]
    | cons b bs =>
      rw [h1] at hp
      have hl := hp.length_eq
      cases h2 : matching name ids' p with
      | nil => rw [h2] at hl; simp at hl
      | cons c cs => cases cs with
        | nil => rw [h2] at hl; simp at hl
        | cons d ds => rfl

/-- empty prefix: every listed file matches, so the answer is `ok` exactly for one-element listings -/
theorem find_empty_prefix (ids : List ID) :
    find name ids false [] = match ids with | [] => .noID | [x] => .ok x | _ :: _ :: _ => .multiple := by
  rw [find_spec]; unfold expected matching
  have : List.filter (fun id => ([] : List UInt8).isPrefixOf (name id)) ids = ids :=
    List.filter_eq_self.mpr (by simp)
  rw [this]
  cases ids with
  | nil => rfl
  | cons a as => cases as <;> rfl

/-- a lister error is passed on unless an ambiguity was already detected -/
theorem find_listErr (ids : List ID) (p : List UInt8) :
    find name ids true p = if 2 ≤ (matching name ids p).length then .multiple else .listErr := by
  unfold find
  rw [loop_char]
  cases matching name ids p with
  | nil => rfl
  | cons x xs => cases xs <;> simp

/-! ### The code before the fix (null ID as "no match yet") -/

/-- Under the hypothesis that no listed ID is the null ID, the old code computes the same result. -/
theorem findSentinel_eq_find (isNull : ID → Bool) (null : ID) (hnull : isNull null = true)
    (ids : List ID) (lf : Bool) (p : List UInt8) (h : ∀ id ∈ ids, isNull id = false) :
    findSentinel name isNull null ids lf p = find name ids lf p := by
  -- simulation: sentinel state m  ~  option state st
  have sim : ∀ (ids : List ID) (m : ID) (st : Option ID),
      (∀ id ∈ ids, isNull id = false) →
      ((st = none ∧ isNull m = true) ∨ (st = some m ∧ isNull m = false)) →
      (loopSentinel name isNull p m ids = none ∧ loop name p st ids = none) ∨
      (∃ m' st', loopSentinel name isNull p m ids = some m' ∧ loop name p st ids = some st' ∧
        ((st' = none ∧ isNull m' = true) ∨ (st' = some m' ∧ isNull m' = false))) := by
    intro ids
    induction ids with
    | nil => intro m st _ hs; exact Or.inr ⟨m, st, rfl, rfl, hs⟩
    | cons a as ih =>
      intro m st hall hs
      have ha : isNull a = false := hall a (List.mem_cons_self ..)
      have has : ∀ id ∈ as, isNull id = false := fun id hid => hall id (List.mem_cons_of_mem _ hid)
      simp only [loopSentinel, loop, stepSentinel, step]
      by_cases hm : matchesP name p a = true
      · simp only [hm, if_true]
        rcases hs with ⟨hst, hn⟩ | ⟨hst, hn⟩
        · subst hst
          simp only [hn, if_true]
          exact ih a (some a) has (Or.inr ⟨rfl, ha⟩)
        · subst hst
          simp only [hn]
          simp
      · simp only [hm]
        exact ih m st has hs
  unfold findSentinel find
  rcases sim ids null none h (Or.inl ⟨rfl, hnull⟩) with ⟨h1, h2⟩ | ⟨m', st', h1, h2, hs⟩
  · rw [h1, h2]
  · rw [h1, h2]
    rcases hs with ⟨hst, hn⟩ | ⟨hst, hn⟩
    · subst hst; simp [hn]
    · subst hst; simp [hn]

/-- C57 for the old code, with the hypothesis it needs -/
theorem findSentinel_spec (isNull : ID → Bool) (null : ID) (hnull : isNull null = true)
    (ids : List ID) (p : List UInt8) (h : ∀ id ∈ ids, isNull id = false) :
    findSentinel name isNull null ids false p = expected name ids p := by
  rw [findSentinel_eq_find name isNull null hnull ids false p h, find_spec]

/-! Without that hypothesis the old code violates C57 (finding F12); negation witnesses on
    concrete 32-byte IDs, replayed on the implementation by the correspondence stream. -/

def idA : ID32 := 0 :: 1 :: List.replicate 30 0   -- 0001 0000…

/-- two files match the prefix "00" (the null ID and `idA`), yet the old code answers `ok idA` -/
theorem sentinel_hides_ambiguity :
    findSentinel hexName isNull32 null32 [null32, idA] false [48, 48] = .ok idA
    ∧ expected hexName [null32, idA] [48, 48] = .multiple := by decide

/-- the null ID alone is the unique match, yet the old code answers `NoIDByPrefixError` -/
theorem sentinel_misses_null :
    findSentinel hexName isNull32 null32 [null32] false [48] = .noID
    ∧ expected hexName [null32] [48] = .ok null32 := by decide

/-- the old code's answer depends on the listing order -/
theorem sentinel_order_dependent :
    findSentinel hexName isNull32 null32 [idA, null32] false [48, 48] = .multiple
    ∧ findSentinel hexName isNull32 null32 [null32, idA] false [48, 48] = .ok idA := by decide

/-! ### Non-vacuity -/

def idB : ID32 := 0 :: 2 :: List.replicate 30 0   -- 0002 0000…
example : find hexName [null32, idA, idB] false [48, 48, 48, 49] = .ok idA := by decide
example : find hexName [null32, idA, idB] false [48, 48, 48] = .multiple := by decide
example : find hexName [null32, idA, idB] false [48, 48, 48, 48] = .ok null32 := by decide
example : find hexName [null32, idA, idB] false [102] = .noID := by decide
example : find hexName [null32, idA] false [] = .multiple := by decide
example : ∀ id ∈ [idA, idB], isNull32 id = false := by decide

end Restic.Props.C57
