import Restic.Proofs.C17_Loop
import Restic.Proofs.C17_Rabin
import Restic.Gen.Source
import Restic.Gen.Consts
/-!
# C17 — Content-defined chunking is lossless, bounded and shift-resistant

Statement (properties.jsonl): splitting a file yields chunks whose concatenation is the file; every
chunk except the last has a size between the minimum and maximum chunk size; the boundaries depend
only on the content and the polynomial, not on read sizes or previously processed files; inserting
or deleting bytes changes only the chunks around the edit.

Layout. `Restic/Proofs/C17_Loop.lean` (namespace `Restic.Props.C17`): theorems about the
transcription of `readNextChunk` / `saveFile` / `worker` for an *arbitrary* splitter under the laws
L0 `InRange`, L1 `Streaming`, L2 `Bounded`, L3 `ResetsAfterCut`:
  `chunks_concat` (no law), `saveFile_total`, `chunks_eq_ref`, `chunks_buffer_indep`,
  `worker_file_indep`, `pool_worker_indep` (any number of concurrent workers, any interleaving),
  `chunks_specOK`, `edit_prefix_stable`, `edit_resync`, `edit_resyncOK`.
`Restic/Proofs/C17_Rabin.lean`: the laws are *theorems* for the transcription of
github.com/restic/chunker (`rabin_inRange`, `rabin_streaming`, `rabin_resets`, `rabin_bounded`).
This file: the statements instantiated with the constants and call orders regenerated from the
current source (T1), the headline theorem, non-vacuity examples and negation witnesses.

Full-strength shift resistance ("only the chunks around the edit change") has a part that is not a
theorem about any deterministic splitter: *how soon* a common cut re-appears after the edit depends
on the content (Rabin fingerprint hits). What is proved: chunks ending before the edit are unchanged
(`edit_prefix_stable`), and from the first common cut on everything is unchanged (`edit_resync`);
the T2 run measures how many chunks change in between (label histogram `changed*`).
-/
namespace Restic.Props.C17
open Restic.Model.Chunk Restic.Model Restic.Proofs.C17Rabin

/-! ### T1: facts regenerated from the current source -/

/-- position of the first occurrence of a call in a regenerated call list -/
def callIdx (l : List String) (c : String) : Nat := l.findIdx (· == c)

/-- `saveFile` resets the chunker and the chunk state before the first `readNextChunk`
    (this is what `Chunk.saveFile` transcribes and what `worker_file_indep` rests on). -/
theorem reset_before_loop :
    callIdx Gen.saveFile_calls "chnker.Reset" < callIdx Gen.saveFile_calls "chunkState.readNextChunk" ∧
    callIdx Gen.saveFile_calls "chunkState.reset" < callIdx Gen.saveFile_calls "chunkState.readNextChunk" ∧
    callIdx Gen.saveFile_calls "chunkState.readNextChunk" < Gen.saveFile_calls.length := by decide

/-- the worker creates one chunker and hands it to every `saveFile` (so reuse across files is real) -/
theorem worker_reuses_chunker :
    callIdx Gen.fileSaver_worker_calls "s.chunkerFactory.NewChunker" < callIdx Gen.fileSaver_worker_calls "s.saveFile" ∧
    callIdx Gen.fileSaver_worker_calls "s.saveFile" < Gen.fileSaver_worker_calls.length := by decide

/-- every file worker gets its OWN library chunker: `chunkerFactory.NewChunker` creates one with
    `chunker.NewBase` on every call, and `newFileSaver` starts the workers that call it (the
    disjoint per-worker state of `runPool` / `pool_worker_indep`) -/
theorem chunker_per_worker :
    Gen.chunkerFactory_NewChunker_calls = ["chunker.NewBase"] ∧
    Gen.newFileSaver_calls.contains "s.worker" = true ∧
    callIdx Gen.fileSaver_worker_calls "s.chunkerFactory.NewChunker" = 0 := by decide

/-- `baseChunker.Reset` re-initialises the library chunker (`c.bc.Reset(c.pol)`) -/
theorem reset_calls_library : Gen.baseChunker_Reset_calls = ["c.bc.Reset"] := by decide

/-- the constants the bounds theorem needs: non-empty read buffer, `MinSize ≤ MaxSize`, `MaxSize > 0` -/
theorem gen_consts_ok :
    0 < Gen.archiver_chunkReadBufSize ∧ Gen.chunker_MinSize ≤ Gen.chunker_MaxSize ∧ 0 < Gen.chunker_MaxSize ∧
    Rabin.windowSize ≤ Gen.chunker_MinSize := by decide

/-! ### headline theorem -/

/-- **C17 with the parameters of the current source.** For every polynomial (any table content),
    with `MinSize`/`MaxSize` of the library and restic's read-buffer size as regenerated from the
    source, every file is chunked successfully and the chunk list satisfies the executable statement
    `specOK` (lossless; all chunks but the last within `[MinSize, MaxSize]`; last chunk non-empty and
    at most `MaxSize`); the chunk list is the reference chunking, hence the same for every other
    read-buffer size, and the same whatever the worker processed before. -/
theorem c17_restic (cfg : Rabin.RCfg) (hmin : cfg.minSize = Gen.chunker_MinSize) (hmax : cfg.maxSize = Gen.chunker_MaxSize)
    (file : Bytes) :
    (∃ cs, chunks (Rabin.splitter cfg) Gen.archiver_chunkReadBufSize file = .ok cs ∧
        specOK Gen.chunker_MinSize Gen.chunker_MaxSize file cs = true) ∧
    (∀ bufSize, 0 < bufSize →
        chunks (Rabin.splitter cfg) bufSize file = chunks (Rabin.splitter cfg) Gen.archiver_chunkReadBufSize file) ∧
    (∀ (cs0 : CState) (st0 : Rabin.RState) (before : List Reader),
        (worker (Rabin.splitter cfg) Gen.archiver_chunkReadBufSize cs0 st0 (before ++ [{ data := file, failAtEnd := false }])).getLast? =
          some (chunks (Rabin.splitter cfg) Gen.archiver_chunkReadBufSize file)) := by
  obtain ⟨hb, hmm, hmx, _⟩ := gen_consts_ok
  refine ⟨?_, ?_, ?_⟩
  · have := rabin_chunks_specOK cfg (by rw [hmin, hmax]; exact hmm) (by rw [hmax]; exact hmx) _ hb file
    rw [hmin, hmax] at this
    exact this
  · intro bufSize hpos
    exact rabin_buffer_indep cfg _ _ hpos hb file
  · intro cs0 st0 before
    rw [worker_file_indep]
    simp [chunks]

/-! ### non-vacuity and negation witnesses -/

/-- a toy splitter: cut after every third byte it has seen since the last cut -/
def toy : Splitter Nat :=
  { init := 0
    next := fun seen buf => if seen + buf.length < 3 then (none, seen + buf.length) else (some (3 - seen), 0) }

/-- a rogue splitter that answers beyond the buffer it was given (violates L0) -/
def rogue : Splitter Unit := { init := (), next := fun _ buf => (some (buf.length + 1), ()) }

/-- the laws are satisfiable: the transcribed library satisfies all of them (for any tables) -/
example (cfg : Rabin.RCfg) (h : cfg.minSize ≤ cfg.maxSize) (h' : 0 < cfg.maxSize) :
    InRange (Rabin.splitter cfg) ∧ Streaming (Rabin.splitter cfg) ∧ ResetsAfterCut (Rabin.splitter cfg) ∧
    Bounded (Rabin.splitter cfg) cfg.minSize cfg.maxSize :=
  ⟨rabin_inRange cfg, rabin_streaming cfg, rabin_resets cfg, rabin_bounded cfg h h'⟩

/-- `chunks_concat` is not vacuous: a concrete run with a 2-byte read buffer over a 7-byte file
    (buffer boundaries inside chunks, a chunk spanning two refills, a final short chunk) -/
example : chunks toy 2 [1, 2, 3, 4, 5, 6, 7] = .ok [[1, 2, 3], [4, 5, 6], [7]] := by
  simp [chunks, saveFile, chunkLoop, readNextChunk, refill, readFull, toy, CState.reset]

/-- the same file with a 5-byte buffer: same chunks -/
example : chunks toy 5 [1, 2, 3, 4, 5, 6, 7] = .ok [[1, 2, 3], [4, 5, 6], [7]] := by
  simp [chunks, saveFile, chunkLoop, readNextChunk, refill, readFull, toy, CState.reset]

/-- a reader that ends with an I/O error yields `error` (no chunk list, no node) -/
example : (saveFile toy 2 { buf := [], bpos := 0, closed := false } 0 { data := [1, 2, 3, 4], failAtEnd := true }).1 = .error := by
  simp [saveFile, chunkLoop, readNextChunk, refill, readFull, toy, CState.reset]

/-- negation witness for dropping L0: a splitter answering beyond its buffer is detected as
    `badSplit` (in Go: stale read-buffer bytes or a slice panic) — never silently accepted -/
example : chunks rogue 4 [1, 2, 3] = .badSplit 4 3 := by
  simp [chunks, saveFile, chunkLoop, readNextChunk, refill, readFull, rogue, CState.reset]

/-- the executable statement is not trivially true -/
example : specOK 2 4 [1, 2, 3, 4, 5] [[1, 2, 3], [4, 5]] = true ∧ specOK 2 4 [1, 2, 3, 4, 5] [[1], [2, 3, 4, 5]] = false ∧
    specOK 2 4 [1, 2, 3, 4, 5] [[1, 2, 3], [4]] = false ∧ specOK 2 4 [1, 2, 3, 4, 5] [[1, 2, 3, 4, 5]] = false := by decide

end Restic.Props.C17
