import Restic.Model.StreamPack
import Restic.Gen.Consts
import Restic.Gen.Source
/-!
# C43 — Streaming blobs from a pack delivers each requested blob exactly once

Theorems about `Restic.Model.StreamPack` (transcription of `streamPack`, `streamPackPart`, the
decision part of `packBlobIterator.Next`, `blobsInPack`, and the copy loop of `loadBlob`).
All statements hold for every list of requested blobs (any offsets, gaps, sizes), every
environment (which copies are damaged / invalid, which downloads fail, what the fallback loader
returns, for which blobs the caller's callback fails) and every `maxChunkSize`/`maxUnusedRange`.
-/
namespace Restic.Props.C43
open Restic.Model.StreamPack

/-! ### sorting -/

theorem insertBlob_perm (b : Blob) (l : List Blob) : (insertBlob b l).Perm (b :: l) := by
  induction l with
  | nil => exact List.Perm.refl _
  | cons c cs ih =>
    simp only [insertBlob]
    split
    · exact List.Perm.refl _
    · exact (List.Perm.cons c ih).trans (List.Perm.swap b c cs)

theorem sortBlobs_perm (l : List Blob) : (sortBlobs l).Perm l := by
  induction l with
  | nil => exact List.Perm.refl _
  | cons b bs ih =>
    simp only [sortBlobs, List.foldr_cons]
    exact (insertBlob_perm b _).trans (List.Perm.cons b ih)

def Sorted (l : List Blob) : Prop := l.Pairwise (fun a b => a.off ≤ b.off)

theorem insertBlob_sorted (b : Blob) (l : List Blob) (h : Sorted l) : Sorted (insertBlob b l) := by
  induction l with
  | nil => simp [insertBlob, Sorted]
  | cons c cs ih =>
    simp only [insertBlob]
    have hc := List.pairwise_cons.mp h
    split
    · rename_i hlt
      refine List.pairwise_cons.mpr ⟨?_, h⟩
      intro x hx
      rcases List.mem_cons.mp hx with rfl | hx
      · omega
      · have := hc.1 x hx; omega
    · rename_i hge
      refine List.pairwise_cons.mpr ⟨?_, ih hc.2⟩
      intro x hx
      have hx' : x ∈ b :: cs := (insertBlob_perm b cs).subset hx
      rcases List.mem_cons.mp hx' with rfl | hx'
      · omega
      · exact hc.1 x hx'

theorem sortBlobs_sorted (l : List Blob) : Sorted (sortBlobs l) := by
  induction l with
  | nil => simp [sortBlobs, Sorted]
  | cons b bs ih => exact insertBlob_sorted b _ ih

/-! ### the partition loop -/

/-- consecutive blobs of a part do not overlap and are at most `mu` bytes apart -/
def GapsOK (mu : Nat) : List Blob → Prop
  | a :: b :: rest => a.off + a.len ≤ b.off ∧ b.off - (a.off + a.len) ≤ mu ∧ GapsOK mu (b :: rest)
  | _ => True

/-- the byte range a part downloads: from the first offset to the end of the last blob
    (`dataEnd - dataStart` of `streamPackPart`) -/
def span (p : List Blob) : Nat :=
  match p.head?, p.getLast? with
  | some f, some l => l.off + l.len - f.off
  | _, _ => 0

/-- what every part handed to `streamPackPart` satisfies -/
def PartOK (mc mu : Nat) (p : List Blob) : Prop :=
  p ≠ [] ∧ GapsOK mu p ∧ (2 ≤ p.length → span p < mc)

theorem gapsOK_append (mu : Nat) (p : List Blob) (b : Blob) :
    GapsOK mu (p ++ [b]) ↔
      GapsOK mu p ∧ ∀ l, p.getLast? = some l → l.off + l.len ≤ b.off ∧ b.off - (l.off + l.len) ≤ mu := by
  induction p with
  | nil => simp [GapsOK]
  | cons a as ih =>
    cases as with
    | nil => simp [GapsOK]
    | cons a' as' =>
      have h1 : (a :: a' :: as') ++ [b] = a :: a' :: (as' ++ [b]) := rfl
      have h2 : (a :: a' :: as').getLast? = (a' :: as').getLast? := by simp [List.getLast?_cons_cons]
      rw [h1, h2]
      simp only [GapsOK]
      have ih' : GapsOK mu (a' :: (as' ++ [b])) ↔ _ := ih
      rw [ih']
      constructor
      · rintro ⟨x, y, z, w⟩; exact ⟨⟨x, y, z⟩, w⟩
      · rintro ⟨⟨x, y, z⟩, w⟩; exact ⟨x, y, z, w⟩

theorem getLast?_snoc (l : List Blob) (b : Blob) : (l ++ [b]).getLast? = some b := by
  simp

/-- state invariant of the loop: the current part is well-formed and `lastPos` is its end -/
def CurOK (mc mu : Nat) (cur : List Blob) (lastPos : Nat) : Prop :=
  cur = [] ∨ (GapsOK mu cur ∧ (2 ≤ cur.length → span cur < mc) ∧
    ∃ l, cur.getLast? = some l ∧ lastPos = l.off + l.len)

theorem partLoop_spec (mc mu : Nat) (bs cur : List Blob) (lastPos : Nat) (acc parts : List (List Blob))
    (e : LoopEnd)
    (hJ : cur = [] → ∃ b rest, bs = b :: rest ∧ b.off = lastPos)
    (hcur : CurOK mc mu cur lastPos) (hacc : ∀ p ∈ acc, PartOK mc mu p)
    (h : partLoop mc mu bs cur lastPos acc = (parts, e)) :
    e ≠ .emptyPart ∧ (∀ p ∈ parts, PartOK mc mu p) ∧
      ∃ rem, parts.flatten ++ rem = acc.flatten ++ cur ++ bs ∧ (e = .done → rem = []) := by
  induction bs generalizing cur lastPos acc with
  | nil =>
    simp only [partLoop, Prod.mk.injEq] at h
    obtain ⟨rfl, rfl⟩ := h
    have hne : cur ≠ [] := by
      intro hc
      obtain ⟨b, rest, hb, _⟩ := hJ hc
      cases hb
    refine ⟨by simp, ?_, [], by simp, fun _ => rfl⟩
    intro p hp
    rcases List.mem_append.mp hp with hp | hp
    · exact hacc p hp
    · have : p = cur := by simpa using hp
      subst this
      rcases hcur with hc | ⟨h1, h2, _⟩
      · exact absurd hc hne
      · exact ⟨hne, h1, h2⟩
  | cons b rest ih =>
    simp only [partLoop] at h
    by_cases hov : b.off < lastPos
    · simp only [hov, if_true, Prod.mk.injEq] at h
      obtain ⟨rfl, rfl⟩ := h
      exact ⟨by simp, hacc, cur ++ b :: rest, by simp, fun h => by cases h⟩
    · simp only [hov, if_false] at h
      cases hc : cur with
      | nil =>
        -- first blob of a part: no split possible (gap is zero)
        obtain ⟨b', rest', hb, hoff⟩ := hJ hc
        injection hb with hb1 hb2
        subst hb1
        have hgap : ¬ (b.off - lastPos > mu) := by omega
        simp only [hc, List.isEmpty_nil, Bool.not_true, Bool.false_and, hgap, decide_false, Bool.or_self,
          Bool.false_eq_true, if_false, List.nil_append] at h
        have := ih [b] (b.off + b.len) acc (by simp) (Or.inr ⟨by simp [GapsOK], by simp, b, by simp, rfl⟩) hacc h
        obtain ⟨h1, h2, rem, h3, h4⟩ := this
        exact ⟨h1, h2, rem, by simpa using h3, h4⟩
      | cons c tl =>
        rw [hc] at hcur
        rcases hcur with hcn | ⟨hg, hs, l, hl, hlp⟩
        · cases hcn
        simp only [hc, List.isEmpty_cons, Bool.not_false, Bool.true_and] at h
        have hle : l.off + l.len ≤ b.off := by omega
        by_cases hsplit : (decide (b.off + b.len - c.off ≥ mc) || decide (b.off - lastPos > mu)) = true
        · simp only [hsplit, if_true, Bool.false_eq_true, if_false] at h
          have hacc' : ∀ p ∈ acc ++ [c :: tl], PartOK mc mu p := by
            intro p hp
            rcases List.mem_append.mp hp with hp | hp
            · exact hacc p hp
            · have : p = c :: tl := by simpa using hp
              subst this; exact ⟨by simp, hg, hs⟩
          have := ih [b] (b.off + b.len) (acc ++ [c :: tl]) (by simp)
            (Or.inr ⟨by simp [GapsOK], by simp, b, by simp, rfl⟩) hacc' h
          obtain ⟨h1, h2, rem, h3, h4⟩ := this
          exact ⟨h1, h2, rem, by simpa using h3, h4⟩
        · simp only [hsplit, Bool.false_eq_true, if_false] at h
          simp only [Bool.or_eq_true, decide_eq_true_eq, not_or] at hsplit
          have hcur' : CurOK mc mu (c :: tl ++ [b]) (b.off + b.len) := by
            refine Or.inr ⟨?_, ?_, b, getLast?_snoc (c :: tl) b, rfl⟩
            · rw [gapsOK_append]
              refine ⟨hg, ?_⟩
              intro l' hl'
              rw [hl] at hl'; injection hl' with hl'; subst hl'
              omega
            · intro _
              have : span (c :: tl ++ [b]) = b.off + b.len - c.off := by
                simp only [span, getLast?_snoc (c :: tl) b]
                rfl
              omega
          have := ih (c :: tl ++ [b]) (b.off + b.len) acc (by simp) hcur' hacc h
          obtain ⟨h1, h2, rem, h3, h4⟩ := this
          exact ⟨h1, h2, rem, by simpa using h3, h4⟩

/-- the blobs (in sorted order) do not overlap: each starts at or after the end of the previous -/
def NoOverlap : Nat → List Blob → Prop
  | _, [] => True
  | lastPos, b :: rest => lastPos ≤ b.off ∧ NoOverlap (b.off + b.len) rest

theorem partLoop_no_overlap (mc mu : Nat) (bs cur : List Blob) (lastPos : Nat) (acc : List (List Blob))
    (h : NoOverlap lastPos bs) : (partLoop mc mu bs cur lastPos acc).2 ≠ .overlap := by
  induction bs generalizing cur lastPos acc with
  | nil => simp [partLoop]
  | cons b rest ih =>
    simp only [partLoop]
    have hb : ¬ b.off < lastPos := by have := h.1; omega
    simp only [hb, if_false]
    repeat' split
    all_goals first | exact ih _ _ _ h.2 | simp

/-- **parts_partition** (+ **part_bounds**). For every non-empty request, the parts handed to
    `streamPackPart` are non-empty, their concatenation is a prefix of the sorted request — all of
    it when the loop ran to the end — and each part satisfies the bounds: consecutive blobs do not
    overlap and are at most `maxUnusedRange` apart; a part with more than one blob spans less than
    `maxChunkSize` bytes. `streamPackPart` is never called with an empty slice. -/
theorem parts_partition (mc mu : Nat) (blobs : List Blob) (hne : blobs ≠ []) :
    (partition mc mu blobs).2 ≠ .emptyPart ∧
    (∀ p ∈ (partition mc mu blobs).1, PartOK mc mu p) ∧
    ∃ rem, (partition mc mu blobs).1.flatten ++ rem = sortBlobs blobs ∧
      ((partition mc mu blobs).2 = .done → rem = []) := by
  unfold partition
  cases hs : sortBlobs blobs with
  | nil =>
    exfalso
    have := (sortBlobs_perm blobs).length_eq
    rw [hs] at this
    exact hne (List.length_eq_zero_iff.mp this.symm)
  | cons b rest =>
    have := partLoop_spec mc mu (b :: rest) [] b.off [] (partLoop mc mu (b :: rest) [] b.off []).1
      (partLoop mc mu (b :: rest) [] b.off []).2 (fun _ => ⟨b, rest, rfl, rfl⟩) (Or.inl rfl)
      (by simp) rfl
    obtain ⟨h1, h2, rem, h3, h4⟩ := this
    exact ⟨h1, h2, rem, by simpa only [List.flatten_nil, List.nil_append, List.append_nil] using h3, h4⟩

/-- if the requested blobs do not overlap, the loop runs to the end: every blob is in a part -/
theorem partition_complete (mc mu : Nat) (blobs : List Blob) (hne : blobs ≠ [])
    (hno : ∀ b rest, sortBlobs blobs = b :: rest → NoOverlap b.off (b :: rest)) :
    (partition mc mu blobs).2 = .done ∧ (partition mc mu blobs).1.flatten = sortBlobs blobs := by
  have ⟨h1, _, rem, h3, h4⟩ := parts_partition mc mu blobs hne
  have hdone : (partition mc mu blobs).2 = .done := by
    have hno' : (partition mc mu blobs).2 ≠ .overlap := by
      unfold partition
      cases hs : sortBlobs blobs with
      | nil => simp
      | cons b rest => exact partLoop_no_overlap mc mu _ _ _ _ (hno b rest hs)
    cases hE : (partition mc mu blobs).2 with
    | done => rfl
    | overlap => exact absurd hE hno'
    | emptyPart => exact absurd hE h1
  refine ⟨hdone, ?_⟩
  have := h4 hdone
  subst this
  simpa using h3

/-! ### streaming the parts -/

def ids (l : List Blob) : List Nat := l.map (·.id)
def cbIds (log : List CB) : List Nat := log.map CB.id

/-- why a callback was made: it is for a requested blob, a plaintext comes from the verified
    copy in this pack or from the fallback loader, an error means the fallback could not deliver -/
def Justified (env : Env) (blobs : List Blob) (c : CB) : Prop :=
  ∃ e ∈ blobs, c.id = e.id ∧
    match c with
    | .ok _ p => env.copy e = .good p ∨
        ((∃ f, env.fallback = some f ∧ f e.id = some p) ∧ (env.copy e = .damaged ∨ ∃ n, env.dl n = false))
    | .err _ => recoverable env e.id = false ∧ (env.copy e = .damaged ∨ ∃ n, env.dl n = false)

/-- what one loop over a part adds to the callback log -/
def Adds (env : Env) (part : List Blob) (log log' : List CB) (out : Outcome) : Prop :=
  ∃ new, log' = log ++ new ∧ (∃ k, cbIds new = ids (part.take k) ∧ (out = .ok → k = part.length)) ∧
    ∀ c ∈ new, Justified env part c

theorem justified_mono {env : Env} {a b : List Blob} (h : ∀ x ∈ a, x ∈ b) {c : CB}
    (hc : Justified env a c) : Justified env b c := by
  obtain ⟨e, he, h1, h2⟩ := hc
  exact ⟨e, h e he, h1, h2⟩

theorem adds_cons {env : Env} {e : Blob} {rest : List Blob} {log log' : List CB} {out : Outcome} {cb : CB}
    (hid : cb.id = e.id) (hj : Justified env (e :: rest) cb)
    (h : Adds env rest (log ++ [cb]) log' out) : Adds env (e :: rest) log log' out := by
  obtain ⟨new, h1, ⟨k, h2, h3⟩, h4⟩ := h
  refine ⟨cb :: new, by simp [h1], ⟨k + 1, ?_, ?_⟩, ?_⟩
  · simp [cbIds, ids, hid] at *; exact h2
  · intro ho; simp [h3 ho]
  · intro c hc
    rcases List.mem_cons.mp hc with rfl | hc
    · exact hj
    · exact justified_mono (fun x hx => List.mem_cons_of_mem _ hx) (h4 c hc)

theorem adds_stop {env : Env} {e : Blob} {rest : List Blob} {log : List CB} {out : Outcome} {cb : CB}
    (hid : cb.id = e.id) (hj : Justified env (e :: rest) cb) (hout : out ≠ .ok) :
    Adds env (e :: rest) log (log ++ [cb]) out :=
  ⟨[cb], rfl, ⟨1, by simp [cbIds, ids, hid], fun h => absurd h hout⟩, fun c hc => by
    have : c = cb := by simpa using hc
    subst this; exact hj⟩

theorem adds_none {env : Env} {part : List Blob} {log : List CB} {out : Outcome} (hout : out ≠ .ok) :
    Adds env part log log out :=
  ⟨[], by simp, ⟨0, by simp [cbIds, ids], fun h => absurd h hout⟩, fun c hc => by simp at hc⟩

theorem fallbackLoop_adds (env : Env) (f : Nat → Option Nat) (hf : env.fallback = some f)
    (hdl : ∃ n, env.dl n = false)
    (part : List Blob) (log : List CB) :
    Adds env part log (fallbackLoop f env.cbFails part log).1 (fallbackLoop f env.cbFails part log).2 := by
  induction part generalizing log with
  | nil => exact ⟨[], by simp [fallbackLoop], ⟨0, by simp [cbIds, ids], fun _ => rfl⟩, fun c hc => by simp at hc⟩
  | cons e rest ih =>
    simp only [fallbackLoop]
    have hj : ∀ cb, cb = (match f e.id with | some p => CB.ok e.id p | none => CB.err e.id) →
        cb.id = e.id ∧ Justified env (e :: rest) cb := by
      intro cb hcb
      cases hfe : f e.id with
      | some p =>
        rw [hfe] at hcb; subst hcb
        exact ⟨rfl, e, List.mem_cons_self, rfl, Or.inr ⟨⟨f, hf, hfe⟩, Or.inr hdl⟩⟩
      | none =>
        rw [hfe] at hcb; subst hcb
        exact ⟨rfl, e, List.mem_cons_self, rfl, by simp [recoverable, hf, hfe], Or.inr hdl⟩
    obtain ⟨hid, hjj⟩ := hj _ rfl
    split
    · exact adds_stop hid hjj (by simp)
    · exact adds_cons hid hjj (ih _)

theorem iterLoop_adds (env : Env) (part : List Blob) (log : List CB) :
    Adds env part log (iterLoop env part log).1 (iterLoop env part log).2 := by
  induction part generalizing log with
  | nil => exact ⟨[], by simp [iterLoop], ⟨0, by simp [cbIds, ids], fun _ => rfl⟩, fun c hc => by simp at hc⟩
  | cons e rest ih =>
    simp only [iterLoop]
    cases hcopy : env.copy e with
    | invalid => exact adds_none (by simp)
    | good p =>
      have hj : Justified env (e :: rest) (.ok e.id p) := ⟨e, List.mem_cons_self, rfl, Or.inl hcopy⟩
      simp only
      split
      · exact adds_stop rfl hj (by simp)
      · exact adds_cons rfl hj (ih _)
    | damaged =>
      simp only
      have hj : ∀ cb, cb = (match env.fallback with
          | some f => (match f e.id with | some p => CB.ok e.id p | none => CB.err e.id)
          | none => CB.err e.id) → cb.id = e.id ∧ Justified env (e :: rest) cb := by
        intro cb hcb
        cases hfb : env.fallback with
        | none =>
          rw [hfb] at hcb; subst hcb
          exact ⟨rfl, e, List.mem_cons_self, rfl, by simp [recoverable, hfb], Or.inl hcopy⟩
        | some f =>
          rw [hfb] at hcb
          cases hfe : f e.id with
          | some p =>
            simp only [hfe] at hcb; subst hcb
            exact ⟨rfl, e, List.mem_cons_self, rfl, Or.inr ⟨⟨f, hfb, hfe⟩, Or.inl hcopy⟩⟩
          | none =>
            simp only [hfe] at hcb; subst hcb
            exact ⟨rfl, e, List.mem_cons_self, rfl, by simp [recoverable, hfb, hfe], Or.inl hcopy⟩
      obtain ⟨hid, hjj⟩ := hj _ rfl
      split
      · exact adds_stop hid hjj (by simp)
      · exact adds_cons hid hjj (ih _)

theorem streamPart_adds (env : Env) (n : Nat) (part : List Blob) (log : List CB) :
    Adds env part log (streamPart env n part log).1 (streamPart env n part log).2 := by
  unfold streamPart
  cases part with
  | nil => exact adds_none (by simp)
  | cons e rest =>
    simp only
    by_cases hdl : env.dl n = true
    · simp only [hdl, if_true]; exact iterLoop_adds env _ log
    · simp only [hdl, Bool.false_eq_true, if_false]
      cases hfb : env.fallback with
      | none => exact adds_none (by simp)
      | some f => exact fallbackLoop_adds env f hfb ⟨n, by simpa using hdl⟩ _ log

/-- all parts: the callbacks are, in order, for a prefix of the blobs of the parts — for all of
    them when the outcome is `ok` -/
theorem streamParts_adds (env : Env) (n : Nat) (parts : List (List Blob)) (log : List CB) :
    ∃ new, (streamParts env n parts log).1 = log ++ new ∧
      (∃ t, cbIds new ++ t = ids parts.flatten) ∧
      ((streamParts env n parts log).2 = .ok → cbIds new = ids parts.flatten) ∧
      ∀ c ∈ new, Justified env parts.flatten c := by
  induction parts generalizing n log with
  | nil => exact ⟨[], by simp [streamParts], ⟨[], by simp [cbIds, ids]⟩, fun _ => by simp [cbIds, ids], fun c hc => by simp at hc⟩
  | cons p ps ih =>
    obtain ⟨new, h1, ⟨k, h2, h3⟩, h4⟩ := streamPart_adds env n p log
    simp only [streamParts]
    cases hout : (streamPart env n p log).2 with
    | ok =>
      have hk := h3 hout
      have hsp : streamPart env n p log = ((streamPart env n p log).1, .ok) := by rw [← hout]
      rw [hsp]
      simp only
      obtain ⟨new2, g1, ⟨t, g2⟩, g3, g4⟩ := ih (n + 1) (streamPart env n p log).1
      have hnew : cbIds new = ids p := by rw [h2, hk, List.take_length]
      refine ⟨new ++ new2, by rw [g1, h1, List.append_assoc], ⟨t, ?_⟩, ?_, ?_⟩
      · simp only [cbIds, ids, List.map_append, List.flatten_cons] at *
        rw [List.append_assoc, g2, hnew]
      · intro ho
        simp only [cbIds, ids, List.map_append, List.flatten_cons] at *
        rw [g3 ho, hnew]
      · intro c hc
        rcases List.mem_append.mp hc with hc | hc
        · exact justified_mono (fun x hx => by simp [hx]) (h4 c hc)
        · exact justified_mono (fun x hx => by
            simp only [List.flatten_cons, List.mem_append]; exact Or.inr hx) (g4 c hc)
    | _ =>
      have hsp : streamPart env n p log = ((streamPart env n p log).1, (streamPart env n p log).2) := rfl
      rw [hsp, hout]
      simp only
      refine ⟨new, h1, ⟨ids (p.drop k) ++ ids ps.flatten, ?_⟩, (fun ho => by cases ho), ?_⟩
      · rw [h2]
        simp only [ids, List.flatten_cons, List.map_append, ← List.append_assoc, ← List.map_append,
          List.take_append_drop]
      · intro c hc
        exact justified_mono (fun x hx => by simp [hx]) (h4 c hc)

theorem fallbackLoop_ne_panic (f : Nat → Option Nat) (cbF : Nat → Bool) (part : List Blob) (log : List CB) :
    (fallbackLoop f cbF part log).2 ≠ .panic := by
  induction part generalizing log with
  | nil => simp [fallbackLoop]
  | cons e rest ih =>
    simp only [fallbackLoop]
    split
    · simp
    · exact ih _

theorem iterLoop_ne_panic (env : Env) (part : List Blob) (log : List CB) :
    (iterLoop env part log).2 ≠ .panic := by
  induction part generalizing log with
  | nil => simp [iterLoop]
  | cons e rest ih =>
    simp only [iterLoop]
    split
    · simp
    · split
      · simp
      · exact ih _
    · split
      · simp
      · exact ih _

theorem streamParts_ne_panic (env : Env) (n : Nat) (parts : List (List Blob)) (log : List CB)
    (hne : ∀ p ∈ parts, p ≠ []) : (streamParts env n parts log).2 ≠ .panic := by
  induction parts generalizing n log with
  | nil => simp [streamParts]
  | cons p ps ih =>
    simp only [streamParts]
    have hp : (streamPart env n p log).2 ≠ .panic := by
      unfold streamPart
      cases p with
      | nil => exact absurd rfl (hne [] List.mem_cons_self)
      | cons e rest =>
        simp only
        split
        · exact iterLoop_ne_panic env _ _
        · split
          · simp
          · exact fallbackLoop_ne_panic _ _ _ _
    split
    · exact ih _ _ (fun q hq => hne q (List.mem_cons_of_mem _ hq))
    · rename_i r hr
      intro hpanic
      apply hp
      exact hpanic

/-- `streamPack` as a whole: the callbacks are made, in offset order, for a prefix of the sorted
    request — for all of it when the result is `ok` — each callback is justified, and no slice
    expression or index panics. -/
theorem streamPack_adds (mc mu : Nat) (env : Env) (blobs : List Blob) :
    (∃ t, cbIds (streamPack mc mu env blobs).1 ++ t = ids (sortBlobs blobs)) ∧
    ((streamPack mc mu env blobs).2 = .ok → cbIds (streamPack mc mu env blobs).1 = ids (sortBlobs blobs)) ∧
    (∀ c ∈ (streamPack mc mu env blobs).1, Justified env blobs c) ∧
    (streamPack mc mu env blobs).2 ≠ .panic := by
  unfold streamPack
  by_cases hne : blobs = []
  · subst hne
    simp [sortBlobs, cbIds, ids]
  · have hie : blobs.isEmpty = false := by simpa using hne
    simp only [hie, Bool.false_eq_true, if_false]
    obtain ⟨hp1, hp2, rem, hp3, hp4⟩ := parts_partition mc mu blobs hne
    obtain ⟨new, g1, ⟨t, g2⟩, g3, g4⟩ := streamParts_adds env 0 (partition mc mu blobs).1 []
    have hnp := streamParts_ne_panic env 0 (partition mc mu blobs).1 [] (fun p hp => (hp2 p hp).1)
    have hmem : ∀ x ∈ (partition mc mu blobs).1.flatten, x ∈ blobs := by
      intro x hx
      have : x ∈ sortBlobs blobs := by rw [← hp3]; exact List.mem_append_left _ hx
      exact (sortBlobs_perm blobs).subset this
    simp only [List.nil_append] at g1
    have hids : ids (sortBlobs blobs) = ids (partition mc mu blobs).1.flatten ++ ids rem := by
      rw [← hp3]; simp [ids]
    cases hout : (streamParts env 0 (partition mc mu blobs).1 []).2 with
    | ok =>
      have hsp : streamParts env 0 (partition mc mu blobs).1 [] =
          ((streamParts env 0 (partition mc mu blobs).1 []).1, .ok) := by rw [← hout]
      rw [hsp]
      simp only
      have hall := g3 hout
      cases hE : (partition mc mu blobs).2 with
      | done =>
        simp only
        have hrem := hp4 hE
        subst hrem
        rw [g1]
        refine ⟨⟨[], ?_⟩, fun _ => ?_, fun c hc => justified_mono hmem (g4 c hc), by simp⟩
        · rw [hids, hall]; simp [ids]
        · rw [hids, hall]; simp [ids]
      | overlap =>
        simp only
        rw [g1]
        exact ⟨⟨ids rem, by rw [hids, hall]⟩, (fun h => by cases h), fun c hc => justified_mono hmem (g4 c hc), by simp⟩
      | emptyPart => exact absurd hE hp1
    | _ =>
      have hsp : streamParts env 0 (partition mc mu blobs).1 [] =
          ((streamParts env 0 (partition mc mu blobs).1 []).1, (streamParts env 0 (partition mc mu blobs).1 []).2) := rfl
      rw [hsp, hout]
      simp only
      rw [g1]
      refine ⟨⟨t ++ ids rem, by rw [hids, ← List.append_assoc, g2]⟩, (fun h => by cases h),
        fun c hc => justified_mono hmem (g4 c hc), ?_⟩
      first | exact absurd hout hnp | simp

theorem countId_eq_count (id : Nat) (log : List CB) : countId id log = (cbIds log).count id := by
  induction log with
  | nil => simp [countId, cbIds]
  | cons c cs ih =>
    simp only [countId, cbIds, List.filter_cons, List.map_cons, List.count_cons] at *
    by_cases h : c.id = id
    · simp [h, ih]
    · have h' : (c.id == id) = false := by simpa using h
      simp [h', ih]

/-! ### The property theorems -/

/-- **callback_once**. For a request of distinct blobs, whatever is damaged, whichever downloads
    fail and whatever the callback returns: only requested blobs are called back, each at most
    once; and if `streamPack` returns no error, every requested blob was called back exactly once. -/
theorem callback_once (mc mu : Nat) (env : Env) (blobs : List Blob) (hnd : (ids blobs).Nodup) :
    (∀ c ∈ (streamPack mc mu env blobs).1, c.id ∈ ids blobs) ∧
    (∀ id, countId id (streamPack mc mu env blobs).1 ≤ 1) ∧
    ((streamPack mc mu env blobs).2 = .ok → ∀ id ∈ ids blobs, countId id (streamPack mc mu env blobs).1 = 1) := by
  obtain ⟨⟨t, h1⟩, h2, h3, _⟩ := streamPack_adds mc mu env blobs
  have hperm : (ids (sortBlobs blobs)).Perm (ids blobs) := (sortBlobs_perm blobs).map _
  have hnds : (ids (sortBlobs blobs)).Nodup := hperm.nodup_iff.mpr hnd
  have hsub : (cbIds (streamPack mc mu env blobs).1).Sublist (ids (sortBlobs blobs)) := by
    rw [← h1]; exact List.sublist_append_left _ _
  have hndl : (cbIds (streamPack mc mu env blobs).1).Nodup := List.Nodup.sublist hsub hnds
  refine ⟨?_, ?_, ?_⟩
  · intro c hc
    obtain ⟨e, he, hid, _⟩ := h3 c hc
    rw [hid]; exact List.mem_map_of_mem he
  · intro id
    rw [countId_eq_count]
    exact List.nodup_iff_count.mp hndl id
  · intro hok id hid
    rw [countId_eq_count, h2 hok, hperm.count_eq, hnd.count]
    simp [hid]

/-- **payload_sound** and **fallback_used**. A plaintext handed to the callback is the verified
    content of the blob's copy in this pack (hash checked by `packBlobIterator`, C02) or what the
    fallback loader (`LoadBlob`, verified the same way) returned for that id. An *error* is handed
    to the callback only for a blob whose copy here is damaged (or whose download failed) **and**
    for which the fallback could not deliver an intact copy. -/
theorem payload_sound (mc mu : Nat) (env : Env) (blobs : List Blob) :
    (∀ id p, CB.ok id p ∈ (streamPack mc mu env blobs).1 →
      ∃ e ∈ blobs, e.id = id ∧ (env.copy e = .good p ∨ ∃ f, env.fallback = some f ∧ f id = some p)) ∧
    (∀ id, CB.err id ∈ (streamPack mc mu env blobs).1 →
      recoverable env id = false ∧ ∃ e ∈ blobs, e.id = id ∧ (env.copy e = .damaged ∨ ∃ n, env.dl n = false)) := by
  obtain ⟨_, _, h3, _⟩ := streamPack_adds mc mu env blobs
  constructor
  · intro id p hc
    obtain ⟨e, he, hid, hj⟩ := h3 _ hc
    simp only [CB.id] at hid
    subst hid
    exact ⟨e, he, rfl, hj.imp id (fun h => h.1)⟩
  · intro id hc
    obtain ⟨e, he, hid, hj⟩ := h3 _ hc
    simp only [CB.id] at hid
    subst hid
    exact ⟨hj.1, e, he, rfl, hj.2⟩

/-- if nothing is wrong (all copies intact, all downloads succeed, the callback never fails, no
    overlap), every requested blob is delivered with its plaintext, exactly once, without error -/
theorem all_good (mc mu : Nat) (env : Env) (blobs : List Blob) (content : Nat → Nat)
    (hgood : ∀ b ∈ blobs, env.copy b = .good (content b.id)) (hdl : ∀ n, env.dl n = true)
    (c : CB) (hc : c ∈ (streamPack mc mu env blobs).1) : c = .ok c.id (content c.id) := by
  obtain ⟨_, _, h3, _⟩ := streamPack_adds mc mu env blobs
  obtain ⟨e, he, hid, hj⟩ := h3 c hc
  cases c with
  | ok id p =>
    simp only [CB.id] at hid ⊢
    subst hid
    rcases hj with hj | ⟨_, h | ⟨n, h⟩⟩
    · rw [hgood e he] at hj; injection hj with hj; rw [hj]
    · rw [hgood e he] at h; cases h
    · rw [hdl n] at h; cases h
  | err id =>
    exfalso
    rcases hj.2 with h | ⟨n, h⟩
    · rw [hgood e he] at h; cases h
    · rw [hdl n] at h; cases h

/-! ### duplicate handles in the request -/

def chainEnd : Nat → List Blob → Nat
  | p, [] => p
  | _, b :: rest => chainEnd (b.off + b.len) rest

theorem noOverlap_append (p : Nat) (l : List Blob) (b : Blob) :
    NoOverlap p (l ++ [b]) ↔ NoOverlap p l ∧ chainEnd p l ≤ b.off := by
  induction l generalizing p with
  | nil => simp [NoOverlap, chainEnd]
  | cons a as ih =>
    simp only [List.cons_append, NoOverlap, chainEnd, ih]
    constructor
    · rintro ⟨h1, h2, h3⟩; exact ⟨⟨h1, h2⟩, h3⟩
    · rintro ⟨⟨h1, h2⟩, h3⟩; exact ⟨h1, h2, h3⟩

theorem chainEnd_append (p : Nat) (l : List Blob) (b : Blob) : chainEnd p (l ++ [b]) = b.off + b.len := by
  induction l generalizing p with
  | nil => simp [chainEnd]
  | cons a as ih => simp only [List.cons_append, chainEnd, ih]

theorem noOverlap_prefix (p : Nat) (l1 l2 : List Blob) (h : NoOverlap p (l1 ++ l2)) : NoOverlap p l1 := by
  induction l1 generalizing p with
  | nil => trivial
  | cons a as ih => exact ⟨h.1, ih _ h.2⟩

/-- everything handed to `streamPackPart`, taken together, is free of overlaps: the loop stops
    at the first blob that starts before the end of its predecessor -/
theorem partLoop_chain (mc mu : Nat) (bs cur : List Blob) (lastPos : Nat) (acc : List (List Blob))
    (h1 : NoOverlap 0 (acc.flatten ++ cur))
    (h2 : acc.flatten ++ cur ≠ [] → chainEnd 0 (acc.flatten ++ cur) = lastPos) :
    NoOverlap 0 (partLoop mc mu bs cur lastPos acc).1.flatten := by
  induction bs generalizing cur lastPos acc with
  | nil => simpa [partLoop] using h1
  | cons b rest ih =>
    simp only [partLoop]
    by_cases hov : b.off < lastPos
    · simp only [hov, if_true]
      exact noOverlap_prefix 0 _ _ h1
    · simp only [hov, if_false]
      have hend : chainEnd 0 (acc.flatten ++ cur) ≤ b.off := by
        by_cases hnil : acc.flatten ++ cur = []
        · rw [hnil]; simp [chainEnd]
        · rw [h2 hnil]; omega
      have hnew : NoOverlap 0 (acc.flatten ++ cur ++ [b]) := (noOverlap_append 0 _ b).mpr ⟨h1, hend⟩
      have hce : chainEnd 0 (acc.flatten ++ cur ++ [b]) = b.off + b.len := chainEnd_append 0 _ b
      repeat' split
      all_goals first
        | exact noOverlap_prefix 0 _ _ h1
        | exact ih _ _ _ (by simpa using hnew) (fun _ => by simpa using hce)
        | exact ih _ _ _ (by simpa [List.append_assoc] using hnew) (fun _ => by simpa [List.append_assoc] using hce)

theorem noOverlap_strict (p : Nat) (l : List Blob) (h : NoOverlap p l) (hlen : ∀ b ∈ l, 0 < b.len) :
    l.Pairwise (fun a b => a.off < b.off) ∧ ∀ b ∈ l, p ≤ b.off := by
  induction l generalizing p with
  | nil => simp
  | cons a as ih =>
    have ⟨h1, h2⟩ := ih (a.off + a.len) h.2 (fun b hb => hlen b (List.mem_cons_of_mem _ hb))
    have ha := hlen a List.mem_cons_self
    refine ⟨List.pairwise_cons.mpr ⟨fun x hx => by have := h2 x hx; omega, h1⟩, ?_⟩
    intro b hb
    rcases List.mem_cons.mp hb with rfl | hb
    · exact h.1
    · have := h2 b hb; have := h.1; omega

theorem streamPack_log_parts (mc mu : Nat) (env : Env) (blobs : List Blob) (hne : blobs ≠ []) :
    ∃ t, cbIds (streamPack mc mu env blobs).1 ++ t = ids (partition mc mu blobs).1.flatten := by
  unfold streamPack
  have hie : blobs.isEmpty = false := by simpa using hne
  simp only [hie, Bool.false_eq_true, if_false]
  obtain ⟨new, g1, ⟨t, g2⟩, _, _⟩ := streamParts_adds env 0 (partition mc mu blobs).1 []
  simp only [List.nil_append] at g1
  generalize streamParts env 0 (partition mc mu blobs).1 [] = r at g1 ⊢
  obtain ⟨log, out⟩ := r
  simp only at g1
  subst g1
  cases out <;> first | exact ⟨t, g2⟩ | (cases (partition mc mu blobs).2 <;> exact ⟨t, g2⟩)

/-- **at most once, also with duplicate handles**. If every requested entry has a positive length
    (real blobs have ≥ 32 bytes) and equal ids mean the same entry (what `blobsInPack` produces when
    a handle is passed several times), no id is called back twice — the request runs into the
    overlap error before a blob could be streamed a second time. -/
theorem callback_at_most_once (mc mu : Nat) (env : Env) (blobs : List Blob)
    (hlen : ∀ b ∈ blobs, 0 < b.len) (hsame : ∀ a ∈ blobs, ∀ b ∈ blobs, a.id = b.id → a = b) :
    ∀ id, countId id (streamPack mc mu env blobs).1 ≤ 1 := by
  intro id
  by_cases hne : blobs = []
  · subst hne; simp [streamPack, countId]
  · obtain ⟨t, ht⟩ := streamPack_log_parts mc mu env blobs hne
    obtain ⟨_, _, rem, hp3, _⟩ := parts_partition mc mu blobs hne
    have hmem : ∀ x ∈ (partition mc mu blobs).1.flatten, x ∈ blobs := by
      intro x hx
      have : x ∈ sortBlobs blobs := by rw [← hp3]; exact List.mem_append_left _ hx
      exact (sortBlobs_perm blobs).subset this
    have hchain : NoOverlap 0 (partition mc mu blobs).1.flatten := by
      unfold partition
      cases hs : sortBlobs blobs with
      | nil => simp [NoOverlap]
      | cons b rest => exact partLoop_chain mc mu _ [] b.off [] (by simp [NoOverlap]) (by simp)
    have hstrict := (noOverlap_strict 0 _ hchain (fun b hb => hlen b (hmem b hb))).1
    have hnd : (ids (partition mc mu blobs).1.flatten).Nodup := by
      unfold ids
      rw [List.Nodup, List.pairwise_map]
      refine List.Pairwise.imp_of_mem ?_ hstrict
      intro a b ha hb hlt heq
      have := hsame a (hmem a ha) b (hmem b hb) heq
      subst this; omega
    have hsub : (cbIds (streamPack mc mu env blobs).1).Sublist (ids (partition mc mu blobs).1.flatten) := by
      rw [← ht]; exact List.sublist_append_left _ _
    rw [countId_eq_count]
    exact List.nodup_iff_count.mp (List.Nodup.sublist hsub hnd) id

/-- the transcription meets the executable reading of C43 (`specOK`), with "an intact copy is
    reachable" read as "the fallback loader can deliver it" -/
theorem streamPack_spec (mc mu : Nat) (env : Env) (blobs : List Blob) (hnd : (ids blobs).Nodup) :
    specOK (ids blobs) (recoverable env) true (streamPack mc mu env blobs).1
      ((streamPack mc mu env blobs).2 == .ok) = true := by
  obtain ⟨h1, h2, h3⟩ := callback_once mc mu env blobs hnd
  have hp := (payload_sound mc mu env blobs).2
  simp only [specOK, Bool.and_eq_true, List.all_eq_true, Bool.or_eq_true, Bool.not_eq_true',
    decide_eq_true_eq, Bool.and_true, List.contains_iff_mem]
  refine ⟨⟨⟨h1, fun id _ => h2 id⟩, ?_⟩, ?_⟩
  · by_cases hok : (streamPack mc mu env blobs).2 = .ok
    · right
      intro id hid
      simp [h3 hok id hid]
    · left
      simpa using hok
  · intro c hc
    cases c with
    | ok id p => rfl
    | err id => simp [(hp id hc).1]

/-- `LoadBlobsFromPack`: a handle that is not in the pack fails the call before any callback;
    otherwise it is `streamPack` on the index entries of the handles -/
theorem loadBlobsFromPack_spec (mc mu : Nat) (env : Env) (inPack : Nat → Option Blob) (handles : List Nat) :
    ((∃ h ∈ handles, inPack h = none) → loadBlobsFromPack mc mu env inPack handles = ([], .notInPack)) ∧
    (∀ blobs, handles.mapM inPack = some blobs →
      loadBlobsFromPack mc mu env inPack handles = streamPack mc mu env blobs) := by
  constructor
  · rintro ⟨h, hh, hn⟩
    have : handles.mapM inPack = none := by
      induction handles with
      | nil => cases hh
      | cons a as ih =>
        simp only [List.mapM_cons]
        rcases List.mem_cons.mp hh with rfl | hh
        · simp [hn]
        · cases inPack a with
          | none => rfl
          | some b => simp [ih hh]
    simp [loadBlobsFromPack, this]
  · intro blobs hb
    simp [loadBlobsFromPack, hb]

/-- the copy loop of `loadBlob` (fallback across packs): it returns the plaintext of the first
    intact copy, and fails only if no copy is intact -/
theorem loadBlobCopies_spec (cs : List Copy) :
    (∀ p, loadBlobCopies cs = some p ↔
      ∃ pre rest, cs = pre ++ Copy.good p :: rest ∧ ∀ c ∈ pre, ∀ q, c ≠ Copy.good q) ∧
    (loadBlobCopies cs = none ↔ ∀ c ∈ cs, ∀ q, c ≠ Copy.good q) := by
  induction cs with
  | nil => simp [loadBlobCopies]
  | cons c cs ih =>
    cases c with
    | good q =>
      simp only [loadBlobCopies]
      constructor
      · intro p
        constructor
        · intro h; injection h with h; subst h
          exact ⟨[], cs, rfl, by simp⟩
        · rintro ⟨pre, rest, h, hpre⟩
          cases pre with
          | nil => simp at h; rw [h.1]
          | cons x xs =>
            simp at h
            exact absurd h.1.symm (hpre x List.mem_cons_self q)
      · simp
    | damaged =>
      simp only [loadBlobCopies]
      constructor
      · intro p
        rw [ih.1 p]
        constructor
        · rintro ⟨pre, rest, h, hpre⟩
          exact ⟨.damaged :: pre, rest, by simp [h], by
            intro c hc q
            rcases List.mem_cons.mp hc with rfl | hc
            · simp
            · exact hpre c hc q⟩
        · rintro ⟨pre, rest, h, hpre⟩
          cases pre with
          | nil => simp at h
          | cons x xs =>
            simp at h
            exact ⟨xs, rest, h.2, fun c hc => hpre c (List.mem_cons_of_mem _ hc)⟩
      · rw [ih.2]; simp
    | invalid =>
      simp only [loadBlobCopies]
      constructor
      · intro p
        rw [ih.1 p]
        constructor
        · rintro ⟨pre, rest, h, hpre⟩
          exact ⟨.invalid :: pre, rest, by simp [h], by
            intro c hc q
            rcases List.mem_cons.mp hc with rfl | hc
            · simp
            · exact hpre c hc q⟩
        · rintro ⟨pre, rest, h, hpre⟩
          cases pre with
          | nil => simp at h
          | cons x xs =>
            simp at h
            exact ⟨xs, rest, h.2, fun c hc => hpre c (List.mem_cons_of_mem _ hc)⟩
      · rw [ih.2]; simp

/-- the stored lengths of the copies play no role: whatever the lengths (compressed and
    uncompressed copies of one blob, shorter damaged copy first, …) and whatever buffer the caller
    passed in, `loadBlob` delivers the first intact copy -/
theorem loadBlobSized_eq (cs : List StoredCopy) (bufLen : Nat) :
    loadBlobSized cs bufLen = loadBlobCopies (cs.map (·.state)) := by
  induction cs generalizing bufLen with
  | nil => rfl
  | cons c rest ih =>
    cases hst : c.state with
    | good p => simp [loadBlobSized, loadBlobCopies, hst]
    | damaged => simp [loadBlobSized, loadBlobCopies, hst, ih]
    | invalid => simp [loadBlobSized, loadBlobCopies, hst, ih]

/-- **fallback across packs**: `LoadBlob` fails only if no stored copy is intact -/
theorem loadBlob_finds_intact (cs : List StoredCopy) (bufLen : Nat) (c : StoredCopy) (p : Nat)
    (hc : c ∈ cs) (hg : c.state = .good p) : ∃ q, loadBlobSized cs bufLen = some q := by
  rw [loadBlobSized_eq]
  cases h : loadBlobCopies (cs.map (·.state)) with
  | some q => exact ⟨q, rfl⟩
  | none =>
    exfalso
    have := (loadBlobCopies_spec (cs.map (·.state))).2.mp h c.state (List.mem_map_of_mem hc) p
    exact this hg

/-! ### T1: constants and call order regenerated from the current source -/

/-- `maxChunkSize` is the function-local constant `2 * DefaultPackSize`; its agreement with this
    expression is checked by the correspondence run (download ranges around the limit). -/
def maxChunkSize : Nat := 2 * Restic.Gen.repo_DefaultPackSize

/-- **part_bounds** with the constants of the current source: every download made by
    `streamPackPart` covers blobs at most `maxUnusedRange` apart, and covers less than
    `maxChunkSize` bytes unless it is for a single blob. -/
theorem part_bounds (blobs : List Blob) (hne : blobs ≠ []) :
    ∀ p ∈ (partition maxChunkSize Restic.Gen.repo_maxUnusedRange blobs).1,
      p ≠ [] ∧ GapsOK Restic.Gen.repo_maxUnusedRange p ∧ (2 ≤ p.length → span p < maxChunkSize) :=
  (parts_partition _ _ blobs hne).2.1

/-- the limits are meaningful: skipping a gap is only considered below the chunk limit -/
theorem limits_sane : 0 < Restic.Gen.repo_maxUnusedRange ∧ Restic.Gen.repo_maxUnusedRange < maxChunkSize := by
  decide

/-- in `streamPack` the blobs are sorted before any part is streamed, and the overlap error is
    still raised; `streamPackPart` still downloads before it iterates and still has both fallback
    calls; `LoadBlobsFromPack` resolves the handles (`blobsInPack`) before streaming. -/
theorem call_order :
    Restic.Gen.streamPack_calls.idxOf "blobs.Sort" < Restic.Gen.streamPack_calls.idxOf "streamPackPart" ∧
    "errors.Errorf" ∈ Restic.Gen.streamPack_calls ∧
    Restic.Gen.streamPackPart_calls.idxOf "beLoad" < Restic.Gen.streamPackPart_calls.idxOf "it.Next" ∧
    Restic.Gen.streamPackPart_calls.count "loadBlobFn" = 2 ∧
    Restic.Gen.streamPackPart_calls.count "handleBlobFn" = 2 ∧
    Restic.Gen.LoadBlobsFromPack_calls = ["r.blobsInPack", "r.loadBlobsFromPack"] := by decide

/-! ### Non-vacuity -/

private def b (id off len : Nat) : Blob := ⟨id, off, len⟩
private def envAllGood : Env := { copy := fun e => .good (e.id * 10), dl := fun _ => true, fallback := none, cbFails := fun _ => false }

/-- a gap larger than `mu` and a chunk limit both split; the request is given unsorted -/
example : partition 100 10 [b 3 60 50, b 1 0 20, b 2 25 30, b 4 200 5, b 5 206 98, b 6 304 1] =
    ([[b 1 0 20, b 2 25 30], [b 3 60 50], [b 4 200 5], [b 5 206 98, b 6 304 1]], .done) := by decide
/-- a single blob larger than the chunk limit is its own part -/
example : partition 100 10 [b 1 0 500, b 2 500 10] = ([[b 1 0 500], [b 2 500 10]], .done) := by decide
/-- overlapping request (the same blob twice): error, nothing streamed -/
example : (streamPack 100 10 envAllGood [b 1 0 20, b 2 30 5, b 1 0 20]) = ([], .overlap) := by decide
example : (streamPack 100 10 envAllGood [b 2 30 5, b 1 0 20]) = ([.ok 1 10, .ok 2 20], .ok) := by decide
/-- damaged copy + fallback delivers; failed download of the second part + fallback that fails -/
example : (streamPack 100 10
    { copy := fun e => if e.id = 1 then .damaged else .good 7, dl := fun n => n == 0,
      fallback := some (fun id => if id = 1 then some 11 else none), cbFails := fun _ => false }
    [b 1 0 20, b 2 20 20, b 3 500 20]) = ([.ok 1 11, .ok 2 7, .err 3], .ok) := by decide
example : loadBlobCopies [.damaged, .invalid, .good 5, .good 6] = some 5 := by decide
/-- a short damaged copy first, a longer intact copy second -/
example : loadBlobSized [⟨60, .damaged⟩, ⟨400, .good 5⟩] 0 = some 5 := by decide

end Restic.Props.C43
