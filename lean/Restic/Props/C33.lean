import Restic.Model.RepairIndex
import Restic.Proofs.C33_Rewrite
import Restic.Gen.Source
import Mathlib.Data.List.Nodup
/-!
# C33 — repair index rebuilds an index that describes the stored packs exactly

Theorems about `Restic.Model.RepairIndex` (transcription of `RepairIndex`, `createIndexFromPacks`,
`pack.Size`, `MasterIndex.Rewrite`). All statements hold for every repository state (any number
of packs / index files, any damage expressible in the model: undecodable, duplicated, partial,
split, wrong index files, missing / unreadable / unknown packs) and for every processing order.
-/
namespace Restic.Props.C33
open Restic.Model.RepairIndex Restic.Proofs.C33

/-! ### helper lemmas -/

theorem mem_loadedEntries {idxs : List IdxFile} {x : ID × Entry} :
    x ∈ loadedEntries idxs ↔ ∃ f ∈ idxs, ∃ c, f.content = some c ∧ x ∈ flat c := by
  unfold loadedEntries
  simp only [mem_flatAll, List.mem_filterMap]
  constructor
  · rintro ⟨c, ⟨f, hf, hc⟩, hx⟩; exact ⟨f, hf, c, hc, hx⟩
  · rintro ⟨f, hf, c, hc, hx⟩; exact ⟨c, ⟨f, hf, hc⟩, hx⟩

/-- `MasterIndex.Rewrite` is exact: afterwards the kept and the newly written index files
    describe precisely the old entries of the packs that are not excluded — whatever the order in
    which the old files are processed, whatever duplicates they contain. -/
theorem rewrite_exact (ex : List ID) (old : List IdxFile) (extra : List ID) (hnd : old.Nodup)
    (x : ID × Entry) :
    x ∈ out (rewrite ex old extra) ↔ x.1 ∉ ex ∧ x ∈ loadedEntries old := by
  have inv := rewrite_inv ex old extra hnd
  constructor
  · intro hx
    obtain ⟨h1, f, hf, c, hc, hx'⟩ := inv.sound x hx
    exact ⟨h1, mem_loadedEntries.mpr ⟨f, hf, c, hc, hx'⟩⟩
  · rintro ⟨h1, h2⟩
    obtain ⟨f, hf, c, hc, hx'⟩ := mem_loadedEntries.mp h2
    exact inv.complete f hf c hc x hx' h1

/-- the index files removed by `Rewrite` are the extra obsolete ones and the processed old files
    that were not kept; kept files are old files. -/
theorem rewrite_removed (ex : List ID) (old : List IdxFile) (extra : List ID) (hnd : old.Nodup)
    (i : ID) :
    i ∈ (rewrite ex old extra).obsolete ↔
      i ∈ extra ∨ ∃ f ∈ old, f.content.isSome ∧ f ∉ (rewrite ex old extra).kept ∧ f.id = i :=
  (rewrite_inv ex old extra hnd).obsolete_eq i

theorem mem_fromPacks {tr : List PackFile} {q : ID} {e : Entry} :
    (q, e) ∈ flat (createIndexFromPacks tr) ↔
      ∃ pf ∈ tr, pf.id = q ∧ ∃ es, pf.hdr = some es ∧ e ∈ es := by
  rw [mem_flat]
  unfold createIndexFromPacks
  simp only [List.mem_filterMap, Option.map_eq_some_iff, Prod.mk.injEq]
  constructor
  · rintro ⟨es, ⟨pf, hpf, es', h1, h2, h3⟩, he⟩
    subst h3; exact ⟨pf, hpf, h2, es', h1, he⟩
  · rintro ⟨pf, hpf, h2, es, h1, he⟩
    exact ⟨es, ⟨pf, hpf, es, h1, h2, rfl⟩, he⟩

/-- a pack is read again iff it is unknown to the loaded index or its size does not match -/
def mustRead (r : Repo) (readAll : Bool) (pf : PackFile) : Bool :=
  sizeFromIndex (loadedEntries (plan r readAll).oldIdx) pf.id != some pf.size

theorem mem_toRead {r : Repo} {ra : Bool} {pf : PackFile} :
    pf ∈ (plan r ra).toRead ↔ pf ∈ r.packs ∧ mustRead r ra pf = true := by
  simp [plan, mustRead, List.mem_filter]

theorem mem_notFound {r : Repo} {ra : Bool} {q : ID} :
    q ∈ (plan r ra).notFound ↔
      (∃ e, (q, e) ∈ loadedEntries (plan r ra).oldIdx) ∧ q ∉ r.packs.map (·.id) := by
  simp only [plan, List.mem_filter, List.mem_eraseDups, List.mem_map, Bool.not_eq_true',
    List.contains_eq_mem, decide_eq_false_iff_not, Prod.exists]
  constructor
  · rintro ⟨⟨q', e, h, rfl⟩, h2⟩; exact ⟨⟨e, h⟩, h2⟩
  · rintro ⟨⟨e, h⟩, h2⟩; exact ⟨⟨q, e, h, rfl⟩, h2⟩

theorem oldIdx_nodup {r : Repo} {ra : Bool} (h : (r.idxs.map (·.id)).Nodup) :
    (plan r ra).oldIdx.Nodup := by
  have h' : r.idxs.Nodup := List.Nodup.of_map _ h
  unfold plan
  cases ra
  · exact h'.sublist List.filter_sublist
  · exact List.nodup_nil

/-- Characterisation of everything the index describes after `repair index`. -/
theorem entries_iff (r : Repo) (ra : Bool) (hix : (r.idxs.map (·.id)).Nodup) (q : ID) (e : Entry) :
    (q, e) ∈ (repairIndex r ra).entries ↔
      (∃ pf ∈ r.packs, pf.id = q ∧ mustRead r ra pf = true ∧ ∃ es, pf.hdr = some es ∧ e ∈ es) ∨
      (q ∉ (plan r ra).removePacks ∧ (q, e) ∈ loadedEntries (plan r ra).oldIdx) := by
  have key := rewrite_exact (plan r ra).removePacks (plan r ra).oldIdx (plan r ra).obsolete0
    (oldIdx_nodup hix) (q, e)
  unfold out at key
  unfold Result.entries repairIndex
  simp only [List.mem_append] at key ⊢
  rw [mem_fromPacks]
  constructor
  · rintro ((h | ⟨pf, hpf, h1, h2⟩) | h)
    · exact Or.inr (key.mp (Or.inl h))
    · exact Or.inl ⟨pf, (mem_toRead.mp hpf).1, h1, (mem_toRead.mp hpf).2, h2⟩
    · exact Or.inr (key.mp (Or.inr h))
  · rintro (⟨pf, hpf, h1, h2, h3⟩ | h)
    · exact Or.inl (Or.inr ⟨pf, mem_toRead.mpr ⟨hpf, h2⟩, h1, h3⟩)
    · rcases key.mpr h with h | h
      · exact Or.inl (Or.inl h)
      · exact Or.inr h

/-- a stored pack that is read again is described exactly by its header (nothing if unreadable) -/
theorem reread_pack_exact (r : Repo) (ra : Bool) (hix : (r.idxs.map (·.id)).Nodup)
    (hpk : (r.packs.map (·.id)).Nodup) (pf : PackFile) (hpf : pf ∈ r.packs)
    (hm : mustRead r ra pf = true) (e : Entry) :
    (pf.id, e) ∈ (repairIndex r ra).entries ↔ e ∈ pf.hdr.getD [] := by
  rw [entries_iff r ra hix]
  constructor
  · rintro (⟨pf', hpf', h1, _, es, h3, h4⟩ | ⟨h1, _⟩)
    · have : pf' = pf := List.inj_on_of_nodup_map hpk hpf' hpf h1
      subst this; simp [h3, h4]
    · exfalso; apply h1
      unfold Plan.removePacks
      exact List.mem_append_left _ (List.mem_map.mpr ⟨pf, mem_toRead.mpr ⟨hpf, hm⟩, rfl⟩)
  · intro he
    cases hh : pf.hdr with
    | none => rw [hh] at he; cases he
    | some es => rw [hh] at he; exact Or.inl ⟨pf, hpf, rfl, hm, es, hh, he⟩

/-- a stored pack that is trusted keeps exactly its old entries -/
theorem trusted_pack_kept (r : Repo) (ra : Bool) (hix : (r.idxs.map (·.id)).Nodup)
    (hpk : (r.packs.map (·.id)).Nodup) (pf : PackFile) (hpf : pf ∈ r.packs)
    (hm : mustRead r ra pf = false) (e : Entry) :
    (pf.id, e) ∈ (repairIndex r ra).entries ↔ (pf.id, e) ∈ loadedEntries (plan r ra).oldIdx := by
  rw [entries_iff r ra hix]
  constructor
  · rintro (⟨pf', hpf', h1, h2, _⟩ | ⟨_, h2⟩)
    · have : pf' = pf := List.inj_on_of_nodup_map hpk hpf' hpf h1
      subst this; rw [hm] at h2; cases h2
    · exact h2
  · intro h
    refine Or.inr ⟨?_, h⟩
    unfold Plan.removePacks
    simp only [List.mem_append, List.mem_map, not_or, not_exists, not_and]
    refine ⟨?_, ?_⟩
    · intro pf' hpf' h1
      have hp := (mem_toRead.mp hpf')
      have : pf' = pf := List.inj_on_of_nodup_map hpk hp.1 hpf h1
      subst this; rw [hm] at hp; cases hp.2
    · intro hnf
      exact (mem_notFound.mp hnf).2 (List.mem_map.mpr ⟨pf, hpf, rfl⟩)

/-- nothing is listed for a pack that is not stored -/
theorem missing_pack_none (r : Repo) (ra : Bool) (hix : (r.idxs.map (·.id)).Nodup)
    (q : ID) (hq : q ∉ r.packs.map (·.id)) (e : Entry) : (q, e) ∉ (repairIndex r ra).entries := by
  rw [entries_iff r ra hix]
  rintro (⟨pf, hpf, h1, _⟩ | ⟨h1, h2⟩)
  · exact hq (List.mem_map.mpr ⟨pf, hpf, h1⟩)
  · apply h1
    unfold Plan.removePacks
    exact List.mem_append_right _ (mem_notFound.mpr ⟨⟨e, h2⟩, hq⟩)

/-! ### bridge to the executable predicates -/

theorem mem_entriesOf {ents : List (ID × Entry)} {p : ID} {e : Entry} :
    e ∈ entriesOf ents p ↔ (p, e) ∈ ents := by
  unfold entriesOf
  simp only [List.mem_map, List.mem_filter, beq_iff_eq]
  constructor
  · rintro ⟨⟨q, e'⟩, ⟨h1, h2⟩, h3⟩; simp only at h2 h3; subst h2 h3; exact h1
  · intro h; exact ⟨(p, e), ⟨h, rfl⟩, rfl⟩

theorem sameSet_iff {a b : List Entry} : sameSet a b = true ↔ ∀ e, e ∈ a ↔ e ∈ b := by
  unfold sameSet
  simp only [Bool.and_eq_true, List.all_eq_true, List.contains_eq_mem, decide_eq_true_eq]
  constructor
  · rintro ⟨h1, h2⟩ e; exact ⟨h1 e, h2 e⟩
  · intro h; exact ⟨fun e he => (h e).mp he, fun e he => (h e).mpr he⟩

theorem sizeFromIndex_nil (q : ID) : sizeFromIndex [] q = none := by
  simp [sizeFromIndex]

theorem mustRead_readAll (r : Repo) (pf : PackFile) : mustRead r true pf = true := by
  simp [mustRead, plan, loadedEntries, flatAll, sizeFromIndex_nil]

theorem mustRead_default (r : Repo) (pf : PackFile) : mustRead r false pf = !trustedPack r pf := by
  simp [mustRead, plan, trustedPack, bne]

/-! ### The property theorems -/

/-- **repaired_exact (--read-all-packs)**: whatever the previous index state was, afterwards the
    index lists for every stored pack with a readable header exactly the header entries (type,
    id, true offset, length), nothing for unreadable packs, nothing for packs that are not
    stored; and no pack file was removed. -/
theorem repaired_exact_readall (r : Repo) (hix : (r.idxs.map (·.id)).Nodup)
    (hpk : (r.packs.map (·.id)).Nodup) :
    specExact r (repairIndex r true).entries (r.packs.map (·.id)) = true := by
  unfold specExact
  simp only [Bool.and_eq_true, List.all_eq_true, List.contains_eq_mem, decide_eq_true_eq]
  refine ⟨⟨?_, ?_⟩, ?_⟩
  · intro p hp; exact List.mem_map.mpr ⟨p, hp, rfl⟩
  · intro p hp
    rw [sameSet_iff]; intro e; rw [mem_entriesOf]
    exact reread_pack_exact r true hix hpk p hp (mustRead_readAll r p) e
  · rintro ⟨q, e⟩ hx
    by_cases hq : q ∈ r.packs.map (·.id)
    · exact hq
    · exact absurd hx (missing_pack_none r true hix q hq e)

/-- **repaired_exact (default mode), relative form**: packs the loaded index knows with a
    consistent size keep exactly their old entries; all other stored packs are described exactly
    by their headers; nothing for missing packs; no pack file removed. No hypothesis on the old
    index state. -/
theorem repaired_default (r : Repo) (hix : (r.idxs.map (·.id)).Nodup)
    (hpk : (r.packs.map (·.id)).Nodup) :
    specDefault r (repairIndex r false).entries (r.packs.map (·.id)) = true := by
  unfold specDefault
  simp only [Bool.and_eq_true, List.all_eq_true, List.contains_eq_mem, decide_eq_true_eq]
  refine ⟨⟨?_, ?_⟩, ?_⟩
  · intro p hp; exact List.mem_map.mpr ⟨p, hp, rfl⟩
  · intro p hp
    have hold : (plan r false).oldIdx = r.idxs.filter (·.content.isSome) := by simp [plan]
    split
    · rename_i ht
      rw [sameSet_iff]; intro e; rw [mem_entriesOf, mem_entriesOf, ← hold]
      exact trusted_pack_kept r false hix hpk p hp (by rw [mustRead_default, ht]; rfl) e
    · rename_i ht
      rw [sameSet_iff]; intro e; rw [mem_entriesOf]
      exact reread_pack_exact r false hix hpk p hp (by rw [mustRead_default]; simpa using ht) e
  · rintro ⟨q, e⟩ hx
    by_cases hq : q ∈ r.packs.map (·.id)
    · exact hq
    · exact absurd hx (missing_pack_none r false hix q hq e)

/-- **repaired_exact (default mode)**: if the old entries of every trusted pack are correct
    (the class "decodable but wrong entry with consistent size" is excluded — that one needs
    --read-all-packs), the default mode is exact as well. -/
theorem repaired_exact_default (r : Repo) (hix : (r.idxs.map (·.id)).Nodup)
    (hpk : (r.packs.map (·.id)).Nodup) (htc : trustedCorrect r = true) :
    specExact r (repairIndex r false).entries (r.packs.map (·.id)) = true := by
  have hd := repaired_default r hix hpk
  unfold specDefault at hd
  unfold specExact
  unfold trustedCorrect at htc
  simp only [Bool.and_eq_true, List.all_eq_true, List.contains_eq_mem, decide_eq_true_eq,
    Bool.or_eq_true, Bool.not_eq_true'] at hd htc ⊢
  obtain ⟨⟨h1, h2⟩, h3⟩ := hd
  refine ⟨⟨h1, ?_⟩, h3⟩
  intro p hp
  have h2p := h2 p hp
  rcases htc p hp with ht | ht
  · simpa [ht] using h2p
  · by_cases htp : trustedPack r p = true
    · simp only [htp, if_true] at h2p
      rw [sameSet_iff] at h2p ht ⊢
      intro e; exact (h2p e).trans (ht e)
    · simpa [htp] using h2p

/-- The transcription meets the executable reading of C33 (`specOK`, the predicate the driver
    evaluates on the implementation's output), in both modes. -/
theorem repairIndex_spec (r : Repo) (ra : Bool) (hix : (r.idxs.map (·.id)).Nodup)
    (hpk : (r.packs.map (·.id)).Nodup) :
    specOK r ra (repairIndex r ra).entries (r.packs.map (·.id)) = true := by
  unfold specOK
  cases ra
  · simp only [Bool.false_eq_true, if_false, Bool.and_eq_true, Bool.or_eq_true, Bool.not_eq_true']
    refine ⟨repaired_default r hix hpk, ?_⟩
    by_cases htc : trustedCorrect r = true
    · exact Or.inr (repaired_exact_default r hix hpk htc)
    · exact Or.inl (by simpa using htc)
  · simpa using repaired_exact_readall r hix hpk

/-- **no_pack_removed**: the command's trace contains no pack removal (and no other pack
    mutation: the model has no such event). -/
theorem no_pack_removed (r : Repo) (ra : Bool) :
    ∀ ev ∈ (repairIndex r ra).trace, ∀ id, ev ≠ Ev.removePack id := by
  intro ev hev id heq
  subst heq
  unfold repairIndex at hev
  simp only [List.mem_append, List.mem_map] at hev
  rcases hev with (h | h) | ⟨i, _, h⟩
  · split at h <;> simp at h
  · split at h <;> simp at h
  · cases h

/-! ### crash safety: new index files are written before old ones are removed -/

/-- index store during the run: new files carry no ID (their IDs are SHA-256 values of fresh
    ciphertexts and are never in the removal list), old files are `some id`. -/
abbrev Store := List (Option ID × IdxContent)

def applyEv (s : Store) : Ev → Store
  | .saveIdx c => s ++ [(none, c)]
  | .removeIdx i => s.filter fun f => f.1 != some i
  | .removePack _ => s

def applyAll (s : Store) (t : List Ev) : Store := t.foldl applyEv s

def storeEntries (s : Store) : List (ID × Entry) := flatAll (s.map (·.2))

def isSave : Ev → Bool | .saveIdx _ => true | _ => false
def isRemoveIdx : Ev → Bool | .removeIdx _ => true | _ => false

theorem applyAll_saves (s : Store) (t : List Ev) (h : ∀ e ∈ t, isSave e = true) :
    ∃ n, applyAll s t = s ++ n := by
  induction t generalizing s with
  | nil => exact ⟨[], by simp [applyAll]⟩
  | cons e t ih =>
    have he := h e List.mem_cons_self
    cases e with
    | saveIdx c =>
      obtain ⟨n, hn⟩ := ih (s ++ [(none, c)]) (fun e' he' => h e' (List.mem_cons_of_mem _ he'))
      refine ⟨(none, c) :: n, ?_⟩
      simp only [applyAll, List.foldl_cons, applyEv] at hn ⊢
      rw [hn]; simp
    | removeIdx i => simp [isSave] at he
    | removePack i => simp [isSave] at he

theorem applyAll_removes_sub (s : Store) (t : List Ev) (h : ∀ e ∈ t, isRemoveIdx e = true) :
    ∀ f ∈ applyAll s t, f ∈ s := by
  induction t generalizing s with
  | nil => intro f hf; simpa [applyAll] using hf
  | cons e t ih =>
    intro f hf
    have he := h e List.mem_cons_self
    cases e with
    | removeIdx i =>
      simp only [applyAll, List.foldl_cons, applyEv] at hf
      have := ih (s.filter fun f => f.1 != some i) (fun e' he' => h e' (List.mem_cons_of_mem _ he')) f hf
      exact (List.mem_filter.mp this).1
    | saveIdx c => simp [isRemoveIdx] at he
    | removePack i => simp [isRemoveIdx] at he

/-- removing more files only shrinks the store: the final store is contained in every
    intermediate store of the removal phase -/
theorem applyAll_removes_antitone (s : Store) (t1 t2 : List Ev)
    (h2 : ∀ e ∈ t2, isRemoveIdx e = true) :
    ∀ f ∈ applyAll s (t1 ++ t2), f ∈ applyAll s t1 := by
  intro f hf
  have : applyAll s (t1 ++ t2) = applyAll (applyAll s t1) t2 := by simp [applyAll, List.foldl_append]
  rw [this] at hf
  exact applyAll_removes_sub _ t2 h2 f hf

theorem storeEntries_mono {a b : Store} (h : ∀ f ∈ a, f ∈ b) : ∀ x ∈ storeEntries a, x ∈ storeEntries b := by
  intro x hx
  unfold storeEntries at *
  rw [mem_flatAll] at *
  obtain ⟨c, hc, hx⟩ := hx
  obtain ⟨f, hf, rfl⟩ := List.mem_map.mp hc
  exact ⟨f.2, List.mem_map.mpr ⟨f, h f hf, rfl⟩, hx⟩

/-- **repair_prefix_safe** (general form): for every trace of the shape "index saves, then index
    removals" and every crash point `k`, the index files present after the first `k` operations
    describe everything the initial files described, or everything the final files describe.
    So an entry that is valid before and after the repair is never missing in between. -/
theorem prefix_safe (s0 : Store) (saves removes : List Ev)
    (hs : ∀ e ∈ saves, isSave e = true) (hr : ∀ e ∈ removes, isRemoveIdx e = true) (k : Nat) :
    (∀ x ∈ storeEntries s0, x ∈ storeEntries (applyAll s0 ((saves ++ removes).take k))) ∨
    (∀ x ∈ storeEntries (applyAll s0 (saves ++ removes)),
        x ∈ storeEntries (applyAll s0 ((saves ++ removes).take k))) := by
  by_cases hk : k ≤ saves.length
  · left
    have : (saves ++ removes).take k = saves.take k := by
      rw [List.take_append_of_le_length hk]
    rw [this]
    obtain ⟨n, hn⟩ := applyAll_saves s0 (saves.take k) (fun e he => hs e (List.mem_of_mem_take he))
    rw [hn]
    exact storeEntries_mono (fun f hf => List.mem_append_left _ hf)
  · right
    have hk' : saves.length ≤ k := by omega
    have h1 : (saves ++ removes).take k = saves ++ removes.take (k - saves.length) := by
      rw [List.take_append]
      rw [List.take_of_length_le hk']
    have h2 : saves ++ removes = (saves ++ removes.take (k - saves.length)) ++ removes.drop (k - saves.length) := by
      rw [List.append_assoc, List.take_append_drop]
    rw [h1]
    apply storeEntries_mono
    intro f hf
    rw [h2] at hf
    exact applyAll_removes_antitone s0 _ _ (fun e he => hr e (List.mem_of_mem_drop he)) f hf

/-- the model's trace has that shape: -/
theorem model_trace_shape (r : Repo) (ra : Bool) :
    ∃ saves removes, (repairIndex r ra).trace = saves ++ removes ∧
      (∀ e ∈ saves, isSave e = true) ∧ (∀ e ∈ removes, isRemoveIdx e = true) := by
  refine ⟨_, _, rfl, ?_, ?_⟩
  · intro e he
    simp only [List.mem_append] at he
    rcases he with h | h <;> (split at h <;> simp at h <;> (subst h; rfl))
  · intro e he
    obtain ⟨i, _, rfl⟩ := List.mem_map.mp he; rfl

/-- **repair_prefix_safe** for the transcription: at every crash point of `repair index` the
    stored index files describe everything they described before the command, or everything
    they describe after it. -/
theorem repair_prefix_safe (r : Repo) (ra : Bool) (s0 : Store) (k : Nat) :
    (∀ x ∈ storeEntries s0, x ∈ storeEntries (applyAll s0 ((repairIndex r ra).trace.take k))) ∨
    (∀ x ∈ storeEntries (applyAll s0 (repairIndex r ra).trace),
        x ∈ storeEntries (applyAll s0 ((repairIndex r ra).trace.take k))) := by
  obtain ⟨saves, removes, h, hs, hr⟩ := model_trace_shape r ra
  rw [h]; exact prefix_safe s0 saves removes hs hr k

/-- the acceptor used on *recorded* traces of the real command characterises the same shape:
    an accepted trace is index saves followed by index removals and mutates nothing else. -/
theorem accept_shape (t : List TEv) (h : acceptTrace t = true) :
    ∃ saves removes, t = saves ++ removes ∧
      (∀ e ∈ saves, ∃ i, e = TEv.saveIndex i) ∧ (∀ e ∈ removes, ∃ i, e = TEv.removeIndex i) := by
  induction t with
  | nil => exact ⟨[], [], rfl, by simp, by simp⟩
  | cons e t ih =>
    cases e with
    | saveIndex i =>
      simp only [acceptTrace] at h
      obtain ⟨s, rm, h1, h2, h3⟩ := ih h
      refine ⟨TEv.saveIndex i :: s, rm, by simp [h1], ?_, h3⟩
      intro e he
      rcases List.mem_cons.mp he with rfl | he
      · exact ⟨i, rfl⟩
      · exact h2 e he
    | removeIndex i =>
      simp only [acceptTrace, List.all_eq_true] at h
      refine ⟨[], TEv.removeIndex i :: t, rfl, by simp, ?_⟩
      intro e he
      rcases List.mem_cons.mp he with rfl | he
      · exact ⟨i, rfl⟩
      · have := h e he
        cases e with
        | removeIndex j => exact ⟨j, rfl⟩
        | saveIndex j => simp at this
        | other w => simp at this
    | other w => simp [acceptTrace] at h

/-! ### the trace realises the result -/

/-- the stored index files as a store: undecodable files describe nothing -/
def storeOf (r : Repo) : Store := r.idxs.map fun f => (some f.id, f.content.getD [])

theorem applyAll_append (s : Store) (a b : List Ev) : applyAll s (a ++ b) = applyAll (applyAll s a) b := by
  simp [applyAll, List.foldl_append]

theorem applyAll_removeIds (ids : List ID) : ∀ (s : Store),
    applyAll s (ids.map Ev.removeIdx) = s.filter (fun f => ids.all fun i => f.1 != some i) := by
  induction ids with
  | nil => intro s; simp [applyAll]
  | cons i ids ih =>
    intro s
    simp only [List.map_cons, applyAll, List.foldl_cons, applyEv]
    have := ih (s.filter fun f => f.1 != some i)
    simp only [applyAll] at this
    rw [this, List.filter_filter]
    congr 1
    funext f
    simp [Bool.and_comm]

theorem mem_storeEntries {s : Store} {x : ID × Entry} :
    x ∈ storeEntries s ↔ ∃ f ∈ s, x ∈ flat f.2 := by
  unfold storeEntries
  rw [mem_flatAll]
  constructor
  · rintro ⟨c, hc, hx⟩
    obtain ⟨f, hf, rfl⟩ := List.mem_map.mp hc
    exact ⟨f, hf, hx⟩
  · rintro ⟨f, hf, hx⟩
    exact ⟨f.2, List.mem_map.mpr ⟨f, hf, rfl⟩, hx⟩

theorem flat_nil_mem (x : ID × Entry) : x ∉ flat [] := by simp [flat]

/-- **the trace realises the result**: applying the command's trace (saves, then removals) to the
    stored index files leaves index files that describe exactly `Result.entries`. Together with
    `repairIndex_spec` and `repair_prefix_safe`: the final state is the specified one and every
    crash prefix describes the initial or that final content. -/
theorem trace_realises_result (r : Repo) (ra : Bool) (hix : (r.idxs.map (·.id)).Nodup) (x : ID × Entry) :
    x ∈ storeEntries (applyAll (storeOf r) (repairIndex r ra).trace) ↔ x ∈ (repairIndex r ra).entries := by
  have hnd := oldIdx_nodup (ra := ra) hix
  have inv := rewrite_inv (plan r ra).removePacks (plan r ra).oldIdx (plan r ra).obsolete0 hnd
  have hinj : ∀ f ∈ r.idxs, ∀ g ∈ r.idxs, f.id = g.id → f = g := fun f hf g hg h =>
    List.inj_on_of_nodup_map hix hf hg h
  have hold_sub : ∀ f ∈ (plan r ra).oldIdx, f ∈ r.idxs ∧ f.content.isSome := by
    intro f hf
    cases ra
    · simpa [plan, List.mem_filter] using hf
    · simp [plan] at hf
  have hobs0 : ∀ f ∈ r.idxs, f ∉ (plan r ra).oldIdx → f.id ∈ (plan r ra).obsolete0 := by
    intro f hf hno
    cases ra
    · simp only [plan, Bool.false_eq_true, if_false, List.mem_filter, not_and] at hno
      simp only [plan, Bool.false_eq_true, if_false, List.mem_map, List.mem_filter]
      refine ⟨f, ⟨hf, ?_⟩, rfl⟩
      cases hc : f.content with
      | none => rfl
      | some c => exact absurd (by simp [hc]) (hno hf)
    · simp only [plan, if_true, List.mem_map]; exact ⟨f, hf, rfl⟩
  have hobs0' : ∀ i ∈ (plan r ra).obsolete0, ∀ f ∈ (plan r ra).oldIdx, f.id ≠ i := by
    intro i hi f hf heq
    cases ra
    · simp only [plan, Bool.false_eq_true, if_false, List.mem_map, List.mem_filter] at hi hf
      obtain ⟨g, ⟨hg, hgn⟩, rfl⟩ := hi
      have := hinj f hf.1 g hg heq
      subst this
      cases hc : f.content with
      | none => simp [hc] at hf
      | some c => simp [hc] at hgn
    · simp [plan] at hf
  -- shape of the final store
  unfold repairIndex
  simp only
  rw [applyAll_append, applyAll_removeIds]
  rw [mem_storeEntries]
  unfold Result.entries
  simp only [List.mem_append, mem_flatAll, List.mem_filterMap, List.mem_filter, List.all_eq_true,
    bne_iff_ne, ne_eq]
  constructor
  · rintro ⟨f, ⟨hf, hkeep⟩, hx⟩
    -- f is in the store after the saves
    have hsaves : f ∈ storeOf r ∨ f = (none, createIndexFromPacks (plan r ra).toRead) ∨
        f = (none, (rewrite (plan r ra).removePacks (plan r ra).oldIdx (plan r ra).obsolete0).newIndex) := by
      have : ∀ (s : Store) (c : IdxContent) (g : Option ID × IdxContent),
          g ∈ applyAll s (if c.isEmpty then [] else [Ev.saveIdx c]) → g ∈ s ∨ g = (none, c) := by
        intro s c g hg
        split at hg
        · exact Or.inl (by simpa [applyAll] using hg)
        · simpa [applyAll, applyEv] using hg
      rw [applyAll_append] at hf
      rcases this _ _ _ hf with h | h
      · rcases this _ _ _ h with h' | h'
        · exact Or.inl h'
        · exact Or.inr (Or.inl h')
      · exact Or.inr (Or.inr h)
    rcases hsaves with h | h | h
    · -- an old file that survived the removals: it was kept
      unfold storeOf at h
      obtain ⟨g, hg, rfl⟩ := List.mem_map.mp h
      left; left
      have hgold : g ∈ (plan r ra).oldIdx := by
        apply Classical.byContradiction
        intro hno
        have := (inv.obsolete_eq g.id).mpr (Or.inl (hobs0 g hg hno))
        exact hkeep g.id this rfl
      have hgkept : g ∈ (rewrite (plan r ra).removePacks (plan r ra).oldIdx (plan r ra).obsolete0).kept := by
        apply Classical.byContradiction
        intro hno
        have := (inv.obsolete_eq g.id).mpr (Or.inr ⟨g, hgold, (hold_sub g hgold).2, hno, rfl⟩)
        exact hkeep g.id this rfl
      cases hc : g.content with
      | none => simp only [hc, Option.getD_none] at hx; exact absurd hx (flat_nil_mem x)
      | some c => simp only [hc, Option.getD_some] at hx; exact ⟨c, ⟨g, hgkept, hc⟩, hx⟩
    · subst h; exact Or.inl (Or.inr hx)
    · subst h; exact Or.inr hx
  · intro hx
    have hsub : ∀ (s : Store) (c : IdxContent) (g : Option ID × IdxContent),
        (g ∈ s ∨ (g = (none, c) ∧ ¬ c.isEmpty)) → g ∈ applyAll s (if c.isEmpty then [] else [Ev.saveIdx c]) := by
      intro s c g hg
      split
      · rename_i he
        rcases hg with hg | ⟨_, hne⟩
        · simpa [applyAll] using hg
        · exact absurd he hne
      · rcases hg with hg | ⟨hg, _⟩
        · simp [applyAll, applyEv, hg]
        · simp [applyAll, applyEv, hg]
    rcases hx with (⟨c, ⟨g, hgk, hc⟩, hx⟩ | hx) | hx
    · have hgold := inv.kept_sub g hgk
      refine ⟨(some g.id, g.content.getD []), ⟨?_, ?_⟩, by simpa [hc] using hx⟩
      · rw [applyAll_append]
        apply hsub; left; apply hsub; left
        exact List.mem_map.mpr ⟨g, (hold_sub g hgold).1, rfl⟩
      · intro i hi heq
        simp only [Option.some.injEq] at heq
        rcases (inv.obsolete_eq i).mp hi with h0 | ⟨g', hg', _, hnk, hid⟩
        · exact hobs0' i h0 g hgold heq
        · have : g = g' := hinj g (hold_sub g hgold).1 g' (hold_sub g' hg').1 (heq.trans hid.symm)
          subst this; exact hnk hgk
    · have hne : ¬ (createIndexFromPacks (plan r ra).toRead).isEmpty := by
        intro he
        have : createIndexFromPacks (plan r ra).toRead = [] := by simpa using he
        rw [this] at hx; exact flat_nil_mem x hx
      refine ⟨(none, createIndexFromPacks (plan r ra).toRead), ⟨?_, by simp⟩, hx⟩
      rw [applyAll_append]
      apply hsub; left; apply hsub; right; exact ⟨rfl, hne⟩
    · have hne : ¬ (rewrite (plan r ra).removePacks (plan r ra).oldIdx (plan r ra).obsolete0).newIndex.isEmpty := by
        intro he
        have : (rewrite (plan r ra).removePacks (plan r ra).oldIdx (plan r ra).obsolete0).newIndex = [] := by simpa using he
        rw [this] at hx; exact flat_nil_mem x hx
      refine ⟨(none, _), ⟨?_, by simp⟩, hx⟩
      rw [applyAll_append]
      apply hsub; right; exact ⟨rfl, hne⟩


/-! ### T1: call orders regenerated from the current source -/

/-- `RepairIndex`: packs are listed and the new index is created from pack headers before the old
    index files are rewritten/removed; `RepairIndex` itself removes nothing. -/
theorem repairIndex_call_order :
    Restic.Gen.RepairIndex_calls.idxOf "repo.createIndexFromPacks" <
      Restic.Gen.RepairIndex_calls.idxOf "rewriteIndexFiles"
    ∧ "rewriteIndexFiles" ∈ Restic.Gen.RepairIndex_calls
    ∧ Restic.Gen.RepairIndex_calls.all (fun c => !(c == "restic.ParallelRemove") && !(c == "repo.RemoveUnpacked")
        && !(c == "repo.removeUnpacked") && !(c == "repo.be.Remove")) = true := by decide

/-- `createIndexFromPacks` flushes (saves) the new index before returning. -/
theorem createIndexFromPacks_flushes : "r.flush" ∈ Restic.Gen.createIndexFromPacks_calls := by decide

/-- `MasterIndex.Rewrite`: every `SaveIndex` is joined (`wg.Wait`) before `ParallelRemove`, and
    `ParallelRemove` is the only removal. -/
theorem rewrite_call_order :
    Restic.Gen.Rewrite_calls.idxOf "idx.SaveIndex" < Restic.Gen.Rewrite_calls.idxOf "wg.Wait"
    ∧ Restic.Gen.Rewrite_calls.idxOf "wg.Wait" < Restic.Gen.Rewrite_calls.idxOf "restic.ParallelRemove"
    ∧ "restic.ParallelRemove" ∈ Restic.Gen.Rewrite_calls
    ∧ (Restic.Gen.Rewrite_calls.filter (· == "restic.ParallelRemove")).length = 1 := by decide

/-! ### Non-vacuity: concrete damaged repositories -/

def e1 : Entry := ⟨0, "b1", 0, 100, 0⟩
def e2 : Entry := ⟨0, "b2", 100, 50, 0⟩
def e3 : Entry := ⟨1, "t1", 0, 70, 200⟩
/-- p1: healthy but only partially indexed (size mismatch); p2: trusted; p3: unindexed and
    unreadable; index i2 undecodable; index entries for the missing pack "gone". -/
def exRepo : Repo :=
  { packs := [⟨"p1", 36 + 100 + 37 + 50 + 37, some [e1, e2]⟩, ⟨"p2", 36 + 70 + 41, some [e3]⟩, ⟨"p3", 10, none⟩],
    idxs := [⟨"i1", some [("p1", [e1]), ("p2", [e3]), ("gone", [e2])], false⟩, ⟨"i2", none, false⟩] }

example : (repairIndex exRepo false).entries = [("p1", e1), ("p1", e2), ("p2", e3)] := by decide
example : (repairIndex exRepo false).removed = ["i2", "i1"] := by decide
example : (repairIndex exRepo true).entries = [("p1", e1), ("p1", e2), ("p2", e3)] := by decide
example : specOK exRepo false (repairIndex exRepo false).entries ["p1", "p2", "p3"] = true := by decide
example : trustedCorrect exRepo = true := by decide
/-- the hypotheses of the theorems are satisfiable by this damaged state -/
example : (exRepo.idxs.map (·.id)).Nodup ∧ (exRepo.packs.map (·.id)).Nodup := by decide
/-- twin packs: two distinct, readable packs with an identical blob layout (two clients backing up
    the same small file), described by two old index files. The de-duplication key of `Rewrite`
    (`PackBlobsHash`) includes the pack ID, so both packs stay described — in the model by
    `rewrite_exact` / `trusted_pack_kept` for every state; here the concrete instance. -/
def twinRepo : Repo :=
  { packs := [⟨"pA", 36 + 100 + 37, some [e1]⟩, ⟨"pB", 36 + 100 + 37, some [e1]⟩],
    idxs := [⟨"i1", some [("pA", [e1])], false⟩, ⟨"i2", some [("pB", [e1])], false⟩] }
example : (repairIndex twinRepo false).entries = [("pA", e1), ("pB", e1)] := by decide
example : specOK twinRepo false (repairIndex twinRepo false).entries ["pA", "pB"] = true := by decide
example : specOK twinRepo false [("pA", e1)] ["pA", "pB"] = false := by decide

/-- the spec is not trivially true: leaving the old index untouched violates it -/
example : specOK exRepo false [("p1", e1), ("p2", e3), ("gone", e2)] ["p1", "p2", "p3"] = false := by decide

end Restic.Props.C33
