import Restic.Model.DryRun
import Restic.Proofs.BeFiles
import Restic.Gen.Source
/-!
# C39 — dry runs and lock-free reads never modify the repository

Theorems about `Restic.Model.DryRun`: the `dryrun.Backend` wrapper, `internalOpenWithLocked`, and the
table of `dryRun` arguments the commands pass. For **all** operation sequences a command may issue.

Lock files are the documented exception: `forget --dry-run` / `prune --dry-run` *without*
`--no-lock` open the repository locked (`--no-lock` is only accepted together with `--dry-run`);
they save one lock file and remove it again, and refrain from writing by their own `if !DryRun`
guards (`guardedOps`). The before/after claim covers all files, the no-write claim all non-lock
files; with `--no-lock` there is no write at all.
-/
namespace Restic.Props.C39
open Restic.Model.BeFiles Restic.Model.DryRun Restic.Proofs.BeFiles

/-! ## the wrapper -/

/-- `dry_no_events`, one operation: whatever the repository asks of a `dryrun.Backend`, only
    list/load/stat reach the wrapped backend -/
theorem dryForward_readonly (op : Op) : ∀ e ∈ dryForward op, e.mutating = false := by
  cases op <;> intro e he <;> simp only [dryForward, List.mem_singleton, List.not_mem_nil] at he <;>
    subst he <;> rfl

/-- **dry_no_events**: for every sequence of operations -/
theorem dry_no_events (ops : List Op) : ∀ e ∈ ops.flatMap dryForward, e.mutating = false := by
  intro e he
  obtain ⟨op, _, h⟩ := List.mem_flatMap.mp he
  exact dryForward_readonly op e h

/-- hence the wrapped backend's content never changes -/
theorem dry_state_unchanged (st : State) (ops : List Op) : applyAll st (ops.flatMap dryForward) = st :=
  applyAll_readonly _ st (dry_no_events ops)

/-- reads are not filtered: a dry run sees the repository as it is -/
theorem dry_reads_pass (op : Op) (h : op.isRead = true) : dryForward op = plainForward op := by
  cases op <;> first | rfl | cases h

theorem plainForward_read (op : Op) (h : op.isRead = true) : ∀ e ∈ plainForward op, e.mutating = false := by
  rw [← dry_reads_pass op h]; exact dryForward_readonly op

/-! ## opening in dry-run mode (`repo.SetDryRun()`, no lock) -/

theorem noWrites_iff (evs : List Ev) : noWrites evs = true ↔ ∀ e ∈ evs, e.mutating = false := by
  unfold noWrites
  rw [List.all_eq_true]
  constructor
  · intro h e he; simpa using h e he
  · intro h e he; simp [h e he]

/-- **nolock_readonly**: when `internalOpenWithLocked` gets `dryRun = true`, nothing but reads
    reaches the backend, whatever the command does afterwards — no lock file either. Assumes only
    that `OpenRepository` itself reads (`hopen`; observed in every correspondence case). -/
theorem open_dry_no_writes (openReads lockReads : List Ev) (lockH : Handle) (lockC : Content) (ops : List Op)
    (hopen : ∀ e ∈ openReads, e.mutating = false) :
    noWrites (openAndRun true openReads lockH lockC lockReads ops) = true := by
  rw [noWrites_iff]
  intro e he
  simp only [openAndRun, Bool.not_true, Bool.false_eq_true, if_false, List.mem_append] at he
  rcases he with he | he
  · exact hopen e he
  · exact dry_no_events ops e he

theorem open_dry_state (st : State) (openReads lockReads : List Ev) (lockH : Handle) (lockC : Content) (ops : List Op)
    (hopen : ∀ e ∈ openReads, e.mutating = false) :
    applyAll st (openAndRun true openReads lockH lockC lockReads ops) = st :=
  applyAll_readonly _ st ((noWrites_iff _).mp (open_dry_no_writes openReads lockReads lockH lockC ops hopen))

/-! ## opening locked, command guards itself (forget / prune --dry-run without --no-lock) -/

theorem guarded_dry_reads (reads writes : List Op) (hr : ∀ op ∈ reads, op.isRead = true) :
    ∀ e ∈ (guardedOps true reads writes).flatMap plainForward, e.mutating = false := by
  intro e he
  simp only [guardedOps, Bool.not_true, Bool.false_eq_true, if_false, List.append_nil] at he
  obtain ⟨op, hop, h⟩ := List.mem_flatMap.mp he
  exact plainForward_read op (hr op hop) e h

theorem noDataWrites_iff (evs : List Ev) :
    noDataWrites evs = true ↔ ∀ e ∈ evs, e.mutating = false ∨ isLock e = true := by
  unfold noDataWrites
  rw [List.all_eq_true]
  constructor
  · intro h e he
    have := h e he
    cases hm : e.mutating <;> simp_all
  · intro h e he
    rcases h e he with h1 | h1 <;> simp [h1]

/-- a locked dry run writes the lock file and nothing else -/
theorem open_locked_dry_no_data_writes (openReads lockReads : List Ev) (lockH : Handle) (lockC : Content)
    (reads writes : List Op) (hl : lockH.t = .lock)
    (hopen : ∀ e ∈ openReads, e.mutating = false) (hlr : ∀ e ∈ lockReads, e.mutating = false)
    (hr : ∀ op ∈ reads, op.isRead = true) :
    noDataWrites (openAndRun false openReads lockH lockC lockReads (guardedOps true reads writes)) = true := by
  rw [noDataWrites_iff]
  intro e he
  simp only [openAndRun, Bool.not_false, if_true, List.mem_append, List.mem_singleton] at he
  rcases he with he | ((he | he) | he) | he
  · exact Or.inl (hopen e he)
  · exact Or.inl (hlr e he)
  · subst he; right; simp [isLock, Ev.target, hl]
  · exact Or.inl (guarded_dry_reads reads writes hr e he)
  · subst he; right; simp [isLock, Ev.target, hl]

theorem get_erase_put_fresh (st : State) (l : Handle) (c : Content) (hf : get st l = none) (h : Handle) :
    get (erase (put st l c) l) h = get st h := by
  by_cases hh : h = l
  · subst hh; rw [get_erase_same, hf]
  · rw [get_erase_ne _ _ _ hh, get_put_ne _ _ _ _ hh]

/-- and leaves every file as it was (the lock file it created is removed again) -/
theorem open_locked_dry_state (st : State) (openReads lockReads : List Ev) (lockH : Handle) (lockC : Content)
    (reads writes : List Op) (hfresh : get st lockH = none)
    (hopen : ∀ e ∈ openReads, e.mutating = false) (hlr : ∀ e ∈ lockReads, e.mutating = false)
    (hr : ∀ op ∈ reads, op.isRead = true) (h : Handle) :
    get (applyAll st (openAndRun false openReads lockH lockC lockReads (guardedOps true reads writes))) h = get st h := by
  simp only [openAndRun, Bool.not_false, if_true]
  rw [applyAll_append, applyAll_readonly openReads st hopen, applyAll_append, applyAll_append, applyAll_append,
    applyAll_readonly lockReads st hlr]
  have e1 : applyAll st [Ev.save lockH lockC] = put st lockH lockC := rfl
  rw [e1, applyAll_readonly _ _ (guarded_dry_reads reads writes hr)]
  have e2 : applyAll (put st lockH lockC) [Ev.remove lockH] = erase (put st lockH lockC) lockH := rfl
  rw [e2]
  exact get_erase_put_fresh st lockH lockC hfresh h

/-! ## the plumbing table -/

/-- every invocation the property speaks about is either opened behind the dry-run wrapper, or is
    `forget`/`prune --dry-run` without `--no-lock` (the documented lock exception) -/
theorem scope_modes (c : Cmd) (f : Flags) (hs : inScope c f = true) :
    openArg c f = some true ∨
    ((c = .forget ∨ c = .prune) ∧ f.dryRun = true ∧ f.noLock = false ∧ openArg c f = some false) := by
  obtain ⟨d, n⟩ := f
  cases c <;> cases d <;> cases n <;> simp_all [inScope, openArg]

/-- with `--no-lock`, every invocation in scope runs behind the wrapper: no lock file, no write -/
theorem nolock_wrapped (c : Cmd) (f : Flags) (hs : inScope c f = true) (hn : f.noLock = true) :
    openArg c f = some true := by
  rcases scope_modes c f hs with h | ⟨_, _, h, _⟩
  · exact h
  · rw [hn] at h; cases h

/-- `--no-lock` without `--dry-run` is refused by forget and prune before the repository is opened -/
theorem nolock_needs_dryrun (f : Flags) (hn : f.noLock = true) (hd : f.dryRun = false) :
    openArg .forget f = none ∧ openArg .prune f = none := by
  simp [openArg, hn, hd]

theorem sameState_of_get (a b : State) (h : ∀ x, get b x = get a x) : sameState a b = true := by
  unfold sameState
  simp only [Bool.and_eq_true, List.all_eq_true, beq_iff_eq]
  exact ⟨fun p _ => h p.1, fun p _ => (h p.1).symm⟩

/-- **Main theorem.** For every command and flag combination in scope, every repository state,
    every sequence of operations the command issues (arbitrary when it runs behind the wrapper;
    reads plus guarded writes for the locked dry runs of forget/prune), the trace and the resulting
    state satisfy the executable statement `specOK` of C39. -/
theorem dry_run_spec (c : Cmd) (f : Flags) (hs : inScope c f = true) (d : Bool) (hd : openArg c f = some d)
    (st : State) (openReads lockReads : List Ev) (lockH : Handle) (lockC : Content)
    (hl : lockH.t = .lock) (hfresh : get st lockH = none)
    (hopen : ∀ e ∈ openReads, e.mutating = false) (hlr : ∀ e ∈ lockReads, e.mutating = false)
    (ops reads writes : List Op) (hr : ∀ op ∈ reads, op.isRead = true) :
    let cmdOps := if d then ops else guardedOps f.dryRun reads writes
    let evs := openAndRun d openReads lockH lockC lockReads cmdOps
    specOK c f st (applyAll st evs) evs = true := by
  intro cmdOps evs
  rcases scope_modes c f hs with h | ⟨_, hdry, hnl, h⟩
  · -- behind the wrapper
    rw [h] at hd
    have hd' : d = true := (Option.some.inj hd).symm
    subst hd'
    have hw : noWrites evs = true := open_dry_no_writes openReads lockReads lockH lockC cmdOps hopen
    have hst : applyAll st evs = st := open_dry_state st openReads lockReads lockH lockC cmdOps hopen
    have hnd : noDataWrites evs = true := by
      rw [noDataWrites_iff]; intro e he; exact Or.inl ((noWrites_iff evs).mp hw e he)
    unfold specOK
    simp [hs, hst, hw, hnd, h, sameState_of_get st st (fun _ => rfl)]
  · -- locked dry run of forget / prune
    rw [h] at hd
    have hd' : d = false := (Option.some.inj hd).symm
    subst hd'
    have hops : cmdOps = guardedOps true reads writes := by simp [cmdOps, hdry]
    have hnd : noDataWrites evs = true := by
      simp only [evs, hops]
      exact open_locked_dry_no_data_writes openReads lockReads lockH lockC reads writes hl hopen hlr hr
    have hst : sameState st (applyAll st evs) = true := by
      apply sameState_of_get
      intro x
      simp only [evs, hops]
      exact open_locked_dry_state st openReads lockReads lockH lockC reads writes hfresh hopen hlr hr x
    unfold specOK
    simp [hs, hst, hnd, h, hnl]

/-! ## ties to the current source (T1) -/

/-- the calls a method of `dryrun.Backend` forwards to the wrapped backend `be.b` -/
def forwarded (calls : List String) : List String :=
  calls.filter (fun c => c ∈ ["be.b.Save", "be.b.Remove", "be.b.Delete", "be.b.List", "be.b.Load", "be.b.Stat",
    "be.b.Warmup", "be.b.WarmupWait"])

def evCall : Ev → String
  | .save _ _ => "be.b.Save"
  | .remove _ => "be.b.Remove"
  | .load _ => "be.b.Load"
  | .stat _ => "be.b.Stat"
  | .list _ => "be.b.List"

/-- the model's `dryForward` forwards exactly what the source's methods forward: Save, Remove,
    Delete, Warmup call nothing on `be.b`; List, Load, Stat call the same method once -/
theorem dry_wrapper_matches_source (h : Handle) (c : Content) (t : FType) :
    (dryForward (.save h c)).map evCall = forwarded Restic.Gen.C39_dry_Save_calls ∧
    (dryForward (.remove h)).map evCall = forwarded Restic.Gen.C39_dry_Remove_calls ∧
    (dryForward .delete).map evCall = forwarded Restic.Gen.C39_dry_Delete_calls ∧
    (dryForward .warmup).map evCall = forwarded Restic.Gen.C39_dry_Warmup_calls ∧
    (dryForward (.list t)).map evCall = forwarded Restic.Gen.C39_dry_List_calls ∧
    (dryForward (.load h)).map evCall = forwarded Restic.Gen.C39_dry_Load_calls ∧
    (dryForward (.stat h)).map evCall = forwarded Restic.Gen.C39_dry_Stat_calls := by
  refine ⟨?_, ?_, ?_, ?_, ?_, ?_, ?_⟩ <;> simp only [dryForward, List.map_nil, List.map_cons, evCall] <;> decide

/-- `internalOpenWithLocked`: `OpenRepository` first; one branch locks, the other calls
    `repo.SetDryRun`, which wraps the backend with `dryrun.New`; nothing else touches the repository
    before the command code gets it -/
theorem open_plumbing :
    Restic.Gen.C39_internalOpenWithLocked_calls.filter (fun c => c ≠ "printer.P")
      = ["global.OpenRepository", "repository.LockRepo", "repo.SetDryRun"] ∧
    Restic.Gen.C39_SetDryRun_calls = ["dryrun.New"] ∧
    Restic.Gen.C39_openWithReadLock_calls = ["internalOpenWithLocked"] ∧
    Restic.Gen.C39_openWithAppendLock_calls = ["internalOpenWithLocked"] ∧
    Restic.Gen.C39_openWithExclusiveLock_calls = ["internalOpenWithLocked"] := by decide

def opens (calls : List String) : List String :=
  calls.filter (fun c => c ∈ ["openWithReadLock", "openWithAppendLock", "openWithExclusiveLock",
    "internalOpenWithLocked", "global.OpenRepository", "OpenRepository"])

/-- every command of the table opens the repository through exactly the `openWith…Lock` helper the
    model's `Cmd` comment names, and in no other way -/
theorem command_open_calls :
    opens Restic.Gen.C39_runBackup_calls = ["openWithAppendLock"] ∧
    opens Restic.Gen.C39_runForget_calls = ["openWithExclusiveLock"] ∧
    opens Restic.Gen.C39_runPrune_calls = ["openWithExclusiveLock"] ∧
    opens Restic.Gen.C39_runRewrite_calls = ["openWithExclusiveLock", "openWithAppendLock"] ∧
    opens Restic.Gen.C39_runRepairSnapshots_calls = ["openWithExclusiveLock"] ∧
    opens Restic.Gen.C39_runCheck_calls = ["openWithExclusiveLock"] ∧
    opens Restic.Gen.C39_runSnapshots_calls = ["openWithReadLock"] ∧
    opens Restic.Gen.C39_runLs_calls = ["openWithReadLock"] ∧
    opens Restic.Gen.C39_runFind_calls = ["openWithReadLock"] ∧
    opens Restic.Gen.C39_runStats_calls = ["openWithReadLock"] ∧
    opens Restic.Gen.C39_runCat_calls = ["openWithReadLock"] ∧
    opens Restic.Gen.C39_runDump_calls = ["openWithReadLock"] ∧
    opens Restic.Gen.C39_runDiff_calls = ["openWithReadLock"] ∧
    opens Restic.Gen.C39_runList_calls = ["openWithReadLock"] ∧
    opens Restic.Gen.C39_runKeyList_calls = ["openWithReadLock"] ∧
    opens Restic.Gen.C39_runRestore_calls = ["openWithReadLock"] := by
  refine ⟨?_, ?_, ?_, ?_, ?_, ?_, ?_, ?_, ?_, ?_, ?_, ?_, ?_, ?_, ?_, ?_⟩ <;> decide

/-! ## the plumbing table, regenerated from the source (T1, `callargs` facts) -/

open Restic.Gen in
/-- the reader commands of the statement (all but `list`, which has its own expression) -/
def readerFns : List (List String × List String) :=
  [(C39_runSnapshots_calls, C39_runSnapshots_callargs), (C39_runLs_calls, C39_runLs_callargs),
   (C39_runFind_calls, C39_runFind_callargs), (C39_runStats_calls, C39_runStats_callargs),
   (C39_runCat_calls, C39_runCat_callargs), (C39_runDump_calls, C39_runDump_callargs),
   (C39_runDiff_calls, C39_runDiff_callargs), (C39_runKeyList_calls, C39_runKeyList_callargs),
   (C39_runRestore_calls, C39_runRestore_callargs)]

open Restic.Gen in
/-- The table of `dryRun` arguments as the **current source** has it: for every command the third
    argument of its `openWith…Lock(ctx, gopts, <expr>, printer)` call(s), and whether the function
    contains the `--no-lock is only applicable in combination with --dry-run` refusal. -/
def genTable : SourceTable :=
  { expr := fun c => match c with
      | .backup => dryExprOf C39_runBackup_calls C39_runBackup_callargs
      | .forget => dryExprOf C39_runForget_calls C39_runForget_callargs
      | .prune => dryExprOf C39_runPrune_calls C39_runPrune_callargs
      | .rewrite => dryExprOf C39_runRewrite_calls C39_runRewrite_callargs
      | .repairSnapshots => dryExprOf C39_runRepairSnapshots_calls C39_runRepairSnapshots_callargs
      | .check => dryExprOf C39_runCheck_calls C39_runCheck_callargs
      | .listLocks => dryExprOf C39_runList_calls C39_runList_callargs
      | .reader =>
        -- every reader passes `gopts.NoLock`; `list` passes `gopts.NoLock || args[0] == "locks"`,
        -- which is `gopts.NoLock` for everything but `list locks`
        if readerFns.all (fun p => dryExprOf p.1 p.2 == some .noLock) &&
           dryExprOf C39_runList_calls C39_runList_callargs == some .noLockOrLocks then some .noLock else none
    refuses := fun c => match c with
      | .backup => refusesNoLock C39_runBackup_callargs
      | .forget => refusesNoLock C39_runForget_callargs
      | .prune => refusesNoLock C39_runPrune_callargs
      | .rewrite => refusesNoLock C39_runRewrite_callargs
      | .repairSnapshots => refusesNoLock C39_runRepairSnapshots_callargs
      | .check => refusesNoLock C39_runCheck_callargs
      | .listLocks => refusesNoLock C39_runList_callargs
      | .reader => readerFns.any (fun p => refusesNoLock p.2) || refusesNoLock C39_runList_callargs }

/-- `openArg` as computed from the regenerated table -/
def openArgCur : Cmd → Flags → Option Bool := openArgFrom genTable

/-- what the current source passes, command by command (re-proved on every run against the
    regenerated `callargs`; a changed expression, a local variable in its place, an additional open
    call or a new refusal makes this fail) -/
theorem source_table :
    genTable.expr .backup = some .dry ∧
    genTable.expr .forget = some .dryAndNoLock ∧
    genTable.expr .prune = some .dryAndNoLock ∧
    genTable.expr .rewrite = some .dry ∧
    genTable.expr .repairSnapshots = some .dry ∧
    genTable.expr .check = some .noLock ∧
    genTable.expr .listLocks = some .noLockOrLocks ∧
    genTable.expr .reader = some .noLock ∧
    genTable.refuses .backup = false ∧ genTable.refuses .forget = true ∧ genTable.refuses .prune = true ∧
    genTable.refuses .rewrite = false ∧ genTable.refuses .repairSnapshots = false ∧
    genTable.refuses .check = false ∧ genTable.refuses .listLocks = false ∧ genTable.refuses .reader = false := by
  refine ⟨?_, ?_, ?_, ?_, ?_, ?_, ?_, ?_, ?_, ?_, ?_, ?_, ?_, ?_, ?_, ?_⟩ <;> decide +kernel

/-- the hand-written table `openArg` of the model (used by `specOK` and by the driver) **is** the
    table of the current source -/
theorem openArg_regenerated (c : Cmd) (f : Flags) : openArgCur c f = openArg c f := by
  obtain ⟨h1, h2, h3, h4, h5, h6, h7, h8, r1, r2, r3, r4, r5, r6, r7, r8⟩ := source_table
  obtain ⟨d, n⟩ := f
  cases c <;> cases d <;> cases n <;>
    simp [openArgCur, openArgFrom, openArg, DryExpr.eval, h1, h2, h3, h4, h5, h6, h7, h8, r1, r2, r3, r4, r5, r6, r7, r8]

/-- `scope_modes` for the regenerated table: in the current source, every invocation the property
    speaks about is opened behind the dry-run wrapper, or is `forget`/`prune --dry-run` without
    `--no-lock` -/
theorem scope_modes_current (c : Cmd) (f : Flags) (hs : inScope c f = true) :
    openArgCur c f = some true ∨
    ((c = .forget ∨ c = .prune) ∧ f.dryRun = true ∧ f.noLock = false ∧ openArgCur c f = some false) := by
  rw [openArg_regenerated]; exact scope_modes c f hs

theorem nolock_wrapped_current (c : Cmd) (f : Flags) (hs : inScope c f = true) (hn : f.noLock = true) :
    openArgCur c f = some true := by
  rw [openArg_regenerated]; exact nolock_wrapped c f hs hn

/-! ## non-vacuity -/

def exLock : Handle := ⟨.lock, "l1"⟩
def exSnap : Handle := ⟨.snapshot, "s1"⟩
def exSt : State := [(exSnap, "snap"), (⟨.config, ""⟩, "cfg")]

/-- `forget --dry-run --no-lock`: the command *tries* to remove a snapshot; nothing reaches the backend -/
example : openAndRun true [.stat ⟨.config, ""⟩] exLock "L" [] [.list .snapshot, .remove exSnap, .save exLock "x"]
    = [.stat ⟨.config, ""⟩, .list .snapshot] := by decide
/-- the same command line without `--dry-run` and `--no-lock`: the remove does reach the backend -/
example : get (applyAll exSt (openAndRun false [] exLock "L" [] (guardedOps false [.list .snapshot] [.remove exSnap]))) exSnap = none := by decide
/-- `forget --dry-run` (locked): only the lock file is written and removed -/
example : openAndRun false [] exLock "L" [.list .lock] (guardedOps true [.list .snapshot] [.remove exSnap])
    = [.list .lock, .save exLock "L", .list .snapshot, .remove exLock] := by decide
example : inScope .forget ⟨true, false⟩ = true ∧ openArg .forget ⟨true, false⟩ = some false := by decide
example : inScope .reader ⟨false, true⟩ = true ∧ openArg .reader ⟨false, true⟩ = some true := by decide

end Restic.Props.C39
