import Restic.Model.Cache
/-!
# C38 — The local cache never changes what restic reads

Theorems about `Restic.Model.Cache`, for **every** cache cell content (absent, stale, truncated,
bit-flipped, anything), every repository content, every interference of other processes at the
interleaving points (`Advs`), every file kind and every hash function.
-/
namespace Restic.Props.C38
open Restic.Model.Cache

/-- two different byte strings with the same content address -/
def Collision {ID : Type} (hash : Bytes → ID) : Prop := ∃ a b : Bytes, a ≠ b ∧ hash a = hash b

/-! ## soundness: an ok result always matches the content address -/

/-- **cached_load_sound** (LoadRaw): whatever the cache contains and whatever other processes do to
    it during the load, bytes returned without error hash to the requested id. (The config file is
    exempt from the hash comparison in the code; it is authenticated by decryption.) -/
theorem cached_load_sound {ID : Type} [DecidableEq ID] (hash : Bytes → ID) (id : ID) (k : Kind)
    (adv : Advs) (s : S) (b : Bytes)
    (h : (loadRaw hash id k false adv s).2 = .ok b) : hash b = id := by
  unfold loadRaw at h
  simp only [Bool.not_false, Bool.true_and, decide_eq_true_eq] at h
  generalize cbLoad k 0 0 adv.a1 adv.a2 s adv.f1 = t1 at h
  generalize cbLoad k 0 0 adv.a3 adv.a4 (forget k t1.1) adv.f2 = t2 at h
  obtain ⟨s1, r1⟩ := t1
  obtain ⟨s2, r2⟩ := t2
  by_cases h1 : hash (bufOf r1) = id
  · -- first read matched: passed through unless it carried an error
    simp only [h1, ne_eq, not_true_eq_false, if_false] at h
    cases r1 with
    | ok b1 => simp at h; rw [← h]; exact h1
    | err e => simp at h
    | errWithData e b1 => simp at h
  · simp only [h1, ne_eq, not_false_eq_true, if_true] at h
    cases r2 with
    | ok b2 =>
      by_cases h2 : hash b2 = id
      · simp [h2] at h; rw [← h]; exact h2
      · simp [h2] at h
    | err e => simp at h
    | errWithData e b2 => simp at h

/-- ... hence equal to the repository's bytes, unless the hash function collides on them -/
theorem cached_load_same_as_repo {ID : Type} [DecidableEq ID] (hash : Bytes → ID) (id : ID) (k : Kind)
    (adv : Advs) (s : S) (b d : Bytes) (hbe : s.be = some d) (hd : hash d = id)
    (h : (loadRaw hash id k false adv s).2 = .ok b) : b = d ∨ Collision hash := by
  have hb := cached_load_sound hash id k adv s b h
  by_cases hbd : b = d
  · exact Or.inl hbd
  · exact Or.inr ⟨b, d, hbd, by rw [hb, hd]⟩

/-- **cached_blob_sound** (LoadBlob, one pack): a blob returned without error passed the
    verification (decrypt + content address compare of C02), whatever the cache contained. -/
theorem cached_blob_sound (verify : Bytes → Bool) (k : Kind) (length offset : Nat) (adv : Advs) (s : S) (b : Bytes)
    (h : (loadBlob1 verify k length offset adv s).2 = .ok b) : verify b = true := by
  unfold loadBlob1 at h
  simp only at h
  generalize cbLoad k length offset adv.a1 adv.a2 s adv.f1 = t1 at h
  generalize cbLoad k length offset adv.a3 adv.a4 (forget k t1.1) adv.f2 = t2 at h
  obtain ⟨s1, r1⟩ := t1
  obtain ⟨s2, r2⟩ := t2
  cases r1 with
  | ok b1 =>
    cases hv : verify b1 with
    | true => simp [hv] at h; rw [← h]; exact hv
    | false =>
      simp [hv] at h
      cases r2 with
      | ok b2 =>
        cases hv2 : verify b2 with
        | true => simp [hv2] at h; rw [← h]; exact hv2
        | false => simp [hv2] at h
      | err e => simp at h
      | errWithData e b => simp at h
  | err e =>
    simp at h
    cases r2 with
    | ok b2 =>
      cases hv2 : verify b2 with
      | true => simp [hv2] at h; rw [← h]; exact hv2
      | false => simp [hv2] at h
    | err e => simp at h
    | errWithData e b => simp at h
  | errWithData e b0 =>
    simp at h
    cases r2 with
    | ok b2 =>
      cases hv2 : verify b2 with
      | true => simp [hv2] at h; rw [← h]; exact hv2
      | false => simp [hv2] at h
    | err e => simp at h
    | errWithData e b => simp at h

/-! ## corrupted cache files are detected and replaced -/

def noAdv : Advs := {}

/-- **corrupt_replaced** (auto-cached kinds: index, snapshot, tree packs). A cell whose content
    does not match the id, first mismatch in this run, nobody interfering: the cell is removed and
    re-downloaded. With a healthy repository file the load succeeds with the repository's bytes
    and the cell afterwards holds them. -/
theorem corrupt_replaced_auto {ID : Type} [DecidableEq ID] (hash : Bytes → ID) (id : ID)
    (c d : Bytes) (hc : hash c ≠ id) (hd : hash d = id) :
    loadRaw hash id .autoCached false noAdv { be := some d, cell := some c, forgotten := false }
      = ({ be := some d, cell := some d, forgotten := true }, .ok d) := by
  simp [loadRaw, cbLoad, readCell, slice, bufOf, forget, applyAdv, noAdv, hc, hd]

/-- the file was deleted from the repository: the stale cell is dropped, the load fails -/
theorem corrupt_replaced_auto_deleted {ID : Type} [DecidableEq ID] (hash : Bytes → ID) (id : ID)
    (c : Bytes) (hc : hash c ≠ id) :
    loadRaw hash id .autoCached false noAdv { be := none, cell := some c, forgotten := false }
      = ({ be := none, cell := none, forgotten := true }, .err .backendNotExist) := by
  simp [loadRaw, cbLoad, readCell, slice, bufOf, forget, applyAdv, noAdv, hc]

/-- cacheable but not auto-cached (data packs): the corrupt cell is dropped, the second read goes
    to the repository -/
theorem corrupt_replaced_cacheable {ID : Type} [DecidableEq ID] (hash : Bytes → ID) (id : ID)
    (c d : Bytes) (hc : hash c ≠ id) (hd : hash d = id) :
    loadRaw hash id .cacheable false noAdv { be := some d, cell := some c, forgotten := false }
      = ({ be := some d, cell := none, forgotten := true }, .ok d) := by
  simp [loadRaw, cbLoad, readCell, slice, bufOf, forget, beLoad, hc, hd, noAdv]

/-- general form: for every cacheable kind and every repository state, after the first mismatch
    the cell is absent or holds the repository's bytes -/
theorem corrupt_replaced {ID : Type} [DecidableEq ID] (hash : Bytes → ID) (id : ID) (k : Kind)
    (hk : k ≠ .notCacheable) (be : Option Bytes) (c : Bytes) (hc : hash c ≠ id) :
    let r := loadRaw hash id k false noAdv { be := be, cell := some c, forgotten := false }
    r.1.cell = none ∨ r.1.cell = be := by
  cases k with
  | notCacheable => exact absurd rfl hk
  | cacheable =>
    cases be <;> simp [loadRaw, cbLoad, readCell, slice, bufOf, forget, beLoad, hc, noAdv] <;>
      (repeat' split) <;> simp
  | autoCached =>
    cases be with
    | none => simp [loadRaw, cbLoad, readCell, slice, bufOf, forget, applyAdv, noAdv, hc]
    | some d =>
      simp [loadRaw, cbLoad, readCell, slice, bufOf, forget, applyAdv, noAdv, hc]
      (repeat' split) <;> simp

/-- **forget_once**: the circuit breaker of `Forget` — a second corruption of the same file in
    one run is not repaired, but it is *reported*: the result is an error carrying the bytes,
    never `ok`. -/
theorem forget_once {ID : Type} [DecidableEq ID] (hash : Bytes → ID) (id : ID) (k : Kind)
    (hk : k ≠ .notCacheable) (be : Option Bytes) (c : Bytes) (hc : hash c ≠ id) :
    loadRaw hash id k false noAdv { be := be, cell := some c, forgotten := true }
      = ({ be := be, cell := some c, forgotten := true }, .errWithData .invalidData c) := by
  cases k with
  | notCacheable => exact absurd rfl hk
  | cacheable => simp [loadRaw, cbLoad, readCell, slice, bufOf, forget, hc, noAdv]
  | autoCached => simp [loadRaw, cbLoad, readCell, slice, bufOf, forget, hc, noAdv]

/-- a healthy cache entry is served without touching the repository or the cell -/
theorem healthy_hit {ID : Type} [DecidableEq ID] (hash : Bytes → ID) (id : ID) (k : Kind)
    (hk : k ≠ .notCacheable) (be : Option Bytes) (c : Bytes) (f : Bool) (hc : hash c = id) (adv : Advs) :
    loadRaw hash id k false adv { be := be, cell := some c, forgotten := f }
      = ({ be := be, cell := some c, forgotten := f }, .ok c) := by
  cases k with
  | notCacheable => exact absurd rfl hk
  | cacheable => simp [loadRaw, cbLoad, readCell, slice, bufOf, hc]
  | autoCached => simp [loadRaw, cbLoad, readCell, slice, bufOf, hc]

/-- kinds that are never cached ignore the cache completely -/
theorem not_cacheable_ignores_cache {ID : Type} [DecidableEq ID] (hash : Bytes → ID) (id : ID)
    (d : Bytes) (cell : Option Bytes) (f : Bool) (hd : hash d = id) (adv : Advs) (hf : adv.f1.be = .none) :
    loadRaw hash id .notCacheable false adv { be := some d, cell := cell, forgotten := f }
      = ({ be := some d, cell := cell, forgotten := f }, .ok d) := by
  simp [loadRaw, cbLoad, beLoad, slice, bufOf, hd, hf]

/-- `loadRaw` never changes the repository -/
theorem loadRaw_be_unchanged {ID : Type} [DecidableEq ID] (hash : Bytes → ID) (id : ID) (k : Kind) (cfg : Bool)
    (adv : Advs) (s : S) : (loadRaw hash id k cfg adv s).1.be = s.be := by
  have hcb : ∀ (a1 a2 : Adv) (s : S) (f : Faults), (cbLoad k 0 0 a1 a2 s f).1.be = s.be := by
    intro a1 a2 s f
    unfold cbLoad
    simp only
    split
    · rfl
    · split
      · rfl
      · cases a1 <;> cases a2 <;> cases hc : s.cell <;> cases hb : s.be <;> cases hdl : f.dl <;>
          simp [applyAdv, hc, hb] <;> (repeat' split) <;> simp_all
  have hf : ∀ s : S, (forget k s).be = s.be := by
    intro s; unfold forget; split
    · rfl
    · split <;> rfl
  unfold loadRaw
  simp only
  split
  · split <;> (try split) <;> simp only [hcb, hf]
  · split <;> simp only [hcb]

/-! ## the cache by itself never stores or serves wrong bytes (cacheBackend.Load level) -/

theorem cellOK_iff (s : S) : cellOK s = true ↔ (s.cell = none ∨ s.cell = s.be) := by
  unfold cellOK; simp

/-- **cb_load_sound.** One `cacheBackend.Load` (any kind, any range) with nobody else writing to
    the cache directory, under *every* fault of the wrapped backend — failure before the body,
    or a body cut short with a clean EOF whose error is reported only after the consumer
    (`Cache.save`) returned nil: if the cell was absent or equal to the repository's file before,
    it is so afterwards, and a result without error is exactly the requested range of the
    repository's file. -/
theorem cb_load_sound (k : Kind) (length offset : Nat) (s : S) (f : Faults) (h : cellOK s = true) :
    cellOK (cbLoad k length offset none none s f).1 = true ∧
    (cbLoad k length offset none none s f).1.be = s.be ∧
    ∀ b, (cbLoad k length offset none none s f).2 = .ok b → ∃ d, s.be = some d ∧ b = slice d length offset := by
  obtain ⟨be, cell, fg⟩ := s
  obtain ⟨fdl, fbe⟩ := f
  rw [cellOK_iff] at h
  simp only at h
  rcases h with h | h
  · subst h
    cases k <;> cases be <;> cases fdl <;> cases fbe <;>
      simp [cbLoad, beLoad, readCell, applyAdv, cellOK] <;> (repeat' split) <;> simp_all
  · subst h
    cases k <;> cases cell <;> cases fdl <;> cases fbe <;>
      simp [cbLoad, beLoad, readCell, applyAdv, cellOK] <;> (repeat' split) <;> simp_all

/-- a whole history of loads on the handle keeps the invariant (induction over the history) -/
def cbRun (k : Kind) : S → List (Nat × Nat × Faults) → S
  | s, [] => s
  | s, (l, o, f) :: rest => cbRun k (cbLoad k l o none none s f).1 rest

theorem cb_history_sound (k : Kind) (hist : List (Nat × Nat × Faults)) :
    ∀ s : S, cellOK s = true → cellOK (cbRun k s hist) = true ∧ (cbRun k s hist).be = s.be := by
  induction hist with
  | nil => intro s h; exact ⟨h, rfl⟩
  | cons x xs ih =>
    intro s h
    obtain ⟨l, o, f⟩ := x
    obtain ⟨h1, h2, _⟩ := cb_load_sound k l o s f h
    obtain ⟨h3, h4⟩ := ih _ h1
    exact ⟨h3, by rw [← h2]; exact h4⟩

/-- the model meets the executable cacheBackend-level statement -/
theorem cb_specOK (k : Kind) (length offset : Nat) (s : S) (f : Faults) :
    cbSpecViolation length offset s (cbLoad k length offset none none s f).2
      (cbLoad k length offset none none s f).1.cell = none := by
  unfold cbSpecViolation
  split
  · rfl
  · rename_i hok
    have hok' : cellOK s = true := by simpa using hok
    obtain ⟨h1, h2, h3⟩ := cb_load_sound k length offset s f hok'
    rw [cellOK_iff] at h1
    rw [h2] at h1
    have hc2 : ((cbLoad k length offset none none s f).1.cell == none ||
        (cbLoad k length offset none none s f).1.cell == s.be) = true := by
      rcases h1 with h1 | h1 <;> simp [h1]
    simp only [hc2, if_true]
    cases hr : (cbLoad k length offset none none s f).2 with
    | ok b =>
      obtain ⟨d, hd, hb⟩ := h3 b hr
      simp [hd, hb]
    | err e => rfl
    | errWithData e b => rfl

/-! ## the transcription meets the executable statement -/

/-- **Main theorem (transcription ⇒ statement).** Without interference, for every kind, cell,
    repository content and `forgotten` mark, the result of `loadRaw` satisfies `specOK` read with
    `good b := hash b = id` — unless the hash function collides (the only way a verified result
    can differ from the repository's bytes). -/
theorem loadRaw_specOK {ID : Type} [DecidableEq ID] (hash : Bytes → ID) (id : ID) (k : Kind) (s : S) :
    specOK (fun b => decide (hash b = id)) k false s (loadRaw hash id k false noAdv s).2
      (loadRaw hash id k false noAdv s).1.cell = true ∨ Collision hash := by
  obtain ⟨be, cell, f⟩ := s
  by_cases hcol : Collision hash
  · exact Or.inr hcol
  · left
    have inj : ∀ a b : Bytes, hash a = id → hash b = id → a = b := by
      intro a b ha hb
      by_cases hab : a = b
      · exact hab
      · exact absurd ⟨a, b, hab, by rw [ha, hb]⟩ hcol
    by_cases h0 : hash [] = id <;>
    rcases be with _ | d <;> rcases cell with _ | c <;>
    (try by_cases hd : hash d = id) <;> (try by_cases hc : hash c = id) <;>
    cases k <;> cases f <;>
      simp_all [specOK, specViolation, loadRaw, cbLoad, readCell, beLoad, slice, bufOf, forget, applyAdv, noAdv] <;>
      (try (apply inj <;> assumption)) <;> (try (intro hx; apply hx; apply inj <;> assumption))

/-! ## non-vacuity (examples with a toy hash: the first byte) -/

def toyHash (b : Bytes) : Nat := (b.headD 0).toNat

/-- stale cell, healthy repository file: repaired -/
example : loadRaw toyHash 7 .autoCached false noAdv { be := some [7, 1, 2], cell := some [9, 9], forgotten := false }
    = ({ be := some [7, 1, 2], cell := some [7, 1, 2], forgotten := true }, .ok [7, 1, 2]) := by decide

/-- another process deletes the cell right after the download: falls back to the repository -/
example : (loadRaw toyHash 7 .autoCached false { a2 := some none } { be := some [7, 1], cell := none, forgotten := false }).2
    = .ok [7, 1] := by decide

/-- another process plants garbage right after the download: detected, forgotten, re-downloaded -/
example : (loadRaw toyHash 7 .autoCached false { a2 := some (some [3]) } { be := some [7, 1], cell := none, forgotten := false })
    = ({ be := some [7, 1], cell := some [7, 1], forgotten := true }, .ok [7, 1]) := by decide

/-- second corruption in the same run: error with the data, not ok -/
example : (loadRaw toyHash 7 .autoCached false noAdv { be := some [7, 1], cell := some [3], forgotten := true }).2
    = .errWithData .invalidData [3] := by decide

/-- a download whose error arrives after the consumer stored a truncated body: the entry is
    removed again, the load fails, and the next load returns the repository's bytes -/
example : cbLoad .autoCached 0 0 none none { be := some [7, 1, 2], cell := none, forgotten := false } { dl := .late 1 }
    = ({ be := some [7, 1, 2], cell := none, forgotten := false }, .err .backendFail) := by decide

/-- LoadBlob range read from a truncated cached pack: "too short", forget, re-download, verified -/
example : (loadBlob1 (fun b => b == [5, 6]) .autoCached 2 1 noAdv { be := some [4, 5, 6], cell := some [4, 5], forgotten := false })
    = ({ be := some [4, 5, 6], cell := some [4, 5, 6], forgotten := true }, .ok [5, 6]) := by decide

end Restic.Props.C38
