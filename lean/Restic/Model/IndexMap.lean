import Restic.Gen.Consts
/-!
# Model of `internal/repository/index/indexmap.go` (C56)

Close transcription of the chained hash table `indexMap` and of the `hashedArrayTree` it stores
its entries in. Pointer words (`buckets[h]`, `indexEntry.next`) are natural numbers; the low
`bloomShift` bits are the position of an entry in the hashed array tree, the bits above are the
bloom filter of the ids in the chain behind the pointer.

Conventions
* `uint` of the Go code is a 64-bit word (the bloom filter only exists on 64-bit systems); words are
  modelled as `Nat`, the theorem `C56.word_lt` shows that every word the model builds fits in 64 bits.
* Go panics (explicit `panic(..)` and slice index out of range) are the outcome `Res.panic`; a Go
  loop that would not terminate (a cyclic chain) is the outcome `Res.hang` (fuel exhausted). The
  theorems show that neither happens in a reachable state.
* Writes through an `*indexEntry` pointer are `HAT.set`.
* The hash function (`maphash` with a random seed) is a parameter `hash : ID → Nat` (the 64-bit
  sum); theorems hold for every `hash`.
* `bloomShift` and `maxLoad` are the regenerated constants of the current source.
-/
namespace Restic.Model.IndexMap

abbrev ID := List UInt8

/-- outcome of an operation of the Go code -/
inductive Res (α : Type) where
  | ok (a : α)
  | panic (msg : String)
  | hang
deriving Repr

def Res.bind {α β : Type} (r : Res α) (f : α → Res β) : Res β :=
  match r with
  | .ok a => f a
  | .panic m => .panic m
  | .hang => .hang

instance : Monad Res where
  pure := .ok
  bind := Res.bind

def bloomShift : Nat := Restic.Gen.index_bloomShift
def maxLoad : Nat := Restic.Gen.index_maxLoad
/-- width of `uint` -/
def wordBits : Nat := 64

/-- the user-visible part of an `indexEntry` (everything but `next`) -/
structure Val where
  id : ID
  packIndex : Nat
  offset : Nat
  length : Nat
  ulen : Nat
deriving Repr, DecidableEq, Inhabited

structure Entry where
  v : Val
  next : Nat
deriving Repr, DecidableEq, Inhabited

def zeroID : ID := List.replicate 32 0
def zeroEntry : Entry := ⟨⟨zeroID, 0, 0, 0, 0⟩, 0⟩

/-! ## bloom filter in the pointer word -/

/-- `bloomMask = 1<<bloomShift - 1` -/
def bloomMask : Nat := 1 <<< bloomShift - 1

def bloomCleanID (idx : Nat) : Nat := idx &&& bloomMask

/-- `k1 := id[0] % (64 - bloomShift); 1 << k1` -/
def bloomForID (id : ID) : Nat := 1 <<< ((id.headD 0).toNat % (wordBits - bloomShift))

def bloomHasID (idx : Nat) (id : ID) : Bool :=
  let bloom := idx >>> bloomShift
  bloom &&& bloomForID id != 0

/-- `idx | (nextIdx & ^bloomMask) | bloomForID(id) << bloomShift`; on a 64-bit word
    `nextIdx & ^bloomMask` clears the low `bloomShift` bits, written here as shift right/left. -/
def bloomInsertID (idx nextIdx : Nat) (id : ID) : Nat :=
  let oldBloom := (nextIdx >>> bloomShift) <<< bloomShift
  let newBloom := bloomForID id <<< bloomShift
  idx ||| oldBloom ||| newBloom

/-! ## hashed array tree -/

abbrev Block := List Entry

structure HAT where
  mask : Nat
  maskShift : Nat
  blockSize : Nat
  size : Nat
  /-- `nil` blocks are `none` -/
  blockList : List (Option Block)
deriving Repr

/-- zero value of the Go struct -/
def HAT.zero : HAT := ⟨0, 0, 0, 0, []⟩

def newHAT : HAT :=
  let blockSizePower := 2
  let blockSize := 1 <<< blockSizePower
  { mask := blockSize - 1, maskShift := blockSizePower, blockSize := blockSize, size := 0,
    blockList := List.replicate blockSize none }

def HAT.index (h : HAT) (pos : Nat) : Nat × Nat := (pos >>> h.maskShift, pos &&& h.mask)

/-- `&h.blockList[idx][subIdx]` read without the bounds check on `size` -/
def HAT.peek (h : HAT) (pos : Nat) : Option Entry :=
  match h.blockList[(h.index pos).1]? with
  | some (some b) => b[(h.index pos).2]?
  | _ => none

def HAT.ref (h : HAT) (pos : Nat) : Res Entry :=
  if pos ≥ h.size then .panic "array index out of bounds"
  else match h.peek pos with
    | some e => .ok e
    | none => .panic "index out of range"

/-- write through the pointer returned by `Ref`/`Alloc` for position `pos` -/
def HAT.set (h : HAT) (pos : Nat) (e : Entry) : HAT :=
  match h.blockList[(h.index pos).1]? with
  | some (some b) => { h with blockList := h.blockList.set (h.index pos).1 (some (b.set (h.index pos).2 e)) }
  | _ => h

/-- `block[0:blockSize]` of a slice with capacity `blockSize`: zero entries up to `n` -/
def padBlock (n : Nat) (b : Block) : Block := b ++ List.replicate (n - b.length) zeroEntry

/-- pairwise merging of blocks (the `for i := 0; i < len(oldBlocks); i += 2` loop); stops at the
    first pair of `nil` blocks -/
def mergeBlocks (newBlockSize : Nat) : List (Option Block) → List (Option Block)
  | none :: none :: _ => []
  | a :: b :: rest => some (padBlock newBlockSize (a.getD [] ++ b.getD [])) :: mergeBlocks newBlockSize rest
  | _ => []

/-- one iteration of the loop in `hashedArrayTree.preallocate`: double list and block size -/
def HAT.growStep (h : HAT) : HAT :=
  let blockSize := h.blockSize * 2
  let merged := mergeBlocks blockSize h.blockList
  { h with blockSize := blockSize, mask := h.mask * 2 + 1, maskShift := h.maskShift + 1,
           blockList := merged ++ List.replicate (blockSize - merged.length) none }

def HAT.preallocLoop : Nat → Nat → HAT → HAT
  | 0, _, h => h
  | fuel + 1, idx, h =>
    if idx ≥ h.blockList.length then HAT.preallocLoop fuel (idx / 2) h.growStep else h

/-- `hashedArrayTree.preallocate(numEntries)`; callers guarantee `numEntries ≥ 1` -/
def HAT.preallocate (h : HAT) (numEntries : Nat) : HAT :=
  let idx := (h.index (numEntries - 1)).1
  HAT.preallocLoop (idx + 1) idx h

def HAT.grow (h : HAT) : Res HAT :=
  let h := h.preallocate (h.size + 1)
  if (h.index h.size).2 == 0 then
    -- new index entry batch
    if (h.index h.size).1 < h.blockList.length then
      .ok { h with blockList := h.blockList.set (h.index h.size).1 (some (List.replicate h.blockSize zeroEntry)) }
    else .panic "index out of range"
  else .ok h

def HAT.alloc (h : HAT) : Res (HAT × Nat) :=
  (h.grow).bind fun h =>
    let size := h.size
    match h.peek size with
    | some _ => .ok ({ h with size := size + 1 }, size)
    | none => .panic "index out of range"

/-! ## the hash table -/

structure IndexMap where
  buckets : Array Nat
  numentries : Nat
  blockList : HAT
deriving Repr

/-- zero value of the Go struct (lazy initialisation) -/
def IndexMap.empty : IndexMap := ⟨#[], 0, HAT.zero⟩

section
variable (hash : ID → Nat)

/-- `m.hash(id)`: `h & uint(len(m.buckets)-1)` -/
def IndexMap.hashOf (m : IndexMap) (id : ID) : Nat := hash id &&& (m.buckets.size - 1)

def IndexMap.newEntry (m : IndexMap) : Res (IndexMap × Nat) :=
  (m.blockList.alloc).bind fun (hat, idx) =>
    if idx != bloomCleanID idx then .panic "repository index size overflow"
    else .ok ({ m with blockList := hat }, idx)

def initialBuckets : Nat := 64

def IndexMap.init (m : IndexMap) : Res IndexMap :=
  let m := { m with buckets := Array.replicate initialBuckets 0, blockList := newHAT }
  -- first entry in blockList serves as null byte
  (m.newEntry).bind fun (m, _) => .ok m

/-- `for newSize < target { newSize *= 2 }` -/
def growBuckets (target : Nat) : Nat → Nat → Nat
  | 0, newSize => newSize
  | fuel + 1, newSize => if newSize < target then growBuckets target fuel (newSize * 2) else newSize

/-- body of the rehash loop in `indexMap.preallocate` for position `i` -/
def rehashStep (st : Array Nat × HAT) (i : Nat) : Res (Array Nat × HAT) :=
  (st.2.ref i).bind fun e =>
    let h := hash e.v.id &&& (st.1.size - 1)
    match st.1[h]? with
    | none => .panic "index out of range"
    | some nxt =>
      .ok (st.1.set! h (bloomInsertID i nxt e.v.id), st.2.set i { e with next := nxt })

def rehashLoop : List Nat → Array Nat × HAT → Res (Array Nat × HAT)
  | [], st => .ok st
  | i :: is, st => (rehashStep hash st i).bind (rehashLoop is)

/-- `indexMap.preallocate(numEntries)` (for `numEntries ≥ 0`) -/
def IndexMap.preallocate (m : IndexMap) (numEntries : Nat) : Res IndexMap :=
  if numEntries == 0 then .ok m else
  (if m.buckets.size == 0 then m.init else .ok m).bind fun m =>
    let target := (numEntries + maxLoad - 1) / maxLoad
    let newSize := growBuckets target target m.buckets.size
    if newSize == m.buckets.size then .ok m else
    let buckets := Array.replicate newSize 0
    let blockCount := m.blockList.size
    (rehashLoop hash (List.range' 1 (blockCount - 1)) (buckets, m.blockList)).bind fun (buckets, hat) =>
      .ok { m with buckets := buckets, blockList := hat.preallocate numEntries }

/-- `indexMap.add` -/
def IndexMap.add (m : IndexMap) (v : Val) : Res IndexMap :=
  (m.preallocate hash (m.numentries + 1)).bind fun m =>
    let h := m.hashOf hash v.id
    (m.newEntry).bind fun (m, idx) =>
      match m.buckets[h]? with
      | none => .panic "index out of range"
      | some nxt =>
        .ok { m with blockList := m.blockList.set idx ⟨v, nxt⟩,
                     buckets := m.buckets.set! h (bloomInsertID idx nxt v.id),
                     numentries := m.numentries + 1 }

def IndexMap.resolve (m : IndexMap) (idx : Nat) : Res Entry := m.blockList.ref (bloomCleanID idx)

def refAll (hat : HAT) : List Nat → Res (List Entry)
  | [] => .ok []
  | i :: is => (hat.ref i).bind fun e => (refAll hat is).bind fun es => .ok (e :: es)

/-- `indexMap.values`: all entries in position order, skipping the null entry 0 -/
def IndexMap.values (m : IndexMap) : Res (List Entry) :=
  refAll m.blockList (List.range' 1 (m.blockList.size - 1))

/-- the loop of `valuesWithID` starting at pointer word `ei` -/
def walkValues (hat : HAT) (id : ID) : Nat → Nat → Res (List Entry)
  | fuel, ei =>
    if !bloomHasID ei id then .ok [] else
    match fuel with
    | 0 => .hang
    | fuel + 1 =>
      (hat.ref (bloomCleanID ei)).bind fun e =>
        (walkValues hat id fuel e.next).bind fun rest =>
          .ok (if e.v.id = id then e :: rest else rest)

def IndexMap.valuesWithID (m : IndexMap) (id : ID) : Res (List Entry) :=
  if m.buckets.size == 0 then .ok [] else
  match m.buckets[m.hashOf hash id]? with
  | none => .panic "index out of range"
  | some ei => walkValues m.blockList id m.blockList.size ei

def walkGet (hat : HAT) (id : ID) : Nat → Nat → Res (Option Entry)
  | fuel, ei =>
    if !bloomHasID ei id then .ok none else
    match fuel with
    | 0 => .hang
    | fuel + 1 =>
      (hat.ref (bloomCleanID ei)).bind fun e =>
        if e.v.id = id then .ok (some e) else walkGet hat id fuel e.next

def IndexMap.get (m : IndexMap) (id : ID) : Res (Option Entry) :=
  if m.buckets.size == 0 then .ok none else
  match m.buckets[m.hashOf hash id]? with
  | none => .panic "index out of range"
  | some ei => walkGet m.blockList id m.blockList.size ei

/-- the loop of `firstIndex`; `idx` is the running minimum (`-1` = none yet) -/
def walkFirst (hat : HAT) (id : ID) : Nat → Nat → Int → Res Int
  | fuel, ei, idx =>
    if !bloomHasID ei id then .ok idx else
    match fuel with
    | 0 => .hang
    | fuel + 1 =>
      (hat.ref (bloomCleanID ei)).bind fun e =>
        let cur := bloomCleanID ei
        if e.v.id ≠ id then walkFirst hat id fuel e.next idx
        else if (cur : Int) < idx ∨ idx = -1 then walkFirst hat id fuel e.next cur
        else walkFirst hat id fuel e.next idx

def IndexMap.firstIndex (m : IndexMap) (id : ID) : Res Int :=
  if m.buckets.size == 0 then .ok (-1) else
  match m.buckets[m.hashOf hash id]? with
  | none => .panic "index out of range"
  | some ei => walkFirst m.blockList id m.blockList.size ei (-1)

def IndexMap.len (m : IndexMap) : Nat := m.numentries

/-! ## histories -/

inductive Op where
  | add (v : Val)
  | prealloc (n : Nat)
deriving Repr

def step (m : IndexMap) : Op → Res IndexMap
  | .add v => m.add hash v
  | .prealloc n => m.preallocate hash n

def run : List Op → IndexMap → Res IndexMap
  | [], m => .ok m
  | op :: ops, m => (step hash m op).bind (run ops)

end

/-- the entries a history inserted, in order -/
def inserted : List Op → List Val
  | [] => []
  | .add v :: ops => v :: inserted ops
  | .prealloc _ :: ops => inserted ops

/-! ## executable statement of C56 (reference multimap)

`ins` is the list of values inserted so far (in order). What a state may answer: -/

/-- looking up an id yields exactly the entries inserted for it (as a multiset) -/
def specValuesWithID (ins : List Val) (id : ID) (out : List Val) : Bool :=
  out.isPerm (ins.filter fun v => v.id == id)

/-- `get` returns one of the entries inserted for the id, `none` iff there is none -/
def specGet (ins : List Val) (id : ID) (out : Option Val) : Bool :=
  match out with
  | none => !(ins.any fun v => v.id == id)
  | some v => v.id == id && ins.contains v

/-- position (1-based: position 0 is the null entry) of the first entry inserted for `id`, else -1 -/
def firstPos (ins : List Val) (id : ID) : Int :=
  match ins.findIdx? (fun v => v.id == id) with
  | some i => (i : Int) + 1
  | none => -1

/-- the first-entry position of a key is the position of its first insertion, hence never changes -/
def specFirstIndex (ins : List Val) (id : ID) (out : Int) : Bool := out == firstPos ins id

/-- iteration yields every entry once -/
def specValues (ins : List Val) (out : List Val) : Bool := out.isPerm ins

def specLen (ins : List Val) (out : Nat) : Bool := out == ins.length

end Restic.Model.IndexMap
