import Restic.Gen.Consts
/-!
Model of restic's authenticated encryption wrapper (C05):
`Key.Seal`, `Key.Open`, `Key.Valid`, `MACKey.Valid`, `EncryptionKey.Valid`, `validNonce`,
`poly1305PrepareKey`, `poly1305MAC`, `poly1305Verify` (internal/repository/crypto/crypto.go) and
`KDF` with the parameter checks it relies on (internal/repository/crypto/kdf.go,
simple-scrypt `Params.Check`, x/crypto `scrypt.Key`). Core Lean only.

The primitives (AES-128 block encryption, Poly1305, AES-256-CTR, scrypt) are PARAMETERS
(`Prims`, `scrypt`); what is transcribed is the logic restic builds around them: which checks
come first, what is authenticated, what is returned. Go panics are the outcome `.panic`.
-/
namespace Restic.Model.Crypto

abbrev Bytes := List UInt8

/-- the primitives, as opaque functions -/
structure Prims where
  /-- AES-128 encryption of one block: key (16 bytes), block (16 bytes) -/
  aes128 : Bytes → Bytes → Bytes
  /-- `poly1305.Sum`: one-time key (32 bytes, r‖s), message → 16-byte tag -/
  poly : Bytes → Bytes → Bytes
  /-- AES-256 in CTR mode, `XORKeyStream`: key (32 bytes), iv (16 bytes), data -/
  ctr : Bytes → Bytes → Bytes → Bytes

/-- `crypto.Key`: `MACKey{K,R}` and `EncryptionKey` (fixed-size arrays in Go) -/
structure Key where
  macK : Bytes
  macR : Bytes
  enc : Bytes
deriving Repr, DecidableEq, Inhabited

/-- sizes, regenerated from the source on every run -/
def ivSize : Nat := Restic.Gen.crypto_ivSize
def macSize : Nat := Restic.Gen.crypto_macSize
def extension : Nat := Restic.Gen.crypto_Extension
def aesKeySize : Nat := Restic.Gen.crypto_aesKeySize
def macKeySizeK : Nat := Restic.Gen.crypto_macKeySizeK
def macKeySizeR : Nat := Restic.Gen.crypto_macKeySizeR
def saltLength : Nat := Restic.Gen.crypto_saltLength

/-- `EncryptionKey.Valid`: some byte is non-zero (loop with early return) -/
def encKeyValid (k : Key) : Bool := k.enc.any (· != 0)

/-- `MACKey.Valid`: the K loop sets a flag (no early exit), then the R loop returns early -/
def macKeyValid (k : Key) : Bool :=
  let nonzeroK := k.macK.foldl (fun acc b => if b != 0 then true else acc) false
  if !nonzeroK then false else k.macR.any (· != 0)

/-- `Key.Valid` -/
def keyValid (k : Key) : Bool := encKeyValid k && macKeyValid k

/-- `validNonce`: OR of all bytes is > 0 -/
def validNonce (nonce : Bytes) : Bool := (nonce.foldl (fun sum b => sum ||| b) 0) > 0

/-- `poly1305PrepareKey`: `k[:16] = R`, `k[16:] = AES_K(nonce)` -/
def poly1305PrepareKey (P : Prims) (nonce : Bytes) (k : Key) : Bytes :=
  k.macR ++ P.aes128 k.macK nonce

/-- `poly1305MAC` -/
def poly1305MAC (P : Prims) (msg nonce : Bytes) (k : Key) : Bytes :=
  P.poly (poly1305PrepareKey P nonce k) msg

/-- `poly1305Verify` (`poly1305.Verify` recomputes the tag and compares in constant time) -/
def poly1305Verify (P : Prims) (msg nonce : Bytes) (k : Key) (mac : Bytes) : Bool :=
  P.poly (poly1305PrepareKey P nonce k) msg == mac

inductive SealOut where
  | panic (why : String)
  | ok (out : Bytes)
deriving Repr, DecidableEq, Inhabited

/-- `Key.Seal(dst, nonce, plaintext, additionalData)` -/
def sealK (P : Prims) (k : Key) (dst nonce plaintext ad : Bytes) : SealOut :=
  if !keyValid k then .panic "key is invalid"
  else if ad.length > 0 then .panic "additional data is not supported"
  else if nonce.length != ivSize then .panic "incorrect nonce length"
  else if !validNonce nonce then .panic "nonce is invalid"
  else
    let out := P.ctr k.enc nonce plaintext
    let mac := poly1305MAC P out nonce k
    .ok (dst ++ out ++ mac)

inductive OpenErr where
  | invalidKey | invalidNonce | tooShort | unauthenticated
deriving Repr, DecidableEq, Inhabited

inductive OpenOut where
  | panic (why : String)
  | err (e : OpenErr)
  | ok (plaintext : Bytes)
deriving Repr, DecidableEq, Inhabited

/-- `Key.Open(dst, nonce, ciphertext, _)` -/
def openK (P : Prims) (k : Key) (dst nonce ciphertext : Bytes) : OpenOut :=
  if !keyValid k then .err .invalidKey
  else if nonce.length != ivSize then .panic "incorrect nonce length"
  else if !validNonce nonce then .err .invalidNonce
  else if ciphertext.length < macSize then .err .tooShort       -- `k.Overhead()`
  else
    let l := ciphertext.length - macSize
    let ct := ciphertext.take l
    let mac := ciphertext.drop l
    if !poly1305Verify P ct nonce k mac then .err .unauthenticated
    else .ok (dst ++ P.ctr k.enc nonce ct)

/-- the idiom of every sealing call site: `buf = append(buf[:0], nonce...); buf = Seal(buf, nonce, data, nil)` -/
def sealWithNonce (P : Prims) (k : Key) (nonce data : Bytes) : SealOut :=
  sealK P k nonce nonce data []

/-- the idiom of every opening call site:
    `nonce, ct := buf[:NonceSize()], buf[NonceSize():]; Open(ct[:0], nonce, ct, nil)` -/
def openBuf (P : Prims) (k : Key) (buf : Bytes) : OpenOut :=
  openK P k [] (buf.take ivSize) (buf.drop ivSize)

/-! ### KDF -/

structure Params where
  N : Int
  R : Int
  P : Int
deriving Repr, DecidableEq, Inhabited

def maxInt : Int := 2147483647   -- `1<<31 - 1` in simple-scrypt and x/crypto/scrypt

/-- simple-scrypt `Params.Check` (true = accepted) -/
def paramsCheck (n r p saltLen dkLen : Int) : Bool :=
  if n > maxInt || n <= 1 || n % 2 != 0 then false
  else if r < 1 || r > maxInt then false
  else if p < 1 || p > maxInt then false
  else if r * p >= 1073741824 || r > maxInt / 128 / p || r > maxInt / 256 || n > maxInt / 128 / r then false
  else if saltLen < 8 || saltLen > maxInt then false
  else if dkLen < 16 || dkLen > maxInt then false
  else true

/-- the parameter checks at the top of x/crypto `scrypt.Key` (true = accepted) -/
def scryptKeyCheck (n r p : Int) : Bool :=
  if n <= 1 || (n.toNat &&& (n.toNat - 1)) != 0 then false
  else if r <= 0 || p <= 0 then false
  else if r * p >= 1073741824 || r > maxInt / 128 / p || r > maxInt / 256 || n > maxInt / 128 / r then false
  else true

inductive KdfErr where
  | badSalt | badParams | scryptErr | badLen
deriving Repr, DecidableEq, Inhabited

inductive KdfOut where
  | err (e : KdfErr)
  | ok (k : Key)
deriving Repr, DecidableEq, Inhabited

/-- `sscrypt.DefaultParams.DKLen` (regenerated) -/
def dkLen : Nat := Restic.Gen.crypto_sscryptDKLen

/-- `KDF(p, salt, password)`; `scrypt pw salt N r p keyLen` is the parameter -/
def kdf (scrypt : Bytes → Bytes → Int → Int → Int → Nat → Bytes)
    (p : Params) (salt password : Bytes) : KdfOut :=
  if salt.length != saltLength then .err .badSalt
  else if !paramsCheck p.N p.R p.P salt.length dkLen then .err .badParams
  else if !scryptKeyCheck p.N p.R p.P then .err .scryptErr
  else
    let keybytes := macKeySizeK + macKeySizeR + aesKeySize
    let sk := scrypt password salt p.N p.R p.P keybytes
    if sk.length != keybytes then .err .badLen
    else
      let mk := sk.drop aesKeySize                       -- `scryptKeys[aesKeySize:]`
      .ok { enc := sk.take aesKeySize, macK := mk.take 16, macR := (mk.drop 16).take 16 }

/-! ### Executable statement of C05 (evaluated by the driver on the implementation's own output) -/

/-- what the generator did to a sealed message before handing it to `Open` -/
inductive Tamper where
  | none              -- nothing: decryption must give back the plaintext
  | nonceBit | bodyBit | tagBit        -- one bit of the nonce / ciphertext body / tag flipped
  | truncated         -- a proper prefix of ciphertext‖tag
  | macKeySwapped     -- other key whose MAC part differs (K, or R after Poly1305 clamping)
  | encKeyOnly        -- other key with an equivalent MAC part (no claim, see docs): only the
                      -- encryption part and/or bits of R that Poly1305 ignores differ
  | other             -- any other change of nonce‖ciphertext‖tag
deriving Repr, DecidableEq, Inhabited

def allZero (b : Bytes) : Bool := b.all (· == 0)

/-- Poly1305 "clamps" r: 22 of the 128 bits of `R` are cleared before use (part of the definition
    of the primitive), so two `R` that agree after clamping are the same MAC key. Used only to
    classify generated key swaps. -/
def clampMask : Bytes := [255, 255, 255, 15, 252, 255, 255, 15, 252, 255, 255, 15, 252, 255, 255, 15]
def clampR (r : Bytes) : Bytes := List.zipWith (· &&& ·) r clampMask

/-- the two keys authenticate this message differently: `K` differs, or the clamped `R` differs
    and the message is not empty (the Poly1305 tag of the empty message is `s = AES_K(nonce)`,
    whatever `r` is — again part of the definition of the primitive) -/
def macKeyDiffers (k k' : Key) (bodyEmpty : Bool) : Bool :=
  k.macK != k'.macK || (clampR k.macR != clampR k'.macR && !bodyEmpty)

/-- "Invalid keys": some part of the key is all zero -/
def keyInvalid (k : Key) : Bool := allZero k.enc || allZero k.macK || allZero k.macR

/-- C05, encryption side. `res` = what `Seal(nonce, nonce, p)` did, `reopened` = what `Open` said
    about that output. Invalid keys and all-zero nonces are never accepted; otherwise the output is
    nonce ‖ body ‖ tag with `|body| = |p|`, and decrypting it returns `p`. -/
def specSealOK (k : Key) (nonce p : Bytes) (res : SealOut) (reopened : Option OpenOut) : Bool :=
  if keyInvalid k || allZero nonce then
    match res with | .panic _ => true | .ok _ => false
  else if nonce.length != ivSize then
    match res with | .panic _ => true | .ok _ => false
  else
    match res with
    | .panic _ => false
    | .ok out => out.length == p.length + extension && out.take ivSize == nonce &&
                 reopened == some (.ok p)

/-- C05, decryption side: an untouched message decrypts to the original plaintext; a message with
    any changed bit, a truncated one, or one opened with a key whose MAC part differs is refused. -/
def specOpenOK (t : Tamper) (orig : Bytes) (res : OpenOut) : Bool :=
  match t with
  | .none => res == .ok orig
  | .encKeyOnly => true
  | _ => match res with | .ok _ => false | _ => true

/-- C05, KDF: a key is only derived from a salt of `saltLength` bytes and parameters with
    `N > 1` a power of two, `r, p ≥ 1`, within the memory limits. -/
def specKdfOK (p : Params) (saltLen : Nat) (ok : Bool) : Bool :=
  !ok || (saltLen == saltLength && p.N > 1 && p.N ≤ maxInt && p.R ≥ 1 && p.P ≥ 1 &&
    (p.N.toNat &&& (p.N.toNat - 1)) == 0 && p.R * p.P < 1073741824)

end Restic.Model.Crypto
