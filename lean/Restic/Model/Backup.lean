/-
Model for C01 (backup then restore reproduces the source tree): the data path of
`Archiver.save`/`saveFile` (chunk, store blobs by content address, node with the ordered content
list) and of `Restorer.RestoreTo` (first pass: hard-link index + file contents written blob by blob
at cumulative offsets; second pass: special files, hard links, metadata) over an *abstract tree*:
the list of entries in traversal order, each with its path. Tree blobs / JSON (C41), traversal
(C42), packs and index (C02/C44), crypto and compression are below this model: a snapshot is the
list of nodes the traversal yields. Core Lean only.
-/
namespace Restic.Model.Backup

abbrev Bytes := List UInt8
abbrev Path := List Bytes

inductive Kind | file | dir | symlink | dev | chardev | fifo | socket
deriving DecidableEq, Repr, Inhabited

/-- what `NodeRestoreMetadata` restores for every type -/
structure Meta where
  mode : Nat                      -- permission bits + setuid/setgid/sticky
  uid : Nat
  gid : Nat
  mtimeSec : Int
  mtimeNsec : Nat
  xattrs : List (Bytes × Bytes)   -- sorted by name
deriving DecidableEq, Repr, Inhabited

/-- one entry of a directory tree as lstat / readlink / read / listxattr show it -/
structure Item where
  path : Path
  kind : Kind
  md : Meta
  content : Bytes      -- regular files
  target : Bytes       -- symlinks
  rdev : Nat           -- device nodes
  dev : Nat            -- st_dev
  ino : Nat            -- st_ino
  nlink : Nat
deriving DecidableEq, Repr, Inhabited

/-- `data.Node` as far as backup/restore of content and metadata is concerned -/
structure Node (ID : Type) where
  path : Path
  kind : Kind
  md : Meta
  content : List ID    -- node.Content
  size : Nat           -- node.Size
  target : Bytes
  device : Nat         -- node.Device
  deviceID : Nat       -- node.DeviceID
  inode : Nat
  links : Nat

/-- the blob store: content address -> plaintext, first writer wins (`SaveBlob` skips known ids) -/
abbrev Store (ID : Type) := List (ID × Bytes)

def Store.get {ID : Type} [DecidableEq ID] (s : Store ID) (id : ID) : Option Bytes :=
  (s.find? (·.1 = id)).map (·.2)

def Store.put {ID : Type} [DecidableEq ID] (hash : Bytes → ID) (s : Store ID) (b : Bytes) : Store ID :=
  if (s.get (hash b)).isSome then s else s ++ [(hash b, b)]

/-! ## backup -/

/-- `saveFile`: chunk the content, save every chunk, list the ids in order; other types: plain node.
    Sockets are ignored by `Archiver.save`. -/
def backupItem {ID : Type} [DecidableEq ID] (hash : Bytes → ID) (split : Bytes → List Bytes)
    (s : Store ID) (it : Item) : Store ID × Option (Node ID) :=
  match it.kind with
  | .socket => (s, none)
  | .file =>
    let chunks := split it.content
    let s' := chunks.foldl (Store.put hash) s
    (s', some { path := it.path, kind := .file, md := it.md, content := chunks.map hash,
                size := it.content.length, target := [], device := 0, deviceID := it.dev,
                inode := it.ino, links := it.nlink })
  | k =>
    (s, some { path := it.path, kind := k, md := it.md, content := [], size := 0,
               target := if k = .symlink then it.target else [],
               device := if k = .dev ∨ k = .chardev then it.rdev else 0,
               deviceID := it.dev, inode := it.ino,
               links := if k = .dir ∨ k = .fifo then 0 else it.nlink })

/-- one step of the traversal: the node (if any) is appended to the list of saved nodes -/
def backupStep {ID : Type} [DecidableEq ID] (hash : Bytes → ID) (split : Bytes → List Bytes)
    (acc : Store ID × List (Node ID)) (it : Item) : Store ID × List (Node ID) :=
  let r := backupItem hash split acc.1 it
  (r.1, match r.2 with | some n => acc.2 ++ [n] | none => acc.2)

def backup {ID : Type} [DecidableEq ID] (hash : Bytes → ID) (split : Bytes → List Bytes)
    (tree : List Item) : Store ID × List (Node ID) :=
  tree.foldl (backupStep hash split) ([], [])

/-! ## restore -/

/-- `fileRestorer`: the blobs of a file with their offsets (`fileInfo.blobs` / cumulative sizes) -/
def withOffsets : Nat → List Bytes → List (Nat × Bytes)
  | _, [] => []
  | off, b :: bs => (off, b) :: withOffsets (off + b.length) bs

/-- `filesWriter.writeToFile`: `WriteAt(blob, offset)` into a file that has its final size -/
def writeAt (f : Bytes) (off : Nat) (b : Bytes) : Bytes :=
  f.take off ++ b ++ f.drop (off + b.length)

/-- all blobs of one file; `none` if a blob is missing from the repository -/
def loadAll {ID : Type} [DecidableEq ID] (s : Store ID) : List ID → Option (List Bytes)
  | [] => some []
  | id :: ids =>
    match s.get id, loadAll s ids with
    | some b, some bs => some (b :: bs)
    | _, _ => none

/-- write the `i`-th blob of a file at its offset (`none`: no such blob, nothing happens) -/
def writeIdx (ws : List (Nat × Bytes)) (f : Bytes) (i : Nat) : Bytes :=
  match ws[i]? with
  | some w => writeAt f w.1 w.2
  | none => f

/-- restore the content of one file: create it with `node.Size` zero bytes (truncate), then write
    every blob at its offset, in the order given by `order` (the file restorer works pack by pack,
    so the order is not the file order; `order` is a list of indices) -/
def restoreContent {ID : Type} [DecidableEq ID] (s : Store ID) (ids : List ID) (size : Nat)
    (order : List Nat) : Option Bytes :=
  match loadAll s ids with
  | none => none
  | some blobs =>
    let ws := withOffsets 0 blobs
    some (order.foldl (writeIdx ws) (List.replicate size 0))

/-- `HardlinkIndex`: first pass, `idx.Add(inode, device, location)` for the first file node with
    `Links > 1` of every (inode, device) -/
def hardlinkStep {ID : Type} (idx : List ((Nat × Nat) × Path)) (n : Node ID) : List ((Nat × Nat) × Path) :=
  if n.kind = .file ∧ n.links > 1 then
    if (idx.find? (·.1 = (n.inode, n.deviceID))).isSome then idx else idx ++ [((n.inode, n.deviceID), n.path)]
  else idx

def hardlinkIndex {ID : Type} (nodes : List (Node ID)) : List ((Nat × Nat) × Path) :=
  nodes.foldl hardlinkStep []

def idxValue (idx : List ((Nat × Nat) × Path)) (key : Nat × Nat) : Option Path :=
  (idx.find? (·.1 = key)).map (·.2)

/-- what the restorer leaves at one path: a fresh inode, or a hard link to an earlier path -/
inductive Restored
  | fresh (kind : Kind) (md : Meta) (content : Bytes) (target : Bytes) (rdev : Nat)
  | link (to : Path) (md : Meta)       -- `restoreHardlinkAt` + `restoreNodeMetadataTo` on the link
deriving Repr

/-- second pass for one node (the first pass has written the contents of the non-link files) -/
def restoreNode {ID : Type} [DecidableEq ID] (s : Store ID) (idx : List ((Nat × Nat) × Path))
    (order : Path → List Nat) (n : Node ID) : Option (Path × Restored) :=
  match n.kind with
  | .file =>
    match idxValue idx (n.inode, n.deviceID) with
    | some first =>
      if first ≠ n.path then some (n.path, .link first n.md)
      else (restoreContent s n.content n.size (order n.path)).map fun c => (n.path, .fresh .file n.md c [] 0)
    | none => (restoreContent s n.content n.size (order n.path)).map fun c => (n.path, .fresh .file n.md c [] 0)
  | k => some (n.path, .fresh k n.md [] n.target n.device)

def mapM' {α β : Type} (f : α → Option β) : List α → Option (List β)
  | [] => some []
  | a :: as =>
    match f a, mapM' f as with
    | some b, some bs => some (b :: bs)
    | _, _ => none

def restore {ID : Type} [DecidableEq ID] (s : Store ID) (nodes : List (Node ID))
    (order : Path → List Nat) : Option (List (Path × Restored)) :=
  mapM' (restoreNode s (hardlinkIndex nodes) order) nodes

/-- the restored directory as lstat / read would show it. A hard link shows the inode (numbered
    by the position of the path that created it) and the content of its target. Hard links share
    one inode, so the metadata finally visible on all names is what the last
    `restoreNodeMetadataTo` on one of them wrote; all names of a source inode carry the same
    metadata (hypothesis `WF`), so the model records each name's own. -/
def posOf (rs : List (Path × Restored)) (p : Path) : Nat := rs.findIdx (·.1 = p)

def observeOne (rs : List (Path × Restored)) (r : Path × Restored) : Item :=
  match r.2 with
  | .fresh k m c t d =>
    { path := r.1, kind := k, md := m, content := c, target := t, rdev := d, dev := 0, ino := posOf rs r.1, nlink := 1 }
  | .link to m =>
    let c := match rs.find? (·.1 = to) with
      | some (_, .fresh _ _ c _ _) => c
      | _ => []
    { path := r.1, kind := .file, md := m, content := c, target := [], rdev := 0, dev := 0, ino := posOf rs to, nlink := 2 }

def observe (rs : List (Path × Restored)) : List Item := rs.map (observeOne rs)

/-! ## the executable statement: `src ≃ dst` -/

/-- same entry: name (path), type, content, link target, device number, mode bits, mtime,
    ownership, xattrs -/
def sameEntry (a b : Item) : Bool :=
  a.path == b.path && a.kind == b.kind && a.md == b.md &&
  (a.kind != .file || a.content == b.content) &&
  (a.kind != .symlink || a.target == b.target) &&
  (!(a.kind == .dev || a.kind == .chardev) || a.rdev == b.rdev)

/-- hard-link grouping of regular files: two paths share an inode in `src` iff they do in `dst` -/
def sameGrouping (src dst : List Item) : Bool :=
  let z := src.zip dst
  z.all fun (a, a') => z.all fun (b, b') =>
    !(a.kind == .file && b.kind == .file) ||
      (((a.dev, a.ino) == (b.dev, b.ino)) == ((a'.dev, a'.ino) == (b'.dev, b'.ino)))

/-- `restored ≃ source`: every backed-up entry (everything but sockets) is there, nothing else,
    entry by entry equal, and the hard-link partition of the regular files is the same -/
def specOK (src dst : List Item) : Bool :=
  let s := src.filter (·.kind != .socket)
  s.length == dst.length && (s.zip dst).all (fun (a, b) => sameEntry a b) && sameGrouping s dst

end Restic.Model.Backup
