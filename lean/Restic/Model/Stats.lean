import Restic.Model.SnapTree
/-
Model of `restic stats --mode restore-size` (C54): `statsWalkTree` (restore-size branch) with
`data.HardlinkIndex`, `statsWalkSnapshot` (fresh index per snapshot, `walker.Walk`), the loop of
`runStats` over the selected snapshots (cmd/restic/cmd_stats.go), and — as the thing the numbers
are supposed to predict — the size accounting of the first pass of `Restorer.RestoreTo`
(internal/restorer/restorer.go, `visitNode`).  Core Lean only.
-/
namespace Restic.Model.Stats
open Restic.Model.SnapTree

abbrev Key := Nat × Nat      -- (inode, device id)

/-- `HardlinkIndex.Has` -/
def idxHas (idx : List Key) (k : Key) : Bool := idx.contains k
/-- `HardlinkIndex.Add`: keeps the first value, i.e. as a set: insert -/
def idxAdd (idx : List Key) (k : Key) : List Key := if idx.contains k then idx else k :: idx

structure St where
  count : Nat := 0          -- stats.TotalFileCount
  size : Nat := 0           -- stats.TotalSize
  idx : List Key := []      -- hardLinkIndex of the current snapshot
deriving Repr, DecidableEq

def key (n : Meta) : Key := (n.inode, n.device)

/-- body of the closure returned by `statsWalkTree` for `countModeRestoreSize`, one node -/
def statsNode (s : St) (n : Meta) : St :=
  -- stats.TotalFileCount++ comes first, on every path
  if n.links == 1 || n.type == .dir then
    { s with count := s.count + 1, size := s.size + n.size }
  else if !(idxHas s.idx (key n)) || n.inode == 0 then
    { count := s.count + 1, idx := idxAdd s.idx (key n), size := s.size + n.size }
  else { s with count := s.count + 1 }

structure Totals where
  snapshots : Nat := 0      -- stats.SnapshotsCount
  count : Nat := 0
  size : Nat := 0
deriving Repr, DecidableEq

/-- `statsWalkSnapshot`: new hard-link index, walk the snapshot's tree; `none` = the walk failed -/
def statsSnapshot (tot : Totals) (t : List Tree) : Option Totals :=
  match walkL (fun s n => some (statsNode s n)) t { count := tot.count, size := tot.size, idx := [] } with
  | none => none
  | some s => some { snapshots := tot.snapshots + 1, count := s.count, size := s.size }

/-- the snapshot loop of `runStats` -/
def runStats (snaps : List (List Tree)) : Option Totals := snaps.foldlM statsSnapshot {}

/-! ### what a restore writes -/

structure RSt where
  bytes : Nat := 0          -- sum of `Progress.AddFile(size)` = bytes handed to the file restorer
  idx : List Key := []
deriving Repr, DecidableEq

/-- first pass of `RestoreTo`, `visitNode`: only regular files carry data; a file with more than
    one link whose (inode, device) was seen before becomes a hard link and adds nothing -/
def restoreNode (r : RSt) (n : Meta) : RSt :=
  if n.type != .file then r
  else if n.links > 1 then
    if idxHas r.idx (key n) then r
    else { idx := idxAdd r.idx (key n), bytes := r.bytes + n.size }
  else { r with bytes := r.bytes + n.size }

def restoreBytes (t : List Tree) : Nat := ((flattenL t).foldl restoreNode {}).bytes

/-! ### executable statement of C54 -/

/-- Trees as the archiver writes them (`nodeFillExtendedStat`, `nodeFromFileInfo`):
    only regular files have a size; a regular file without link count has no inode either (Windows,
    stdin); a regular file with several links has an inode; and an inode/device pair used by a
    hard-linked regular file is not also carried by a special node that takes part in the
    hard-link bookkeeping of `stats` (links ≠ 1). -/
def wf (ns : List Meta) : Bool :=
  ns.all (fun n => n.type == .file || n.size == 0) &&
  ns.all (fun n => !(n.type == .file && n.links == 0) || n.inode == 0) &&
  ns.all (fun n => !(n.type == .file && n.links > 1) || n.inode != 0) &&
  ns.all (fun n => n.type == .file || n.type == .dir || n.links == 1 ||
    ns.all (fun f => !(f.type == .file && f.links > 1) || key n != key f))

/-- C54: number of snapshots, number of entries, and (for archiver-shaped trees) the size equals
    what restoring every selected snapshot writes. -/
def specOK (snaps : List (List Tree)) (out : Totals) : Bool :=
  out.snapshots == snaps.length &&
  out.count == (snaps.map (fun t => (flattenL t).length)).sum &&
  (!(snaps.all (fun t => wf (flattenL t))) || out.size == (snaps.map restoreBytes).sum)

/-- member of a hard-link group: regular file with several links -/
def grouped (n : Meta) : Bool := n.type == .file && n.links > 1

/-- `n` is the first member of its hard-link group, given the nodes that precede it in tree order -/
def firstOfGroup (before : List Meta) (n : Meta) : Bool :=
  !(grouped n) || !(before.any (fun f => grouped f && key f == key n))

/-- the same size, said without any index: every regular file counts with its size, except that of
    each group of regular files with several links and the same (inode, device) only the first one
    in tree order counts -/
def groupedSizeFrom (before : List Meta) : List Meta → Nat
  | [] => 0
  | n :: rest =>
    (if n.type == .file && firstOfGroup before n then n.size else 0) + groupedSizeFrom (before ++ [n]) rest

def groupedSize (ns : List Meta) : Nat := groupedSizeFrom [] ns

end Restic.Model.Stats
