/-
Model of restic's path pattern matching (C28): internal/filter/filter.go —
`prepareStr`, `preparePattern`, `splitPath`, `hasDoubleWildcard`, `match` (with the gradual
expansion of the recursive wildcard, *including the re-used expansion buffer*), `childMatch`,
`list` (negated patterns, early break), `Match`, `ChildMatch`, `ParsePatterns`, `List`,
`ListWithChild`, `ValidatePatterns`.  Core Lean only.

Conventions
* strings are `List Char` (one `Char` per byte, all generated inputs are ASCII);
* every Go slice access is checked: an index or slice bound that would be out of range in Go
  makes the model return `.panic` (the theorem `match_total` in `Props/C28.lean` shows this never
  happens); the well-founded recursion of `match` on the number of recursive wildcards is
  modelled with fuel, running out of fuel is the distinct outcome `.fuel` (also proved impossible);
* matching of ONE component against ONE pattern part (`filepath.Match`) and `filepath.Clean` are
  stdlib oracles (`Glob`, `Clean` arguments); `none` = `filepath.ErrBadPattern`.
-/
namespace Restic.Model.Filter

abbrev Str := List Char

/-- `filepath.Match(part, component)`: `none` = ErrBadPattern -/
abbrev Glob := Str → Str → Option Bool

inductive Err where
  | badString     -- filter.ErrBadString
  | badPattern    -- filepath.ErrBadPattern (wrapped)
deriving DecidableEq, Repr

inductive Res (α : Type) where
  | ok (a : α)
  | err (e : Err)
  | panic          -- a Go run-time panic (index / slice bounds out of range)
  | fuel           -- model artefact: recursion budget exhausted
deriving DecidableEq, Repr

/-- `patternPart`: `pat = []` stands for the recursive wildcard, `['/']` (first part only) marks an
    absolute pattern. -/
structure Part where
  pat : Str
  simple : Bool
deriving DecidableEq, Repr

/-- `Pattern` (the `original` string is only used for messages) -/
structure Pattern where
  parts : List Part
  negated : Bool
deriving DecidableEq, Repr

def slash : Str := ['/']
def starPart : Part := ⟨['*'], false⟩
/-- the zero value of `patternPart` (content of a fresh `make([]patternPart, n)`) -/
def zeroPart : Part := ⟨[], false⟩

/-! ### strings -/

/-- `strings.Split(s, "/")` -/
def splitSlash : Str → List Str
  | [] => [[]]
  | c :: cs =>
    if c = '/' then [] :: splitSlash cs
    else match splitSlash cs with
      | [] => [[c]]            -- unreachable, `splitSlash` is never empty
      | x :: xs => (c :: x) :: xs

/-- `splitPath`: split at "/", an empty first component (absolute path) becomes "/" -/
def splitPath (p : Str) : List Str :=
  match splitSlash p with
  | [] :: rest => slash :: rest
  | l => l

/-- `prepareStr` -/
def prepareStr (s : Str) : Res (List Str) :=
  if s = [] then .err .badString else .ok (splitPath s)

/-- `!strings.ContainsAny(part, "\\[]*?")` -/
def isSimple (part : Str) : Bool :=
  !(part.any fun c => c = '\\' || c = '[' || c = ']' || c = '*' || c = '?')

/-- `preparePattern`; `clean` is `filepath.Clean`. `patternStr[0]` on the empty string panics (all
    callers check for the empty pattern first). -/
def preparePattern (clean : Str → Str) (s : Str) : Res Pattern :=
  match s with
  | [] => .panic
  | c :: rest =>
    let neg := c = '!'
    let body := if c = '!' then rest else s
    let pathParts := splitPath (clean body)
    .ok ⟨pathParts.map fun part => ⟨if part = ['*', '*'] then [] else part, isSimple part⟩, neg⟩

/-! ### checked slice operations -/

/-- `s[:hi]` (requires `hi ≤ len`; we never rely on spare capacity) -/
def sliceTo {α} (l : List α) (hi : Nat) : Option (List α) :=
  if hi ≤ l.length then some (l.take hi) else none

/-- `s[lo:]` -/
def sliceFrom {α} (l : List α) (lo : Nat) : Option (List α) :=
  if lo ≤ l.length then some (l.drop lo) else none

/-- `buf[i] = v` -/
def setAt {α} (l : List α) (i : Nat) (v : α) : Option (List α) :=
  if i < l.length then some (l.set i v) else none

/-- `copy(dst, src)`: copies `min(len dst, len src)` elements -/
def copyInto {α} (dst src : List α) : List α :=
  src.take dst.length ++ dst.drop (min dst.length src.length)

/-- writing `tail` into the backing array `buf` starting at index `k` (`k + |tail| ≤ |buf|`) -/
def overwriteAt {α} (buf : List α) (k : Nat) (tail : List α) : List α :=
  buf.take k ++ tail ++ buf.drop (k + tail.length)

/-! ### match -/

/-- `hasDoubleWildcard`: index of the first part with the empty pattern -/
def hasDW : List Part → Option Nat
  | [] => none
  | p :: ps => if p.pat = [] then some 0 else (hasDW ps).map (· + 1)

/-- one comparison of the innermost loop -/
def partMatch (glob : Glob) (p : Part) (c : Str) : Option Bool :=
  if p.simple then some (decide (p.pat = c)) else glob p.pat c

/-- inner loop `for i := len(parts)-1; i >= 0; i--` at a fixed offset; `n` = number of parts still
    to compare (the next index is `n-1`). `ok true`: every part matched. -/
def windowLoop (glob : Glob) (parts : List Part) (strs : List Str) (offset : Nat) : Nat → Res Bool
  | 0 => .ok true
  | i + 1 =>
    match parts[i]?, strs[offset + i]? with
    | some p, some c =>
      match partMatch glob p c with
      | none => .err .badPattern
      | some false => .ok false          -- `continue outer`
      | some true => windowLoop glob parts strs offset i
    | _, _ => .panic

/-- outer loop `for offset := maxOffset; offset >= minOffset; offset--`; `n = offset + 1` -/
def offsetLoop (glob : Glob) (parts : List Part) (strs : List Str) (minOffset : Nat) : Nat → Res Bool
  | 0 => .ok false
  | off + 1 =>
    if off < minOffset then .ok false else
    match windowLoop glob parts strs off parts.length with
    | .ok true => .ok true
    | .ok false => offsetLoop glob parts strs minOffset off
    | r => r

/-- the part of `match` after the wildcard expansion (pattern without recursive wildcard) -/
def matchFlat (glob : Glob) (parts : List Part) (strs : List Str) : Res Bool :=
  if parts.length = 0 ∧ strs.length = 0 then .ok true
  else if parts.length = 0 then .ok false
  else if parts.length ≤ strs.length then
    match parts[0]? with
    | none => .panic
    | some p0 =>
      let maxOffset := strs.length - parts.length
      if p0.pat = slash then offsetLoop glob parts strs 0 (0 + 1)
      else match strs[0]? with
        | none => .panic
        | some s0 =>
          if s0 = slash then offsetLoop glob parts strs 1 (maxOffset + 1)
          else offsetLoop glob parts strs 0 (maxOffset + 1)
  else .ok false

/-- number of parts that are not the recursive wildcard (each needs one path component) -/
def required (parts : List Part) : Nat := (parts.filter fun p => p.pat ≠ []).length

/-- number of iterations of the expansion loop.
    fixed code: `for i := 0; i <= len(strs)-required; i++` -/
def itersFixed (parts : List Part) (strs : List Str) : Nat := strs.length + 1 - required parts
/-- code before the fix of finding C28:double-wildcard: `for i := 0; i <= len(strs)-len(parts)+1; i++` -/
def itersOld (parts : List Part) (strs : List Str) : Nat := strs.length + 2 - parts.length

/-- the expansion loop of `match`. `buf` is the backing array of `newPat` (shared by all
    iterations), `i` the loop variable, the first argument the number of iterations left.
    `rec` is the recursive call `match(Pattern{…, newPat, …}, strs)`. -/
def expandLoop (rec : List Part → Res Bool) (tail : List Part) (pos : Nat) :
    Nat → Nat → List Part → Res Bool
  | 0, _, _ => .ok false
  | r + 1, i, buf =>
    -- newPat := newPat[:pos+i]   (bounds: pos+i ≤ cap = len(strs))
    if pos + i ≤ buf.length then
      -- if i > 0 { newPat[pos+i-1] = patternPart{"*", false} }
      let buf1? := if i > 0 then setAt buf (pos + i - 1) starPart else some buf
      match buf1? with
      | none => .panic
      | some buf1 =>
        -- newPat = append(newPat, pattern.parts[pos+1:]...)  — in place when it fits the capacity
        let newPat := buf1.take (pos + i) ++ tail
        let buf2 := if pos + i + tail.length ≤ buf1.length then overwriteAt buf1 (pos + i) tail else buf1
        match rec newPat with
        | .ok true => .ok true
        | .ok false => expandLoop rec tail pos r (i + 1) buf2
        | e => e
    else .panic

/-- `match`, parameterised by the loop bound (`itersFixed` / `itersOld`) -/
def matchFuel (iters : List Part → List Str → Nat) (glob : Glob) : Nat → List Part → List Str → Res Bool
  | 0, _, _ => .fuel
  | fuel + 1, parts, strs =>
    match hasDW parts with
    | some pos =>
      -- newPat := make([]patternPart, len(strs)); copy(newPat, pattern.parts[:pos])
      match sliceTo parts pos, sliceFrom parts (pos + 1) with
      | some pre, some tail =>
        let buf := copyInto (List.replicate strs.length zeroPart) pre
        expandLoop (fun np => matchFuel iters glob fuel np strs) tail pos (iters parts strs) 0 buf
      | _, _ => .panic
    | none => matchFlat glob parts strs

/-- number of recursive wildcards = recursion depth needed -/
def countDW (parts : List Part) : Nat := (parts.filter fun p => p.pat = []).length

/-- `match` of the current (fixed) source -/
def matchGo (glob : Glob) (parts : List Part) (strs : List Str) : Res Bool :=
  matchFuel itersFixed glob (countDW parts + 1) parts strs

/-- `match` as it was before the fix (kept for the negation witness) -/
def matchOld (glob : Glob) (parts : List Part) (strs : List Str) : Res Bool :=
  matchFuel itersOld glob (countDW parts + 1) parts strs

/-- `childMatch` -/
def childMatch (glob : Glob) (parts : List Part) (strs : List Str) : Res Bool :=
  match parts[0]? with
  | none => .panic
  | some p0 =>
    if p0.pat ≠ slash then .ok true else
    -- cut off at the double wildcard
    let strs'? : Option (List Str) := match hasDW parts with
      | some pos => if strs.length ≥ pos then sliceTo strs pos else some strs
      | none => some strs
    match strs'? with
    | none => .panic
    | some strs' =>
      let l := min strs'.length parts.length
      match sliceTo parts l with
      | none => .panic
      | some pre => matchGo glob pre strs'

/-! ### list -/

/-- the loop of `list` over the patterns -/
def listLoop (glob : Glob) (checkChild hasNeg : Bool) (strs : List Str) :
    List Pattern → Bool → Bool → Res (Bool × Bool)
  | [], matched, child => .ok (matched, child)
  | pat :: rest, matched, child =>
    match matchGo glob pat.parts strs with
    | .ok m =>
      match (if checkChild then childMatch glob pat.parts strs else .ok true) with
      | .ok c =>
        if pat.negated then listLoop glob checkChild hasNeg strs rest (matched && !m) (child && !m)
        else
          let matched' := matched || m
          let child' := child || c
          if matched' && child' && !hasNeg then .ok (matched', child')   -- `break`
          else listLoop glob checkChild hasNeg strs rest matched' child'
      | .err e => .err e
      | .panic => .panic
      | .fuel => .fuel
    | .err e => .err e
    | .panic => .panic
    | .fuel => .fuel

/-- `list` after `prepareStr`: `hasNegatedPattern`, then the loop -/
def listStrs (glob : Glob) (pats : List Pattern) (checkChild : Bool) (strs : List Str) : Res (Bool × Bool) :=
  listLoop glob checkChild (pats.any (·.negated)) strs pats false false

/-- `list` -/
def list (glob : Glob) (pats : List Pattern) (checkChild : Bool) (str : Str) : Res (Bool × Bool) :=
  if pats.length = 0 then .ok (false, false) else
  match prepareStr str with
  | .ok strs => listStrs glob pats checkChild strs
  | .err e => .err e
  | .panic => .panic
  | .fuel => .fuel

/-! ### exported entry points -/

def bindPat {β} (r : Res Pattern) (f : Pattern → Res β) : Res β :=
  match r with
  | .ok p => f p
  | .err e => .err e
  | .panic => .panic
  | .fuel => .fuel

/-- `Match` -/
def Match (clean : Str → Str) (glob : Glob) (pat str : Str) : Res Bool :=
  if pat = [] then .ok true else
  bindPat (preparePattern clean pat) fun p =>
    match prepareStr str with
    | .ok strs => matchGo glob p.parts strs
    | .err e => .err e
    | .panic => .panic
    | .fuel => .fuel

/-- `ChildMatch` -/
def ChildMatch (clean : Str → Str) (glob : Glob) (pat str : Str) : Res Bool :=
  if pat = [] then .ok true else
  bindPat (preparePattern clean pat) fun p =>
    match prepareStr str with
    | .ok strs => childMatch glob p.parts strs
    | .err e => .err e
    | .panic => .panic
    | .fuel => .fuel

/-- `ParsePatterns`: empty strings are skipped -/
def parsePatterns (clean : Str → Str) : List Str → Res (List Pattern)
  | [] => .ok []
  | s :: rest =>
    if s = [] then parsePatterns clean rest else
    bindPat (preparePattern clean s) fun p =>
      match parsePatterns clean rest with
      | .ok ps => .ok (p :: ps)
      | e => e

/-- `ValidatePatterns` for one parsed pattern: every part matched against itself must not give
    an error -/
def validPattern (glob : Glob) (p : Pattern) : Bool :=
  p.parts.all fun part => (glob part.pat part.pat).isSome

/-! ### Executable statement of the property

`specMatch` is the documented meaning of a pattern: expand every recursive wildcard into `k ≥ 0`
single-component wildcards `*`, then the expanded pattern must fit a window of consecutive path
components — at the start of the path for an absolute pattern, anywhere (after the root marker of
an absolute path) for a relative one; a window need not reach the end of the path ("a match on a
directory covers everything inside it"). -/

/-- all expansions of the recursive wildcards with at most `budget` parts -/
def expansions : List Part → Nat → List (List Part)
  | [], _ => [[]]
  | p :: ps, budget =>
    if p.pat = [] then
      (List.range (budget + 1)).flatMap fun k =>
        (expansions ps (budget - k)).map fun q => List.replicate k starPart ++ q
    else if budget = 0 then []
    else (expansions ps (budget - 1)).map fun q => p :: q

/-- all parts of `qs` match the components of `strs` starting at `off` -/
def windowB (glob : Glob) : List Part → List Str → Bool
  | [], _ => true
  | _ :: _, [] => false
  | q :: qs, c :: cs => partMatch glob q c = some true && windowB glob qs cs

def flatMatchB (glob : Glob) (qs : List Part) (strs : List Str) : Bool :=
  match qs with
  | [] => strs.isEmpty
  | q0 :: _ =>
    (List.range (strs.length + 1)).any fun off =>
      windowB glob qs (strs.drop off) &&
      (if q0.pat = slash then off = 0 else if strs.head? = some slash then 1 ≤ off else true)

def specMatch (glob : Glob) (parts : List Part) (strs : List Str) : Bool :=
  (expansions parts strs.length).any fun qs => flatMatchB glob qs strs

/-- `list` without the early break: a fold over the patterns, later negated patterns re-include -/
def specList (glob : Glob) (pats : List Pattern) (strs : List Str) : Bool :=
  pats.foldl (fun acc p => if p.negated then acc && !specMatch glob p.parts strs
                           else acc || specMatch glob p.parts strs) false

/-- no part of the pattern can make the glob oracle fail (what `ValidatePatterns` establishes,
    given that malformedness is a property of the pattern alone) -/
def noErrOn (glob : Glob) (parts : List Part) (strs : List Str) : Bool :=
  parts.all fun p => p.simple || strs.all fun c => (glob p.pat c).isSome

/-- C28 on observed behaviour of one pattern on a path `s` and an extension `s ++ ext`:
    `m`, `m'` = answers of Match on `s`, `s ++ ext`; `c` = answer of ChildMatch on `s`. -/
def specOK (glob : Glob) (parts : List Part) (s ext : List Str) (m m' c : Bool) : Bool :=
  m = specMatch glob parts s && m' = specMatch glob parts (s ++ ext) &&
  (!m || m') &&          -- a match on a directory covers everything inside it
  (!m' || c)             -- children-may-match is never false when something below matches

end Restic.Model.Filter
