/-
Model of the tree traversal used by prune / check / copy / stats (C42):
`StreamTrees`, `filterTrees`, `loadTreeWorker`, `subtreesCollector` (internal/data/tree_stream.go),
`FindUsedBlobs` (internal/data/find.go) and the checker's consumer `Checker.Structure` /
`checkTree` (internal/checker/checker.go).  Core Lean only.

The concurrent program is a transition system.  One goroutine (`filterTrees`) owns the backlog
stack, the `skip` callback (visited test-and-set) and the counter of outstanding jobs; worker
goroutines (`loadTreeWorker`) load a tree, run the consumer's `process` callback on it and hand
the collected subtree ids back.  Every interleaving the Go scheduler can produce is a path of
`step` with some sequence of `Action`s (the converse is not claimed: the model allows more
interleavings than the Go code, which only makes the theorems stronger).
-/
namespace Restic.Model.Traverse

inductive NodeKind where
  | file | dir | other | invalid
deriving DecidableEq, Repr, Inhabited

/-- the fields of `data.Node` the traversal looks at -/
structure Node (ID : Type) where
  kind : NodeKind
  /-- `Content` (data blob ids); `contentNil` distinguishes a nil slice (checker only) -/
  content : List ID
  contentNil : Bool := false
  /-- `Subtree`, `none` = nil pointer -/
  subtree : Option ID
  nameEmpty : Bool := false
deriving Repr, Inhabited

/-- what `LoadTree` followed by iteration yields for a tree id -/
inductive Loaded (ID : Type) where
  /-- `LoadBlob` fails or the iterator cannot be initialised (`tree == nil`, `err != nil`) -/
  | missing
  /-- the iterator yields `nodes` and then, iff `bad`, one final error item ("errors are final") -/
  | tree (nodes : List (Node ID)) (bad : Bool)
deriving Repr, Inhabited

structure Cfg (ID : Type) where
  store : ID → Loaded ID
  /-- `ID.IsNull` -/
  isNull : ID → Bool
  /-- data blob present in the index (checker's `LookupBlobSize`) -/
  indexHas : ID → Bool := fun _ => true

variable {ID : Type} [DecidableEq ID]

/-- `subtreesCollector`: ids appended while the consumer iterates
    (`item.Node != nil && Type == dir && Subtree != nil`) -/
def collect (nodes : List (Node ID)) : List ID :=
  nodes.filterMap fun n => if n.kind = .dir then n.subtree else none

/-- `Content` of the file nodes (what `FindUsedBlobs` inserts as data blobs) -/
def fileBlobs (nodes : List (Node ID)) : List ID :=
  nodes.flatMap fun n => if n.kind = .file then n.content else []

/-- what the collector hands back for tree `t` once the consumer has read all of it -/
def collected (cfg : Cfg ID) (t : ID) : List ID :=
  match cfg.store t with
  | .missing => []
  | .tree nodes _ => collect nodes

/-- subtrees that `filterTrees` pushes for a received tree: collected ids minus null ids -/
def children (cfg : Cfg ID) (t : ID) : List ID :=
  (collected cfg t).filter fun c => !cfg.isNull c

/-- data blobs referenced by the file nodes of tree `t` -/
def treeBlobs (cfg : Cfg ID) (t : ID) : List ID :=
  match cfg.store t with
  | .missing => []
  | .tree nodes _ => fileBlobs nodes

/-- the tree loads and decodes completely -/
def good (cfg : Cfg ID) (t : ID) : Bool :=
  match cfg.store t with
  | .tree _ false => true
  | _ => false

/-! ### consumers (the `process` callbacks) -/

inductive ProcRes (ID : Type) where
  /-- `process` returned an error: the worker returns it, the errgroup cancels everything -/
  | abort
  /-- `process` returned nil; `blobs` were inserted into the blob set, `report` = an error for this
      tree was reported (checker), `drained` = the node iterator was read to its end -/
  | fine (blobs : List ID) (report : Bool) (drained : Bool)
deriving Repr

structure Consumer (ID : Type) where
  proc : Cfg ID → ID → Loaded ID → ProcRes ID

/-- the callback of `FindUsedBlobs`: load error or decode error ⇒ return it; file contents inserted -/
def findUsed : Consumer ID where
  proc := fun _ _ l =>
    match l with
    | .missing => .abort
    | .tree nodes bad => if bad then .abort else .fine (fileBlobs nodes) false true

/-- errors `checkTree` reports for one decoded node -/
def nodeHasErr (cfg : Cfg ID) (n : Node ID) : Bool :=
  (match n.kind with
   | .file => n.contentNil || n.content.any (fun b => cfg.isNull b || !cfg.indexHas b)
   | .dir => match n.subtree with
             | none => true
             | some s => cfg.isNull s
   | .other => false
   | .invalid => true)
  -- (the empty-name test is skipped by `continue` for a dir without subtree, which is an error anyway)
  || n.nameEmpty

/-- the callback of `Checker.Structure` (+ `checkTree`): never returns an error; a load error or a
    decode error is reported as a `TreeError`.  `drains` says whether `checkTree` keeps reading the
    iterator after a decode-error item (`continue`) or leaves the loop (`break`).  The code as it
    is after the fix of F15 drains; the code before the fix did not. -/
def checker (drains : Bool) : Consumer ID where
  proc := fun cfg _ l =>
    match l with
    | .missing => .fine [] true true
    | .tree nodes bad => .fine [] (bad || nodes.any (nodeHasErr cfg)) (drains || !bad)

/-! ### the transition system -/

inductive Status where
  | running | failed | panicked
deriving DecidableEq, Repr, Inhabited

structure State (ID : Type) where
  /-- `backlog`, head = top of the stack (= end of the Go slice) -/
  backlog : List ID
  /-- `nextTreeID` while `loadCh != nil`: popped, marked visited, not yet taken by a worker -/
  pending : Option ID
  /-- ids sent to a worker whose tree has not been loaded yet -/
  outstanding : List ID
  /-- jobs processed by a worker and not yet received by `filterTrees`: id and collected subtrees -/
  done : List (ID × List ID)
  /-- the set behind the `skip` callback (tree blobs of `blobs` for FindUsedBlobs) -/
  seen : List ID
  /-- data blobs inserted by `process` -/
  blobs : List ID
  /-- log of `LoadTree` calls -/
  loads : List ID
  /-- trees whose job was received by `filterTrees` -/
  received : List ID
  /-- trees for which the consumer reported an error (checker) -/
  reported : List ID
  status : Status
deriving Repr, Inhabited

inductive Action (ID : Type) where
  /-- `filterTrees` takes the top of the backlog and calls `skip` on it -/
  | pop
  /-- a worker receives `nextTreeID` from the loader channel -/
  | send
  /-- the worker holding `id` loads the tree, runs `process`, asks the collector for the subtrees -/
  | work (id : ID)
  /-- `filterTrees` receives a finished job -/
  | recv (id : ID) (subs : List ID)
deriving Repr

/-- `filterTrees` initial state: `backlog = trees`, popped from the end. `seen0`/`blobs0` = content
    of the caller's blob set before the call (non-empty for `stats`, which reuses one set). -/
def init (roots seen0 blobs0 : List ID) : State ID :=
  { backlog := roots.reverse, pending := none, outstanding := [], done := [], seen := seen0,
    blobs := blobs0, loads := [], received := [], reported := [], status := .running }

def step (cfg : Cfg ID) (c : Consumer ID) (a : Action ID) (s : State ID) : Option (State ID) :=
  if s.status ≠ .running then none else
  match a with
  | .pop =>
    match s.pending, s.backlog with
    | none, id :: rest =>
      if id ∈ s.seen then some { s with backlog := rest }
      else some { s with backlog := rest, seen := id :: s.seen, pending := some id }
    | _, _ => none
  | .send =>
    match s.pending with
    | some id => some { s with pending := none, outstanding := id :: s.outstanding }
    | none => none
  | .work id =>
    if id ∈ s.outstanding then
      let s := { s with outstanding := s.outstanding.erase id, loads := id :: s.loads }
      match c.proc cfg id (cfg.store id) with
      | .abort => some { s with status := .failed }
      | .fine bl rep drained =>
        let s := { s with blobs := bl ++ s.blobs, reported := if rep then id :: s.reported else s.reported }
        match cfg.store id with
        | .missing => some { s with done := (id, []) :: s.done }
        | .tree nodes _ =>
          -- `collectSubtrees()` panics with "tree was not read completely" unless drained
          if drained then some { s with done := (id, collect nodes) :: s.done }
          else some { s with status := .panicked }
    else none
  | .recv id subs =>
    if (id, subs) ∈ s.done then
      some { s with done := s.done.erase (id, subs), received := id :: s.received,
                    backlog := subs.filter (fun c => !cfg.isNull c) ++ s.backlog }
    else none

/-- `filterTrees` returns normally: nothing waiting, nothing outstanding -/
def terminal (s : State ID) : Bool :=
  s.status = .running && s.pending.isNone && s.backlog.isEmpty && s.outstanding.isEmpty && s.done.isEmpty

/-- a deterministic scheduler used by the driver: `choice` numbers pick among the enabled actions
    (so different numbers give different interleavings); runs until nothing is enabled -/
def enabled (s : State ID) : List (Action ID) :=
  if s.status ≠ .running then [] else
  (match s.pending, s.backlog with
   | none, _ :: _ => [Action.pop]
   | some _, _ => [Action.send]
   | _, _ => [])
  ++ s.outstanding.map Action.work
  ++ s.done.map (fun d => Action.recv d.1 d.2)

def pick (choices : List Nat) : Nat × List Nat :=
  match choices with
  | [] => (0, [])
  | k :: rest => (k, rest)

def run (cfg : Cfg ID) (c : Consumer ID) : Nat → List Nat → State ID → State ID
  | 0, _, s => s
  | fuel + 1, choices, s =>
    match enabled s with
    | [] => s
    | a :: as =>
      match step cfg c (((a :: as)[(pick choices).1 % (as.length + 1)]?).getD a) s with
      | none => s
      | some s' => run cfg c fuel (pick choices).2 s'

/-! ### Executable statement of the property -/

/-- add the elements of `xs` that are not yet in `S` -/
def addNew (S xs : List ID) : List ID :=
  xs.foldl (fun acc x => if x ∈ acc then acc else acc ++ [x]) S

def expand (cfg : Cfg ID) (S : List ID) : List ID := addNew S (S.flatMap (children cfg))

/-- trees reachable from the roots in at most `n` steps -/
def reachN (cfg : Cfg ID) (roots : List ID) : Nat → List ID
  | 0 => addNew [] roots
  | n + 1 => expand cfg (reachN cfg roots n)

/-- `S` contains the children of each of its members -/
def closedB (cfg : Cfg ID) (S : List ID) : Bool :=
  S.all fun t => (children cfg t).all fun c => decide (c ∈ S)

def subsetB (a b : List ID) : Bool := a.all fun x => decide (x ∈ b)

/-- The used-blob computation returned without error: `trees`/`data` are what it put into the
    (initially empty) blob set, `loads` the log of tree loads.  `n` bounds the reference search. -/
def specOK (cfg : Cfg ID) (roots : List ID) (n : Nat) (trees data loads : List ID) : Bool :=
  let R := reachN cfg roots n
  -- exactly the reachable trees
  subsetB roots trees && closedB cfg trees && subsetB trees R
  -- exactly their data blobs
  && subsetB data (R.flatMap (treeBlobs cfg)) && subsetB (trees.flatMap (treeBlobs cfg)) data
  -- no silent truncation: every reachable tree loaded and decoded completely
  && trees.all (good cfg)
  -- each tree processed once
  && loads.all (fun t => loads.count t ≤ 1) && subsetB trees loads && subsetB loads trees

/-- The computation returned an error: that is only acceptable if some reachable tree cannot be
    loaded or decoded; and still no tree was loaded twice. -/
def specErrOK (cfg : Cfg ID) (roots : List ID) (n : Nat) (loads : List ID) : Bool :=
  (reachN cfg roots n).any (fun t => !good cfg t) && loads.all (fun t => loads.count t ≤ 1)

end Restic.Model.Traverse
