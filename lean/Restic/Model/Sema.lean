/-
Model of the connection-limiting backend wrapper (C37): `connectionLimitedBackend`,
`typeDependentLimit`, `Freeze`, `Unfreeze`, and the four wrapped methods Save/Load/Stat/Remove
(internal/backend/sema/backend.go), the channel semaphore (internal/backend/sema/semaphore.go).
Core Lean only.

Atomic-step transition system. One `Thread` = one call of Save/Load/Stat/Remove on the wrapper:

    if err := h.Valid(); err != nil { return Permanent(err) }      reject      (start -> done)
    defer be.typeDependentLimit(h.Type)()
        if t == LockFile { return func(){} }                       (lock threads skip both steps)
        be.sem.GetToken()                                          getToken    (start -> haveToken; blocks while len(ch) = cap)
        be.freezeLock.Lock(); defer be.freezeLock.Unlock()         passGate    (haveToken -> passedGate; blocks while frozen;
                                                                                lock+unlock of the mutex is one atomic step)
    if ctx.Err() != nil { return ctx.Err() }                       enter       (-> returning, inner backend NOT called)
    return be.Backend.X(...)                                       enter       (-> running, inner backend called)
    (the caller cancels ctx at any time)                           cancel      (sets `cancelled` while the check is still ahead)
    (deferred) ReleaseToken                                        finish      (running/returning -> done)

`Freeze` = freezeLock.Lock() (enabled iff the mutex is free), `Unfreeze` = freezeLock.Unlock().
The thread table is a `List` of arbitrary length; theorems quantify over all tables and all action
sequences (schedules).
-/
namespace Restic.Model.Sema

inductive PC where
  | start | haveToken | passedGate | running | returning | done
deriving DecidableEq, Repr, Inhabited

structure Thread where
  pc : PC := .start
  /-- `h.Type == backend.LockFile` -/
  isLock : Bool
  /-- `h.Valid() == nil` and (for Load) offset/length are non-negative -/
  valid : Bool
  /-- the call's context was cancelled before the wrapper's `ctx.Err()` check (from the start, or by a
      `cancel` step while the call was still waiting for a token or parked at the freeze gate) -/
  cancelled : Bool
  /-- the wrapped backend's method has been invoked for this call -/
  called : Bool := false
deriving DecidableEq, Repr, Inhabited

structure Sys where
  /-- capacity of the semaphore channel = `be.Properties().Connections` -/
  n : Nat
  /-- `len(sem.ch)`: tokens currently taken -/
  tokens : Nat
  /-- `freezeLock` is held by a `Freeze()` caller -/
  frozen : Bool
  threads : List Thread
deriving DecidableEq, Repr

inductive Act where
  | reject (i : Nat)
  | getToken (i : Nat)
  | passGate (i : Nat)
  | enter (i : Nat)
  | finish (i : Nat)
  | cancel (i : Nat)
  | freeze
  | unfreeze
deriving DecidableEq, Repr

def setT (s : Sys) (i : Nat) (t : Thread) : Sys := { s with threads := s.threads.set i t }

/-- One atomic step; `none` = the action is not enabled (the goroutine is blocked / not there). -/
def step (s : Sys) : Act → Option Sys
  | .reject i =>
    match s.threads[i]? with
    | some t => if t.pc = .start ∧ t.valid = false then some (setT s i { t with pc := .done }) else none
    | none => none
  | .getToken i =>
    match s.threads[i]? with
    | some t =>
      if t.pc = .start ∧ t.valid = true ∧ t.isLock = false ∧ s.tokens < s.n then
        some { setT s i { t with pc := .haveToken } with tokens := s.tokens + 1 }
      else none
    | none => none
  | .passGate i =>
    match s.threads[i]? with
    | some t =>
      if t.pc = .haveToken ∧ s.frozen = false then some (setT s i { t with pc := .passedGate }) else none
    | none => none
  | .enter i =>
    match s.threads[i]? with
    | some t =>
      if t.pc = .passedGate ∨ (t.pc = .start ∧ t.valid = true ∧ t.isLock = true) then
        if t.cancelled then some (setT s i { t with pc := .returning })
        else some (setT s i { t with pc := .running, called := true })
      else none
    | none => none
  | .finish i =>
    match s.threads[i]? with
    | some t =>
      if t.pc = .running ∨ t.pc = .returning then
        some { setT s i { t with pc := .done } with tokens := if t.isLock then s.tokens else s.tokens - 1 }
      else none
    | none => none
  | .cancel i =>
    -- the caller cancels the context of call `i` (e.g. tryRefreshStaleLock cancelling the lock context
    -- while the backend is frozen). It matters only if the wrapper has not yet checked the context.
    match s.threads[i]? with
    | some t =>
      if t.pc = .start ∨ t.pc = .haveToken ∨ t.pc = .passedGate then some (setT s i { t with cancelled := true })
      else some s
    | none => none
  | .freeze => if s.frozen = false then some { s with frozen := true } else none
  | .unfreeze => if s.frozen = true then some { s with frozen := false } else none

/-- run a schedule; `none` as soon as one action is not enabled -/
def run (s : Sys) : List Act → Option Sys
  | [] => some s
  | a :: as => match step s a with
    | some s' => run s' as
    | none => none

/-- initial state: `n` connections, nothing taken, not frozen, every call at its start -/
def init (n : Nat) (calls : List (Bool × Bool × Bool)) : Sys :=
  { n := n, tokens := 0, frozen := false,
    threads := calls.map fun c => { isLock := c.1, valid := c.2.1, cancelled := c.2.2 } }

/-- the thread holds a semaphore token -/
def holdsToken (t : Thread) : Bool :=
  !t.isLock && (t.pc == .haveToken || t.pc == .passedGate || t.pc == .running || t.pc == .returning)

/-- a non-lock call is executing inside the wrapped backend -/
def runningNonLock (t : Thread) : Bool := !t.isLock && t.pc == .running

/-! ### Executable statement of the property -/

/-- state part of C37: at most `n` non-lock operations inside the wrapped backend; a call whose
    context was cancelled or whose arguments are invalid never reached the wrapped backend -/
def specState (s : Sys) : Bool :=
  decide (s.threads.countP runningNonLock ≤ s.n) &&
  s.threads.all (fun t => !t.called || (t.valid && !t.cancelled))

/-- What the harness can observe of one call after the system has settled. -/
structure Obs where
  isLock : Bool
  valid : Bool
  cancelled : Bool
  /-- currently inside the wrapped backend's method -/
  inner : Bool
  /-- the wrapped backend's method has been invoked (now or earlier) -/
  called : Bool
  /-- the wrapper's method has returned -/
  returned : Bool
deriving DecidableEq, Repr, Inhabited

def obsOf (t : Thread) : Obs :=
  { isLock := t.isLock, valid := t.valid, cancelled := t.cancelled,
    inner := t.pc == .running, called := t.called, returned := t.pc == .done }

/-- C37 on one settled observation. `n` = configured connections; `frozenBefore`/`frozenAfter` =
    whether a `Freeze()` had completed (and no `Unfreeze()` yet) before / after the command;
    `prev`/`cur` = the calls' observations before / after the command (index = call id; `cur` may be
    longer than `prev` when the command started a new call).
    Returns the name of the violated clause, `none` if all hold. -/
def specObs (n : Nat) (frozenBefore frozenAfter : Bool) (prev cur : List Obs) : Option String :=
  if cur.countP (fun o => !o.isLock && o.inner) > n then some "limit-exceeded"
  else if cur.any (fun o => o.isLock && !(o.inner || o.returned)) then some "lock-op-blocked"
  else if cur.any (fun o => o.called && (o.cancelled || !o.valid)) then some "cancelled-or-invalid-call-reached-backend"
  else if frozenBefore && frozenAfter &&
      (List.range cur.length).any (fun i =>
        let c := cur.getD i default
        let p := prev.getD i { c with inner := false, called := false, returned := false }
        !c.isLock && c.called && !p.called) then some "started-while-frozen"
  else none

/-! ### Trace acceptance (used by the driver on the observations of the real wrapper)

At the harness's observation points the real system is settled (every goroutine is blocked), so every
call is waiting in front of the gate, inside the wrapped backend, or has returned. The acceptor keeps
a model state in which waiting calls are still at `start` (taking a token early is a scheduling choice
the observation cannot see and the model may defer) and replays, for every call whose observed status
changed, that call's own steps. If a step is not enabled the implementation did something the model
forbids. -/

/-- the steps call `i` (currently at `start`) takes to be inside the wrapped backend -/
def pathIn (t : Thread) (i : Nat) : List Act :=
  if t.isLock then [.enter i] else [.getToken i, .passGate i, .enter i]

/-- the steps call `i` takes from `start` to its return without external help (invalid arguments,
    or cancelled context) -/
def pathOut (t : Thread) (i : Nat) : List Act :=
  if !t.valid then [.reject i] else pathIn t i ++ [.finish i]

/-- replay the status changes of one observation: first the calls that returned, then the calls
    that are now inside the wrapped backend. `Except.error` names the first call whose observed
    progress the model does not allow. -/
def advance (s : Sys) (cur : List Obs) : Except String Sys := do
  let idx := List.range cur.length
  let s ← idx.foldlM (init := s) fun s i =>
    let o := cur.getD i default
    match s.threads[i]? with
    | none => .error s!"unknown-call-{i}"
    | some t =>
      if o.returned && t.pc != .done then
        match run s (pathOut t i) with
        | some s' => if (s'.threads.getD i default).pc == .done then .ok s' else .error s!"return-not-allowed-{i}"
        | none => .error s!"return-not-allowed-{i}"
      else if !o.returned && t.pc == .done then .error s!"model-returned-impl-not-{i}"
      else .ok s
  idx.foldlM (init := s) fun s i =>
    let o := cur.getD i default
    match s.threads[i]? with
    | none => .error s!"unknown-call-{i}"
    | some t =>
      if o.inner && t.pc != .running then
        match run s (pathIn t i) with
        | some s' => if (s'.threads.getD i default).pc == .running then .ok s' else .error s!"entry-not-allowed-{i}"
        | none => .error s!"entry-not-allowed-{i}"
      else if !o.inner && t.pc == .running then .error s!"model-inside-impl-not-{i}"
      else .ok s

/-- after `advance`: a call the implementation left waiting although the model has an enabled path
    for it (the implementation blocks where the transcription says it would not) -/
def stuck (s : Sys) : Option Nat :=
  (List.range s.threads.length).find? fun i =>
    match s.threads[i]? with
    | some t => t.pc == .start && ((run s (pathOut t i)).isSome || (run s (pathIn t i)).isSome)
    | none => false

end Restic.Model.Sema
