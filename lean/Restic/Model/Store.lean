import Restic.Gen.Consts
/-!
Model of the content-addressed load / save paths of the repository (C02):

* `Repository.LoadRaw` + helper `loadRaw` (internal/repository/raw.go): load, compare with the
  requested ID, (forget cache,) reload once, `ErrInvalidData`;
* `Repository.LoadUnpacked`, `decompressUnpacked`;
* `packBlobIterator.Next` (skip / read / decrypt / decompress / hash compare), `byteReader`;
* `Repository.loadBlob` / `LoadBlob` (fold over the candidate packs, second pass);
* `Repository.saveBlob` (hash or zero-chunk shortcut, `restic.ZeroPrefixLen`), `saveAndEncrypt`
  with `verifyCiphertext`, `saveUnpacked` with `verifyUnpacked`, `compressUnpacked`, `savePacker`.

Parameters (never implemented here): `hash` (SHA-256), `dec` (= split nonce + `Key.Open`, C05),
`enc` (= fresh nonce + `Key.Seal`), `zenc` / `zdec` (zstd). The backend is a *reply script*: the
list of answers the backend gives to the successive reads, chosen freely (correct, altered,
truncated, stale, error). Core Lean only.
-/
namespace Restic.Model.Store

abbrev Bytes := List UInt8
abbrev ID := Bytes

def idSize : Nat := 32
/-- `restic.ID{}` -/
def nullID : ID := List.replicate idSize 0

def extension : Nat := Restic.Gen.crypto_Extension
def nonceSize : Nat := Restic.Gen.crypto_ivSize
def minSize : Nat := Restic.Gen.chunker_MinSize

inductive FileType where
  | pack | key | lock | snapshot | index | config
deriving Repr, DecidableEq, Inhabited

/-! ### LoadRaw -/

/-- what one `be.Load(ctx, h, 0, 0, fn)` does, as far as the helper `loadRaw` can see -/
inductive BeReply where
  /-- `fn` is called once with a reader that delivers `b` completely; afterwards `Load` returns
      an error (`errAfter`) or nil -/
  | data (b : Bytes) (errAfter : Bool)
  /-- `fn` is called with a reader that fails after some bytes: `io.Copy` fails, `buf` is not assigned -/
  | readErr (part : Bytes)
  /-- `Load` fails without calling `fn` -/
  | fail
deriving Repr, DecidableEq, Inhabited

/-- result of the helper `loadRaw`: `(buf, err)`; a nil buffer is `[]` -/
structure Collected where
  buf : Bytes
  err : Bool
deriving Repr, DecidableEq, Inhabited

/-- helper `loadRaw(ctx, be, h)` -/
def collect : BeReply → Collected
  | .data b e => ⟨b, e⟩
  | .readErr _ => ⟨[], true⟩
  | .fail => ⟨[], true⟩

inductive LoadOut where
  | ok (buf : Bytes)              -- `(buf, nil)`
  | err                           -- `(nil, err)`
  | invalidData (buf : Bytes)     -- `(buf, ErrInvalidData)`: the damaged bytes are handed out WITH an error
  | stuck                         -- the reply script is exhausted (never produced by a real backend)
deriving Repr, DecidableEq, Inhabited

/-- `Repository.LoadRaw(ctx, t, id)` against the reply script; returns the unused replies -/
def loadRaw (hash : Bytes → ID) (t : FileType) (id : ID) : List BeReply → LoadOut × List BeReply
  | [] => (.stuck, [])
  | r1 :: rest =>
    let c1 := collect r1
    if t ≠ .config ∧ id ≠ hash c1.buf then
      -- `r.cache.Forget(h)`, then the second and last attempt
      match rest with
      | [] => (.stuck, [])
      | r2 :: rest' =>
        let c2 := collect r2
        if !c2.err ∧ id ≠ hash c2.buf then (.invalidData c2.buf, rest')
        else if c2.err then (.err, rest')
        else (.ok c2.buf, rest')
    else if c1.err then (.err, rest)
    else (.ok c1.buf, rest)

/-! ### LoadUnpacked -/

/-- `decompressUnpacked` -/
def decompressUnpacked (version : Nat) (zdec : Bytes → Option Bytes) (p : Bytes) : Option Bytes :=
  if version < 2 then some p
  else match p with
    | [] => some p
    | b :: rest =>
      if b == 0x5b || b == 0x7b then some p          -- '[' or '{': raw JSON
      else if b != 2 then none                       -- "not supported encoding format"
      else zdec rest

inductive UnpOut where
  | ok (p : Bytes)
  | loadErr | invalidData | tooShort | decryptErr | decodeErr | stuck
deriving Repr, DecidableEq, Inhabited

/-- `Repository.LoadUnpacked(ctx, t, id)`; `dec buf` = `Open(buf[16:], nonce = buf[:16])` -/
def loadUnpacked (hash : Bytes → ID) (dec zdec : Bytes → Option Bytes) (version : Nat)
    (t : FileType) (id : ID) (replies : List BeReply) : UnpOut × List BeReply :=
  let id' := if t = .config then nullID else id
  match loadRaw hash t id' replies with
  | (.stuck, rest) => (.stuck, rest)
  | (.err, rest) => (.loadErr, rest)
  | (.invalidData _, rest) => (.invalidData, rest)
  | (.ok buf, rest) =>
    if buf.length < extension then (.tooShort, rest)
    else match dec buf with
      | none => (.decryptErr, rest)
      | some pt =>
        if t ≠ .config then
          match decompressUnpacked version zdec pt with
          | some q => (.ok q, rest)
          | none => (.decodeErr, rest)
        else (.ok pt, rest)

/-! ### packBlobIterator.Next -/

/-- `pack.Blob` -/
structure Blob where
  id : ID
  tree : Bool
  offset : Nat
  length : Nat
  ulen : Nat           -- `UncompressedLength`; `IsCompressed() = (ulen ≠ 0)`
deriving Repr, DecidableEq, Inhabited

/-- iterator state: `rd` (a `byteReader`), `currentOffset`, remaining `blobs` -/
structure Iter where
  rd : Bytes
  cur : Nat
  blobs : List Blob
deriving Repr, DecidableEq, Inhabited

inductive BlobErr where
  | decrypt | decompress | hashMismatch
deriving Repr, DecidableEq, Inhabited

inductive NextOut where
  | eof                                         -- `errPackEOF`
  | overlapping | discardEOF | readEOF | invalidLength     -- iterator errors (2nd return value)
  | value (b : Blob) (plaintext : Bytes) (err : Option BlobErr)   -- `packBlobValue{handle, plaintext, err}`
deriving Repr, DecidableEq, Inhabited

/-- `packBlobIterator.Next()` -/
def next (hash : Bytes → ID) (dec zdec : Bytes → Option Bytes) (it : Iter) : NextOut × Iter :=
  match it.blobs with
  | [] => (.eof, it)
  | entry :: blobs =>
    -- `skipBytes := int(entry.Offset - b.currentOffset); if skipBytes < 0`
    if entry.offset < it.cur then (.overlapping, { it with blobs := blobs })
    else
      let skip := entry.offset - it.cur
      -- `b.rd.Discard(skipBytes)`
      if it.rd.length < skip then (.discardEOF, { it with blobs := blobs })
      else
        let rd := it.rd.drop skip
        -- `b.rd.ReadFull(int(entry.Length))`
        if rd.length < entry.length then (.readEOF, { rd := rd, cur := entry.offset, blobs := blobs })
        else
          let buf := rd.take entry.length
          let it' : Iter := { rd := rd.drop entry.length, cur := entry.offset + entry.length, blobs := blobs }
          if entry.length ≤ nonceSize then (.invalidLength, it')
          else
            match dec buf with
            | none => (.value entry [] (some .decrypt), it')
            | some pt =>
              let step2 : Option Bytes := if entry.ulen ≠ 0 then zdec pt else some pt
              match step2 with
              | none => (.value entry [] (some .decompress), it')
              | some plaintext =>
                if hash plaintext ≠ entry.id then (.value entry plaintext (some .hashMismatch), it')
                else (.value entry plaintext none, it')

/-! ### loadBlob / LoadBlob -/

/-- `pack.PackedBlob` -/
structure PackedBlob where
  pack : ID
  blob : Blob
deriving Repr, DecidableEq, Inhabited

/-- what one ranged `be.Load(h, length, offset, fn)` delivers to `backend.ReadAt` -/
inductive ReadReply where
  | fail
  | data (d : Bytes)
deriving Repr, DecidableEq, Inhabited

/-- `backend.ReadAt(ctx, be, h, offset, buf)` with `len(buf) = n`: `io.ReadFull` needs `n` bytes -/
def readAt (n : Nat) : ReadReply → Option Bytes
  | .fail => none
  | .data d => if d.length < n then none else some (d.take n)

inductive LoadBlobOut where
  | ok (p : Bytes)
  | err
  | notFound
  | stuck
deriving Repr, DecidableEq, Inhabited

/-- `Repository.loadBlob(ctx, blobs, buf)`: one pass over the candidate packs -/
def loadBlobPass (hash : Bytes → ID) (dec zdec : Bytes → Option Bytes) :
    List PackedBlob → List ReadReply → LoadBlobOut × List ReadReply
  | [], rs => (.err, rs)
  | _ :: _, [] => (.stuck, [])
  | c :: cs, r :: rs =>
    match readAt c.blob.length r with
    | none => loadBlobPass hash dec zdec cs rs
    | some buf =>
      match (next hash dec zdec { rd := buf, cur := c.blob.offset, blobs := [c.blob] }).1 with
      | .value _ p none => (.ok p, rs)
      | _ => loadBlobPass hash dec zdec cs rs

/-- `Repository.LoadBlob`: `cands` = `r.idx.Lookup(bh)` (after `sortCachedPacksFirst`); a failed
    pass is repeated once (after forgetting the cached packs) -/
def loadBlob (hash : Bytes → ID) (dec zdec : Bytes → Option Bytes)
    (cands : List PackedBlob) (rs : List ReadReply) : LoadBlobOut × List ReadReply :=
  if cands.isEmpty then (.notFound, rs)
  else match loadBlobPass hash dec zdec cands rs with
    | (.err, rs') => loadBlobPass hash dec zdec cands rs'
    | r => r

/-! ### saving -/

/-- second loop of `restic.ZeroPrefixLen`: byte by byte -/
def countZeros : Bytes → Nat → Nat
  | [], n => n
  | b :: rest, n => if b == 0 then countZeros rest (n + 1) else n

/-- first loop of `restic.ZeroPrefixLen`: skip 1 KiB blocks of zeros (`fuel` ≥ number of blocks) -/
def skipZeroBlocks : Nat → Bytes → Nat → Bytes × Nat
  | 0, p, n => (p, n)
  | fuel + 1, p, n =>
    if 1024 ≤ p.length ∧ p.take 1024 = List.replicate 1024 0 then skipZeroBlocks fuel (p.drop 1024) (n + 1024)
    else (p, n)

/-- `restic.ZeroPrefixLen` -/
def zeroPrefixLen (p : Bytes) : Nat :=
  let r := skipZeroBlocks (p.length / 1024 + 1) p 0
  countZeros r.1 r.2

/-- `Repository.zeroChunk()` -/
def zeroChunk (hash : Bytes → ID) : ID := hash (List.replicate minSize 0)

structure SaveCfg where
  version : Nat
  compressionOff : Bool       -- `r.opts.Compression == CompressionOff`
  noExtraVerify : Bool
deriving Repr, DecidableEq, Inhabited

/-- decode a stored blob: decrypt, decompress if `ulen ≠ 0` -/
def decodeBlob (dec zdec : Bytes → Option Bytes) (ulen : Nat) (ct : Bytes) : Option Bytes :=
  match dec ct with
  | none => none
  | some pt => if ulen ≠ 0 then zdec pt else some pt

/-- `saveAndEncrypt` up to the hand-over to the packer: returns (ciphertext, uncompressedLength)
    or `none` = "Detected data corruption while saving blob".
    `enc nonce data` = `append(nonce); Seal(…, nonce, data)`. -/
def saveAndEncrypt (hash : Bytes → ID) (enc : Bytes → Bytes → Bytes) (dec zdec : Bytes → Option Bytes)
    (zenc : Bytes → Bytes) (cfg : SaveCfg) (tree : Bool) (data : Bytes) (id : ID) (nonce : Bytes) :
    Option (Bytes × Nat) :=
  let compress : Bool := decide (cfg.version > 1) && decide (data.length > 0) && (!cfg.compressionOff || tree)
  let ulen := if compress then data.length else 0
  let data' := if compress then zenc data else data
  let ciphertext := enc nonce data'
  -- `verifyCiphertext`
  if cfg.noExtraVerify then some (ciphertext, ulen)
  else match dec ciphertext with
    | none => none
    | some pt =>
      let step2 : Option Bytes := if ulen ≠ 0 then zdec pt else some pt
      match step2 with
      | none => none
      | some plaintext => if hash plaintext ≠ id then none else some (ciphertext, ulen)

inductive SaveBlobOut where
  | tooLarge
  | corrupt                    -- verification after encryption failed: nothing is stored
  /-- `(newID, known, …)`; `stored` = what was handed to the packer under `newID` -/
  | ok (newID : ID) (known : Bool) (stored : Option (Bytes × Nat))
deriving Repr, DecidableEq, Inhabited

/-- `Repository.saveBlob(ctx, t, buf, id, storeDuplicate)`; `pendingNew` = result of `idx.AddPending` -/
def saveBlob (hash : Bytes → ID) (enc : Bytes → Bytes → Bytes) (dec zdec : Bytes → Option Bytes)
    (zenc : Bytes → Bytes) (cfg : SaveCfg) (tree : Bool) (buf : Bytes) (id : ID)
    (storeDuplicate : Bool) (pendingNew : Bool) (nonce : Bytes) : SaveBlobOut :=
  if buf.length > 4294967295 then .tooLarge
  else
    let newID :=
      if id = nullID then
        if buf.length = minSize ∧ zeroPrefixLen buf = minSize then zeroChunk hash else hash buf
      else id
    let known := !pendingNew
    if !known || storeDuplicate then
      match saveAndEncrypt hash enc dec zdec zenc cfg tree buf newID nonce with
      | none => .corrupt
      | some st => .ok newID known (some st)
    else .ok newID known none

/-- `compressUnpacked` -/
def compressUnpacked (version : Nat) (zenc : Bytes → Bytes) (p : Bytes) : Bytes :=
  if version < 2 then p else 2 :: zenc p

inductive SaveUnpOut where
  | corrupt
  | saveErr
  /-- the returned id and the `be.Save(handle(t, name), bytes)` that was issued -/
  | ok (id : ID) (name : ID) (bytes : Bytes)
deriving Repr, DecidableEq, Inhabited

/-- `Repository.verifyUnpacked(buf = ciphertext, t, expected)` (true = no error) -/
def verifyUnpacked (dec zdec : Bytes → Option Bytes) (cfg : SaveCfg) (t : FileType)
    (ciphertext expected : Bytes) : Bool :=
  if cfg.noExtraVerify then true
  else match dec ciphertext with
    | none => false
    | some pt =>
      let step2 : Option Bytes := if t ≠ .config then decompressUnpacked cfg.version zdec pt else some pt
      match step2 with
      | none => false
      | some plaintext => plaintext == expected

/-- `Repository.saveUnpacked(ctx, t, buf)`; `beOK` = the backend accepted the `Save` -/
def saveUnpacked (hash : Bytes → ID) (enc : Bytes → Bytes → Bytes) (dec zdec : Bytes → Option Bytes)
    (zenc : Bytes → Bytes) (cfg : SaveCfg) (t : FileType) (buf : Bytes) (nonce : Bytes) (beOK : Bool) :
    SaveUnpOut :=
  let p := if t ≠ .config then compressUnpacked cfg.version zenc buf else buf
  let ciphertext := enc nonce p
  if !verifyUnpacked dec zdec cfg t ciphertext buf then .corrupt
  else
    let id := if t = .config then nullID else hash ciphertext
    if !beOK then .saveErr else .ok id id ciphertext

/-- `Repository.savePacker`: the pack ID is the hash of the finalized temp file, the same bytes
    are uploaded under that name -/
def savePacker (hash : Bytes → ID) (packBytes : Bytes) : ID × Bytes := (hash packBytes, packBytes)

/-! ### Executable statement of C02 (evaluated by the driver on the implementation's own output) -/

/-- a successful raw read returns bytes whose hash is the requested ID (config has no ID) -/
def specLoadOK (hash : Bytes → ID) (t : FileType) (id : ID) : LoadOut → Bool
  | .ok b => t == .config || hash b == id
  | _ => true

/-- a successful blob read returns plaintext whose hash is the requested ID -/
def specBlobOK (hash : Bytes → ID) (id : ID) : LoadBlobOut → Bool
  | .ok p => hash p == id
  | _ => true

/-- every stored file is named by the hash of its stored bytes (config has no ID) -/
def specStoredOK (hash : Bytes → ID) (t : FileType) (name : ID) (bytes : Bytes) : Bool :=
  t == .config || hash bytes == name

/-- a blob is saved under the hash of its plaintext -/
def specSaveBlobOK (hash : Bytes → ID) (buf : Bytes) (newID : ID) : Bool := newID == hash buf

end Restic.Model.Store
