import Restic.Model.IndexMap
/-!
# Model of `internal/repository/index/index.go` and `master_index.go` (C08, used by C48)

The per-type `indexMap`s are taken at the abstraction level established by C56
(`Restic.Props.C56.run_refines`): an `indexMap` is the list of inserted values in insertion order,
the entry inserted as number `i` (0-based) lives at position `i+1`; `valuesWithID` is the filter of
that list (in an order that depends on the hash seed — every consumer below is insensitive to the
order, results are compared as sets), `firstIndex` is `firstPos`, `values` is the list itself.

Blob types: `restic.InvalidBlob` (0) cannot be decoded from an index file (`UnmarshalJSON` fails),
so `byType[0]` is always empty and only `data`/`tree` are modelled.

An index *file* is the decoded JSON document: a list of packs, each with a list of blobs.
`encoding/json`, encryption and compression of the file are not part of this model (C07).
-/
namespace Restic.Model.Index
open Restic.Model.IndexMap (ID Val firstPos)

inductive BlobType where
  | data | tree
deriving DecidableEq, Repr, Inhabited

structure Handle where
  type : BlobType
  id : ID
deriving DecidableEq, Repr, Inhabited

/-- `pack.Blob` as it appears in an index file (`blobJSON`) -/
structure Blob where
  type : BlobType
  id : ID
  offset : Nat
  length : Nat
  ulen : Nat
deriving DecidableEq, Repr, Inhabited

/-- `pack.PackedBlob` -/
structure PackedBlob where
  pack : ID
  blob : Blob
deriving DecidableEq, Repr, Inhabited

def PackedBlob.handle (pb : PackedBlob) : Handle := ⟨pb.blob.type, pb.blob.id⟩

/-- decoded index file: `jsonIndex.Packs` -/
abbrev IndexFile := List (ID × List Blob)

/-- outcome of an operation: Go `error` results and panics are distinct -/
inductive Out (α : Type) where
  | ok (a : α)
  | err (msg : String)
  | panic (msg : String)
deriving Repr

def Out.bind {α β : Type} (r : Out α) (f : α → Out β) : Out β :=
  match r with
  | .ok a => f a
  | .err m => .err m
  | .panic m => .panic m

instance : Monad Out where
  pure := .ok
  bind := Out.bind

def maxUint32 : Nat := 4294967295

/-- abstract `indexMap` (see the header) -/
abbrev IMap := List Val

structure Index where
  data : IMap
  tree : IMap
  packs : List ID
  final : Bool
  ids : List ID
deriving Repr, Inhabited

def Index.new : Index := ⟨[], [], [], false, []⟩

def Index.byType (idx : Index) : BlobType → IMap
  | .data => idx.data
  | .tree => idx.tree

def Index.setType (idx : Index) (t : BlobType) (m : IMap) : Index :=
  match t with
  | .data => { idx with data := m }
  | .tree => { idx with tree := m }

/-- `addToPacks`: append the pack id, panic when the count no longer fits a `uint32` -/
def Index.addToPacks (idx : Index) (id : ID) : Out (Index × Nat) :=
  let packs := idx.packs ++ [id]
  if packs.length > maxUint32 then .panic "repository index pack count overflow"
  else .ok ({ idx with packs := packs }, packs.length - 1)

/-- `store` -/
def Index.store (idx : Index) (packIndex : Nat) (b : Blob) : Out Index :=
  if b.offset > maxUint32 ∨ b.length > maxUint32 ∨ b.ulen > maxUint32 then
    .panic "offset or length does not fit in uint32. You have packs > 4GB!"
  else
    .ok (idx.setType b.type (idx.byType b.type ++ [⟨b.id, packIndex, b.offset, b.length, b.ulen⟩]))

def storeAll (packIndex : Nat) : List Blob → Index → Out Index
  | [], idx => .ok idx
  | b :: bs, idx => (idx.store packIndex b).bind (storeAll packIndex bs)

/-- `StorePack` -/
def Index.storePack (idx : Index) (id : ID) (blobs : List Blob) : Out Index :=
  if idx.final then .panic "store new item in finalized index" else
  (idx.addToPacks id).bind fun (idx, packIndex) => storeAll packIndex blobs idx

/-- `toPackedBlob`; `none` is the Go index-out-of-range panic on `idx.packs[e.packIndex]` -/
def toPackedBlob (packs : List ID) (t : BlobType) (v : Val) : Option PackedBlob :=
  (packs[v.packIndex]?).map fun p => ⟨p, ⟨t, v.id, v.offset, v.length, v.ulen⟩⟩

def resolveAll (packs : List ID) (t : BlobType) : List Val → Out (List PackedBlob)
  | [] => .ok []
  | v :: vs =>
    match toPackedBlob packs t v with
    | none => .panic "index out of range"
    | some pb => (resolveAll packs t vs).bind fun r => .ok (pb :: r)

/-- `Index.Lookup` (entries for one handle, duplicates included) -/
def Index.lookup (idx : Index) (h : Handle) : Out (List PackedBlob) :=
  resolveAll idx.packs h.type ((idx.byType h.type).filter fun v => v.id == h.id)

/-- `Index.Has` -/
def Index.has (idx : Index) (h : Handle) : Bool := (idx.byType h.type).any fun v => v.id == h.id

def cryptoExtension : Nat := Restic.Gen.crypto_Extension

/-- the size `LookupSize` derives from one entry:
    `uncompressedLength` if set, else `uint(crypto.PlaintextLength(int(length)))` (64-bit wrap) -/
def entrySize (v : Val) : Nat :=
  if v.ulen != 0 then v.ulen
  else if v.length ≥ cryptoExtension then v.length - cryptoExtension
  else 2 ^ 64 - (cryptoExtension - v.length)

/-- `Index.LookupSize` uses `get`, i.e. *some* entry of the id: the candidates it may answer from -/
def Index.lookupSizeCandidates (idx : Index) (h : Handle) : List Nat :=
  ((idx.byType h.type).filter fun v => v.id == h.id).map entrySize

/-- `Index.Values`: byType in order, each map in insertion order -/
def Index.values (idx : Index) : Out (List PackedBlob) :=
  (resolveAll idx.packs .data idx.data).bind fun a =>
    (resolveAll idx.packs .tree idx.tree).bind fun b => .ok (a ++ b)

def isNull (id : ID) : Bool := id.all (· == 0)

/-- add one blob to the pack list being generated (`packs` map = position of the pack id) -/
def addToPackList (list : IndexFile) (packID : ID) (b : Blob) : IndexFile :=
  match list.findIdx? (fun p => p.1 == packID) with
  | some i => list.modify i fun p => (p.1, p.2 ++ [b])
  | none => list ++ [(packID, [b])]

def generateType (packs : List ID) (t : BlobType) : List Val → IndexFile → Out IndexFile
  | [], list => .ok list
  | v :: vs, list =>
    match packs[v.packIndex]? with
    | none => .panic "index out of range"
    | some packID =>
      if isNull packID then .panic "null pack id"
      else generateType packs t vs (addToPackList list packID ⟨t, v.id, v.offset, v.length, v.ulen⟩)

/-- `generatePackList` = what `Encode` writes -/
def Index.encode (idx : Index) : Out IndexFile :=
  (generateType idx.packs .data idx.data []).bind fun l => generateType idx.packs .tree idx.tree l

def decodePacks : IndexFile → Index → Out Index
  | [], idx => .ok idx
  | (pid, blobs) :: ps, idx =>
    (idx.addToPacks pid).bind fun (idx, packIndex) =>
      (storeAll packIndex blobs idx).bind (decodePacks ps)

/-- `DecodeIndex` applied to a decodable JSON document -/
def decodeIndex (f : IndexFile) (id : ID) : Out Index :=
  (decodePacks f Index.new).bind fun idx => .ok { idx with ids := idx.ids ++ [id], final := true }

/-- `hasIdenticalEntry` of `merge`: is an entry with the same resolved `PackedBlob` in `m`? -/
def hasIdenticalEntry (packs : List ID) (packs2 : List ID) (t : BlobType) (m : IMap) (e2 : Val) : Out Bool :=
  (resolveAll packs t (m.filter fun v => v.id == e2.id)).bind fun bs =>
    match toPackedBlob packs2 t e2 with
    | none => if bs.isEmpty then .ok false else .panic "index out of range"
    | some b2 => .ok (bs.any fun b => b == b2)

def mergeMap (packs packs2 : List ID) (packlen : Nat) (t : BlobType) : List Val → IMap → Out IMap
  | [], m => .ok m
  | e2 :: es, m =>
    (hasIdenticalEntry packs packs2 t m e2).bind fun found =>
      if found then mergeMap packs packs2 packlen t es m
      else
        -- packIndex is a uint32: `e2.packIndex+uint32(packlen)`
        mergeMap packs packs2 packlen t es (m ++ [{ e2 with packIndex := (e2.packIndex + packlen) % 2 ^ 32 }])

/-- `idx.merge(idx2)` -/
def Index.merge (idx idx2 : Index) : Out Index :=
  if !idx2.final then .err "index to merge is not final" else
  let packlen := idx.packs.length
  let packs := idx.packs ++ idx2.packs
  -- Go appends before the check and returns the error with the packs already appended; the caller
  -- aborts the whole load in that case
  if packs.length > maxUint32 then .err "index merge: too many packs" else
  (mergeMap packs idx2.packs packlen .data idx2.data idx.data).bind fun d =>
    (mergeMap packs idx2.packs packlen .tree idx2.tree idx.tree).bind fun t =>
      .ok { idx with packs := packs, data := d, tree := t, ids := idx.ids ++ idx2.ids }

/-! ## MasterIndex (`idx` is never empty
   after `NewMasterIndex`, so it is a first element plus the rest) -/

structure MasterIndex where
  /-- `idx[0]`: the final index everything is merged into (exists since `clear()`) -/
  first : Index
  /-- `idx[1:]` -/
  rest : List Index
  /-- `pendingBlobs`: blobs an uploader announced with `AddPending` whose pack is not stored yet
      (Go map: association list, first match counts) -/
  pending : List (Handle × Nat) := []
deriving Repr, Inhabited

def MasterIndex.idx (mi : MasterIndex) : List Index := mi.first :: mi.rest

/-- `clear`: one empty final index to merge into -/
def MasterIndex.new : MasterIndex := ⟨{ Index.new with final := true }, [], []⟩

def lookupAll (h : Handle) : List Index → Out (List PackedBlob)
  | [] => .ok []
  | i :: is => (i.lookup h).bind fun a => (lookupAll h is).bind fun b => .ok (a ++ b)

/-- `MasterIndex.Lookup` -/
def MasterIndex.lookup (mi : MasterIndex) (h : Handle) : Out (List PackedBlob) := lookupAll h mi.idx

def pendingSize (p : List (Handle × Nat)) (h : Handle) : Option Nat := (p.find? fun x => x.1 == h).map (·.2)

/-- `MasterIndex.LookupSize`: a pending blob answers with its announced size, else the first index
    that has the blob answers (from one of its entries) -/
def MasterIndex.lookupSizeCandidates (mi : MasterIndex) (h : Handle) : List Nat :=
  match pendingSize mi.pending h with
  | some n => [n]
  | none =>
    match mi.idx.find? (fun i => i.has h) with
    | some i => i.lookupSizeCandidates h
    | none => []

/-- `MasterIndex.AddPending`: refused when the blob is pending or in some index -/
def MasterIndex.addPending (mi : MasterIndex) (h : Handle) (size : Nat) : MasterIndex × Bool :=
  if (pendingSize mi.pending h).isSome then (mi, false)
  else if mi.idx.any (fun i => i.has h) then (mi, false)
  else ({ mi with pending := mi.pending ++ [(h, size)] }, true)

def valuesAll : List Index → Out (List PackedBlob)
  | [] => .ok []
  | i :: is => i.values.bind fun a => (valuesAll is).bind fun b => .ok (a ++ b)

/-- `MasterIndex.Values` (= `Repository.ListBlobs`) -/
def MasterIndex.values (mi : MasterIndex) : Out (List PackedBlob) := valuesAll mi.idx

/-- `MasterIndex.Insert` -/
def MasterIndex.insert (mi : MasterIndex) (idx : Index) : MasterIndex := { mi with rest := mi.rest ++ [idx] }

def mergeLoop : List Index → Index → List Index → Out (Index × List Index)
  | [], first, keep => .ok (first, keep)
  | i :: is, first, keep =>
    -- do not merge indexes that have no id set
    if !i.final || i.ids.isEmpty then mergeLoop is first (keep ++ [i])
    else (first.merge i).bind fun first => mergeLoop is first keep

/-- `MergeFinalIndexes` (the `Preallocate` calls only size the hash tables) -/
def MasterIndex.mergeFinalIndexes (mi : MasterIndex) : Out MasterIndex :=
  (mergeLoop mi.rest mi.first []).bind fun (first, keep) => .ok { mi with first := first, rest := keep }

/-- `prepareIncrementalLoad`: the ids already merged into `idx[0]`, or a cleared index when one of
    them is no longer listed -/
def MasterIndex.prepareIncrementalLoad (mi : MasterIndex) (listed : List ID) : Out (MasterIndex × List ID) :=
  -- the first index is always final so this can't actually fail
  if !mi.first.final then .panic "internal error - failed to get index IDs" else
  -- `clearPendingBlobs()`: a reload must give the same result as a full load into a new MasterIndex
  let mi := { mi with pending := [] }
  let loadedIDs := mi.first.ids
  -- drop indexes left behind by a Load that failed before merging them (fix/C08-stale-index-after-aborted-load)
  let mi := { mi with rest := mi.rest.filter fun i => !i.final || i.ids.isEmpty }
  if loadedIDs.any (fun id => !listed.contains id) then .ok (MasterIndex.new, [])
  else .ok (mi, loadedIDs)

def loadFiles (loaded : List ID) : List (ID × Option IndexFile) → MasterIndex → Out MasterIndex
  | [], mi => .ok mi
  | (id, f) :: fs, mi =>
    if loaded.contains id then loadFiles loaded fs mi   -- skip already loaded indexes
    else match f with
      | none => .err "DecodeIndex"                        -- undecodable file: Load fails
      | some f => (decodeIndex f id).bind fun idx => loadFiles loaded fs (mi.insert idx)

/-- `MasterIndex.Load`; `files` = the index files of the repository in the order in which
    `ParallelList` delivers them (`none` = content that does not decode) -/
def MasterIndex.load (mi : MasterIndex) (files : List (ID × Option IndexFile)) : Out MasterIndex :=
  (mi.prepareIncrementalLoad (files.map (·.1))).bind fun (mi, loaded) =>
    (loadFiles loaded files mi).bind fun mi => mi.mergeFinalIndexes

/-! ## executable statement of C08 -/

/-- all entries recorded in the given index files -/
def fileEntries (f : IndexFile) : List PackedBlob :=
  f.flatMap fun p => p.2.map fun b => ⟨p.1, b⟩

def allEntries (files : List (ID × IndexFile)) : List PackedBlob :=
  files.flatMap fun f => fileEntries f.2

def sameSet {α} [BEq α] (a b : List α) : Bool := a.all (b.contains ·) && b.all (a.contains ·)

/-- a lookup returns exactly the set of pack locations recorded for the blob across all files -/
def specLookup (files : List (ID × IndexFile)) (h : Handle) (out : List PackedBlob) : Bool :=
  sameSet out ((allEntries files).filter fun pb => pb.handle == h)

/-- listing returns exactly the entries of all files -/
def specList (files : List (ID × IndexFile)) (out : List PackedBlob) : Bool :=
  sameSet out (allEntries files)

/-- the size reported for a blob stems from one of its recorded entries; found iff recorded -/
def specLookupSize (files : List (ID × IndexFile)) (h : Handle) (out : Option Nat) : Bool :=
  let cands := ((allEntries files).filter fun pb => pb.handle == h).map fun pb =>
    entrySize ⟨pb.blob.id, 0, pb.blob.offset, pb.blob.length, pb.blob.ulen⟩
  match out with
  | none => cands.isEmpty
  | some n => cands.contains n

/-- encoding then decoding preserves every entry (as a multiset) -/
def specRoundTrip (before after : List PackedBlob) : Bool := after.isPerm before

end Restic.Model.Index
