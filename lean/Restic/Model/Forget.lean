import Restic.Model.Policy
/-
Model of the decision logic of `runForget` (cmd/restic/cmd_forget.go) for C23: option checks,
snapshot selection (explicit ids or filter), grouping, the empty-policy / --unsafe-allow-remove-all
checks, per-group `ApplyPolicy`, the "refusing to delete last snapshot" guard, dry run, removal.
Selection and grouping are C24's model, the policy is C22's. Core Lean only.
-/
namespace Restic.Model.Forget
open Restic.Model.Snapshots Restic.Model.Policy

structure Opts where
  policy : Policy
  unsafeAllowRemoveAll : Bool
  dryRun : Bool
  noLock : Bool
  filter : Filter
  groupBy : GroupBy
  args : List Arg                -- explicit snapshot ids (already resolved, see `Snapshots.Arg`)
deriving Repr

inductive Outcome where
  | fatal (why : String)         -- `errors.Fatal`, before the repository is touched or before grouping
  | error (why : String)         -- error return: FindAll error, "refusing to delete last snapshot", failed removal
  | ok
deriving DecidableEq, Repr, Inhabited

/-- one element of the `--json` output (`ForgetGroup`), ids only -/
structure GroupReport where
  keep : List Nat
  remove : List Nat
deriving DecidableEq, Repr, Inhabited

/-- what a run of `forget` does: how it ends, what it reports, which snapshot files it deletes -/
structure Run where
  outcome : Outcome
  groups : List GroupReport      -- `jsonGroups` (policy mode only)
  removeSet : List Nat           -- `removeSnIDs` when the removal step is reached (no duplicates)
  removed : List Nat             -- snapshot files actually deleted
deriving Repr, Inhabited

def negDur (d : Dur) : Bool := d.hours < 0 || d.days < 0 || d.months < 0 || d.years < 0

/-- `verifyForgetOptions` -/
def verifyOpts (p : Policy) : Option String :=
  if countKinds.any (fun k => p.countOf k < -1) then some "negative-count"
  else if ([p.within] ++ withinKinds.map p.withinOf).any negDur then some "negative-duration"
  else none

/-- `GroupSnapshots` on policy snapshots -/
def groupP (g : GroupBy) (l : List PSnap) : List (GroupKey × List PSnap) :=
  groupWith (fun s => keyOf g s.sn) l

def dedup : List Nat → List Nat
  | [] => []
  | x :: xs => if xs.contains x then dedup xs else x :: dedup xs

/-- the removal step: nothing in a dry run; otherwise every id of the set is removed except those
    whose backend removal fails (`failing`: oracle of the fault injection), and a failed removal
    turns the result into `ErrFailedToRemoveOneOrMoreSnapshots` -/
def removal (o : Opts) (failing : List Nat) (groups : List GroupReport) (removeSet : List Nat) : Run :=
  if o.dryRun then { outcome := .ok, groups := groups, removeSet := removeSet, removed := [] }
  else
    let done := removeSet.filter fun i => !failing.contains i
    { outcome := if done.length == removeSet.length then .ok else .error "remove-failed"
      groups := groups, removeSet := removeSet, removed := done }

/-- the snapshots the `FindAll` callback was given -/
def snapIds (evs : List Ev) : List Nat :=
  evs.filterMap fun e => match e with | .snap n => some n | _ => none

def abort (oc : Outcome) : Run := { outcome := oc, groups := [], removeSet := [], removed := [] }

/-- policy of one group: `ApplyPolicy`, then the guard -/
def groupDecision (sub : Int → Dur → Int) (now : Int) (p : Policy) (grp : List PSnap) : Option GroupReport :=
  match applyPolicy sub now grp p with
  | .panic => none
  | .ok ds =>
    let keep := (keepOf ds).map (·.sn.id)
    if !p.empty && keep.isEmpty then none     -- "refusing to delete last snapshot of snapshot group"
    else some { keep := keep, remove := (removeOf ds).map (·.sn.id) }

/-- `runForget`; `visit` = the repository's snapshots in the order `FindAll` hands them out,
    `latestRes` = what `findLatest` resolves "latest" to, `failing` = ids whose removal fails -/
def runForget (sub : Int → Dur → Int) (now : Int) (visit : List PSnap) (latestRes : Option Snap)
    (failing : List Nat) (o : Opts) : Run :=
  match verifyOpts o.policy with
  | some why => abort (.fatal why)
  | none =>
  if o.noLock && !o.dryRun then abort (.fatal "no-lock-without-dry-run")
  else if !o.args.isEmpty then
    -- explicit ids: the callback returns the first error, otherwise all reported snapshots are removed
    let evs := findAllIds o.filter latestRes o.args
    match evs.find? (fun e => match e with | .err _ => true | _ => false) with
    | some (.err k) => abort (.error k)
    | _ =>
      removal o failing [] (dedup (snapIds evs))
  else
    let selected := visit.filter fun s => o.filter.matches s.sn
    let groups := groupP o.groupBy selected
    if o.policy.empty && !o.unsafeAllowRemoveAll then abort (.fatal "no-policy")
    else if o.policy.empty && o.filter.empty then abort (.fatal "remove-all-needs-filter")
    else
      let decisions := groups.map fun g => groupDecision sub now o.policy g.2
      if decisions.any (·.isNone) then abort (.error "refuse")
      else
        let reports := decisions.filterMap id
        removal o failing reports (dedup (reports.flatMap (·.remove)))

/-! ### Executable statement of the property (on observed behaviour)

`selected`: ids of the snapshots the filter selects; `classes`: the partition of `selected` into
groups as the statement defines them (equal chosen keys); `reported`: the `--json` groups;
`named`: explicitly named snapshot ids; `deleted`: snapshot files that disappeared; `removeEvents`:
number of backend remove operations on snapshot files that were issued. -/

structure Observed where
  outcomeOk : Bool
  reported : List GroupReport
  deleted : List Nat
  removeEvents : Nat

def sameSet (a b : List Nat) : Bool := a.all (b.contains ·) && b.all (a.contains ·)

def specOK (o : Opts) (classes : List (List Nat)) (named : List Nat) (ob : Observed) : Bool :=
  -- dry run deletes nothing
  (!o.dryRun || (ob.deleted.isEmpty && ob.removeEvents == 0)) &&
  -- a run that did not succeed without a removal having failed deleted nothing … (see driver)
  -- explicit ids: exactly the named snapshots
  (o.args.isEmpty || !ob.outcomeOk || o.dryRun || sameSet ob.deleted named) &&
  (o.args.isEmpty || ob.deleted.all (named.contains ·)) &&
  -- policy mode: only reported removals, all of them on success
  (!o.args.isEmpty || ob.deleted.all (fun i => ob.reported.any (·.remove.contains i))) &&
  (!o.args.isEmpty || !ob.outcomeOk || o.dryRun || sameSet ob.deleted (ob.reported.flatMap (·.remove))) &&
  -- policy mode, non-empty policy: no group loses all its snapshots
  (!o.args.isEmpty || o.policy.empty || classes.all (fun c => c.isEmpty || c.any (fun i => !ob.deleted.contains i))) &&
  -- empty policy: nothing removed unless --unsafe-allow-remove-all together with a filter
  (!o.args.isEmpty || !o.policy.empty || (o.unsafeAllowRemoveAll && !o.filter.empty) || ob.deleted.isEmpty) &&
  -- nothing outside the selection is touched
  (!o.args.isEmpty || ob.deleted.all (fun i => classes.any (·.contains i)))

end Restic.Model.Forget
