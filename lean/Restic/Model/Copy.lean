/-
Model of `restic copy` (C32): `runCopy` / `collectAllSnapshots` / `similarSnapshots` /
`copyTreeBatched` / `copyTree` / `copySaveSnapshot` (cmd/restic/cmd_copy.go) with
`repository.CopyBlobs` (internal/repository/repack.go) abstracted to "every enqueued blob is
saved into a new pack of the destination". Core Lean only.

A snapshot's tree is represented by the list of blob handles reachable from it (`reach`, an
oracle: tree walking is C42's subject). The destination is the set of handles its index knows
(including pending ones, as `LookupBlobSize` does) plus its snapshots.
-/
namespace Restic.Model.Copy

abbrev ID := String

/-- blob handle "type:id" -/
abbrev Handle := String

def nullID : ID := "0000000000000000"

/-- the fields of `data.Snapshot` that `copy` reads or writes -/
structure Snap where
  id : ID
  tree : ID
  original : Option ID
  parent : Option ID
  time : Int
  host : String
  user : String
  uid : Nat
  gid : Nat
  paths : List String
  tags : List String
  excludes : List String
deriving Repr, DecidableEq, Inhabited

/-- `Snapshot.HasPaths` -/
def hasPaths (sn : Snap) (paths : List String) : Bool := paths.all (sn.paths.contains ·)

/-- `Snapshot.HasTags`: the loop returns true early for an empty tag when the snapshot has no
    tags, false at the first missing tag -/
def hasTags (sn : Snap) : List String → Bool
  | [] => true
  | t :: rest =>
    if t == "" && sn.tags.isEmpty then true
    else if !sn.tags.contains t then false
    else hasTags sn rest

/-- `similarSnapshots`: everything except Parent and Original must match -/
def similar (a b : Snap) : Bool :=
  if a.time != b.time || a.tree != b.tree || a.host != b.host || a.user != b.user
      || a.uid != b.uid || a.gid != b.gid || a.paths.length != b.paths.length
      || a.excludes.length != b.excludes.length || a.tags.length != b.tags.length then false
  else if !hasPaths a b.paths || !hasTags a b.tags then false
  else (List.zip a.excludes b.excludes).all (fun p => p.1 == p.2)

/-- `srcOriginal`: the persistent ID of a source snapshot — its `Original` unless that is missing
    or the null ID (transcribes the code *with* fix/C32-copy-null-original; before the fix a null
    `Original` was used as it is, see docs/C32.md) -/
def persistentID (sn : Snap) : ID :=
  match sn.original with
  | some o => if o == nullID then sn.id else o
  | none => sn.id

/-- `dstSnapshotByOriginal[k]`: snapshots registered under key `k` -/
def dstByOriginal (dst : List Snap) (k : ID) : List Snap :=
  dst.filter fun d =>
    (match d.original with | some o => o != nullID && o == k | none => false) || d.id == k

/-- the skip test of `collectAllSnapshots` -/
def alreadyCopied (dst : List Snap) (sn : Snap) : Bool :=
  (dstByOriginal dst (persistentID sn)).any (similar · sn)

def selected (src dst : List Snap) : List Snap := src.filter (!alreadyCopied dst ·)

/-- `copySaveSnapshot`: Parent cleared, Original set to the persistent ID; `newId` is the ID the
    destination assigns -/
def copySnap (sn : Snap) (newId : ID) : Snap :=
  { sn with id := newId, parent := none, original := some (persistentID sn) }

/-! ### the run as a trace of destination operations -/

inductive Ev where
  | savePack (p : ID) (blobs : List Handle)
  | saveIndex (entries : List (ID × Handle))
  | saveSnap (sn : Snap)
deriving Repr, DecidableEq

/-- `copyTree` for the snapshots of one batch: enqueue = reachable blobs the destination index
    (incl. pending) does not know; returns the updated known set and the blobs to upload -/
def enqueueBatch (reach : ID → List Handle) (has : List Handle) (batch : List Snap) :
    List Handle × List Handle :=
  batch.foldl (fun (acc : List Handle × List Handle) sn =>
    let c := ((reach sn.tree).filter (fun h => !acc.1.contains h)).eraseDups
    (acc.1 ++ c, acc.2 ++ c)) (has, [])

/-- one iteration of the outer loop of `copyTreeBatched`: all blobs of the batch are uploaded and
    the uploader is flushed (packs, then index) before the snapshots of the batch are saved.
    `k` numbers the batch (names of the new pack and snapshots are irrelevant to the property). -/
def runBatch (reach : ID → List Handle) (has : List Handle) (batch : List Snap) (k : Nat) :
    List Handle × List Ev :=
  let r := enqueueBatch reach has batch
  let p := s!"newpack{k}"
  (r.1, (if r.2.isEmpty then [] else [Ev.savePack p r.2, Ev.saveIndex (r.2.map fun h => (p, h))]) ++
        batch.map fun sn => Ev.saveSnap (copySnap sn s!"new-{k}-{sn.id}"))

def runBatches (reach : ID → List Handle) : List Handle → List (List Snap) → Nat → List Ev
  | _, [], _ => []
  | has, b :: rest, k =>
    let r := runBatch reach has b k
    r.2 ++ runBatches reach r.1 rest (k + 1)

/-- `runCopy`: `batches` is how `copyTreeBatched` happened to cut the selected snapshots into
    batches (depends on sizes and wall-clock time: an oracle; `batches.flatten = selected`) -/
def copyRun (reach : ID → List Handle) (has : List Handle) (batches : List (List Snap)) : List Ev :=
  runBatches reach has batches 0

/-! ### destination state, acceptance, restorability -/

structure Dst where
  has0 : List Handle            -- handles available before the run
  packs : List ID               -- packs stored during the run
  indexed : List (ID × Handle)  -- entries of index files stored during the run
  snaps : List Snap             -- snapshots stored during the run
deriving Repr

def Dst.apply (d : Dst) : Ev → Dst
  | .savePack p _ => { d with packs := d.packs ++ [p] }
  | .saveIndex es => { d with indexed := d.indexed ++ es }
  | .saveSnap sn => { d with snaps := d.snaps ++ [sn] }

def Dst.applyAll (d : Dst) (t : List Ev) : Dst := t.foldl Dst.apply d

/-- a blob can be loaded: it was there before, or an index file written so far lists it in a pack
    written so far -/
def Dst.avail (d : Dst) (h : Handle) : Bool :=
  d.has0.contains h || d.indexed.any (fun e => e.2 == h && d.packs.contains e.1)

/-- every blob reachable from the snapshot's tree can be loaded (`check --read-data` / restore) -/
def Dst.restorable (reach : ID → List Handle) (d : Dst) (sn : Snap) : Bool :=
  (reach sn.tree).all d.avail

/-- acceptor for (recorded or modelled) traces of `copy`: a pack written must carry the blobs its
    record says (checked by the harness), an index entry may only mention a pack already written,
    and — the local guard — a snapshot may only be saved when everything it reaches can be loaded. -/
def accept (reach : ID → List Handle) : Dst → List Ev → Bool
  | _, [] => true
  | d, .savePack p bs :: rest => accept reach (d.apply (.savePack p bs)) rest
  | d, .saveIndex es :: rest => accept reach (d.apply (.saveIndex es)) rest
  | d, .saveSnap sn :: rest => d.restorable reach sn && accept reach (d.apply (.saveSnap sn)) rest

/-! ### executable statement of C32 -/

/-- faithful: every requested source snapshot has a destination snapshot with the same tree and
    all other fields (time, host, user, ids, paths, tags, excludes) equal, marked with the
    source's persistent ID (or being that very snapshot) -/
def specFaithful (requested : List Snap) (dstAfter : List Snap) : Bool :=
  requested.all fun sn => dstAfter.any fun d =>
    d.tree == sn.tree && similar d sn &&
      (d.original == some (persistentID sn) || d.id == persistentID sn)

/-- idempotent: seen from the destination after the run, nothing is selected any more -/
def specIdempotent (requested : List Snap) (dstAfter : List Snap) : Bool :=
  (selected requested dstAfter).isEmpty

end Restic.Model.Copy
