/-
Model of a lock holder keeping its lock fresh (C13): `locker.refreshLocks`, `locker.monitorLockRefresh`,
`tryRefreshStaleLock` (internal/repository/lock.go), `lockHandle.refresh` / `refreshStaleLock`
(internal/repository/lock_file.go). Core Lean only.

Timed transition system for ONE holder: the two goroutines with their control state, the channels
between them (both unbuffered: a send is a rendezvous), the holder's lock file, real time `now`.

refreshLocks (`rl`):
    idle        in the select                      ticker -> refresh ; forceRefresh -> forced refresh ; ctx.Done -> exit
    refreshing  inside lock.refresh()              (create replacement stamped `newTime`, remove old)
    notifying   `refreshed <- struct{}{}`          blocked until the monitor receives (or ctx.Done)
    forced1/2   inside tryRefreshStaleLock         backend frozen; 1 = before the replacement is written, 2 = after
    reporting b `req.result <- success`
monitorLockRefresh (`mon`):
    idle        in the select                      `refreshed` -> lastM := now ; poll tick and `now - lastM >= R` -> request
    requesting  `forceRefresh <- refreshReq`       blocked until refreshLocks receives (or ctx.Done);
                                                   with `P.fixed` this select also receives `refreshed`
    waiting     refreshStaleLockResult != nil      `refreshed` is ignored, result true -> lastM := now, false -> return (cancel)

Time: `tick` advances `now` by one unit and is guarded by the assumptions on durations (an operation
that can proceed does so within `D`, the monitor polls within `p` once the lock is due); `standby k`
lets `k` units pass while the process is suspended (no guard) and restarts the operation clocks.
All other timings (when the refresh ticker fires, which refresh fails, when somebody else removes
the lock file, when Unlock is called) are unconstrained: theorems quantify over all schedules.
-/
namespace Restic.Model.LockRefresh

inductive RL where
  | idle | refreshing | notifying | forced1 | forced2 | reporting (ok : Bool) | done
deriving DecidableEq, Repr, Inhabited

inductive MON where
  | idle | requesting | waiting | done
deriving DecidableEq, Repr, Inhabited

structure Params where
  /-- refreshabilityTimeout -/
  R : Nat
  /-- reaction time of the monitor: poll interval plus timer lateness -/
  p : Nat
  /-- bound on one lock operation that is able to proceed (a refresh including the delivery of its
      notification, a forced refresh including its report, handing over a force request) -/
  D : Nat
  /-- the monitor's `forceRefresh <- req` select also receives from `refreshed` (the fix of finding
      C13:refresh-monitor-deadlock); `false` = the select as in restic 0.18 -/
  fixed : Bool
deriving DecidableEq, Repr

structure St where
  now : Nat
  /-- time of the last wake-up from standby (start of the holder if there was none) -/
  wake : Nat
  rl : RL
  mon : MON
  /-- the context handed to the caller of Lock is cancelled -/
  cancelled : Bool
  /-- the backend is frozen (tryRefreshStaleLock) -/
  frozen : Bool
  /-- the context was cancelled by a failed forced refresh while the backend was frozen -/
  cancelledFrozen : Bool
  /-- `Time` of the newest lock file written by the holder -/
  fileTime : Nat
  /-- the file `lockID` points to is in the repository -/
  present : Bool
  /-- `lastRefresh` of refreshLocks -/
  lastR : Nat
  /-- `lastRefresh` of monitorLockRefresh -/
  lastM : Nat
  /-- start of the operation refreshLocks is in (restarted by a wake-up) -/
  opStart : Nat
  /-- time the monitor posted its force request (restarted by a wake-up) -/
  monAt : Nat
  /-- `Time` stamped into the replacement being written -/
  newTime : Nat
deriving DecidableEq, Repr

inductive Act where
  | rlStartRefresh | rlRefreshOk | rlRefreshHalf | rlRefreshFail
  | notify | monPollDue | rlRecvForce
  | forceCreate | forceAdopt | forceFail | report
  | removeByOther | unlock | rlExit | monExit
  | standby (k : Nat)
  | tick
deriving DecidableEq, Repr

/-- the monitor is at a select that receives from `refreshed` -/
def notifyEnabled (P : Params) (s : St) : Bool :=
  s.mon == .idle || s.mon == .waiting || (s.mon == .requesting && P.fixed)

/-- guard of `tick`: the duration assumptions -/
def mayTick (P : Params) (s : St) : Bool :=
  (!(s.rl == .refreshing || s.rl == .forced1 || s.rl == .forced2) || decide (s.now < s.opStart + P.D)) &&
  (!(s.rl == .notifying && notifyEnabled P s) || decide (s.now < s.opStart + P.D)) &&
  (!((s.rl == .reporting true || s.rl == .reporting false) && s.mon == .waiting) || decide (s.now < s.opStart + P.D)) &&
  (!(s.mon == .idle) || decide (s.now < s.lastM + P.R + P.p) || decide (s.now < s.wake + P.p)) &&
  (!(s.mon == .requesting && s.rl == .idle) || decide (s.now < s.monAt + P.D))

def step (P : Params) (s : St) : Act → Option St
  | .rlStartRefresh =>
    -- ticker case of refreshLocks: `if time.Since(lastRefresh) > refreshabilityTimeout { continue }`
    -- (when a force request is already posted the select may still pick the ticker, but only at once)
    if s.rl = .idle ∧ s.now ≤ s.lastR + P.R ∧ (s.mon ≠ .requesting ∨ s.now ≤ s.monAt) then
      some { s with rl := .refreshing, opStart := s.now, newTime := s.now }
    else none
  | .rlRefreshOk =>
    if s.rl = .refreshing then
      some { s with rl := .notifying, fileTime := s.newTime, present := true, lastR := s.newTime }
    else none
  | .rlRefreshHalf =>
    -- replacement written and adopted, removing the old file failed: error, nobody is told
    if s.rl = .refreshing then some { s with rl := .idle, fileTime := s.newTime, present := true } else none
  | .rlRefreshFail => if s.rl = .refreshing then some { s with rl := .idle } else none
  | .notify =>
    if s.rl = .notifying ∧ notifyEnabled P s = true then
      match s.mon with
      | .idle => some { s with rl := .idle, lastM := s.now }
      | .requesting => some { s with rl := .idle, lastM := s.now, mon := .idle }
      | _ => some { s with rl := .idle }
    else none
  | .monPollDue =>
    if s.mon = .idle ∧ s.lastM + P.R ≤ s.now then some { s with mon := .requesting, monAt := s.now } else none
  | .rlRecvForce =>
    if s.rl = .idle ∧ s.mon = .requesting then
      some { s with rl := .forced1, mon := .waiting, frozen := true, opStart := s.now }
    else none
  | .forceCreate =>
    if s.rl = .forced1 ∧ s.present = true then some { s with rl := .forced2, newTime := s.now } else none
  | .forceAdopt =>
    if s.rl = .forced2 ∧ s.present = true then
      some { s with rl := .reporting true, fileTime := s.newTime, lastR := s.newTime, frozen := false }
    else none
  | .forceFail =>
    if s.rl = .forced1 ∨ s.rl = .forced2 then
      some { s with rl := .reporting false, cancelled := true, cancelledFrozen := s.frozen, frozen := false }
    else none
  | .report =>
    if s.mon = .waiting then
      match s.rl with
      | .reporting true => some { s with rl := .idle, mon := .idle, lastM := s.now }
      | .reporting false => some { s with rl := .idle, mon := .done, cancelled := true }
      | _ => none
    else none
  | .removeByOther => some { s with present := false }
  | .unlock => some { s with cancelled := true }
  | .rlExit =>
    if s.cancelled = true ∧ (s.rl = .idle ∨ s.rl = .notifying ∨ s.rl = .reporting true ∨ s.rl = .reporting false) then
      some { s with rl := .done, present := false }
    else none
  | .monExit => if s.cancelled = true ∧ s.mon ≠ .done then some { s with mon := .done } else none
  | .standby k =>
    some { s with now := s.now + k, wake := s.now + k, opStart := s.now + k, monAt := s.now + k }
  | .tick => if mayTick P s then some { s with now := s.now + 1 } else none

def run (P : Params) (s : St) : List Act → Option St
  | [] => some s
  | a :: as => match step P s a with
    | some s' => run P s' as
    | none => none

/-- state right after `Lock` returned: the lock file was stamped at `t0`, the goroutines start at
    `t1` (`t0 ≤ t1 ≤ t0 + D`: the acquisition is one operation) -/
def init (t0 t1 : Nat) : St :=
  { now := t1, wake := t0, rl := .idle, mon := .idle, cancelled := false, frozen := false,
    cancelledFrozen := false, fileTime := t0, present := true, lastR := t0, lastM := t1,
    opStart := t1, monAt := t1, newTime := t0 }

/-- the holder may issue repository modifications: context alive, backend not frozen -/
def active (s : St) : Bool := !s.cancelled && !s.frozen

/-! ### Executable statement of the property -/

/-- C13 (timing part): while the holder is active its newest lock file is younger than
    `R + p + 2D`, unless the host woke up from standby less than that ago. -/
def specOK (P : Params) (s : St) : Bool :=
  !active s || decide (s.now ≤ s.fileTime + P.R + P.p + 2 * P.D) || decide (s.now ≤ s.wake + P.R + P.p + 2 * P.D)

/-- the same on observations of the implementation: `ages` = age of the holder's newest lock file
    (by its `Time` field) at every instant it was observed while the context was alive and the
    backend not frozen; `bound` = R + p + 2D in the units of the observation -/
def agesOK (bound : Nat) (ages : List Nat) : Bool := ages.all (· ≤ bound)

end Restic.Model.LockRefresh
