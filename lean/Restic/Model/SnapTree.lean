/-
Snapshot trees as a nested inductive type, shared by the models of C45 (dump), C53 (diff) and
C54 (stats).  A `Tree` is one `data.Node` together with the decoded nodes of its subtree (for
directories); a snapshot (or any tree blob) is a `List Tree` in the order the nodes are stored in
the tree blob.  Core Lean only.

Names are byte strings (`List Nat`, every element < 256 on the wire); Go's `<` on strings is the
bytewise lexicographic order, which is `List.lt` on `List Nat`.
-/
namespace Restic.Model.SnapTree

abbrev Name := List Nat

/-- `data.NodeType`; `other` stands for any type string restic does not know -/
inductive NType where
  | file | dir | symlink | dev | chardev | fifo | socket | irregular | invalid | other
deriving DecidableEq, Repr, Inhabited

/-- the fields of `data.Node` the three commands look at -/
structure Meta where
  name : Name
  type : NType
  mode : Nat := 0            -- node.Mode (os.FileMode bits as stored)
  size : Nat := 0
  links : Nat := 0
  inode : Nat := 0
  device : Nat := 0          -- node.DeviceID
  content : List Nat := []   -- node.Content, blob ids numbered by the harness (equal id = equal number)
  target : Name := []        -- node.LinkTarget
  subtree : Nat := 0         -- node.Subtree numbered by the harness (0 = nil)
  other : Nat := 0           -- class of all remaining metadata compared by `Node.Equals`
deriving DecidableEq, Repr, Inhabited

inductive Tree where
  | mk (m : Meta) (kids : List Tree)
deriving Repr, Inhabited

def Tree.meta : Tree → Meta | .mk m _ => m
def Tree.kids : Tree → List Tree | .mk _ k => k

mutual
/-- pre-order list of the nodes of one tree -/
def flattenT : Tree → List Meta
  | .mk m kids => m :: flattenL kids
def flattenL : List Tree → List Meta
  | [] => []
  | t :: ts => flattenT t ++ flattenL ts
end

mutual
/-- `walker.Walk` with a visitor that threads a state and may fail: nodes of a tree blob in stored
    order; a node of invalid type aborts the walk (`node type is empty`); every other node is
    passed to `ProcessNode`, directories are entered afterwards. -/
def walkT (f : σ → Meta → Option σ) : Tree → σ → Option σ
  | .mk m kids, s =>
    if m.type = .invalid then none else
    match f s m with
    | none => none
    | some s' => if m.type = .dir then walkL f kids s' else some s'
def walkL (f : σ → Meta → Option σ) : List Tree → σ → Option σ
  | [], s => some s
  | t :: ts, s =>
    match walkT f t s with
    | none => none
    | some s' => walkL f ts s'
end

mutual
/-- only directories have children (what a decoded repository tree always satisfies) -/
def shapeT : Tree → Bool
  | .mk m kids => (m.type == .dir || kids.isEmpty) && shapeL kids
def shapeL : List Tree → Bool
  | [] => true
  | t :: ts => shapeT t && shapeL ts
end

mutual
def depthT : Tree → Nat
  | .mk _ kids => depthL kids + 1
def depthL : List Tree → Nat
  | [] => 0
  | t :: ts => max (depthT t) (depthL ts)
end

end Restic.Model.SnapTree
