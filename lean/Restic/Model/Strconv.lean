/-
Exact models of the `strconv` integer parsers restic's option parsers are built on
(`ParseUint(s, 10, bits)`, `ParseInt(s, 10, bits)`, `Atoi`), over byte strings, with the 64-bit
wrap-around of the Go loop spelled out. Core Lean only. Used by C49 and C52.
-/
namespace Restic.Model.Strconv

abbrev Str := List UInt8

/-- `*NumError.Err` -/
inductive NumErr where
  | esyntax   -- strconv.ErrSyntax
  | erange    -- strconv.ErrRange
deriving Repr, DecidableEq, BEq

def isDigit (c : UInt8) : Bool := 48 ≤ c && c ≤ 57

def digitVal (c : UInt8) : Nat := c.toNat - 48

def two64 : Nat := 18446744073709551616

/-- `maxUint64/10 + 1` -/
def cutoff10 : Nat := (two64 - 1) / 10 + 1

/-- the digit loop of `ParseUint` for base 10 (`n`, `n1` are `uint64`: arithmetic modulo 2^64) -/
def parseUintLoop (maxVal : Nat) : Nat → Str → Except NumErr Nat
  | n, [] => .ok n
  | n, c :: cs =>
    if !isDigit c then .error .esyntax                 -- d >= base, '_' , letters, anything else
    else if n ≥ cutoff10 then .error .erange            -- n*base overflows
    else
      let n := (n * 10) % two64
      let n1 := (n + digitVal c) % two64
      if n1 < n || n1 > maxVal then .error .erange      -- n+d overflows
      else parseUintLoop maxVal n1 cs

/-- `strconv.ParseUint(s, 10, bits)` for `1 ≤ bits ≤ 64` (bitSize 0 = 64 on the 64-bit platforms
    restic's parsers are checked on) -/
def parseUint (bits : Nat) (s : Str) : Except NumErr Nat :=
  if s = [] then .error .esyntax
  else parseUintLoop (2 ^ bits - 1) 0 s

/-- "pick off leading sign" of `ParseInt`: (negative, rest) -/
def splitSign (s : Str) : Bool × Str :=
  match s with
  | 43 :: r => (false, r)      -- '+'
  | 45 :: r => (true, r)       -- '-'
  | _ => (false, s)

/-- `strconv.ParseInt(s, 10, bits)` -/
def parseInt (bits : Nat) (s : Str) : Except NumErr Int :=
  if s = [] then .error .esyntax else
  let neg := (splitSign s).1
  let s' := (splitSign s).2
  let cutoff : Nat := 2 ^ (bits - 1)
  match parseUint bits s' with
  | .error .esyntax => .error .esyntax
  | .error .erange =>
    -- un = maxVal ≥ cutoff (and > cutoff for the negative case when bits ≥ 2): always a range error
    .error .erange
  | .ok un =>
    if !neg && un ≥ cutoff then .error .erange
    else if neg && un > cutoff then .error .erange
    else .ok (if neg then -(un : Int) else (un : Int))

/-- `strconv.Atoi` on a 64-bit platform: fast path and slow path compute `ParseInt(s, 10, 0)` -/
def atoi (s : Str) : Except NumErr Int := parseInt 64 s

/-! ### base 0 (`ParseInt/ParseUint(s, 0, bits)`: prefixes 0b 0o 0x, leading 0 = octal, underscores) -/

/-- `lower(c) = c | ('x' - 'X')` -/
def lower (c : UInt8) : UInt8 := c ||| 32

/-- the digit switch of `ParseUint`: value of a digit or letter, `none` = syntax error -/
def charDigit (c : UInt8) : Option Nat :=
  if 48 ≤ c ∧ c ≤ 57 then some (c.toNat - 48)
  else if 97 ≤ lower c ∧ lower c ≤ 122 then some ((lower c).toNat - 97 + 10)
  else none

/-- "Look for octal, hex prefix" (`base == 0`, `s ≠ ""`): the base and the digits that follow -/
def prefixBase (s : Str) : Nat × Str :=
  match s with
  | 48 :: c :: d :: r =>
    if lower c = 98 then (2, d :: r)            -- len(s) >= 3 && lower(s[1]) == 'b'
    else if lower c = 111 then (8, d :: r)      -- 'o'
    else if lower c = 120 then (16, d :: r)     -- 'x'
    else (8, c :: d :: r)
  | 48 :: r => (8, r)
  | _ => (10, s)

/-- `maxUint64/base + 1` -/
def cutoffB (base : Nat) : Nat := (two64 - 1) / base + 1

/-- the digit loop of `ParseUint` with `base0 = true` ('_' is skipped), uint64 arithmetic -/
def parseUintLoopB (base maxVal : Nat) : Nat → Str → Except NumErr Nat
  | n, [] => .ok n
  | n, c :: cs =>
    if c = 95 then parseUintLoopB base maxVal n cs
    else match charDigit c with
      | none => .error .esyntax
      | some d =>
        if d ≥ base then .error .esyntax
        else if n ≥ cutoffB base then .error .erange
        else
          let n := (n * base) % two64
          let n1 := (n + d) % two64
          if n1 < n || n1 > maxVal then .error .erange
          else parseUintLoopB base maxVal n1 cs

/-- loop state `i` of `underscoreOK`: '^' start, '0' digit (or base prefix), '_' underscore, '!' other -/
inductive USt where
  | start | digit | under | other
deriving DecidableEq, Repr

def underscoreLoop (hex : Bool) : USt → Str → Bool
  | i, [] => i != .under
  | i, c :: cs =>
    if (48 ≤ c ∧ c ≤ 57) ∨ (hex ∧ 97 ≤ lower c ∧ lower c ≤ 102) then underscoreLoop hex .digit cs
    else if c = 95 then (if i != .digit then false else underscoreLoop hex .under cs)
    else if i == .under then false
    else underscoreLoop hex .other cs

/-- `strconv.underscoreOK` -/
def underscoreOK (s : Str) : Bool :=
  let s := match s with | 45 :: r => r | 43 :: r => r | _ => s       -- optional sign
  match s with
  | 48 :: c :: r =>
    if lower c = 98 ∨ lower c = 111 ∨ lower c = 120 then underscoreLoop (lower c = 120) .digit r
    else underscoreLoop false .start s
  | _ => underscoreLoop false .start s

/-- `strconv.ParseUint(s, 0, bits)`; the Go flag `underscores` (set inside the loop, looked at after
    it) is "the digit part contains '_'" -/
def parseUint0 (bits : Nat) (s : Str) : Except NumErr Nat :=
  if s = [] then .error .esyntax else
  let base := (prefixBase s).1
  let digits := (prefixBase s).2
  match parseUintLoopB base (2 ^ bits - 1) 0 digits with
  | .error e => .error e
  | .ok n => if digits.contains 95 && !underscoreOK s then .error .esyntax else .ok n

/-- `strconv.ParseInt(s, 0, bits)` -/
def parseInt0 (bits : Nat) (s : Str) : Except NumErr Int :=
  if s = [] then .error .esyntax else
  let neg := (splitSign s).1
  let s' := (splitSign s).2
  let cutoff : Nat := 2 ^ (bits - 1)
  match parseUint0 bits s' with
  | .error .esyntax => .error .esyntax
  | .error .erange => .error .erange
  | .ok un =>
    if !neg && un ≥ cutoff then .error .erange
    else if neg && un > cutoff then .error .erange
    else .ok (if neg then -(un : Int) else (un : Int))

/-- the number an unsigned base-0 literal denotes (no width limit): digits in the base given by the
    prefix, '_' skipped (placement rule of `underscoreOK`), `none` if it is not such a literal -/
def evalDigits (base : Nat) : Nat → Str → Option Nat
  | n, [] => some n
  | n, c :: cs =>
    if c = 95 then evalDigits base n cs
    else match charDigit c with
      | none => none
      | some d => if d ≥ base then none else evalDigits base (n * base + d) cs

def numeral (s : Str) : Option Nat :=
  if s = [] then none
  else if (prefixBase s).2.contains 95 && !underscoreOK s then none
  else evalDigits (prefixBase s).1 0 (prefixBase s).2

/-! ### Reference semantics used by the theorems -/

/-- value of a digit string read as a decimal numeral (no validity check) -/
def decVal (s : Str) : Nat := s.foldl (fun n c => n * 10 + digitVal c) 0

def allDigits (s : Str) : Bool := s.all isDigit

end Restic.Model.Strconv
