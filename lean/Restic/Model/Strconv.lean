/-
Exact models of the `strconv` integer parsers restic's option parsers are built on
(`ParseUint(s, 10, bits)`, `ParseInt(s, 10, bits)`, `Atoi`), over byte strings, with the 64-bit
wrap-around of the Go loop spelled out. Core Lean only. Used by C49 and C52.
-/
namespace Restic.Model.Strconv

abbrev Str := List UInt8

/-- `*NumError.Err` -/
inductive NumErr where
  | esyntax   -- strconv.ErrSyntax
  | erange    -- strconv.ErrRange
deriving Repr, DecidableEq, BEq

def isDigit (c : UInt8) : Bool := 48 ≤ c && c ≤ 57

def digitVal (c : UInt8) : Nat := c.toNat - 48

def two64 : Nat := 18446744073709551616

/-- `maxUint64/10 + 1` -/
def cutoff10 : Nat := (two64 - 1) / 10 + 1

/-- the digit loop of `ParseUint` for base 10 (`n`, `n1` are `uint64`: arithmetic modulo 2^64) -/
def parseUintLoop (maxVal : Nat) : Nat → Str → Except NumErr Nat
  | n, [] => .ok n
  | n, c :: cs =>
    if !isDigit c then .error .esyntax                 -- d >= base, '_' , letters, anything else
    else if n ≥ cutoff10 then .error .erange            -- n*base overflows
    else
      let n := (n * 10) % two64
      let n1 := (n + digitVal c) % two64
      if n1 < n || n1 > maxVal then .error .erange      -- n+d overflows
      else parseUintLoop maxVal n1 cs

/-- `strconv.ParseUint(s, 10, bits)` for `1 ≤ bits ≤ 64` (bitSize 0 = 64 on the 64-bit platforms
    restic's parsers are checked on) -/
def parseUint (bits : Nat) (s : Str) : Except NumErr Nat :=
  if s = [] then .error .esyntax
  else parseUintLoop (2 ^ bits - 1) 0 s

/-- "pick off leading sign" of `ParseInt`: (negative, rest) -/
def splitSign (s : Str) : Bool × Str :=
  match s with
  | 43 :: r => (false, r)      -- '+'
  | 45 :: r => (true, r)       -- '-'
  | _ => (false, s)

/-- `strconv.ParseInt(s, 10, bits)` -/
def parseInt (bits : Nat) (s : Str) : Except NumErr Int :=
  if s = [] then .error .esyntax else
  let neg := (splitSign s).1
  let s' := (splitSign s).2
  let cutoff : Nat := 2 ^ (bits - 1)
  match parseUint bits s' with
  | .error .esyntax => .error .esyntax
  | .error .erange =>
    -- un = maxVal ≥ cutoff (and > cutoff for the negative case when bits ≥ 2): always a range error
    .error .erange
  | .ok un =>
    if !neg && un ≥ cutoff then .error .erange
    else if neg && un > cutoff then .error .erange
    else .ok (if neg then -(un : Int) else (un : Int))

/-- `strconv.Atoi` on a 64-bit platform: fast path and slow path compute `ParseInt(s, 10, 0)` -/
def atoi (s : Str) : Except NumErr Int := parseInt 64 s

/-! ### Reference semantics used by the theorems -/

/-- value of a digit string read as a decimal numeral (no validity check) -/
def decVal (s : Str) : Nat := s.foldl (fun n c => n * 10 + digitVal c) 0

def allDigits (s : Str) : Bool := s.all isDigit

end Restic.Model.Strconv
