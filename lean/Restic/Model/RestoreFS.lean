/-
A small POSIX file system model for C18: physical locations, symbolic links, path resolution
with the exact follow behaviour of the system calls restore uses. Core Lean only.

Physical paths are lists of names from the root of the modelled world (the sandbox directory in
the correspondence runs). A symbolic link stores its target as (absolute?, components).
-/
namespace Restic.Model.RestoreFS

abbrev Name := List UInt8
abbrev Path := List Name

def dot : Name := [46]
def dotdot : Name := [46, 46]
def slash : Name := [47]

inductive Entry where
  | dir (mode : Nat)
  | file (content : List UInt8) (mode : Nat)
  | symlink (abs : Bool) (target : List Name)
  | special (mode : Nat)            -- fifo / device node
deriving DecidableEq, Repr

def Entry.isSymlink : Entry → Bool
  | .symlink _ _ => true
  | _ => false

def Entry.isDir : Entry → Bool
  | .dir _ => true
  | _ => false

/-- association list, first match wins -/
structure FS where
  ents : List (Path × Entry)
deriving Repr

namespace FS

def get (fs : FS) (p : Path) : Option Entry :=
  match fs.ents.find? (fun e => e.1 == p) with
  | some e => some e.2
  | none => none

def erase (fs : FS) (p : Path) : FS := ⟨fs.ents.filter (fun e => !(e.1 == p))⟩

def set (fs : FS) (p : Path) (e : Entry) : FS := ⟨(p, e) :: (fs.erase p).ents⟩

/-- remove `p` and everything below it -/
def removeTree (fs : FS) (p : Path) : FS := ⟨fs.ents.filter (fun e => !(p.isPrefixOf e.1))⟩

/-- names of the entries directly inside `p` -/
def children (fs : FS) (p : Path) : List Name :=
  (fs.ents.filterMap fun e =>
    if e.1.length == p.length + 1 && p.isPrefixOf e.1 then e.1.getLast? else none).eraseDups

def hasChildren (fs : FS) (p : Path) : Bool :=
  fs.ents.any fun e => e.1.length > p.length && p.isPrefixOf e.1

end FS

/-- Resolve a sequence of components that must all name directories (symlinks are followed),
    starting in the physical directory `cur`. `none` = ENOENT / ENOTDIR / ELOOP. -/
def resolveDir (fs : FS) : Nat → Path → List Name → Option Path
  | 0, _, _ => none
  | _ + 1, cur, [] => some cur
  | fuel + 1, cur, c :: rest =>
    if c == [] || c == dot then resolveDir fs fuel cur rest
    else if c == dotdot then resolveDir fs fuel cur.dropLast rest
    else match fs.get (cur ++ [c]) with
      | some (.dir _) => resolveDir fs fuel (cur ++ [c]) rest
      | some (.symlink abs tgt) => resolveDir fs fuel (if abs then [] else cur) (tgt ++ rest)
      | _ => none

def fuelFor (p : Path) : Nat := p.length + 64

/-- the physical location a path names when the LAST component is not followed
    (lstat, unlink, rmdir, mkdir, symlink, mknod, link, open O_NOFOLLOW, lchown, utimensat NOFOLLOW) -/
def locate (fs : FS) (p : Path) : Option Path :=
  match p.getLast? with
  | none => none
  | some name =>
    if name == [] || name == dot || name == dotdot then
      -- ".", ".." or a trailing slash: the path names a directory
      resolveDir fs (fuelFor p) [] p
    else
    match resolveDir fs (fuelFor p) [] p.dropLast with
    | some pp => some (pp ++ [name])
    | none => none

/-- the physical location a path names when the last component IS followed (chmod, stat).
    `none` also when the final entry does not exist. -/
def locateFollow (fs : FS) : Nat → Path → Option Path
  | 0, _ => none
  | fuel + 1, p =>
    match locate fs p with
    | none => none
    | some loc =>
      match fs.get loc with
      | some (.symlink abs tgt) => locateFollow fs fuel ((if abs then [] else loc.dropLast) ++ tgt)
      | some _ => some loc
      | none => none

/-! ## the operations restore uses. Every operation returns the new file system and whether it
    failed (a failed operation changes nothing). -/

def lstat (fs : FS) (p : Path) : Option Entry :=
  match locate fs p with
  | some loc => fs.get loc
  | none => none

/-- `os.Remove`: unlink, or rmdir of an empty directory -/
def remove (fs : FS) (p : Path) : FS × Bool :=
  match locate fs p with
  | none => (fs, false)
  | some loc =>
    match fs.get loc with
    | none => (fs, false)
    | some (.dir _) => if fs.hasChildren loc then (fs, false) else (fs.erase loc, true)
    | some _ => (fs.erase loc, true)

/-- `os.RemoveAll` (never follows symlinks; succeeds when nothing is there) -/
def removeAll (fs : FS) (p : Path) : FS × Bool :=
  match locate fs p with
  | none => (fs, false)
  | some loc => (fs.removeTree loc, true)

/-- `mkdir(2)` -/
def mkdir (fs : FS) (p : Path) (mode : Nat) : FS × Bool :=
  match locate fs p with
  | none => (fs, false)
  | some loc =>
    match fs.get loc with
    | none => (fs.set loc (.dir mode), true)
    | some _ => (fs, false)

/-- `mkdir` of one path if nothing is there (existing entries of any kind are kept) -/
def mkdirIfMissing (fs : FS) (q : Path) (mode : Nat) : FS :=
  match locate fs q with
  | some loc => (match fs.get loc with | none => fs.set loc (.dir mode) | some _ => fs)
  | none => fs

/-- create `base ++ [c₁]`, `base ++ [c₁, c₂]`, … in this order where missing -/
def mkdirChain (fs : FS) (mode : Nat) (base : Path) : List Name → FS
  | [] => fs
  | c :: rest => mkdirChain (mkdirIfMissing fs (base ++ [c]) mode) mode (base ++ [c]) rest

/-- `os.MkdirAll`: create every missing directory of the path; existing entries (also symlinks
    to directories, which `stat` follows) are kept. Succeeds iff the path names a directory
    afterwards. -/
def mkdirAll (fs : FS) (p : Path) (mode : Nat) : FS × Bool :=
  let fs' := mkdirChain fs mode [] p
  match locateFollow fs' (fuelFor p) p with
  | some loc => (match fs'.get loc with | some (.dir _) => (fs', true) | _ => (fs', false))
  | none => (fs', false)

/-- `symlink(2)` -/
def symlink (fs : FS) (p : Path) (abs : Bool) (tgt : List Name) : FS × Bool :=
  match locate fs p with
  | none => (fs, false)
  | some loc =>
    match fs.get loc with
    | none => (fs.set loc (.symlink abs tgt), true)
    | some _ => (fs, false)

/-- `mknod(2)` (fifo) -/
def mknod (fs : FS) (p : Path) (mode : Nat) : FS × Bool :=
  match locate fs p with
  | none => (fs, false)
  | some loc =>
    match fs.get loc with
    | none => (fs.set loc (.special mode), true)
    | some _ => (fs, false)

/-- `link(2)`: neither name is followed; a hard link to a symlink is a symlink. Hard links are
    modelled as copies (no shared inode). -/
def link (fs : FS) (old new : Path) : FS × Bool :=
  match locate fs old, locate fs new with
  | some src, some loc =>
    match fs.get src, fs.get loc with
    | some (.dir _), _ => (fs, false)
    | some e, none => (fs.set loc e, true)
    | _, _ => (fs, false)
  | _, _ => (fs, false)

def Entry.withMode : Entry → Nat → Entry
  | .dir _, m => .dir m
  | .file c _, m => .file c m
  | .special _, m => .special m
  | e, _ => e

/-- `chmod(2)`: FOLLOWS a symlink in the last component -/
def chmod (fs : FS) (p : Path) (mode : Nat) : FS × Bool :=
  match locateFollow fs (fuelFor p) p with
  | none => (fs, false)
  | some loc =>
    match fs.get loc with
    | some e => (fs.set loc (e.withMode mode), true)
    | none => (fs, false)

/-- what `createFile` (internal/restorer/fileswriter.go) does to the name space: open with
    O_CREATE|O_NOFOLLOW; a symlink, directory or special file in the way is removed
    (`RemoveAll` with --delete, else `Remove`) and the file is created with O_EXCL. -/
def createFile (fs : FS) (p : Path) (content : List UInt8) (recursiveDelete : Bool) : FS × Bool :=
  match locate fs p with
  | none => (fs, false)
  | some loc =>
    match fs.get loc with
    | none => (fs.set loc (.file content 0o600), true)
    | some (.file _ m) => (fs.set loc (.file content m), true)
    | some (.dir _) =>
      if recursiveDelete then ((fs.removeTree loc).set loc (.file content 0o600), true)
      else if fs.hasChildren loc then (fs, false)
      else (fs.set loc (.file content 0o600), true)
    | some _ => (fs.set loc (.file content 0o600), true)

/-- `fs.Readdirnames(dir, O_NOFOLLOW)`: `none` = does not exist, `some (false, _)` = other error -/
def readdir (fs : FS) (p : Path) : Option (Bool × List Name) :=
  match locate fs p with
  | none => none
  | some loc =>
    match fs.get loc with
    | none => none
    | some (.dir _) => some (true, fs.children loc)
    | some _ => some (false, [])

end Restic.Model.RestoreFS
