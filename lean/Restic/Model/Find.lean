/-
Model of ID prefix resolution (C57): `restic.Find` (internal/restic/backend_find.go).
Core Lean only.

The Go function lists all files of a type and, for every listed ID, compares the prefix with the
hex name of the ID.  The first matching ID is remembered, a second matching ID aborts the listing
with `MultipleIDMatchesError`; after the listing the remembered ID is returned, or
`NoIDByPrefixError` when nothing matched.  A listing error is passed through.

Two transcriptions are kept:
* `find`          – the code as it is after `fix: restic.Find: do not use the null ID as "no match
                    yet" marker` (an explicit `found` flag);
* `findSentinel`  – the code before that fix (the all-zero ID doubles as "no match yet").
The driver compares the implementation with `find`.
-/
namespace Restic.Model.Find

/-- result of `restic.Find` (errors reduced to their kind) -/
inductive Res (ID : Type) where
  | ok (id : ID)
  | noID          -- *NoIDByPrefixError
  | multiple      -- *MultipleIDMatchesError
  | listErr       -- the error returned by the lister itself
deriving Repr, DecidableEq, BEq

section
variable {ID : Type} (name : ID → List UInt8)

/-- `len(name) >= len(prefix) && prefix == name[:len(prefix)]` -/
def matchesP (p : List UInt8) (id : ID) : Bool :=
  decide ((name id).length ≥ p.length) && (p == (name id).take p.length)

/-- one call of the list callback. The loop state (`match`, `found`) is an `Option ID`:
    `found = false` ⇔ `none`, `found = true ∧ match = id` ⇔ `some id`.  Result `none` = the callback
    returned `MultipleIDMatchesError` (which makes `List` stop and return that error) -/
def step (p : List UInt8) (st : Option ID) (id : ID) : Option (Option ID) :=
  if matchesP name p id then
    match st with
    | none => some (some id)
    | some _ => none
  else some st

/-- the listing loop with early exit -/
def loop (p : List UInt8) : Option ID → List ID → Option (Option ID)
  | st, [] => some st
  | st, id :: rest =>
    match step name p st id with
    | none => none
    | some st' => loop p st' rest

/-- `restic.Find` (after the fix). `ids` = the IDs handed to the callback in listing order,
    `listFails` = the lister itself returns an error after delivering `ids`. -/
def find (ids : List ID) (listFails : Bool) (p : List UInt8) : Res ID :=
  match loop name p none ids with
  | none => .multiple
  | some st =>
    if listFails then .listErr
    else match st with
      | some id => .ok id
      | none => .noID

/-! the code before the fix: the null ID is the "no match yet" marker -/
variable (isNull : ID → Bool) (null : ID)

def stepSentinel (p : List UInt8) (m : ID) (id : ID) : Option ID :=
  if matchesP name p id then
    if isNull m then some id else none
  else some m

def loopSentinel (p : List UInt8) : ID → List ID → Option ID
  | m, [] => some m
  | m, id :: rest =>
    match stepSentinel name isNull p m id with
    | none => none
    | some m' => loopSentinel p m' rest

def findSentinel (ids : List ID) (listFails : Bool) (p : List UInt8) : Res ID :=
  match loopSentinel name isNull p null ids with
  | none => .multiple
  | some m =>
    if listFails then .listErr
    else if !isNull m then .ok m else .noID

/-! ### Executable statement of the property -/

/-- the listed IDs whose name starts with the prefix -/
def matching (ids : List ID) (p : List UInt8) : List ID := ids.filter (fun id => p.isPrefixOf (name id))

/-- C57: the one matching file, or an error saying whether none or several match -/
def expected (ids : List ID) (p : List UInt8) : Res ID :=
  match matching name ids p with
  | [] => .noID
  | [x] => .ok x
  | _ :: _ :: _ => .multiple

/-- C57 as a predicate on an observed result (listing without lister error) -/
def specOK [BEq ID] (ids : List ID) (p : List UInt8) (res : Res ID) : Bool :=
  res == expected name ids p

end

/-! ### Instantiation used by driver and examples: 32-byte IDs, lower-case hex names -/

abbrev ID32 := List UInt8

def hexNib (n : Nat) : UInt8 :=
  if n < 10 then UInt8.ofNat (n + 48) else UInt8.ofNat (n - 10 + 97)

/-- `ID.String()`: lower-case hex -/
def hexName (id : ID32) : List UInt8 :=
  id.flatMap fun b => [hexNib (b.toNat / 16), hexNib (b.toNat % 16)]

/-- `ID.IsNull()` -/
def isNull32 (id : ID32) : Bool := id.all (· == 0)

def null32 : ID32 := List.replicate 32 0

end Restic.Model.Find
