import Restic.Model.Snapshots
import Restic.Gen.Consts
/-
Model of the retention policy (C22): `ApplyPolicy`, `findLatestTimestamp`, the bucket key
functions `ymdh / ymd / yw / ym / y / always`, `ExpirePolicy.Empty`, `Duration.Zero/String`
(internal/data/snapshot_policy.go, duration.go). Core Lean only.

Calendar arithmetic is not re-implemented: the civil fields of every snapshot time (year, month,
day, hour, ISO year/week, in the snapshot's own time zone) and the window starts
`latest.AddDate(-y,-m,-d).Add(-h hours)` are oracle values computed by Go's `time` package in the
harness. The coefficients of the key formulas are regenerated facts (`Restic.Gen.data_*`, obtained
by probing the current `ymdh/ymd/yw/ym/y` functions).
-/
namespace Restic.Model.Policy
open Restic.Model.Snapshots

/-- civil fields of a `time.Time` (oracle) -/
structure Civil where
  year : Int
  month : Int
  day : Int
  hour : Int
  isoYear : Int
  isoWeek : Int
deriving DecidableEq, Repr, Inhabited

/-- a snapshot as seen by the policy: selection fields (`sn.time` = instant in ns, `sn.tags`) plus
    the civil fields of its time -/
structure PSnap where
  sn : Snap
  civ : Civil
deriving DecidableEq, Repr, Inhabited

def PSnap.time (s : PSnap) : Int := s.sn.time

/-- `data.Duration` -/
structure Dur where
  hours : Int
  days : Int
  months : Int
  years : Int
deriving DecidableEq, Repr, Inhabited

/-- `Duration.Zero` -/
def Dur.zero (d : Dur) : Bool := d.years == 0 && d.months == 0 && d.days == 0 && d.hours == 0

/-- `Duration.String` -/
def Dur.str (d : Dur) : String :=
  (if d.years != 0 then s!"{d.years}y" else "") ++ (if d.months != 0 then s!"{d.months}m" else "") ++
  (if d.days != 0 then s!"{d.days}d" else "") ++ (if d.hours != 0 then s!"{d.hours}h" else "")

/-- `TagList.String` -/
def tagListStr (l : List Tag) : String := "[" ++ ", ".intercalate l ++ "]"

/-- `ExpirePolicy` -/
structure Policy where
  last : Int
  hourly : Int
  daily : Int
  weekly : Int
  monthly : Int
  yearly : Int
  within : Dur
  withinHourly : Dur
  withinDaily : Dur
  withinWeekly : Dur
  withinMonthly : Dur
  withinYearly : Dur
  tags : List (List Tag)
deriving Repr, Inhabited

/-- `ExpirePolicy.Empty`: no tag lists and every other field zero -/
def Policy.empty (p : Policy) : Bool :=
  p.tags.isEmpty && p.last == 0 && p.hourly == 0 && p.daily == 0 && p.weekly == 0 && p.monthly == 0 &&
  p.yearly == 0 && p.within.zero && p.withinHourly.zero && p.withinDaily.zero && p.withinWeekly.zero &&
  p.withinMonthly.zero && p.withinYearly.zero

/-- the six counting rules, in the order of the `buckets` array -/
inductive Kind where
  | last | hourly | daily | weekly | monthly | yearly
deriving DecidableEq, Repr, Inhabited

/-- the bucket functions `always, ymdh, ymd, yw, ym, y`; coefficients from the current source -/
def bucketKey : Kind → Civil → Nat → Int
  | .last, _, nr => nr
  | .hourly, c, _ => c.year * (Restic.Gen.data_ymdh_year : Int) + c.month * (Restic.Gen.data_ymdh_month : Int) +
      c.day * (Restic.Gen.data_ymdh_day : Int) + c.hour * (Restic.Gen.data_ymdh_hour : Int)
  | .daily, c, _ => c.year * (Restic.Gen.data_ymd_year : Int) + c.month * (Restic.Gen.data_ymd_month : Int) +
      c.day * (Restic.Gen.data_ymd_day : Int)
  | .weekly, c, _ => c.isoYear * (Restic.Gen.data_yw_year : Int) + c.isoWeek * (Restic.Gen.data_yw_week : Int)
  | .monthly, c, _ => c.year * (Restic.Gen.data_ym_year : Int) + c.month * (Restic.Gen.data_ym_month : Int)
  | .yearly, c, _ => c.year * (Restic.Gen.data_y_year : Int)

def Kind.reason : Kind → String
  | .last => "last snapshot"
  | .hourly => "hourly snapshot"
  | .daily => "daily snapshot"
  | .weekly => "weekly snapshot"
  | .monthly => "monthly snapshot"
  | .yearly => "yearly snapshot"

def Kind.withinReason : Kind → String
  | .last => "last within"      -- not used: there is no such bucket
  | .hourly => "hourly within"
  | .daily => "daily within"
  | .weekly => "weekly within"
  | .monthly => "monthly within"
  | .yearly => "yearly within"

/-- an element of the `buckets` array -/
structure Bucket where
  kind : Kind
  count : Int
  last : Int
deriving DecidableEq, Repr, Inhabited

/-- an element of the `bucketsWithin` array -/
structure WBucket where
  kind : Kind
  within : Dur
  last : Int
deriving DecidableEq, Repr, Inhabited

def Policy.countOf (p : Policy) : Kind → Int
  | .last => p.last | .hourly => p.hourly | .daily => p.daily
  | .weekly => p.weekly | .monthly => p.monthly | .yearly => p.yearly

def Policy.withinOf (p : Policy) : Kind → Dur
  | .last => ⟨0, 0, 0, 0⟩ | .hourly => p.withinHourly | .daily => p.withinDaily
  | .weekly => p.withinWeekly | .monthly => p.withinMonthly | .yearly => p.withinYearly

def countKinds : List Kind := [.last, .hourly, .daily, .weekly, .monthly, .yearly]
def withinKinds : List Kind := [.hourly, .daily, .weekly, .monthly, .yearly]

/-- the initial `buckets` array: `Last` starts at -1 -/
def initBuckets (p : Policy) : List Bucket := countKinds.map fun k => ⟨k, p.countOf k, -1⟩
def initWBuckets (p : Policy) : List WBucket := withinKinds.map fun k => ⟨k, p.withinOf k, -1⟩

/-- the zero `time.Time` (0001-01-01 00:00:00 UTC) in ns relative to the Unix epoch -/
def zeroTime : Int := -62135596800 * 1000000000

/-- `findLatestTimestamp`; `none` is the `panic("list of snapshots is empty")` -/
def findLatestTimestamp (now : Int) : List PSnap → Option Int
  | [] => none
  | l => some (l.foldl (fun latest sn => if sn.time > latest ∧ sn.time < now then sn.time else latest) zeroTime)

/-- stable insertion into a newest-first list: `x` goes before the first element that is not
    strictly newer (so it stays in front of equally old elements that came later in the input) -/
def insertNewest (x : PSnap) : List PSnap → List PSnap
  | [] => [x]
  | y :: ys => if y.time > x.time then y :: insertNewest x ys else x :: y :: ys

/-- `sort.Stable(list)` with `Less(i,j) = list[i].Time.After(list[j].Time)` -/
def sortNewestFirst : List PSnap → List PSnap
  | [] => []
  | x :: xs => insertNewest x (sortNewestFirst xs)

/-- body of the loop over `buckets` for one bucket: new bucket state and the reason if it hit -/
def stepBucket (b : Bucket) (c : Civil) (nr : Nat) (isLast : Bool) : Bucket × Option String :=
  if b.count > 0 ∨ b.count = -1 then
    let val := bucketKey b.kind c nr
    if val ≠ b.last ∨ isLast = true then
      let reason := if val = b.last ∧ isLast = true then "oldest " ++ b.kind.reason else b.kind.reason
      ({ b with last := val, count := if b.count > 0 then b.count - 1 else b.count }, some reason)
    else (b, none)
  else (b, none)

/-- context of one `ApplyPolicy` run: the `AddDate/Add` oracle, the latest timestamp, the policy -/
structure Ctx where
  sub : Int → Dur → Int      -- `latest.AddDate(-y,-m,-d).Add(-h * time.Hour)` as instant (oracle)
  latest : Int
  p : Policy

/-- body of the loop over `bucketsWithin` for one bucket -/
def stepWBucket (ctx : Ctx) (b : WBucket) (cur : PSnap) (nr : Nat) (isLast : Bool) : WBucket × Option String :=
  if !b.within.zero then
    let t := ctx.sub ctx.latest b.within
    if cur.time > t then
      let val := bucketKey b.kind cur.civ nr
      if val ≠ b.last ∨ isLast = true then
        let reason := if val = b.last ∧ isLast = true then "oldest " ++ b.kind.withinReason else b.kind.withinReason
        ({ b with last := val }, some (reason ++ " " ++ b.within.str))
      else (b, none)
    else (b, none)
  else (b, none)

structure St where
  buckets : List Bucket
  wbuckets : List WBucket
deriving Repr, Inhabited

/-- what `ApplyPolicy` decides for one snapshot -/
structure Decision where
  snap : PSnap
  keep : Bool               -- keepSnap
  reasons : List String     -- keepSnapReasons
  counters : List Int       -- buckets[i].Count after this snapshot (KeepReason.Counters)
deriving Repr, Inhabited

/-- the tag rule for one snapshot: one reason per matching tag list -/
def tagHits (p : Policy) (cur : PSnap) : List String :=
  p.tags.filterMap fun l => if hasTags cur.sn l then some ("has tags " ++ tagListStr l) else none

/-- the `Within` rule for one snapshot -/
def withinHit (ctx : Ctx) (cur : PSnap) : List String :=
  if !ctx.p.within.zero && decide (cur.time > ctx.sub ctx.latest ctx.p.within) then
    ["within " ++ ctx.p.within.str] else []

/-- body of `for nr, cur := range list` -/
def stepSnap (ctx : Ctx) (st : St) (nr : Nat) (isLast : Bool) (cur : PSnap) : St × Decision :=
  let bs := st.buckets.map fun b => stepBucket b cur.civ nr isLast
  let ws := st.wbuckets.map fun b => stepWBucket ctx b cur nr isLast
  let reasons := tagHits ctx.p cur ++ withinHit ctx cur ++ bs.filterMap (·.2) ++ ws.filterMap (·.2)
  let st' : St := { buckets := bs.map (·.1), wbuckets := ws.map (·.1) }
  (st', { snap := cur, keep := !reasons.isEmpty, reasons := reasons, counters := st'.buckets.map (·.count) })

/-- the main loop; `isLast` is `nr == len(list)-1` -/
def loop (ctx : Ctx) : St → Nat → List PSnap → List Decision
  | _, _, [] => []
  | st, nr, cur :: rest =>
    let r := stepSnap ctx st nr rest.isEmpty cur
    r.2 :: loop ctx r.1 (nr + 1) rest

inductive Result where
  | panic
  | ok (ds : List Decision)
deriving Repr, Inhabited

/-- `ApplyPolicy`: decisions in the order of the sorted list. `keep` / `remove` / `reasons` of the
    Go function are the projections below. -/
def applyPolicy (sub : Int → Dur → Int) (now : Int) (list : List PSnap) (p : Policy) : Result :=
  let sorted := sortNewestFirst list
  if sorted.isEmpty then .ok []
  else
    match findLatestTimestamp now sorted with
    | none => .panic
    | some latest =>
      .ok (loop ⟨sub, latest, p⟩ ⟨initBuckets p, initWBuckets p⟩ 0 sorted)

def keepOf (ds : List Decision) : List PSnap := (ds.filter (·.keep)).map (·.snap)
def removeOf (ds : List Decision) : List PSnap := (ds.filter (!·.keep)).map (·.snap)
def reasonsOf (ds : List Decision) : List (PSnap × List String) := (ds.filter (·.keep)).map fun d => (d.snap, d.reasons)

/-! ### Executable statement of the property

Declarative reading of the rules, position by position in the stably sorted list: `pre` are the
snapshots newer than (or as new as and earlier in the input than) `s`; `isLast` says that `s` is
the oldest snapshot. -/

def keysOf (k : Kind) : Nat → List PSnap → List Int
  | _, [] => []
  | nr, s :: rest => bucketKey k s.civ nr :: keysOf k (nr + 1) rest

/-- the period of a time as the documentation defines it — YYYYMMDDHH, YYYYMMDD, ISO year and
    week YYYYWW, YYYYMM, YYYY — written down independently of the key functions of the source
    (`bucketKey` uses the regenerated coefficients; `Props/C22.bucketKey_eq_periodKey` proves that
    they currently agree) -/
def periodKey : Kind → Civil → Nat → Int
  | .last, _, nr => nr
  | .hourly, c, _ => c.year * 1000000 + c.month * 10000 + c.day * 100 + c.hour
  | .daily, c, _ => c.year * 10000 + c.month * 100 + c.day
  | .weekly, c, _ => c.isoYear * 100 + c.isoWeek
  | .monthly, c, _ => c.year * 100 + c.month
  | .yearly, c, _ => c.year

def pkeysOf (k : Kind) : Nat → List PSnap → List Int
  | _, [] => []
  | nr, s :: rest => periodKey k s.civ nr :: pkeysOf k (nr + 1) rest

/-- number of "period changes" in a key sequence that starts after key `prev` -/
def runHeads : Int → List Int → Nat
  | _, [] => 0
  | prev, k :: ks => (if k ≠ prev then 1 else 0) + runHeads k ks

def lastOr (d : Int) : List Int → Int
  | [] => d
  | k :: ks => lastOr k ks

/-- are the keys non-increasing along the (newest first) list? True whenever all snapshots carry
    the same time zone without a calendar discontinuity in between; then equal keys are adjacent
    and "run of equal keys" = "period". -/
def antitone : List Int → Bool
  | [] => true
  | [_] => true
  | a :: b :: rest => decide (a ≥ b) && antitone (b :: rest)

/-- number of distinct values (every value is counted at its last occurrence) -/
def distinct : List Int → Nat
  | [] => 0
  | k :: ks => (if ks.contains k then 0 else 1) + distinct ks

/-- counting rule `keep-<kind> n`, as the code behaves for any key sequence: `s` starts a new run
    of equal keys (or is the oldest snapshot) and fewer than `n` runs started before it -/
def countRuleRuns (k : Kind) (n : Int) (pre : List PSnap) (s : PSnap) (isLast : Bool) : Bool :=
  let ks := keysOf k 0 pre
  (n == -1 || decide ((runHeads (-1) ks : Int) < n)) &&
  (bucketKey k s.civ pre.length != lastOr (-1) ks || isLast)

/-- counting rule as documented: `s` is the newest snapshot of its period (or the oldest snapshot
    of all) and fewer than `n` periods are more recent -/
def countRulePeriods (k : Kind) (n : Int) (pre : List PSnap) (s : PSnap) (isLast : Bool) : Bool :=
  let ks := pkeysOf k 0 pre
  (n == -1 || decide ((distinct ks : Int) < n)) &&
  (!ks.contains (periodKey k s.civ pre.length) || isLast)

/-- `keep-within-<kind> d` for any key sequence -/
def withinRuleRuns (ctx : Ctx) (k : Kind) (pre : List PSnap) (s : PSnap) (isLast : Bool) : Bool :=
  let d := ctx.p.withinOf k
  !d.zero && decide (s.time > ctx.sub ctx.latest d) &&
  (bucketKey k s.civ pre.length != lastOr (-1) (keysOf k 0 pre) || isLast)

/-- `keep-within-<kind> d` as documented -/
def withinRulePeriods (ctx : Ctx) (k : Kind) (pre : List PSnap) (s : PSnap) (isLast : Bool) : Bool :=
  let d := ctx.p.withinOf k
  !d.zero && decide (s.time > ctx.sub ctx.latest d) &&
  (!(pkeysOf k 0 pre).contains (periodKey k s.civ pre.length) || isLast)

def tagRule (p : Policy) (s : PSnap) : Bool := p.tags.any fun l => hasTags s.sn l

def withinRule (ctx : Ctx) (s : PSnap) : Bool :=
  !ctx.p.within.zero && decide (s.time > ctx.sub ctx.latest ctx.p.within)

/-- is `s` (at this position) kept? — the union of all rules, runs form (always equal to the code) -/
def keptRuns (ctx : Ctx) (pre : List PSnap) (s : PSnap) (isLast : Bool) : Bool :=
  tagRule ctx.p s || withinRule ctx s ||
  countKinds.any (fun k => countRuleRuns k (ctx.p.countOf k) pre s isLast) ||
  withinKinds.any (fun k => withinRuleRuns ctx k pre s isLast)

/-- the documented reading (periods) -/
def keptPeriods (ctx : Ctx) (pre : List PSnap) (s : PSnap) (isLast : Bool) : Bool :=
  tagRule ctx.p s || withinRule ctx s ||
  (ctx.p.last == -1 || decide ((pre.length : Int) < ctx.p.last)) ||
  withinKinds.any (fun k => countRulePeriods k (ctx.p.countOf k) pre s isLast) ||
  withinKinds.any (fun k => withinRulePeriods ctx k pre s isLast)

/-- flags for a whole list, position by position -/
def flagsFrom (kept : List PSnap → PSnap → Bool → Bool) : List PSnap → List PSnap → List Bool
  | _, [] => []
  | pre, s :: rest => kept pre s rest.isEmpty :: flagsFrom kept (pre ++ [s]) rest

/-- every period key of the list is usable: not the sentinel -1 and non-increasing -/
def keysRegular (l : List PSnap) : Bool :=
  withinKinds.all fun k => let ks := pkeysOf k 0 l; antitone ks && !ks.contains (-1)

/-- **C22 as a predicate on observed behaviour**: given the input list, the policy, the oracles and
    what the implementation returned (ids of `keep` and `remove` in order, number of reasons per
    kept snapshot), is it what the statement demands? For lists whose period keys are not regular
    (mixed time zones running against time order) the runs form is used: characterised, no claim. -/
def specOK (sub : Int → Dur → Int) (latest : Int) (list : List PSnap) (p : Policy)
    (keepIds removeIds : List Nat) (reasonCounts : List Nat) : Bool :=
  let sorted := sortNewestFirst list
  let ctx : Ctx := ⟨sub, latest, p⟩
  let flags := if keysRegular sorted then flagsFrom (keptPeriods ctx) [] sorted else flagsFrom (keptRuns ctx) [] sorted
  let z := sorted.zip flags
  keepIds == (z.filter (·.2)).map (·.1.sn.id) &&
  removeIds == (z.filter (!·.2)).map (·.1.sn.id) &&
  reasonCounts.length == keepIds.length && reasonCounts.all (· > 0)

/-- the latest timestamp as the statement describes it: the newest non-future one -/
def specLatestTs (now : Int) (list : List PSnap) (latest : Int) : Bool :=
  list.all (fun s => !(decide (s.time < now) && decide (s.time > zeroTime)) || decide (s.time ≤ latest)) &&
  (latest == zeroTime || list.any fun s => s.time == latest && decide (s.time < now))

end Restic.Model.Policy
