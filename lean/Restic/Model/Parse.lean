import Restic.Model.Strconv
import Restic.Model.CheckSubset
/-
Models of restic's command-line value parsers (C49), over byte strings. Core Lean only.

  internal/data/duration.go       nextNumber, ParseDuration, Duration.String
  internal/ui/format.go           ParseBytes (with the 64x64 -> 128 bit multiply and its overflow test)
  cmd/restic/cmd_forget.go        ForgetPolicyCount.Set
  internal/options/options.go     splitKeyValue, Parse
  cmd/restic/cmd_check.go         checkFlags (n/t branch from Model/CheckSubset, percentage, size)
  internal/backend/shell_split.go shellSplitter.isSplitChar, SplitShellStrings

Go panics are the explicit outcome `Out.panic`. `strings.TrimSpace`, `strings.ToLower` and
`unicode.IsSpace` are modelled for ASCII (bytes ≥ 0x80 are ordinary characters); the generators
produce no non-ASCII white space or upper-case letters. Floats (`parsePercentage`) enter as an
oracle classification computed by the harness with `strconv.ParseFloat`.
-/
namespace Restic.Model.Parse
open Restic.Model.Strconv

inductive PErr where
  | noNumber | noUnit | invalidUnit        -- ParseDuration
  | esyntax | range                        -- strconv errors
  | emptyString                            -- ParseBytes("")
  | negative                               -- ErrNegativePolicyCount
  | emptyKey | dupKey                      -- options.Parse
  | unknownOption | badDuration            -- options.Apply
  | unterminatedSingle | unterminatedDouble | emptyCommand   -- SplitShellStrings
deriving Repr, DecidableEq

inductive Out (α : Type) where
  | ok (v : α)
  | err (e : PErr)
  | panic
deriving Repr, DecidableEq

def ofNumErr : NumErr → PErr
  | .esyntax => .esyntax
  | .erange => .range

/-! ### white space, case -/

/-- ASCII white space: '\t' '\n' '\v' '\f' '\r' ' ' (`unicode.IsSpace` / `strings.TrimSpace` on ASCII) -/
def isSpace (c : UInt8) : Bool := c == 9 || c == 10 || c == 11 || c == 12 || c == 13 || c == 32

def trimSpace (s : Str) : Str := ((s.dropWhile isSpace).reverse.dropWhile isSpace).reverse

def toLowerAscii (c : UInt8) : UInt8 := if 65 ≤ c && c ≤ 90 then c + 32 else c

/-! ### durations -/

/-- `data.Duration` (fields are Go `int`) -/
structure Duration where
  hours : Int
  days : Int
  months : Int
  years : Int
deriving Repr, DecidableEq

def Duration.zero : Duration := ⟨0, 0, 0, 0⟩

/-- the optional leading '-' of `nextNumber`: (negative, rest) -/
def splitMinus (s : Str) : Bool × Str :=
  match s with
  | 45 :: r => (true, r)
  | _ => (false, s)

/-- `nextNumber`. `legacy = true` is the code before the fix of F1 (`panic(err)` when `Atoi` fails),
    `legacy = false` the code after it (`return 0, input, err`). -/
def nextNumber (legacy : Bool) (input : Str) : Out (Int × Str) :=
  if input = [] then .ok (0, []) else
  let negative := (splitMinus input).1
  let input := (splitMinus input).2
  -- the loop collects leading digits in n; rest = input[i:] at the first non-digit ("" if none)
  let n := input.takeWhile isDigit
  let rest := input.dropWhile isDigit
  if n = [] then .err .noNumber
  else match atoi n with
    | .error e => if legacy then .panic else .err (ofNumErr e)
    | .ok num => .ok (if negative then -num else num, rest)

/-- the `for s != ""` loop of `ParseDuration`; every iteration consumes at least the unit character,
    so `fuel = len(s) + 1` is never exhausted (`parseDuration_fuel_enough`); running out of fuel is
    reported as `panic` so that it cannot hide behind a default -/
def parseDurationLoop (legacy : Bool) : Nat → Duration → Str → Out Duration
  | 0, _, _ => .panic
  | fuel + 1, d, s =>
    if s = [] then .ok d else
    match nextNumber legacy s with
    | .panic => .panic
    | .err e => .err e
    | .ok (num, s') =>
      match s' with
      | [] => .err .noUnit
      | u :: s'' =>
        if u = 121 then parseDurationLoop legacy fuel { d with years := num } s''        -- 'y'
        else if u = 109 then parseDurationLoop legacy fuel { d with months := num } s''  -- 'm'
        else if u = 100 then parseDurationLoop legacy fuel { d with days := num } s''    -- 'd'
        else if u = 104 then parseDurationLoop legacy fuel { d with hours := num } s''   -- 'h'
        else .err .invalidUnit

/-- `data.ParseDuration` -/
def parseDuration (legacy : Bool) (s : Str) : Out Duration :=
  let s := trimSpace s
  parseDurationLoop legacy (s.length + 1) Duration.zero s

/-- decimal digits of a natural number, most significant first (`%d`) -/
def toDec (n : Nat) : Str :=
  if n < 10 then [UInt8.ofNat (48 + n)] else toDec (n / 10) ++ [UInt8.ofNat (48 + n % 10)]

/-- `fmt.Sprintf("%d", i)` -/
def fmtInt (i : Int) : Str := if i < 0 then 45 :: toDec i.natAbs else toDec i.toNat

/-- `Duration.String` -/
def durationString (d : Duration) : Str :=
  (if d.years ≠ 0 then fmtInt d.years ++ [121] else []) ++
  (if d.months ≠ 0 then fmtInt d.months ++ [109] else []) ++
  (if d.days ≠ 0 then fmtInt d.days ++ [100] else []) ++
  (if d.hours ≠ 0 then fmtInt d.hours ++ [104] else [])

/-! ### byte sizes -/

/-- the unit switch of `ParseBytes` on the last character -/
def unitOf (c : UInt8) : Option Nat :=
  if c = 98 ∨ c = 66 then some 1                                        -- 'b', 'B'
  else if c = 107 ∨ c = 75 then some 1024                               -- 'k', 'K'
  else if c = 109 ∨ c = 77 then some (1024 * 1024)                      -- 'm', 'M'
  else if c = 103 ∨ c = 71 then some (1024 * 1024 * 1024)               -- 'g', 'G'
  else if c = 116 ∨ c = 84 then some (1024 * 1024 * 1024 * 1024)        -- 't', 'T'
  else none

def two63 : Nat := 9223372036854775808

/-- `hi, lo := bits.Mul64(uint64(value), unit); value = int64(lo); if hi != 0 || value < 0 { ErrRange }`
    with the 64-bit conversions spelled out: `uint64(value)` is `value mod 2^64`, and `int64(lo)` is
    negative exactly when `lo ≥ 2^63` (otherwise it equals `lo`) -/
def mul64Check (value : Int) (unit : Nat) : Out Int :=
  let prod := (value % (two64 : Int)).toNat * unit
  let hi := prod / two64
  let lo := prod % two64
  if hi ≠ 0 then .err .range
  else if lo ≥ two63 then .err .range
  else .ok (lo : Int)

/-- `ui.ParseBytes` -/
def parseBytes (s : Str) : Out Int :=
  match s.getLast? with
  | none => .err .emptyString
  | some last =>
    let numStr := match unitOf last with | some _ => s.dropLast | none => s
    let unit := match unitOf last with | some u => u | none => 1
    match parseInt 64 numStr with
    | .error e => .err (ofNumErr e)
    | .ok value => mul64Check value unit

/-! ### forget policy counts -/

def unlimited : Str := [117, 110, 108, 105, 109, 105, 116, 101, 100]   -- "unlimited"

/-- `ForgetPolicyCount.Set` -/
def policyCountSet (s : Str) : Out Int :=
  if s = unlimited then .ok (-1)
  else match parseInt 64 s with
    | .error e => .err (ofNumErr e)
    | .ok v => if v < 0 then .err .negative else .ok v

/-! ### extended options -/

/-- `strings.Cut(s, "=")` -/
def cutEq (s : Str) : Str × Str := (s.takeWhile (· != 61), (s.dropWhile (· != 61)).drop 1)

/-- `splitKeyValue` -/
def splitKeyValue (s : Str) : Str × Str :=
  let (k, v) := cutEq s
  ((trimSpace k).map toLowerAscii, trimSpace v)

/-- the loop of `options.Parse`; the map is an association list (keys unique) -/
def optionsLoop : List (Str × Str) → List Str → Out (List (Str × Str))
  | acc, [] => .ok acc
  | acc, o :: os =>
    let (k, v) := splitKeyValue o
    if k = [] then .err .emptyKey
    else match acc.lookup k with
      | some v' => if v' ≠ v then .err .dupKey else optionsLoop acc os
      | none => optionsLoop (acc ++ [(k, v)]) os

/-- `options.Parse` -/
def optionsParse (opts : List Str) : Out (List (Str × Str)) := optionsLoop [] opts

/-! ### applying extended options to a config struct (`Options.Apply`) -/

/-- what `Apply` switches on: `Type.Name()` of the field ("string", "int", "uint", "bool", "Duration");
    any other name makes `Apply` panic ("type … not handled") -/
inductive Kind where
  | str | int | uint | bool | dur | other
deriving Repr, DecidableEq

/-- value stored in the field -/
inductive Val where
  | str (s : Str)
  | int (i : Int)
  | uint (n : Nat)
  | bool (b : Bool)
  | dur (ns : Int)
deriving Repr, DecidableEq

/-- `strconv.ParseBool` -/
def parseBool (s : Str) : Option Bool :=
  if s = [49] ∨ s = [116] ∨ s = [84] ∨ s = [116, 114, 117, 101] ∨ s = [84, 82, 85, 69] ∨ s = [84, 114, 117, 101] then some true
  else if s = [48] ∨ s = [102] ∨ s = [70] ∨ s = [102, 97, 108, 115, 101] ∨ s = [70, 65, 76, 83, 69] ∨ s = [70, 97, 108, 115, 101] then some false
  else none

/-- one iteration of the `for key, value := range o` loop of `Apply` for a known key: convert the
    value according to the field's type. `durOracle` = result of `time.ParseDuration(value)` in ns
    (stdlib, not modelled). -/
def applyOne (k : Kind) (value : Str) (durOracle : Option Int) : Out Val :=
  match k with
  | .str => .ok (.str value)
  | .int =>
    (match parseInt0 32 value with
     | .error e => .err (ofNumErr e)
     | .ok vi => .ok (.int vi))                    -- SetInt(vi)
  | .uint =>
    (match parseUint0 32 value with
     | .error e => .err (ofNumErr e)
     | .ok vi => .ok (.uint vi))                   -- SetUint(vi)
  | .bool =>
    (match parseBool value with
     | none => .err .esyntax
     | some b => .ok (.bool b))
  | .dur =>
    (match durOracle with
     | none => .err .badDuration
     | some d => .ok (.dur d))
  | .other => .panic

/-- `Options.Apply` on a struct whose tagged fields are `fields` (tag, kind): every option must name
    a field and convert; the options are visited in map order (here: list order), the first failure
    aborts -/
def applyAll (fields : List (Str × Kind)) (dur : Str → Option Int) : List (Str × Str) → Out (List (Str × Val))
  | [] => .ok []
  | (key, value) :: rest =>
    match fields.lookup key with
    | none => .err .unknownOption
    | some k =>
      match applyOne k value (dur value) with
      | .panic => .panic
      | .err e => .err e
      | .ok v =>
        match applyAll fields dur rest with
        | .ok vs => .ok ((key, v) :: vs)
        | r => r

/-- C49 for one applied option: never a panic (for the field types restic's config structs use);
    a string is stored verbatim; an `int` / `uint` option is accepted exactly when the value is a
    Go integer literal (optional sign only for `int`) whose number fits 32 bits of the field's
    signedness, and then exactly that number is stored; bools per `strconv.ParseBool` -/
def specApply (k : Kind) (value : Str) (durOracle : Option Int) (res : Out Val) : Bool :=
  match k with
  | .other => true
  | .str => res == .ok (.str value)
  | .int =>
    let x : Option Int := (numeral (splitSign value).2).map fun n => if (splitSign value).1 then -(n : Int) else (n : Int)
    (match x, res with
     | some x, .ok (.int y) => x == y && -2147483648 ≤ y && y < 2147483648
     | some x, .err _ => !(-2147483648 ≤ x && x < 2147483648)
     | none, .err _ => true
     | _, _ => false)
  | .uint =>
    (match numeral value, res with
     | some n, .ok (.uint m) => n == m && m < 4294967296
     | some n, .err _ => !(n < 4294967296)
     | none, .err _ => true
     | _, _ => false)
  | .bool =>
    (match parseBool value, res with
     | some b, .ok (.bool b') => b == b'
     | none, .err _ => true
     | _, _ => false)
  | .dur =>
    (match durOracle, res with
     | some d, .ok (.dur d') => d == d'
     | none, .err _ => true
     | _, _ => false)

/-! ### check --read-data-subset (all branches of checkFlags) -/

/-- what `strconv.ParseFloat(s[:len(s)-1], 64)` and the two float comparisons of `checkFlags`
    yield (oracle computed by the harness) -/
inductive Pct where
  | parseErr | le0 | gt100 | inRange | nan
deriving Repr, DecidableEq

inductive FlagOut where
  | accept
  | together        -- --read-data and --read-data-subset
  | invalidValue | badRange | tTooLarge | pctRange | sizeRange
deriving Repr, DecidableEq

/-- `checkFlags`. `legacyNaN = true`: the comparison `percentage <= 0.0 || percentage > 100.0` of
    the code before the fix (false for NaN, so NaN is accepted); `false`: after the fix. -/
def checkFlags (legacyNaN : Bool) (maxBuckets : Nat) (readData : Bool) (s : Str) (pct : Pct) : FlagOut :=
  if readData ∧ s ≠ [] then .together
  else if s = [] then .accept
  else match CheckSubset.checkFlagsNT maxBuckets s with
    | .accept _ _ => .accept
    | .invalidValue => .invalidValue
    | .badRange => .badRange
    | .tTooLarge => .tTooLarge
    | .notIntSlice =>
      if s.getLast? = some 37 then          -- strings.HasSuffix(s, "%")
        match pct with
        | .parseErr => .invalidValue
        | .le0 => .pctRange
        | .gt100 => .pctRange
        | .inRange => .accept
        | .nan => if legacyNaN then .accept else .pctRange
      else match parseBytes s with
        | .ok v => if v ≤ 0 then .sizeRange else .accept
        | _ => .invalidValue

/-! ### shell splitting -/

/-- `shellSplitter` (0 = no quote) -/
structure Splitter where
  quote : UInt8
  lastChar : UInt8
deriving Repr, DecidableEq

/-- `shellSplitter.isSplitChar` -/
def isSplitChar (s : Splitter) (c : UInt8) : Splitter × Bool :=
  if s.lastChar ≠ 92 ∧ s.quote ≠ 0 ∧ c = s.quote then ({ s with quote := 0 }, true)            -- quote ended
  else if s.lastChar ≠ 92 ∧ s.quote = 0 ∧ (c = 34 ∨ c = 39) then ({ s with quote := c }, true)  -- quote starts
  else
    let s := { s with lastChar := c }
    if s.quote ≠ 0 then (s, false)               -- within quote
    else (s, c = 92 || isSpace c)                -- outside quote

/-- the field loop of `SplitShellStrings` (derived from strings.FieldsFunc): `cur` is the field
    being collected (`fieldStart >= 0`), `acc` the finished fields -/
def splitLoop : Splitter → Option Str → List Str → Str → Splitter × List Str
  | st, cur, acc, [] => (st, match cur with | some f => acc ++ [f] | none => acc)
  | st, cur, acc, c :: cs =>
    let (st', split) := isSplitChar st c
    if split then
      match cur with
      | some f => splitLoop st' none (acc ++ [f]) cs
      | none => splitLoop st' none acc cs
    else splitLoop st' (some (cur.getD [] ++ [c])) acc cs

/-- `backend.SplitShellStrings` -/
def splitShellStrings (data : Str) : Out (List Str) :=
  let (st, strs) := splitLoop ⟨0, 0⟩ none [] data
  if st.quote = 39 then .err .unterminatedSingle
  else if st.quote = 34 then .err .unterminatedDouble
  else if strs = [] then .err .emptyCommand
  else .ok strs

/-! ### Executable statements of the property (evaluated by the driver on the implementation's output) -/

/-- one `number unit` item of a duration string -/
structure Item where
  neg : Bool
  digits : Str
  unit : UInt8
deriving Repr, DecidableEq

def Item.render (i : Item) : Str := (if i.neg then [45] else []) ++ i.digits ++ [i.unit]

def Item.value (i : Item) : Int := if i.neg then -(decVal i.digits : Int) else decVal i.digits

def Item.valid (i : Item) : Bool :=
  i.digits ≠ [] && allDigits i.digits && decVal i.digits < two63 &&
  (i.unit == 121 || i.unit == 109 || i.unit == 100 || i.unit == 104)

def Duration.assign (d : Duration) (i : Item) : Duration :=
  if i.unit = 121 then { d with years := i.value }
  else if i.unit = 109 then { d with months := i.value }
  else if i.unit = 100 then { d with days := i.value }
  else if i.unit = 104 then { d with hours := i.value }
  else d

/-- the value a list of items denotes: the last value per unit -/
def denote (items : List Item) : Duration := items.foldl Duration.assign Duration.zero

/-- greedy tokeniser used only by the specification: `none` when the string is not of the form
    `(-?digits unit)*` -/
def tokenize : Nat → Str → Option (List Item)
  | 0, _ => none
  | fuel + 1, s =>
    if s = [] then some [] else
    let neg := (splitMinus s).1
    let r := (splitMinus s).2
    let ds := r.takeWhile isDigit
    match r.dropWhile isDigit with
    | [] => none
    | u :: rest =>
      match tokenize fuel rest with
      | none => none
      | some items => some (⟨neg, ds, u⟩ :: items)

/-- C49 for durations, on an observed outcome: never a panic; accepted exactly the strings of the
    documented form whose numbers fit an `int`, with the value they denote -/
def specDuration (s : Str) (res : Out Duration) : Bool :=
  let t := trimSpace s
  match res with
  | .panic => false
  | .ok d =>
    (match tokenize (t.length + 1) t with
     | some items => items.all Item.valid && d == denote items
     | none => false)
  | .err _ =>
    (match tokenize (t.length + 1) t with
     | some items => !items.all Item.valid
     | none => true)

/-- the numeral a size string denotes: optional sign, digits, optional unit suffix -/
def sizeDenotes (s : Str) : Option Int :=
  match s.getLast? with
  | none => none
  | some last =>
    let numStr := match unitOf last with | some _ => s.dropLast | none => s
    let unit := match unitOf last with | some u => u | none => 1
    let neg := (splitSign numStr).1
    let ds := (splitSign numStr).2
    if ds ≠ [] ∧ allDigits ds then some ((if neg then -(decVal ds : Int) else decVal ds) * unit) else none

/-- C49 for sizes: accepted exactly when the string denotes a value in `0 ≤ v < 2^63` (after the
    multiplication), with that value; never a panic -/
def specBytes (s : Str) (res : Out Int) : Bool :=
  match res with
  | .panic => false
  | .ok v => (match sizeDenotes s with | some x => x == v && 0 ≤ v && v < two63 | none => false)
  | .err _ => (match sizeDenotes s with
      | some x => !(0 ≤ x && x < two63)
      | none => true)

/-- C49 for policy counts -/
def specCount (s : Str) (res : Out Int) : Bool :=
  let denotes : Option Int :=
    if s = unlimited then some (-1) else
    let neg := (splitSign s).1
    let ds := (splitSign s).2
    if ds ≠ [] ∧ allDigits ds then some (if neg then -(decVal ds : Int) else decVal ds) else none
  match res with
  | .panic => false
  | .ok v => (match denotes with | some x => x == v && (v == -1 && s == unlimited || 0 ≤ v && v < two63) | none => false)
  | .err _ => (match denotes with | some x => s != unlimited && !(0 ≤ x && x < two63) | none => true)

/-- C49 for extended options: accepted iff no key is empty and equal keys carry equal values; the
    resulting map holds exactly the given pairs (first `=` splits, keys lower-cased, both trimmed) -/
def specOptions (ins : List Str) (res : Out (List (Str × Str))) : Bool :=
  let kvs := ins.map splitKeyValue
  let consistent := kvs.all (fun kv => kv.1 ≠ []) &&
    kvs.all (fun kv => kvs.all fun kv' => kv.1 != kv'.1 || kv.2 == kv'.2)
  match res with
  | .panic => false
  | .ok m => consistent && kvs.all (fun kv => m.lookup kv.1 == some kv.2) && m.all (fun kv => kvs.contains kv)
  | .err _ => !consistent

/-- `strings.FieldsFunc(data, isSpace)` -/
def fieldsSpace : Option Str → Str → List Str
  | cur, [] => (match cur with | some f => [f] | none => [])
  | cur, c :: cs =>
    if isSpace c then (match cur with | some f => f :: fieldsSpace none cs | none => fieldsSpace none cs)
    else fieldsSpace (some (cur.getD [] ++ [c])) cs

def plainChar (c : UInt8) : Bool := c != 34 && c != 39 && c != 92

/-- C49 for shell strings: never a panic; fields are never empty, an accepted command has at least
    one field; a string without quotes and backslashes splits exactly at white space -/
def specShell (data : Str) (res : Out (List Str)) : Bool :=
  match res with
  | .panic => false
  | .ok strs => strs ≠ [] && strs.all (· ≠ []) && (!data.all plainChar || strs == fieldsSpace none data)
  | .err e => !data.all plainChar || (fieldsSpace none data == [] && e == .emptyCommand)

/-- does a `--read-data-subset` value denote an acceptable subset: `n/t` with `1 ≤ n ≤ t ≤ max`,
    a percentage in `(0, 100]` (float oracle), or a size (with unit suffix) above 0 -/
def flagDenotes (maxBuckets : Nat) (s : Str) (pct : Pct) : Bool :=
  match CheckSubset.stringToIntSlice s with
  | .ok [n, t] => 1 ≤ n && n ≤ t && t ≤ maxBuckets
  | .ok _ => false
  | .error _ =>
    if s.getLast? = some 37 then pct == .inRange
    else match sizeDenotes s with | some v => 0 < v && v < two63 | none => false

/-- C49 for check subsets: a value is accepted exactly when it denotes an acceptable subset (and
    `--read-data` is not given as well); no value makes the check panic -/
def specFlags (maxBuckets : Nat) (readData : Bool) (s : Str) (pct : Pct) (res : FlagOut) : Bool :=
  (res == .accept) == (s = [] || (!readData && flagDenotes maxBuckets s pct))

end Restic.Model.Parse
