/-!
# Model of `internal/repository/packer_manager.go` (+ the parts of `pack.Packer` it uses)

Close transcription of `packerManager.SaveBlob / pickPacker / forgetPacker / mergePackers / Flush`
and of the uploader pipeline (`packerUploader`, `Repository.savePacker`, `flushPackUploader`) as
atomic steps.  `packerManager.SaveBlob` and `Flush` run entirely under `r.pm` (a mutex), so every
call is one atomic step; concurrency of savers is the order of the steps (a schedule), the random
choice of `pickPacker` is an explicit oracle argument `idx`.

Conventions: `Packer.blobs` is kept newest first (Go appends; the order of `Add` is the reverse);
`Packer.bytes` is Go's `p.bytes`, `Packer.n` is `len(p.blobs)` (both are separately maintained
fields so that the compiled model runs in linear time; `Packer.WF` ties them to `blobs`).
Pointer identity of `*packer` is modelled by a serial number assigned at `newPacker`.
Not modelled: I/O errors of the temp file, a cancelled context (both abort the session).
-/
namespace Restic.Model.Packer

inductive BlobType | data | tree
deriving DecidableEq, Repr, Inhabited

structure Blob where
  tpe : BlobType
  id : Nat
  len : Nat      -- length of the ciphertext handed to SaveBlob
  ulen : Nat     -- uncompressedLength, 0 = not compressed
deriving DecidableEq, Repr, Inhabited

/-- layout constants of `internal/repository/pack` (regenerated into `Restic.Gen`) -/
structure Cfg where
  headerSize : Nat        -- headerLengthSize + crypto.Extension
  entrySize : Nat
  plainEntrySize : Nat
  maxHeaderSize : Nat     -- MaxHeaderSize
  maxHeaderEntries : Nat  -- MaxHeaderEntries
  headerOverhead : Nat    -- Packer.HeaderOverhead()
deriving Repr

structure Packer where
  serial : Nat
  blobs : List Blob
  bytes : Nat
  n : Nat
deriving DecidableEq, Repr, Inhabited

/-- `newPacker` -/
def Packer.new (serial : Nat) : Packer := ⟨serial, [], 0, 0⟩

/-- `Packer.Add` (no write error) -/
def Packer.add (p : Packer) (b : Blob) : Packer :=
  { p with blobs := b :: p.blobs, bytes := p.bytes + b.len, n := p.n + 1 }

/-- `CalculateEntrySize(b.IsCompressed())` -/
def entryBytes (c : Cfg) (b : Blob) : Nat := if b.ulen = 0 then c.plainEntrySize else c.entrySize

/-- `hdrFull k` : `HeaderFull()` of a packer holding `k` blobs -/
def hdrFull (c : Cfg) (k : Nat) : Bool := decide (c.headerSize + (k + 1) * c.entrySize > c.maxHeaderSize)

def Packer.headerFull (c : Cfg) (p : Packer) : Bool := hdrFull c p.n

/-- number of bytes `Finalize` appends: encrypted header + length field -/
def Packer.headerBytes (c : Cfg) (p : Packer) : Nat := c.headerSize + (p.blobs.map (entryBytes c)).sum

/-- the self check of `Finalize` (`verifyHeader` → `readRecords`) accepts the header iff it is not
    larger than `MaxHeaderSize` -/
def Packer.finalizeOK (c : Cfg) (p : Packer) : Bool := decide (p.headerBytes c ≤ c.maxHeaderSize)

/-- `p.Merge(other)`: re-`Add`s the blobs of `other` in their order of `Add` -/
def Packer.merge (p other : Packer) : Packer := other.blobs.foldr (fun b acc => acc.add b) p

structure PM where
  packSize : Nat
  slots : List (Option Packer)     -- r.packers
  next : Nat                       -- serial of the next new packer
  queued : List Packer             -- everything handed to queueFn so far, newest first
deriving Repr

def PM.init (packSize packerCount : Nat) : PM := ⟨packSize, List.replicate packerCount none, 0, []⟩

inductive SaveOut
  | ok (size : Nat) (queued : Option Packer)
  | panic
deriving Repr, DecidableEq

/-- result of `pickPacker`: the packer, the slot it lives in (none: separate packer for an
    oversized blob) and the manager state after a possible `newPacker` -/
structure Pick where
  p : Packer
  home : Option Nat
  pm : PM

def PM.pickPacker (pm : PM) (len idx : Nat) : Option Pick :=
  if len ≥ pm.packSize then
    some ⟨Packer.new pm.next, none, { pm with next := pm.next + 1 }⟩
  else
    match pm.slots[idx]? with
    | none => none      -- index out of range: Go would panic; randomInt(len(r.packers)) never does that
    | some (some p) => some ⟨p, some idx, pm⟩
    | some none =>
      some ⟨Packer.new pm.next, some idx,
        { pm with next := pm.next + 1, slots := pm.slots.set idx (some (Packer.new pm.next)) }⟩

/-- `forgetPacker`: every slot holding this packer (pointer comparison = serial) is cleared -/
def forget (slots : List (Option Packer)) (serial : Nat) : List (Option Packer) :=
  slots.map fun s => match s with
    | some q => if q.serial = serial then none else some q
    | none => none

/-- `packerManager.SaveBlob` -/
def PM.saveBlob (c : Cfg) (pm : PM) (b : Blob) (idx : Nat) : PM × SaveOut :=
  match pm.pickPacker b.len idx with
  | none => (pm, .panic)
  | some ⟨p, home, pm⟩ =>
    let p' := p.add b
    let size := b.len + entryBytes c b
    if p'.bytes < pm.packSize ∧ ¬ p'.headerFull c = true then
      -- "pack is not full enough": the packer stays where it is (Go mutated it in place). A packer
      -- without a slot would be dropped here; `saveBlob_oversize_queued` shows this never happens.
      match home with
      | some i => ({ pm with slots := pm.slots.set i (some p') }, .ok size none)
      | none => (pm, .ok size none)
    else
      ({ pm with slots := forget pm.slots p'.serial, queued := p' :: pm.queued },
        .ok (size + c.headerOverhead) (some p'))

/-- loop body of `mergePackers`; `acc = (pendingPackers newest first, p)` -/
def mergeStep (c : Cfg) (packSize : Nat) (acc : List Packer × Option Packer) (s : Option Packer) :
    List Packer × Option Packer :=
  match s with
  | none => acc
  | some q =>
    match acc.2 with
    | none => (acc.1, some q)
    | some p =>
      if p.bytes + q.bytes < packSize ∧ p.n + q.n ≤ c.maxHeaderEntries then (acc.1, some (p.merge q))
      else (p :: acc.1, some q)

/-- `mergePackers` (result newest first) -/
def PM.mergePackers (c : Cfg) (pm : PM) : List Packer :=
  let r := pm.slots.foldl (mergeStep c pm.packSize) ([], none)
  match r.2 with
  | none => r.1
  | some p => p :: r.1

/-- `packerManager.Flush` -/
def PM.flush (c : Cfg) (pm : PM) : PM :=
  { pm with slots := pm.slots.map (fun _ => none), queued := pm.mergePackers c ++ pm.queued }

/-! ### histories of one manager -/

inductive Op
  | save (b : Blob) (idx : Nat)
  | flush
deriving Repr

structure Run where
  pm : PM
  accepted : List Blob     -- blobs for which SaveBlob returned without error, newest first
  panics : Nat

def runOp (c : Cfg) (r : Run) : Op → Run
  | .save b idx =>
    match r.pm.saveBlob c b idx with
    | (pm, .ok _ _) => { r with pm := pm, accepted := b :: r.accepted }
    | (pm, .panic) => { r with pm := pm, panics := r.panics + 1 }
  | .flush => { r with pm := r.pm.flush c }

def run (c : Cfg) (packSize packerCount : Nat) (ops : List Op) : Run :=
  ops.foldl (runOp c) ⟨PM.init packSize packerCount, [], 0⟩

/-! ### executable statement of C44 (manager level) -/

def slotPackers (pm : PM) : List Packer := pm.slots.filterMap id

def sumLen (bs : List Blob) : Nat := (bs.map (·.len)).sum

def BlobType.code : BlobType → Nat
  | .data => 0
  | .tree => 1

/-- lexicographic order on (type, id, len, ulen); only used to compare multisets by sorting -/
def Blob.le (a b : Blob) : Bool :=
  decide (a.tpe.code < b.tpe.code ∨ (a.tpe.code = b.tpe.code ∧ (a.id < b.id ∨ (a.id = b.id ∧
    (a.len < b.len ∨ (a.len = b.len ∧ a.ulen ≤ b.ulen))))))

/-- same multiset of blobs (sorting makes the check n log n; `sameBlobs_perm` links it to `Perm`) -/
def sameBlobs (a b : List Blob) : Bool := a.mergeSort Blob.le == b.mergeSort Blob.le

/-- "no further blob once the target size is reached": when the last blob was added the pack was
    below the pack size and its header not full (by monotonicity this covers every earlier Add) -/
def noAddAfterFull (c : Cfg) (packSize : Nat) (blobs : List Blob) : Bool :=
  match blobs with
  | [] => false
  | _ :: rest => decide (sumLen rest < packSize) && !hdrFull c rest.length

def distinct (l : List Nat) : Bool :=
  let s := l.mergeSort (· ≤ ·)
  (s.zip s.tail).all fun (a, b) => a != b

/-- The manager-level reading of C44 for the packers handed to the uploader after a final Flush:
    every accepted blob occurrence is in exactly one of them (same multiset, packers pairwise
    different), no type mix, no Add after full, header within `MaxHeaderSize`. -/
def specOK (c : Cfg) (packSize : Nat) (tpe : BlobType) (accepted : List Blob) (queued : List Packer) : Bool :=
  sameBlobs (queued.flatMap (·.blobs)) accepted
  && distinct (queued.map (·.serial))
  && queued.all (fun p => p.blobs.all (·.tpe == tpe))
  && queued.all (fun p => noAddAfterFull c packSize p.blobs)
  && queued.all (fun p => p.finalizeOK c)

/-! ### the upload session (both managers, uploader, index) -/

inductive Ev
  | queue (t : BlobType) (serial : Nat)     -- handed to packerUploader.QueuePacker
  | upload (t : BlobType) (serial : Nat)    -- savePacker: be.Save returned
  | index (t : BlobType) (serial : Nat)     -- savePacker: idx.StorePack returned
deriving DecidableEq, Repr

structure Sess where
  pm : BlobType → PM                    -- r.treePM / r.dataPM
  chan : List (BlobType × Packer)       -- queued, not yet written to the backend
  uploaded : List (BlobType × Packer)   -- written to the backend, StorePack pending
  indexed : List (BlobType × Packer)    -- StorePack done
  log : List Ev                         -- newest first
  accepted : List Blob                  -- newest first

def Sess.init (packSize packerCount : Nat) : Sess :=
  ⟨fun _ => PM.init packSize packerCount, [], [], [], [], []⟩

inductive Act
  | save (b : Blob) (idx : Nat)   -- saveAndEncrypt → pm.SaveBlob (dispatch on the blob type)
  | flush (t : BlobType)          -- flushPackUploader: treePM.Flush / dataPM.Flush
  | upload (k : Nat)              -- an uploader goroutine finishes be.Save of the k-th waiting packer
  | store (k : Nat)               -- an uploader goroutine finishes idx.StorePack of the k-th uploaded pack
deriving Repr

/-- replace the manager of type `t` -/
def Sess.upd (s : Sess) (t : BlobType) (pm : PM) : BlobType → PM := fun t' => if t' = t then pm else s.pm t'

def Sess.step (c : Cfg) (s : Sess) : Act → Sess
  | .save b idx =>
    -- saveAndEncrypt: `switch t { case TreeBlob: pm = r.treePM; case DataBlob: pm = r.dataPM }`
    match (s.pm b.tpe).saveBlob c b idx with
    | (pm, .ok _ none) => { s with pm := s.upd b.tpe pm, accepted := b :: s.accepted }
    | (pm, .ok _ (some q)) =>
      { s with pm := s.upd b.tpe pm, accepted := b :: s.accepted, chan := s.chan ++ [(b.tpe, q)],
               log := .queue b.tpe q.serial :: s.log }
    | (_, .panic) => s
  | .flush t =>
    let pend := ((s.pm t).mergePackers c).reverse
    { s with pm := s.upd t ((s.pm t).flush c),
             chan := s.chan ++ pend.map (fun q => (t, q)),
             log := (pend.map (fun q => Ev.queue t q.serial)).reverse ++ s.log }
  | .upload k =>
    match s.chan[k]? with
    | none => s
    | some (t, q) => { s with chan := s.chan.eraseIdx k, uploaded := s.uploaded ++ [(t, q)],
                              log := .upload t q.serial :: s.log }
  | .store k =>
    match s.uploaded[k]? with
    | none => s
    | some (t, q) => { s with uploaded := s.uploaded.eraseIdx k, indexed := s.indexed ++ [(t, q)],
                              log := .index t q.serial :: s.log }

def Sess.run (c : Cfg) (packSize packerCount : Nat) (acts : List Act) : Sess :=
  acts.foldl (Sess.step c) (Sess.init packSize packerCount)

/-- event order on the newest-first log: a packer is queued at most once, uploaded only after it was
    queued and at most once, indexed only after it was uploaded and at most once -/
def orderOK : List Ev → Bool
  | [] => true
  | e :: older =>
    orderOK older && match e with
      | .queue t s => !older.contains (.queue t s)
      | .upload t s => older.contains (.queue t s) && !older.contains (.upload t s)
      | .index t s => older.contains (.upload t s) && !older.contains (.index t s)

end Restic.Model.Packer
