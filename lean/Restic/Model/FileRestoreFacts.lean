import Restic.Model.FileRestore
import Restic.Gen.Source
/-!
Reading of the regenerated source facts (tie T1) the file-restore model depends on.
-/
namespace Restic.Model.FileRestore

/-- Does `ensureSize` call `f.Truncate` before `truncateSparse`, i.e. is an existing file cut to
    length 0 before the sparse `Truncate(size)`? Read off the regenerated call list of
    `ensureSize` (internal/restorer/fileswriter.go). On the unmodified source this is `false`
    (finding F6). -/
def sparseTruncFirstOfSource : Bool :=
  (Restic.Gen.ensureSize_calls.takeWhile (· != "truncateSparse")).contains "f.Truncate" &&
  Restic.Gen.ensureSize_calls.contains "truncateSparse"

/-- Does `verifyFile` look at the link count (`fs.ExtendedStat`) and so discard the state of hard
    linked files that need a restore? `false` on the unmodified source. -/
def hardlinkDropsStateOfSource : Bool :=
  Restic.Gen.verifyFile_calls.contains "fs.ExtendedStat" &&
  Restic.Gen.verifyFile_calls.contains "state.NeedsRestore"

/-- `createFile` ends in `ensureSize`, after the O_EXCL re-creation (`fs.OpenFile` ×3) -/
def createFileEndsInEnsureSize : Bool :=
  Restic.Gen.createFile_calls.getLast? == some "ensureSize" &&
  (Restic.Gen.createFile_calls.filter (· == "fs.OpenFile")).length == 3

/-- the sparse `WriteAt` skips a zero prefix computed by `restic.ZeroPrefixLen` -/
def writeAtUsesZeroPrefix : Bool :=
  Restic.Gen.partialFile_WriteAt_calls.contains "restic.ZeroPrefixLen"

end Restic.Model.FileRestore
