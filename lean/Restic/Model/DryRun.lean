import Restic.Model.BeFiles
/-
Model for C39: the `dryrun.Backend` wrapper (internal/backend/dryrun/dry_backend.go),
`internalOpenWithLocked` and the three `openWith…Lock` helpers (cmd/restic/lock.go),
`Repository.SetDryRun`, and the table saying which boolean each command passes as `dryRun`
(cmd/restic/cmd_*.go call sites). Core Lean only.
-/
namespace Restic.Model.DryRun
open Restic.Model.BeFiles

/-- operations a repository issues on *its* backend object (`backend.Backend` interface) -/
inductive Op where
  | save (h : Handle) (c : Content)
  | remove (h : Handle)
  | delete
  | load (h : Handle)
  | stat (h : Handle)
  | list (t : FType)
  | warmup
deriving DecidableEq, Repr

def Op.isRead : Op → Bool
  | .load _ => true
  | .stat _ => true
  | .list _ => true
  | _ => false

/-- `dryrun.Backend`: what each method forwards to the wrapped backend `be.b`.
    Save (after `h.Valid()`), Remove, Delete, Warmup: nothing. List/Load/Stat: the same call. -/
def dryForward : Op → List Ev
  | .save _ _ => []
  | .remove _ => []
  | .delete => []
  | .warmup => []
  | .load h => [.load h]
  | .stat h => [.stat h]
  | .list t => [.list t]

/-- an unwrapped backend: every operation reaches it (`delete` and `warmup` are not used by any
    command and have no event in the trace model) -/
def plainForward : Op → List Ev
  | .save h c => [.save h c]
  | .remove h => [.remove h]
  | .delete => []
  | .warmup => []
  | .load h => [.load h]
  | .stat h => [.stat h]
  | .list t => [.list t]

/-- `internalOpenWithLocked(ctx, gopts, dryRun, exclusive)`:
    `OpenRepository` (reads `openReads`), then either `LockRepo` (lock file `lockH` is saved, the
    command's operations `ops` go to the backend as they are, `unlock` removes the lock file) or
    `repo.SetDryRun()` (no lock; every operation of the command goes through `dryrun.Backend`). -/
def openAndRun (dryRun : Bool) (openReads : List Ev) (lockH : Handle) (lockC : Content)
    (lockReads : List Ev) (ops : List Op) : List Ev :=
  openReads ++
  (if !dryRun then
     lockReads ++ [.save lockH lockC] ++ ops.flatMap plainForward ++ [.remove lockH]
   else
     ops.flatMap dryForward)

/-- the commands C39 speaks about -/
inductive Cmd where
  | backup | forget | prune | rewrite | repairSnapshots
  | reader          -- cat, diff, dump, find, key list, list, ls, snapshots, stats, restore: openWithReadLock(gopts.NoLock)
  | check           -- openWithExclusiveLock(gopts.NoLock)
  | listLocks       -- `list locks`: openWithReadLock(gopts.NoLock || args[0] == "locks")
deriving DecidableEq, Repr

structure Flags where
  dryRun : Bool    -- the command's own --dry-run
  noLock : Bool    -- global --no-lock
deriving DecidableEq, Repr

/-- the boolean each command passes as `dryRun` to `openWith…Lock`; `none`: the command refuses
    the flag combination before opening (`forget`/`prune`: "--no-lock is only applicable in
    combination with --dry-run") -/
def openArg : Cmd → Flags → Option Bool
  | .backup, f => some f.dryRun
  | .forget, f => if f.noLock && !f.dryRun then none else some (f.dryRun && f.noLock)
  | .prune, f => if f.noLock && !f.dryRun then none else some (f.dryRun && f.noLock)
  | .rewrite, f => some f.dryRun
  | .repairSnapshots, f => some f.dryRun
  | .reader, f => some f.noLock
  | .check, f => some f.noLock
  | .listLocks, _ => some true

/-- Commands that take a lock even in a dry run decide themselves not to write:
    `runForget`: `if !opts.DryRun { ParallelRemove(snapshots) }`;
    `PrunePlan.Execute`: `if plan.opts.DryRun { return }` before any write.
    `writes` are the operations the command would issue when not in dry-run mode. -/
def guardedOps (dryRun : Bool) (reads writes : List Op) : List Op :=
  reads ++ (if !dryRun then writes else [])

/-- does the property speak about this invocation? writers with `--dry-run`, readers with `--no-lock` -/
def inScope : Cmd → Flags → Bool
  | .reader, f => f.noLock
  | .check, f => f.noLock
  | .listLocks, f => f.noLock
  | _, f => f.dryRun

/-! ## The property, executable (evaluated on the implementation's trace and before/after files) -/

def isLock (e : Ev) : Bool :=
  match e.target with
  | some h => h.t == .lock
  | none => false

/-- no save/remove on a non-lock file -/
def noDataWrites (evs : List Ev) : Bool := evs.all (fun e => !e.mutating || isLock e)

/-- no save/remove at all -/
def noWrites (evs : List Ev) : Bool := evs.all (fun e => !e.mutating)

def sameState (a b : State) : Bool :=
  a.all (fun p => get b p.1 == get a p.1) && b.all (fun p => get a p.1 == get b p.1)

/-- C39 for one invocation in scope: all files byte-identical afterwards, no write event on a
    non-lock file; with `--no-lock` (or any invocation that opens in dry-run mode) no write at all -/
def specOK (c : Cmd) (f : Flags) (pre post : State) (evs : List Ev) : Bool :=
  !inScope c f ||
  (sameState pre post && noDataWrites evs &&
   (match openArg c f with
    | some true => noWrites evs
    | _ => true) &&
   (!f.noLock || noWrites evs))

end Restic.Model.DryRun
