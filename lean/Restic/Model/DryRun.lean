import Restic.Model.BeFiles
/-
Model for C39: the `dryrun.Backend` wrapper (internal/backend/dryrun/dry_backend.go),
`internalOpenWithLocked` and the three `openWith…Lock` helpers (cmd/restic/lock.go),
`Repository.SetDryRun`, and the table saying which boolean each command passes as `dryRun`
(cmd/restic/cmd_*.go call sites). Core Lean only.
-/
namespace Restic.Model.DryRun
open Restic.Model.BeFiles

/-- operations a repository issues on *its* backend object (`backend.Backend` interface) -/
inductive Op where
  | save (h : Handle) (c : Content)
  | remove (h : Handle)
  | delete
  | load (h : Handle)
  | stat (h : Handle)
  | list (t : FType)
  | warmup
deriving DecidableEq, Repr

def Op.isRead : Op → Bool
  | .load _ => true
  | .stat _ => true
  | .list _ => true
  | _ => false

/-- `dryrun.Backend`: what each method forwards to the wrapped backend `be.b`.
    Save (after `h.Valid()`), Remove, Delete, Warmup: nothing. List/Load/Stat: the same call. -/
def dryForward : Op → List Ev
  | .save _ _ => []
  | .remove _ => []
  | .delete => []
  | .warmup => []
  | .load h => [.load h]
  | .stat h => [.stat h]
  | .list t => [.list t]

/-- an unwrapped backend: every operation reaches it (`delete` and `warmup` are not used by any
    command and have no event in the trace model) -/
def plainForward : Op → List Ev
  | .save h c => [.save h c]
  | .remove h => [.remove h]
  | .delete => []
  | .warmup => []
  | .load h => [.load h]
  | .stat h => [.stat h]
  | .list t => [.list t]

/-- `internalOpenWithLocked(ctx, gopts, dryRun, exclusive)`:
    `OpenRepository` (reads `openReads`), then either `LockRepo` (lock file `lockH` is saved, the
    command's operations `ops` go to the backend as they are, `unlock` removes the lock file) or
    `repo.SetDryRun()` (no lock; every operation of the command goes through `dryrun.Backend`). -/
def openAndRun (dryRun : Bool) (openReads : List Ev) (lockH : Handle) (lockC : Content)
    (lockReads : List Ev) (ops : List Op) : List Ev :=
  openReads ++
  (if !dryRun then
     lockReads ++ [.save lockH lockC] ++ ops.flatMap plainForward ++ [.remove lockH]
   else
     ops.flatMap dryForward)

/-- the commands C39 speaks about -/
inductive Cmd where
  | backup | forget | prune | rewrite | repairSnapshots
  | reader          -- cat, diff, dump, find, key list, list, ls, snapshots, stats, restore: openWithReadLock(gopts.NoLock)
  | check           -- openWithExclusiveLock(gopts.NoLock)
  | listLocks       -- `list locks`: openWithReadLock(gopts.NoLock || args[0] == "locks")
deriving DecidableEq, Repr

structure Flags where
  dryRun : Bool    -- the command's own --dry-run
  noLock : Bool    -- global --no-lock
deriving DecidableEq, Repr

/-- the boolean each command passes as `dryRun` to `openWith…Lock`; `none`: the command refuses
    the flag combination before opening (`forget`/`prune`: "--no-lock is only applicable in
    combination with --dry-run") -/
def openArg : Cmd → Flags → Option Bool
  | .backup, f => some f.dryRun
  | .forget, f => if f.noLock && !f.dryRun then none else some (f.dryRun && f.noLock)
  | .prune, f => if f.noLock && !f.dryRun then none else some (f.dryRun && f.noLock)
  | .rewrite, f => some f.dryRun
  | .repairSnapshots, f => some f.dryRun
  | .reader, f => some f.noLock
  | .check, f => some f.noLock
  | .listLocks, _ => some true

/-! ## The table of `dryRun` arguments, read off the source (T1)

The call lists with argument expressions of the `run…` functions are regenerated from the Go
source (`Restic.Gen.C39_run…_callargs`). The functions below extract the third argument of every
`openWith…Lock(ctx, gopts, <expr>, printer)` call and interpret the expression. -/

/-- the expressions commands pass as `dryRun` -/
inductive DryExpr where
  | dry               -- `opts.DryRun`
  | noLock            -- `gopts.NoLock`
  | dryAndNoLock      -- `opts.DryRun && gopts.NoLock`
  | noLockOrLocks     -- `gopts.NoLock || args[0] == "locks"`   (`list`)
deriving DecidableEq, Repr

def parseDryExpr : String → Option DryExpr
  | "opts.DryRun" => some .dry
  | "gopts.NoLock" => some .noLock
  | "opts.DryRun && gopts.NoLock" => some .dryAndNoLock
  | "gopts.NoLock || args[0] == \"locks\"" => some .noLockOrLocks
  | _ => none

/-- value of the expression; `locks` = the command is `list locks` -/
def DryExpr.eval (e : DryExpr) (f : Flags) (locks : Bool) : Bool :=
  match e with
  | .dry => f.dryRun
  | .noLock => f.noLock
  | .dryAndNoLock => f.dryRun && f.noLock
  | .noLockOrLocks => f.noLock || locks

/-- The grammar of open calls: every way of writing `openWith…Lock(ctx, gopts, <expr>, <printer>)`
    with one of the known `dryRun` expressions, as (full call text, helper, expression text).
    Matching is by equality of the whole call text (cheap for the kernel); a call whose argument
    is anything else — a local variable, a different condition — is not recognised, and
    `dryExprOf` then disagrees with the number of open calls reported by the `calls` fact. -/
def openGrammar : List (String × String × String) :=
  [
   ("openWithReadLock(ctx, gopts, opts.DryRun, printer)", "openWithReadLock", "opts.DryRun"),
   ("openWithReadLock(ctx, gopts, opts.DryRun, termPrinter)", "openWithReadLock", "opts.DryRun"),
   ("openWithReadLock(ctx, gopts, gopts.NoLock, printer)", "openWithReadLock", "gopts.NoLock"),
   ("openWithReadLock(ctx, gopts, gopts.NoLock, termPrinter)", "openWithReadLock", "gopts.NoLock"),
   ("openWithReadLock(ctx, gopts, opts.DryRun && gopts.NoLock, printer)", "openWithReadLock", "opts.DryRun && gopts.NoLock"),
   ("openWithReadLock(ctx, gopts, opts.DryRun && gopts.NoLock, termPrinter)", "openWithReadLock", "opts.DryRun && gopts.NoLock"),
   ("openWithReadLock(ctx, gopts, gopts.NoLock || args[0] == \"locks\", printer)", "openWithReadLock", "gopts.NoLock || args[0] == \"locks\""),
   ("openWithReadLock(ctx, gopts, gopts.NoLock || args[0] == \"locks\", termPrinter)", "openWithReadLock", "gopts.NoLock || args[0] == \"locks\""),
   ("openWithAppendLock(ctx, gopts, opts.DryRun, printer)", "openWithAppendLock", "opts.DryRun"),
   ("openWithAppendLock(ctx, gopts, opts.DryRun, termPrinter)", "openWithAppendLock", "opts.DryRun"),
   ("openWithAppendLock(ctx, gopts, gopts.NoLock, printer)", "openWithAppendLock", "gopts.NoLock"),
   ("openWithAppendLock(ctx, gopts, gopts.NoLock, termPrinter)", "openWithAppendLock", "gopts.NoLock"),
   ("openWithAppendLock(ctx, gopts, opts.DryRun && gopts.NoLock, printer)", "openWithAppendLock", "opts.DryRun && gopts.NoLock"),
   ("openWithAppendLock(ctx, gopts, opts.DryRun && gopts.NoLock, termPrinter)", "openWithAppendLock", "opts.DryRun && gopts.NoLock"),
   ("openWithAppendLock(ctx, gopts, gopts.NoLock || args[0] == \"locks\", printer)", "openWithAppendLock", "gopts.NoLock || args[0] == \"locks\""),
   ("openWithAppendLock(ctx, gopts, gopts.NoLock || args[0] == \"locks\", termPrinter)", "openWithAppendLock", "gopts.NoLock || args[0] == \"locks\""),
   ("openWithExclusiveLock(ctx, gopts, opts.DryRun, printer)", "openWithExclusiveLock", "opts.DryRun"),
   ("openWithExclusiveLock(ctx, gopts, opts.DryRun, termPrinter)", "openWithExclusiveLock", "opts.DryRun"),
   ("openWithExclusiveLock(ctx, gopts, gopts.NoLock, printer)", "openWithExclusiveLock", "gopts.NoLock"),
   ("openWithExclusiveLock(ctx, gopts, gopts.NoLock, termPrinter)", "openWithExclusiveLock", "gopts.NoLock"),
   ("openWithExclusiveLock(ctx, gopts, opts.DryRun && gopts.NoLock, printer)", "openWithExclusiveLock", "opts.DryRun && gopts.NoLock"),
   ("openWithExclusiveLock(ctx, gopts, opts.DryRun && gopts.NoLock, termPrinter)", "openWithExclusiveLock", "opts.DryRun && gopts.NoLock"),
   ("openWithExclusiveLock(ctx, gopts, gopts.NoLock || args[0] == \"locks\", printer)", "openWithExclusiveLock", "gopts.NoLock || args[0] == \"locks\""),
   ("openWithExclusiveLock(ctx, gopts, gopts.NoLock || args[0] == \"locks\", termPrinter)", "openWithExclusiveLock", "gopts.NoLock || args[0] == \"locks\"")
  ]

/-- `some (helper, dryRun-argument)` when the call is a recognised open call -/
def openCall? (call : String) : Option (String × String) :=
  (openGrammar.find? fun g => g.1 == call).map (·.2)

/-- all recognised open calls of a function, in source order -/
def openCalls (callargs : List String) : List (String × String) := callargs.filterMap openCall?

def openHelpers : List String := ["openWithReadLock", "openWithAppendLock", "openWithExclusiveLock"]

/-- the single expression a function passes as `dryRun`: all its open calls (their helper names
    are given by the plain `calls` fact) must be recognised and must agree -/
def dryExprOf (calls callargs : List String) : Option DryExpr :=
  let oc := openCalls callargs
  if oc.map (·.1) != calls.filter (fun c => openHelpers.contains c) then none
  else match (oc.map (·.2)).eraseDups with
    | [e] => parseDryExpr e
    | _ => none

/-- the `errors.Fatal` with which a command refuses `--no-lock` without `--dry-run` -/
def refusalCalls : List String :=
  [
   "errors.Fatal(\"--no-lock is only applicable in combination with --dry-run for backup command\")",
   "errors.Fatal(\"--no-lock is only applicable in combination with --dry-run for forget command\")",
   "errors.Fatal(\"--no-lock is only applicable in combination with --dry-run for prune command\")",
   "errors.Fatal(\"--no-lock is only applicable in combination with --dry-run for rewrite command\")",
   "errors.Fatal(\"--no-lock is only applicable in combination with --dry-run for repair snapshots command\")",
   "errors.Fatal(\"--no-lock is only applicable in combination with --dry-run for check command\")",
   "errors.Fatal(\"--no-lock is only applicable in combination with --dry-run for snapshots command\")",
   "errors.Fatal(\"--no-lock is only applicable in combination with --dry-run for ls command\")",
   "errors.Fatal(\"--no-lock is only applicable in combination with --dry-run for find command\")",
   "errors.Fatal(\"--no-lock is only applicable in combination with --dry-run for stats command\")",
   "errors.Fatal(\"--no-lock is only applicable in combination with --dry-run for cat command\")",
   "errors.Fatal(\"--no-lock is only applicable in combination with --dry-run for dump command\")",
   "errors.Fatal(\"--no-lock is only applicable in combination with --dry-run for diff command\")",
   "errors.Fatal(\"--no-lock is only applicable in combination with --dry-run for list command\")",
   "errors.Fatal(\"--no-lock is only applicable in combination with --dry-run for key list command\")",
   "errors.Fatal(\"--no-lock is only applicable in combination with --dry-run for restore command\")"
  ]

/-- does the function refuse `--no-lock` without `--dry-run` (as forget and prune do)? -/
def refusesNoLock (callargs : List String) : Bool := callargs.any fun c => refusalCalls.contains c

/-- per-command facts read off the source: the `dryRun` expression and the refusal guard -/
structure SourceTable where
  expr : Cmd → Option DryExpr
  refuses : Cmd → Bool

/-- `openArg` computed from a source table -/
def openArgFrom (t : SourceTable) (c : Cmd) (f : Flags) : Option Bool :=
  if t.refuses c && f.noLock && !f.dryRun then none
  else (t.expr c).map fun e => e.eval f (c == .listLocks)

/-- Commands that take a lock even in a dry run decide themselves not to write:
    `runForget`: `if !opts.DryRun { ParallelRemove(snapshots) }`;
    `PrunePlan.Execute`: `if plan.opts.DryRun { return }` before any write.
    `writes` are the operations the command would issue when not in dry-run mode. -/
def guardedOps (dryRun : Bool) (reads writes : List Op) : List Op :=
  reads ++ (if !dryRun then writes else [])

/-- does the property speak about this invocation? writers with `--dry-run`, readers with `--no-lock` -/
def inScope : Cmd → Flags → Bool
  | .reader, f => f.noLock
  | .check, f => f.noLock
  | .listLocks, f => f.noLock
  | _, f => f.dryRun

/-! ## The property, executable (evaluated on the implementation's trace and before/after files) -/

def isLock (e : Ev) : Bool :=
  match e.target with
  | some h => h.t == .lock
  | none => false

/-- no save/remove on a non-lock file -/
def noDataWrites (evs : List Ev) : Bool := evs.all (fun e => !e.mutating || isLock e)

/-- no save/remove at all -/
def noWrites (evs : List Ev) : Bool := evs.all (fun e => !e.mutating)

def sameState (a b : State) : Bool :=
  a.all (fun p => get b p.1 == get a p.1) && b.all (fun p => get a p.1 == get b p.1)

/-- C39 for one invocation in scope: all files byte-identical afterwards, no write event on a
    non-lock file; with `--no-lock` (or any invocation that opens in dry-run mode) no write at all -/
def specOK (c : Cmd) (f : Flags) (pre post : State) (evs : List Ev) : Bool :=
  !inScope c f ||
  (sameState pre post && noDataWrites evs &&
   (match openArg c f with
    | some true => noWrites evs
    | _ => true) &&
   (!f.noLock || noWrites evs))

end Restic.Model.DryRun
