import Restic.Model.RestoreTree
import Restic.Gen.Source
/-!
Reading of the regenerated source facts (tie T1) the restore name-space model depends on.
-/
namespace Restic.Model.RestoreTree

/-- `Restorer.ensureDir` walks the path components below the target directory
    (`filepath.Rel` / `strings.Split`, one `ensureSingleDir` per component) and `RestoreTo`
    calls it from all four visitor call sites (first pass enterDir + visitNode, second pass
    visitNode + leaveDir). `false` on the unmodified source (finding F13). -/
def chainFixOfSource : Bool :=
  -- exactly the call structure that `ensureDir` of the model transcribes: Rel, the "below dst"
  -- check, `ensureSingleDir(dst)`, then one `ensureSingleDir` per component of `strings.Split`
  Restic.Gen.restorer_ensureDir_calls ==
    ["filepath.Rel", "string", "strings.HasPrefix", "fmt.Errorf", "ensureSingleDir", "string",
     "strings.Split", "filepath.Join", "ensureSingleDir"] &&
  (Restic.Gen.restorer_RestoreTo_calls.filter (· == "res.ensureDir")).length == 4

/-- `restoreNodeMetadataTo` looks at the item with `fs.Lstat` before `fs.NodeRestoreMetadata`.
    `false` on the unmodified source. -/
def metaFixOfSource : Bool :=
  (Restic.Gen.restorer_restoreNodeMetadataTo_calls.takeWhile (· != "fs.NodeRestoreMetadata")).contains "fs.Lstat"

/-- `restoreNodeTo` removes with `fs.Remove` (never `RemoveAll`) before `fs.NodeCreateAt`;
    `removeUnexpectedFiles` lists with `fs.Readdirnames` and checks `fs.HasPathPrefix` before
    `fs.RemoveAll` -/
def secondPassShape : Bool :=
  (Restic.Gen.restorer_restoreNodeTo_calls.takeWhile (· != "fs.NodeCreateAt")).contains "fs.Remove" &&
  !Restic.Gen.restorer_restoreNodeTo_calls.contains "fs.RemoveAll" &&
  (Restic.Gen.restorer_removeUnexpectedFiles_calls.takeWhile (· != "fs.RemoveAll")).contains "fs.HasPathPrefix"

/-- the `skippedDir` callback: `traverseTreeInner` and `traverseTree` call it after the
    `leaveDir` alternative; in `RestoreTo` it is guarded by `isDirBelow` directly before its
    `removeUnexpectedFiles`; `isDirBelow` only looks (`fs.Lstat`, one per component of
    `strings.Split`) and neither creates nor removes anything -/
def skippedDirShape : Bool :=
  Restic.Gen.restorer_isDirBelow_calls ==
    ["filepath.Rel", "string", "strings.HasPrefix", "fs.Lstat", "fi.IsDir", "string", "strings.Split",
     "filepath.Join", "fs.Lstat", "fi.IsDir"] &&
  (Restic.Gen.restorer_RestoreTo_calls.dropWhile (· != "isDirBelow")).take 2 ==
    ["isDirBelow", "res.removeUnexpectedFiles"] &&
  (Restic.Gen.restorer_RestoreTo_calls.filter (· == "res.removeUnexpectedFiles")).length == 2 &&
  (Restic.Gen.restorer_traverseTreeInner_calls.filter (· == "visitor.skippedDir")).length == 1 &&
  (Restic.Gen.restorer_traverseTree_calls.filter (· == "visitor.skippedDir")).length == 1

/-- calls that do not operate on the file system or the control flow the model transcribes:
    logging, error wrapping, progress reporting, conversions -/
def noiseCalls : List String :=
  ["debug.Log", "string", "len", "append", "make", "int64", "uint64", "panic", "errors.Is", "errors.Wrap",
   "errors.Errorf", "errors.New", "errors.WithStack", "fmt.Errorf", "res.opts.Progress.AddProgress",
   "res.opts.Progress.AddFile", "res.opts.Progress.AddSkippedFile", "res.opts.Progress.ReportDeletion",
   "treeID.Str", "ctx.Err"]

/-- the operative calls of a function, in order -/
def ops (calls : List String) : List String := calls.filter fun c => !noiseCalls.contains c

/-- **Closed world over the transcribed call graph.** Every function the model transcribes makes
    exactly the operative calls the transcription has, in this order. A new helper (for instance
    a second, unchecked way to apply node metadata) can only be reached through a new call in
    one of these functions and therefore changes one of these lists. In particular
    `fs.NodeRestoreMetadata` is called from `restoreNodeMetadataTo` only (behind `fs.Lstat`), and
    `restoreNodeTo`, `restoreHardlinkAt` and the visitors of `RestoreTo` apply metadata through
    `res.restoreNodeMetadataTo` only. -/
def callGraphClosed : Bool :=
  ops Restic.Gen.restorer_restoreNodeMetadataTo_calls == ["fs.Lstat", "fi.Mode", "fs.NodeRestoreMetadata"] &&
  ops Restic.Gen.restorer_restoreNodeTo_calls == ["fs.Remove", "fs.NodeCreateAt", "res.restoreNodeMetadataTo"] &&
  ops Restic.Gen.restorer_restoreHardlinkAt_calls == ["fs.Remove", "fs.Link", "res.restoreNodeMetadataTo"] &&
  ops Restic.Gen.restorer_ensureSingleDir_calls == ["fs.Lstat", "fi.IsDir", "fs.Remove", "fs.MkdirAll"] &&
  ops Restic.Gen.restorer_ensureDir_calls ==
    ["filepath.Rel", "strings.HasPrefix", "ensureSingleDir", "strings.Split", "filepath.Join", "ensureSingleDir"] &&
  ops Restic.Gen.restorer_isDirBelow_calls ==
    ["filepath.Rel", "strings.HasPrefix", "fs.Lstat", "fi.IsDir", "strings.Split", "filepath.Join", "fs.Lstat", "fi.IsDir"] &&
  ops Restic.Gen.restorer_removeUnexpectedFiles_calls ==
    ["fs.NewLocal", "fs.Readdirnames", "toComparableFilename", "toComparableFilename", "filepath.Join",
     "filepath.Join", "fs.HasPathPrefix", "res.SelectFilter", "filepath.Walk", "fs.RemoveAll"] &&
  ops Restic.Gen.restorer_withOverwriteCheck_calls ==
    ["shouldOverwrite", "res.verifyFile", "matches.NeedsRestore", "cb"] &&
  ops Restic.Gen.restorer_shouldOverwrite_calls == ["fs.Lstat", "fi.ModTime", "node.ModTime.After"] &&
  ops Restic.Gen.restorer_traverseTree_calls ==
    ["visitor.enterDir", "res.sanitizeError", "res.traverseTreeInner", "visitor.leaveDir", "res.sanitizeError",
     "visitor.skippedDir", "res.sanitizeError"] &&
  ops Restic.Gen.restorer_traverseTreeInner_calls ==
    ["data.LoadTree", "res.sanitizeError", "res.sanitizeError", "filepath.Join", "filepath.Base",
     "res.sanitizeError", "filepath.Join", "filepath.Join", "fs.HasPathPrefix", "res.sanitizeError",
     "res.SelectFilter", "visitor.enterDir", "res.sanitizeError", "res.traverseTreeInner", "res.sanitizeError",
     "visitor.leaveDir", "res.sanitizeError", "visitor.skippedDir", "res.sanitizeError", "visitor.visitNode",
     "res.sanitizeError"] &&
  ops Restic.Gen.restorer_RestoreTo_calls ==
    ["filepath.IsAbs", "filepath.Abs", "fs.MkdirAll", "data.NewHardlinkIndex", "res.repo.Connections",
     "res.repo.ChunkerFactory", "res.repo.ChunkerFactory().ZeroChunk", "newFileRestorer",
     -- first pass: enterDir, visitNode
     "res.ensureDir", "filepath.Dir", "res.ensureDir", "idx.Has", "idx.Add", "filerestorer.addFile",
     "res.trackFile", "res.withOverwriteCheck", "res.traverseTree", "filerestorer.restoreFiles",
     -- second pass: visitNode
     "filepath.Dir", "res.ensureDir", "res.restoreNodeTo", "res.withOverwriteCheck", "idx.Has", "idx.Value",
     "idx.Value", "filerestorer.targetPath", "res.restoreHardlinkAt", "res.withOverwriteCheck",
     "res.hasRestoredFile", "res.restoreNodeMetadataTo",
     -- leaveDir, skippedDir
     "res.ensureDir", "res.removeUnexpectedFiles", "res.restoreNodeMetadataTo", "isDirBelow",
     "res.removeUnexpectedFiles", "res.traverseTree"]

end Restic.Model.RestoreTree
