import Restic.Model.RestoreTree
import Restic.Gen.Source
/-!
Reading of the regenerated source facts (tie T1) the restore name-space model depends on.
-/
namespace Restic.Model.RestoreTree

/-- `Restorer.ensureDir` walks the path components below the target directory
    (`filepath.Rel` / `strings.Split`, one `ensureSingleDir` per component) and `RestoreTo`
    calls it from all four visitor call sites (first pass enterDir + visitNode, second pass
    visitNode + leaveDir). `false` on the unmodified source (finding F13). -/
def chainFixOfSource : Bool :=
  -- exactly the call structure that `ensureDir` of the model transcribes: Rel, the "below dst"
  -- check, `ensureSingleDir(dst)`, then one `ensureSingleDir` per component of `strings.Split`
  Restic.Gen.restorer_ensureDir_calls ==
    ["filepath.Rel", "string", "strings.HasPrefix", "fmt.Errorf", "ensureSingleDir", "string",
     "strings.Split", "filepath.Join", "ensureSingleDir"] &&
  (Restic.Gen.restorer_RestoreTo_calls.filter (· == "res.ensureDir")).length == 4

/-- `restoreNodeMetadataTo` looks at the item with `fs.Lstat` before `fs.NodeRestoreMetadata`.
    `false` on the unmodified source. -/
def metaFixOfSource : Bool :=
  (Restic.Gen.restorer_restoreNodeMetadataTo_calls.takeWhile (· != "fs.NodeRestoreMetadata")).contains "fs.Lstat"

/-- `restoreNodeTo` removes with `fs.Remove` (never `RemoveAll`) before `fs.NodeCreateAt`;
    `removeUnexpectedFiles` lists with `fs.Readdirnames` and checks `fs.HasPathPrefix` before
    `fs.RemoveAll` -/
def secondPassShape : Bool :=
  (Restic.Gen.restorer_restoreNodeTo_calls.takeWhile (· != "fs.NodeCreateAt")).contains "fs.Remove" &&
  !Restic.Gen.restorer_restoreNodeTo_calls.contains "fs.RemoveAll" &&
  (Restic.Gen.restorer_removeUnexpectedFiles_calls.takeWhile (· != "fs.RemoveAll")).contains "fs.HasPathPrefix"

/-- the `skippedDir` callback: `traverseTreeInner` and `traverseTree` call it after the
    `leaveDir` alternative; in `RestoreTo` it is guarded by `isDirBelow` directly before its
    `removeUnexpectedFiles`; `isDirBelow` only looks (`fs.Lstat`, one per component of
    `strings.Split`) and neither creates nor removes anything -/
def skippedDirShape : Bool :=
  Restic.Gen.restorer_isDirBelow_calls ==
    ["filepath.Rel", "string", "strings.HasPrefix", "fs.Lstat", "fi.IsDir", "string", "strings.Split",
     "filepath.Join", "fs.Lstat", "fi.IsDir"] &&
  (Restic.Gen.restorer_RestoreTo_calls.dropWhile (· != "isDirBelow")).take 2 ==
    ["isDirBelow", "res.removeUnexpectedFiles"] &&
  (Restic.Gen.restorer_RestoreTo_calls.filter (· == "res.removeUnexpectedFiles")).length == 2 &&
  (Restic.Gen.restorer_traverseTreeInner_calls.filter (· == "visitor.skippedDir")).length == 1 &&
  (Restic.Gen.restorer_traverseTree_calls.filter (· == "visitor.skippedDir")).length == 1

end Restic.Model.RestoreTree
