import Restic.Model.RestoreFS
/-
Model of `Restorer.RestoreTo` as far as the NAME SPACE is concerned (C18): transcribed from
internal/restorer/restorer.go (traverseTree / traverseTreeInner with the node name checks,
ensureDir, the visitors of both passes, restoreNodeTo, restoreHardlinkAt, restoreNodeMetadataTo,
removeUnexpectedFiles, withOverwriteCheck / shouldOverwrite), internal/restorer/fileswriter.go
(createFile) and internal/fs/node.go (NodeCreateAt, nodeRestoreMetadata: only `chmod` follows
symlinks; lchown, utimensat and the xattr calls use the no-follow variants and act on the same
location as `lstat`, they are not modelled separately). Errors are handled as the command line
does: counted, then the restore continues (`res.Error` returns nil). Core Lean only.
-/
namespace Restic.Model.RestoreTree
open Restic.Model.RestoreFS

inductive NType where
  | file | dir | symlink | fifo | socket | other
deriving DecidableEq, Repr

/-- a snapshot node; a tree is a list of nodes in stored order (no ordering or uniqueness is
    enforced when a tree is loaded) -/
inductive Node where
  | mk (name : Name) (type : NType) (mode : Nat) (content : List UInt8) (links : Nat) (inode : Nat)
       (linkAbs : Bool) (linkTarget : List Name) (hasSubtree : Bool) (children : List Node)

namespace Node
def name : Node → Name | .mk n _ _ _ _ _ _ _ _ _ => n
def type : Node → NType | .mk _ t _ _ _ _ _ _ _ _ => t
def mode : Node → Nat | .mk _ _ m _ _ _ _ _ _ _ => m
def content : Node → List UInt8 | .mk _ _ _ c _ _ _ _ _ _ => c
def links : Node → Nat | .mk _ _ _ _ l _ _ _ _ _ => l
def inode : Node → Nat | .mk _ _ _ _ _ i _ _ _ _ => i
def linkAbs : Node → Bool | .mk _ _ _ _ _ _ a _ _ _ => a
def linkTarget : Node → List Name | .mk _ _ _ _ _ _ _ t _ _ => t
def hasSubtree : Node → Bool | .mk _ _ _ _ _ _ _ _ h _ => h
def children : Node → List Node | .mk _ _ _ _ _ _ _ _ _ c => c
end Node

inductive Overwrite where
  | always | never          -- if-changed behaves like always here; if-newer is not modelled
deriving DecidableEq, Repr

structure Cfg where
  dst : Path                                     -- the target directory (absolute, clean)
  select : Path → Bool → Bool × Bool             -- SelectFilter(location, isDir)
  overwrite : Overwrite
  /-- `ensureDir` checks every path component below `dst` and is also called by the visitors
      of the second pass (false on the unmodified source: finding F13) -/
  chainFix : Bool
  /-- `restoreNodeMetadataTo` refuses to work through an unexpected symlink (false on the
      unmodified source) -/
  metaFix : Bool

structure St where
  fs : FS
  delete : Bool                                  -- res.opts.Delete (switched off by invalid names)
  fileList : List (Path × Bool)                  -- res.fileList: location ↦ metadataOnly
  hardIdx : List (Nat × Path)                    -- HardlinkIndex: inode ↦ first location
  files : List (Path × List UInt8)               -- filerestorer.files
  errors : Nat

def St.err (st : St) : St := { st with errors := st.errors + 1 }

/-- a name that is exactly one path component -/
def plain (n : Name) : Bool := !(n == []) && !(n == dot) && !(n == dotdot) && !(n.contains 47)

/-- `filepath.Base(filepath.Join("/", name)) == name` -/
def nameCheck1 (n : Name) : Bool := n == slash || plain n

/-- `filepath.Join(target, name)` for a name that passed `nameCheck1` -/
def joinName (p : Path) (n : Name) : Path := if n == slash then p else p ++ [n]

/-! ## ensureDir -/

/-- the body of the original `ensureDir`: Lstat, remove a non-directory, MkdirAll -/
def ensureSingleDir (fs : FS) (p : Path) : FS × Bool :=
  let (fs1, ok1) := match lstat fs p with
    | some e => if e.isDir then (fs, true) else remove fs p
    | none => (fs, true)
  if !ok1 then (fs1, false) else mkdirAll fs1 p 0o700

/-- every path from `base ++ [c₁]` to `base ++ rel` -/
def chainFrom (fs : FS) (base : Path) : List Name → FS × Bool
  | [] => (fs, true)
  | c :: rest =>
    match ensureSingleDir fs (base ++ [c]) with
    | (fs1, true) => chainFrom fs1 (base ++ [c]) rest
    | (fs1, false) => (fs1, false)

/-- `res.ensureDir(dst, dst ++ rel)` -/
def ensureDir (cfg : Cfg) (fs : FS) (rel : Path) : FS × Bool :=
  if cfg.chainFix then
    match ensureSingleDir fs cfg.dst with
    | (fs1, true) => chainFrom fs1 cfg.dst rel
    | (fs1, false) => (fs1, false)
  else ensureSingleDir fs (cfg.dst ++ rel)

/-! ## metadata -/

/-- `restoreNodeMetadataTo`: the only operation that follows symlinks is chmod (not for symlink
    nodes) -/
def restoreMetadata (cfg : Cfg) (fs : FS) (n : Node) (rel : Path) : FS × Bool :=
  if n.type == .symlink then (fs, true) else
  if cfg.metaFix then
    match lstat fs (cfg.dst ++ rel) with
    | none => (fs, false)
    | some e => if e.isSymlink then (fs, false) else chmod fs (cfg.dst ++ rel) n.mode
  else chmod fs (cfg.dst ++ rel) n.mode

/-- `shouldOverwrite` -/
def shouldOverwrite (cfg : Cfg) (fs : FS) (rel : Path) : Bool :=
  match cfg.overwrite with
  | .always => true
  | .never => (lstat fs (cfg.dst ++ rel)).isNone

/-! ## first pass -/

def firstEnterDir (cfg : Cfg) (st : St) (rel : Path) : St × Bool :=
  let (fs, ok) := ensureDir cfg st.fs rel
  ({ st with fs := fs }, ok)

def firstVisitNode (cfg : Cfg) (st : St) (n : Node) (rel : Path) : St × Bool :=
  let (fs, ok) := ensureDir cfg st.fs rel.dropLast
  let st := { st with fs := fs }
  if !ok then (st, false) else
  if n.type != .file then (st, true) else
  -- hard link groups: only the first member is restored as a file
  let known := n.links > 1 && (st.hardIdx.any fun e => e.1 == n.inode)
  if known then (st, true) else
  let st := if n.links > 1 then { st with hardIdx := st.hardIdx ++ [(n.inode, rel)] } else st
  -- withOverwriteCheck
  if !shouldOverwrite cfg st.fs rel then (st, true) else
  -- verifyFile: content already identical?
  let same := match lstat st.fs (cfg.dst ++ rel) with
    | some (.file c _) => c == n.content
    | _ => false
  let st := if same then st else { st with files := st.files ++ [(rel, n.content)] }
  ({ st with fileList := (rel, same) :: st.fileList.filter (fun e => !(e.1 == rel)) }, true)

/-- one file of `restoreFiles`: `createFile` at `dst ++ location` (first write, or
    truncateFileToSize) -/
def restoreOneFile (cfg : Cfg) (recursiveDelete : Bool) (s : St) (f : Path × List UInt8) : St :=
  let (fs, ok) := createFile s.fs (cfg.dst ++ f.1) f.2 recursiveDelete
  let s := { s with fs := fs }
  if ok then s else s.err

/-- `filerestorer.restoreFiles`: files without any blob to write are created right away in the
    planning loop (`truncateFileToSize`), the others when their first blob arrives (pack order;
    the model takes them in list order) -/
def restoreFiles (cfg : Cfg) (recursiveDelete : Bool) (st : St) : St :=
  let empties := st.files.filter (fun f => f.2.isEmpty)
  let others := st.files.filter (fun f => !f.2.isEmpty)
  others.foldl (restoreOneFile cfg recursiveDelete)
    (empties.foldl (restoreOneFile cfg recursiveDelete) { st with files := [] })

/-! ## second pass -/

/-- `fs.NodeCreateAt` -/
def nodeCreateAt (fs : FS) (n : Node) (p : Path) : FS × Bool :=
  match n.type with
  | .symlink => symlink fs p n.linkAbs n.linkTarget
  | .fifo => mknod fs p 0o600
  | .dir => (match mkdir fs p n.mode with | (f, _) => (f, true))
  | .file => createFile fs p [] false
  | .socket => (fs, true)
  | .other => (fs, false)

/-- `fs.Remove(target)` where "does not exist" is not an error -/
def removeIfThere (fs : FS) (p : Path) : FS × Bool :=
  match lstat fs p with
  | none => (fs, true)
  | some _ => remove fs p

/-- `restoreNodeTo`: Remove, NodeCreateAt, metadata -/
def restoreNodeTo (cfg : Cfg) (fs : FS) (n : Node) (rel : Path) : FS × Bool :=
  let p := cfg.dst ++ rel
  let (fs1, ok1) := removeIfThere fs p
  if !ok1 then (fs1, false) else
  match nodeCreateAt fs1 n p with
  | (fs2, false) => (fs2, false)
  | (fs2, true) => restoreMetadata cfg fs2 n rel

/-- `restoreHardlinkAt` -/
def restoreHardlinkAt (cfg : Cfg) (fs : FS) (n : Node) (orig rel : Path) : FS × Bool :=
  let p := cfg.dst ++ rel
  let (fs1, ok1) := removeIfThere fs p
  if !ok1 then (fs1, false) else
  match link fs1 (cfg.dst ++ orig) p with
  | (fs2, false) => (fs2, false)
  | (fs2, true) => restoreMetadata cfg fs2 n rel

def secondVisitNode (cfg : Cfg) (st : St) (n : Node) (rel : Path) : St × Bool :=
  let (fs0, ok0) := if cfg.chainFix then ensureDir cfg st.fs rel.dropLast else (st.fs, true)
  let st := { st with fs := fs0 }
  if !ok0 then (st, false) else
  if n.type != .file then
    if !shouldOverwrite cfg st.fs rel then (st, true) else
    let (fs, ok) := restoreNodeTo cfg st.fs n rel
    ({ st with fs := fs }, ok)
  else
    match st.hardIdx.find? (fun e => e.1 == n.inode) with
    | some (_, orig) =>
      -- `idx.Has(inode) && idx.Value(inode) != location` (the link count is not consulted)
      if !(orig == rel) then
        if !shouldOverwrite cfg st.fs rel then (st, true) else
        let (fs, ok) := restoreHardlinkAt cfg st.fs n orig rel
        ({ st with fs := fs }, ok)
      else if st.fileList.any (fun e => e.1 == rel) then
        let (fs, ok) := restoreMetadata cfg st.fs n rel
        ({ st with fs := fs }, ok)
      else (st, true)
    | none =>
      if st.fileList.any (fun e => e.1 == rel) then
        let (fs, ok) := restoreMetadata cfg st.fs n rel
        ({ st with fs := fs }, ok)
      else (st, true)

/-- the deletion loop of `removeUnexpectedFiles` -/
def removeEntries (cfg : Cfg) (rel : Path) (keep : List Name) : List Name → FS → FS × Bool
  | [], fs => (fs, true)
  | e :: rest, fs =>
    if keep.contains e then removeEntries cfg rel keep rest fs else
    -- `target == nodeTarget || !fs.HasPathPrefix(target, nodeTarget)`
    if !plain e then (fs, false) else
    if (cfg.select (rel ++ [e]) false).1 then
      match removeAll fs (cfg.dst ++ rel ++ [e]) with
      | (fs1, true) => removeEntries cfg rel keep rest fs1
      | (fs1, false) => (fs1, false)
    else removeEntries cfg rel keep rest fs

def removeUnexpectedFiles (cfg : Cfg) (fs : FS) (rel : Path) (expected : List Name) : FS × Bool :=
  match readdir fs (cfg.dst ++ rel) with
  | none => (fs, true)
  | some (false, _) => (fs, false)
  | some (true, entries) => removeEntries cfg rel expected entries fs

def secondLeaveDir (cfg : Cfg) (st : St) (n : Option Node) (rel : Path) (expected : List Name) : St × Bool :=
  let (fs0, ok0) := if cfg.chainFix then ensureDir cfg st.fs rel else (st.fs, true)
  let st := { st with fs := fs0 }
  if !ok0 then (st, false) else
  let (fs1, ok1) := if st.delete then removeUnexpectedFiles cfg st.fs rel expected else (st.fs, true)
  let st := { st with fs := fs1 }
  if !ok1 then (st, false) else
  match n with
  | none => (st, true)
  | some nd =>
    let (fs2, ok2) := restoreMetadata cfg st.fs nd rel
    ({ st with fs := fs2 }, ok2)

/-- `isDirBelow` for the components below `base`: `Lstat` says directory for each of them -/
def isDirBelowFrom (fs : FS) (base : Path) : List Name → Bool
  | [] => true
  | c :: rest =>
    (match lstat fs (base ++ [c]) with | some e => e.isDir | none => false) &&
    isDirBelowFrom fs (base ++ [c]) rest

/-- `isDirBelow(dst, dst ++ rel)`: dst and every component below it is an existing real
    directory (checked with `Lstat`; nothing is created or replaced) -/
def isDirBelow (cfg : Cfg) (fs : FS) (rel : Path) : Bool :=
  (match lstat fs cfg.dst with | some e => e.isDir | none => false) && isDirBelowFrom fs cfg.dst rel

/-- second pass `skippedDir`: a traversed directory in which nothing was restored is cleaned up
    (with --delete) only if it and all its parents below dst are real directories -/
def secondSkippedDir (cfg : Cfg) (st : St) (rel : Path) (expected : List Name) : St × Bool :=
  if !st.delete then (st, true) else
  if !isDirBelow cfg st.fs rel then (st, true) else
  let (fs1, ok1) := removeUnexpectedFiles cfg st.fs rel expected
  ({ st with fs := fs1 }, ok1)

/-! ## traversal -/

structure Visitor where
  enterDir : Option (St → Path → St × Bool)
  visitNode : St → Node → Path → St × Bool
  leaveDir : Option (St → Option Node → Path → List Name → St × Bool)
  /-- called instead of `leaveDir` for a traversed directory in which nothing was restored -/
  skippedDir : Option (St → Path → List Name → St × Bool)

/-- `sanitizeError`: the command line counts the error and goes on -/
def sanitize (r : St × Bool) : St := if r.2 then r.1 else r.1.err

mutual
/-- the loop of `traverseTreeInner` over the nodes of one tree. Result: state, filenames,
    hasRestored, fatal (an error that is returned without going through the error callback) -/
def traverseNodes (cfg : Cfg) (v : Visitor) (rel : Path) :
    List Node → St → List Name → Bool → St × List Name × Bool × Bool
  | [], st, fn, hr => (st, fn, hr, false)
  | n :: rest, st, fn, hr =>
    let fn := if st.delete then fn ++ [n.name] else fn
    -- ensure that the node name does not contain anything that refers to a top-level directory
    if !nameCheck1 n.name then
      traverseNodes cfg v rel rest { st.err with delete := false } fn hr
    else
    let nodeRel := joinName rel n.name
    -- `target == nodeTarget || !fs.HasPathPrefix(target, nodeTarget)`
    if nodeRel == rel || !(rel.isPrefixOf nodeRel) then
      traverseNodes cfg v rel rest { st.err with delete := false } fn hr
    else
    if n.type == .socket then traverseNodes cfg v rel rest st fn hr else
    let (selected, childMay) := cfg.select nodeRel (n.type == .dir)
    let hr := hr || selected
    if n.type == .dir then
      if !n.hasSubtree then (st, [], hr, true) else
      let st := match selected, v.enterDir with
        | true, some f => sanitize (f st nodeRel)
        | _, _ => st
      match traverseDir cfg v nodeRel n childMay st with
      | (st, childFn, childHr) =>
        let hr := hr || childHr
        let st := match (selected || childHr), v.leaveDir with
          | true, some f => sanitize (f st (some n) nodeRel childFn)
          | _, _ =>
            -- `else if !selectedForRestore && !childHasRestored && childMayBeSelected && skippedDir != nil`
            if !selected && !childHr && childMay then
              (match v.skippedDir with
               | some g => sanitize (g st nodeRel childFn)
               | none => st)
            else st
        traverseNodes cfg v rel rest st fn hr
    else
      let st := if selected then sanitize (v.visitNode st n nodeRel) else st
      traverseNodes cfg v rel rest st fn hr

/-- descending into a directory node (`childMayBeSelected`), with the error of the recursive
    call passed through the error callback -/
def traverseDir (cfg : Cfg) (v : Visitor) (nodeRel : Path) : Node → Bool → St → St × List Name × Bool
  | .mk _ _ _ _ _ _ _ _ _ children, childMay, st =>
    if !childMay then (st, [], false) else
    match traverseNodes cfg v nodeRel children st [] false with
    | (st, fn, hr, fatal) => if fatal then (st.err, [], hr) else (st, fn, hr)
end

/-- the root part of `traverseTree` before the loop: `enterDir(nil, target, "/")` -/
def rootEnter (v : Visitor) (st : St) : St :=
  match v.enterDir with
  | some f => sanitize (f st [])
  | none => st

/-- the root part of `traverseTree` after the loop; the Bool says whether the pass was aborted
    by a fatal error -/
def rootLeave (v : Visitor) (r : St × List Name × Bool × Bool) : St × Bool :=
  match r with
  | (st, fn, hr, fatal) =>
    if fatal then (st, true) else
    match hr, v.leaveDir with
    | true, some f => (sanitize (f st none [] fn), false)
    | _, _ =>
      -- `else if !hasRestored && visitor.skippedDir != nil`
      if !hr then
        (match v.skippedDir with
         | some g => (sanitize (g st [] fn), false)
         | none => (st, false))
      else (st, false)

/-- `traverseTree` -/
def traverseTree (cfg : Cfg) (v : Visitor) (tree : List Node) (st : St) : St × Bool :=
  rootLeave v (traverseNodes cfg v [] tree (rootEnter v st) [] false)

def firstPass (cfg : Cfg) : Visitor :=
  { enterDir := some (fun st rel => firstEnterDir cfg st rel),
    visitNode := fun st n rel => firstVisitNode cfg st n rel,
    leaveDir := none,
    skippedDir := none }

def secondPass (cfg : Cfg) : Visitor :=
  { enterDir := none,
    visitNode := fun st n rel => secondVisitNode cfg st n rel,
    leaveDir := some (fun st n rel exp => secondLeaveDir cfg st n rel exp),
    skippedDir := some (fun st rel exp => secondSkippedDir cfg st rel exp) }

/-- `RestoreTo` -/
def restore (cfg : Cfg) (tree : List Node) (fs : FS) (delete : Bool) : St :=
  let st0 : St := ⟨fs, delete, [], [], [], 0⟩
  -- `fs.MkdirAll(dst, 0700)`
  let (fs1, ok) := mkdirAll st0.fs cfg.dst 0o700
  let st := { st0 with fs := fs1 }
  if !ok then st.err else
  match traverseTree cfg (firstPass cfg) tree st with
  | (st, true) => st.err
  | (st, false) =>
    -- the file restorer was created with the initial value of --delete
    let st := restoreFiles cfg delete st
    (traverseTree cfg (secondPass cfg) tree st).1

/-- the executable statement of C18: nothing outside `dst` differs between the two file systems -/
def outsideEq (dst : Path) (before after : FS) : Bool :=
  let keys := (before.ents.map (·.1)) ++ (after.ents.map (·.1))
  keys.all fun q => dst.isPrefixOf q || before.get q == after.get q

end Restic.Model.RestoreTree
