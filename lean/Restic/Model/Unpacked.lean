import Restic.Gen.Consts
/-
Model of unpacked repository files (C07): `compressUnpacked`, `decompressUnpacked`,
`saveUnpacked`, `verifyUnpacked`, `LoadUnpacked` of internal/repository/repository.go.
Core Lean only. Byte exact (`List UInt8`); encryption and zstd are parameters (`Codec`).

The encoding constants are not written down here: they are the regenerated facts
`Restic.Gen.unpacked_versionByte` (byte put in front of compressed files),
`unpacked_minCompressVersion` (first repository version that compresses),
`unpacked_rawByte0/1` (first bytes a version-2 repository passes through unchanged, legacy raw
JSON), `restic_ConfigFile`, `crypto_ivSize`, `crypto_macSize`, `crypto_Extension`; the harness
derives them by running the current code (shim `VerifFactsC07`).
-/
namespace Restic.Model.Unpacked
open Restic.Gen

abbrev Bytes := List UInt8

/-- error classes of the modelled functions (message classes of the Go errors) -/
inductive Err where
  | tooShort        -- "invalid data in %v file, too short"
  | openFailed      -- k.Open returned an error (MAC mismatch, bad nonce, short ciphertext)
  | unsupported     -- "not supported encoding format"
  | zstd            -- DecodeAll failed
  | verifyDecrypt   -- saveUnpacked: "decryption failed"
  | verifyDecompress-- saveUnpacked: "decompression failed"
  | verifyMismatch  -- saveUnpacked: "data mismatch"
deriving DecidableEq, Repr

/-- outcome of a Go call: value, error, or run-time panic (slice out of range) -/
inductive Res (α : Type) where
  | ok (a : α)
  | err (e : Err)
  | panic
deriving DecidableEq, Repr

/-- The primitives the code builds on, as parameters.
`sealB nonce p` is what `k.Seal(dst, nonce, p, nil)` appends to `dst`; `openB nonce c` is
`k.Open(_, nonce, c, nil)`; `zenc p` is `EncodeAll(p, _)` (what is appended after the version
byte); `zdec` is `DecodeAll`. -/
structure Codec where
  sealB : Bytes → Bytes → Bytes
  openB : Bytes → Bytes → Option Bytes
  zenc : Bytes → Bytes
  zdec : Bytes → Option Bytes

/-- `b[:n], b[n:]` of Go: panics (here `none`) when `n > len(b)` -/
def splitAt? (n : Nat) (b : Bytes) : Option (Bytes × Bytes) :=
  if b.length < n then none else some (b.take n, b.drop n)

/-- `compressUnpacked` for repository version `v` -/
def compressUnpacked (c : Codec) (v : Nat) (p : Bytes) : Bytes :=
  if v < unpacked_minCompressVersion then p
  else UInt8.ofNat unpacked_versionByte :: c.zenc p

/-- `decompressUnpacked` for repository version `v` -/
def decompressUnpacked (c : Codec) (v : Nat) (p : Bytes) : Res Bytes :=
  if v < unpacked_minCompressVersion then .ok p
  else match p with
    | [] => .ok p                                   -- too short for version header
    | b :: rest =>
      if b.toNat = unpacked_rawByte0 ∨ b.toNat = unpacked_rawByte1 then .ok p   -- probably raw JSON
      else if b.toNat ≠ unpacked_versionByte then .err .unsupported
      else match c.zdec rest with
        | some q => .ok q
        | none => .err .zstd

/-- decrypt `buf = nonce ‖ ciphertext` -/
def openStored (c : Codec) (buf : Bytes) : Res Bytes :=
  match splitAt? crypto_ivSize buf with
  | none => .panic
  | some (nonce, ct) =>
    match c.openB nonce ct with
    | none => .err .openFailed
    | some p => .ok p

/-- `verifyUnpacked(buf, t, expected)` -/
def verifyUnpacked (c : Codec) (v t : Nat) (noExtraVerify : Bool) (buf expected : Bytes) : Res Unit :=
  if noExtraVerify then .ok () else
  match openStored c buf with
  | .panic => .panic
  | .err _ => .err .verifyDecrypt
  | .ok plaintext =>
    let dec : Res Bytes := if t ≠ restic_ConfigFile then decompressUnpacked c v plaintext else .ok plaintext
    match dec with
    | .panic => .panic
    | .err _ => .err .verifyDecompress
    | .ok q => if q = expected then .ok () else .err .verifyMismatch

/-- `saveUnpacked(t, buf)` up to the backend call: the bytes handed to `be.Save`
(`nonce` is the value `NewRandomNonce()` returned). -/
def saveUnpacked (c : Codec) (v t : Nat) (noExtraVerify : Bool) (nonce buf : Bytes) : Res Bytes :=
  let p := if t ≠ restic_ConfigFile then compressUnpacked c v buf else buf
  let ciphertext := nonce ++ c.sealB nonce p
  match verifyUnpacked c v t noExtraVerify ciphertext buf with
  | .panic => .panic
  | .err e => .err e
  | .ok () => .ok ciphertext

/-- `LoadUnpacked(t, id)` applied to the bytes `LoadRaw` returned -/
def loadUnpacked (c : Codec) (v t : Nat) (buf : Bytes) : Res Bytes :=
  if buf.length < crypto_Extension then .err .tooShort else
  match openStored c buf with
  | .panic => .panic
  | .err e => .err e
  | .ok plaintext =>
    if t ≠ restic_ConfigFile then decompressUnpacked c v plaintext else .ok plaintext

/-! ### Executable statement of the property -/

/-- C07 on observed behaviour of one save-then-load: if the save succeeded, the load returns
exactly the saved bytes; the config file is stored uncompressed (`plain` = decrypted stored file).
-/
def specRoundTrip (t : Nat) (payload : Bytes) (saveOk : Bool) (plain : Option Bytes) (load : Res Bytes) : Bool :=
  !saveOk ||
    (load == .ok payload && (t != restic_ConfigFile || plain == some payload))

/-- C07, rejection half: in a repository of version ≥ 2 a non-config file whose decrypted content
starts with a byte that is neither the version byte nor one of the two legacy bytes is not
loaded (`load` is what the implementation returned). -/
def specReject (v t : Nat) (plain : Bytes) (load : Res Bytes) : Bool :=
  match plain with
  | [] => true
  | b :: _ =>
    if v < unpacked_minCompressVersion ∨ t = restic_ConfigFile then true
    else if b.toNat = unpacked_rawByte0 ∨ b.toNat = unpacked_rawByte1 ∨ b.toNat = unpacked_versionByte then true
    else match load with
      | .ok _ => false
      | _ => true

end Restic.Model.Unpacked
