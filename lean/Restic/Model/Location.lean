/-!
# Model for C50 — displayable repository locations (password stripping)

Close transcription of

* `internal/backend/location/location.go`: `extractScheme`, `StripPassword` (registry dispatch),
  `NoPassword`;
* `internal/backend/rest/config.go`: `StripPassword`, `prepareURL`.

Strings are byte lists. Go slice expressions `s[:5]` / `s[5:]` are partial (`Option`), an
out-of-range slice is the explicit outcome `Out.panic`. `url.Parse` is an ORACLE: the model takes
the parser as a parameter returning the *structure* of the parsed URL (`Url`), i.e. exactly the
parts `(*URL).String()` is assembled from around the user info.  `strings.Replace(.., 1)` is
transcribed (`replaceFirst`).
-/
namespace Restic.Model.Location

abbrev Bytes := List UInt8

def cColon : UInt8 := 0x3a   -- ':'
def cSlash : UInt8 := 0x2f   -- '/'
def cAt    : UInt8 := 0x40   -- '@'
def cStar  : UInt8 := 0x2a   -- '*'

/-- `"rest:"` -/
def restPrefix : Bytes := [0x72, 0x65, 0x73, 0x74, 0x3a]
/-- `"rest"` -/
def restName : Bytes := [0x72, 0x65, 0x73, 0x74]
/-- `":***@"` -/
def stars : Bytes := [cColon, cStar, cStar, cStar, cAt]

inductive Out where
  | ok (b : Bytes)
  | panic
deriving DecidableEq, Repr, Inhabited

/-! ## Go string primitives -/

/-- `s[:n]` — panics (none) when `n > len(s)` -/
def sliceTo (s : Bytes) (n : Nat) : Option Bytes :=
  if n ≤ s.length then some (s.take n) else none

/-- `s[n:]` — panics (none) when `n > len(s)` -/
def sliceFrom (s : Bytes) (n : Nat) : Option Bytes :=
  if n ≤ s.length then some (s.drop n) else none

/-- `strings.HasPrefix` -/
def hasPrefix (s p : Bytes) : Bool := p.isPrefixOf s

/-- `strings.HasSuffix(s, "/")` -/
def endsWithSlash (s : Bytes) : Bool := s.getLast? == some cSlash

/-- `strings.Replace(s, old, new, 1)`: replace the first occurrence (the empty `old` matches at
    the very beginning, as in Go). -/
def replaceFirst (s old new : Bytes) : Bytes :=
  if old.isPrefixOf s then new ++ s.drop old.length
  else match s with
    | [] => []
    | c :: t => c :: replaceFirst t old new

/-- `strings.Cut(s, ":")` first component -/
def extractScheme (s : Bytes) : Bytes := s.takeWhile (· != cColon)

/-! ## the `url.Parse` oracle: structure of a parsed URL -/

/-- `*url.Userinfo` -/
structure UserInfo where
  username : Bytes          -- `Username()` (unescaped)
  escUser  : Bytes          -- the escaped user name as written by `String()`
  password : Option Bytes   -- the escaped password as written by `String()`; none = not set
deriving DecidableEq, Repr

/-- what `(*url.URL).String()` is assembled from -/
structure Url where
  pre  : Bytes              -- `String()` up to the start of the user info (`scheme://`)
  user : Option UserInfo    -- `u.User`
  post : Bytes              -- the part of `String()` after `userinfo@`
deriving DecidableEq, Repr

/-- `(*Userinfo).String()` -/
def UserInfo.str (ui : UserInfo) : Bytes :=
  ui.escUser ++ (match ui.password with | some p => cColon :: p | none => [])

/-- `(*URL).String()` -/
def Url.str (u : Url) : Bytes :=
  u.pre ++ (match u.user with | some ui => ui.str ++ [cAt] | none => []) ++ u.post

/-- Laws of `net/url` the theorems assume (validated by the driver on every oracle record):
    the text before the user info ends in `/` (it is `scheme://` or `//`) and contains no `@`;
    escaped user name and password contain no `/` (they are escaped in user-info mode). -/
def Url.wf (u : Url) : Bool :=
  match u.user with
  | none => true
  | some ui =>
    u.pre.getLast? == some cSlash && !(u.pre.contains cAt) &&
    !(ui.escUser.contains cSlash) &&
    (match ui.password with | some p => !(p.contains cSlash) | none => true)

abbrev Parser := Bytes → Option Url

/-! ## `internal/backend/rest/config.go` -/

/-- `prepareURL`: `s = s[5:]; if !strings.HasSuffix(s, "/") { s += "/" }` -/
def prepareURL (s : Bytes) : Option Bytes :=
  match sliceFrom s 5 with
  | none => none
  | some t => some (if endsWithSlash t then t else t ++ [cSlash])

/-- the password branch of `rest.StripPassword`:
    `strings.Replace(u.String(), u.User.String()+"@", u.User.Username()+":***@", 1)` -/
def stripUrl (u : Url) (ui : UserInfo) : Bytes :=
  replaceFirst u.str (ui.str ++ [cAt]) (ui.username ++ stars)

/-- `rest.StripPassword` WITHOUT the prefix guard — the code as it was before the F14 fix.
    Kept for the negation witness only. -/
def restStripUnguarded (parse : Parser) (s : Bytes) : Out :=
  match sliceTo s 5 with
  | none => .panic
  | some scheme =>
    match prepareURL s with
    | none => .panic
    | some s' =>
      match parse s' with
      | none => .ok (scheme ++ s')
      | some u =>
        match u.user with
        | none => .ok (scheme ++ s')
        | some ui =>
          match ui.password with
          | none => .ok (scheme ++ s')
          | some _ => .ok (scheme ++ stripUrl u ui)

/-- `rest.StripPassword` (with the guard `if !strings.HasPrefix(s, "rest:") { return s }`) -/
def restStrip (parse : Parser) (s : Bytes) : Out :=
  if !hasPrefix s restPrefix then .ok s
  else restStripUnguarded parse s

/-! ## `internal/backend/location/location.go` -/

/-- how a registered factory strips: only the REST backend has a real `StripPassword`,
    every other backend registers `location.NoPassword` (identity). -/
inductive Stripper where
  | rest
  | noPassword
deriving DecidableEq, Repr

/-- the registry: scheme name ↦ stripper -/
abbrev Registry := List (Bytes × Stripper)

def Registry.lookup (r : Registry) (scheme : Bytes) : Option Stripper :=
  (r.find? (fun e => e.1 == scheme)).map (·.2)

/-- `location.StripPassword(registry, s)` -/
def locStrip (parse : Parser) (reg : Registry) (s : Bytes) : Out :=
  match reg.lookup (extractScheme s) with
  | some .rest => restStrip parse s
  | some .noPassword => .ok s
  | none => .ok s

/-! ## executable statement of the property -/

/-- `a` occurs in `b` as a contiguous substring -/
def isInfix (a : Bytes) : Bytes → Bool
  | [] => a.isEmpty
  | c :: t => a.isPrefixOf (c :: t) || isInfix a t

/-- C50 on one observation: the display form `out` of a location never crashes restic, and when
    restic accepted the location with a password set (`secret` = a distinctive part of that
    password, in the form typed and in decoded form), the display form contains neither and shows
    the `:***@` placeholder instead. -/
def specOK (secrets : List Bytes) (out : Out) : Bool :=
  match out with
  | .panic => false
  | .ok o => secrets.all (fun sec => !(isInfix sec o)) && (secrets.isEmpty || isInfix stars o)

end Restic.Model.Location
