/-
Model of snapshot tag editing (C25): `Snapshot.AddTags`, `Snapshot.RemoveTags`
(internal/data/snapshot.go), `TagLists.Flatten` (internal/data/tag_list.go) and the
decision logic of `changeTags` / `runTag` (cmd/restic/cmd_tag.go). Core Lean only.
-/
namespace Restic.Model.Tags

abbrev Tag := String

/-- `TagLists.Flatten`: concatenate, dropping empty tags. -/
def flatten (ls : List (List Tag)) : List Tag := ls.flatten.filter (· ≠ "")

def isSp (c : Char) : Bool := c == ' ' || c == '\t' || c == '\n' || c == '\r'

/-- `strings.TrimSpace` restricted to ASCII blanks (the generators use no other white space) -/
def trimSp (s : String) : String :=
  String.ofList ((s.toList.dropWhile isSp).reverse.dropWhile isSp).reverse

/-- `splitTagList`: split a flag value at commas and trim each element -/
def splitTagList (s : String) : List Tag := (s.splitOn ",").map trimSp

/-- one iteration of the `nextTag` loop of `AddTags` -/
def addOne (acc : List Tag × Bool) (a : Tag) : List Tag × Bool :=
  if a ∈ acc.1 then acc else (acc.1 ++ [a], true)

/-- `Snapshot.AddTags`: append every tag that is not yet present; reports whether anything changed -/
def addTags (tags add : List Tag) : List Tag × Bool := add.foldl addOne (tags, false)

/-- one iteration of `RemoveTags`: `slices.DeleteFunc(tags, == r)` -/
def removeOne (acc : List Tag × Bool) (r : Tag) : List Tag × Bool :=
  let t' := acc.1.filter (· ≠ r)
  (t', acc.2 || t'.length != acc.1.length)

/-- `Snapshot.RemoveTags` -/
def removeTags (tags rem : List Tag) : List Tag × Bool := rem.foldl removeOne (tags, false)

/-- `changeTags`: the new tag list and whether the snapshot is rewritten -/
def changeTags (old set add rem : List Tag) : List Tag × Bool :=
  if set ≠ [] then
    (if set = [""] then [] else set, true)
  else
    let r1 := addTags old add
    let r2 := removeTags r1.1 rem
    (r2.1, r1.2 || r2.2)

inductive TagResult where
  | fatal (msg : String)
  | ok (tags : List Tag) (changed : Bool)
deriving Repr, DecidableEq

/-- `runTag` applied to one selected snapshot: option checks, flattening, the `--set ''` marker -/
def runTag (old : List Tag) (setL addL remL : List (List Tag)) : TagResult :=
  if setL = [] ∧ addL = [] ∧ remL = [] then .fatal "nothing to do!"
  else if setL ≠ [] ∧ (addL ≠ [] ∨ remL ≠ []) then .fatal "--set and --add/--remove cannot be given at the same time"
  else
    let s := flatten setL
    let s := if setL ≠ [] ∧ s = [] then [""] else s
    let r := changeTags old s (flatten addL) (flatten remL)
    .ok r.1 r.2

/-! ### Executable statement of the property (used by the driver on the implementation's output) -/

/-- C25 as a decidable predicate on observed behaviour: `new` = tags after the command. -/
def specOK (old : List Tag) (setL addL remL : List (List Tag)) (new : List Tag) : Bool :=
  if setL ≠ [] then new == flatten setL
  else
    (flatten addL).all (fun a => a ∈ flatten remL || a ∈ new) &&
    (flatten remL).all (fun r => !(r ∈ new)) &&
    -- nothing invented, nothing else lost
    new.all (fun t => t ∈ old || t ∈ flatten addL) &&
    old.all (fun t => t ∈ flatten remL || t ∈ new)

end Restic.Model.Tags
