import Restic.Gen.Consts
/-
Model of `repair index` (C33): `repository.RepairIndex` (internal/repository/repair_index.go),
`Repository.createIndexFromPacks` (internal/repository/repository.go), `pack.Size`
(internal/repository/pack/pack.go) and `MasterIndex.Rewrite`
(internal/repository/index/master_index.go). Core Lean only.

Abstraction level: a repository is the list of stored pack files (each with its listed size and
the result of the real header parser `pack.List` at that size) and the list of stored index files
(each with its decoded content, or `none` when it cannot be loaded/decoded). IDs are opaque
strings. Non-determinism of the Go code (map iteration, worker pools) appears as the *order* of
the lists handed to the functions; theorems hold for every order.
-/
namespace Restic.Model.RepairIndex

abbrev ID := String

/-- one blob entry of a pack header / an index file (`pack.Blob`) -/
structure Entry where
  typ : Nat        -- 0 data, 1 tree
  id : ID
  off : Nat
  len : Nat
  ulen : Nat       -- uncompressed length, 0 = stored uncompressed
deriving DecidableEq, Repr, Inhabited

/-- a stored pack file: name, size reported by the backend listing, `pack.List` result -/
structure PackFile where
  id : ID
  size : Nat
  hdr : Option (List Entry)
deriving Repr, Inhabited

/-- content of an index file: packs with their blob lists -/
abbrev IdxContent := List (ID × List Entry)

/-- a stored index file. `keepable` is the value of `Full(idx) && !Oversized(idx)` as
    `MasterIndex.Rewrite` evaluates it (an oracle: it depends on blob count and wall-clock age). -/
structure IdxFile where
  id : ID
  content : Option IdxContent
  keepable : Bool
deriving Repr, Inhabited

structure Repo where
  packs : List PackFile
  idxs : List IdxFile
deriving Repr, Inhabited

/-- all (pack, entry) pairs of an index content -/
def flat (c : IdxContent) : List (ID × Entry) := c.flatMap fun pe => pe.2.map fun e => (pe.1, e)

def flatAll (cs : List IdxContent) : List (ID × Entry) := cs.flatMap flat

/-! ### `pack.Size` over the merged in-memory index -/

/-- `Blob.IsCompressed` / `CalculateEntrySize` -/
def entrySize (e : Entry) : Nat :=
  if e.ulen ≠ 0 then Restic.Gen.pack_entrySize else Restic.Gen.pack_plainEntrySize

/-- `pack.Size(idx, false)` for one pack: `none` when the index has no entry of the pack,
    otherwise `headerSize + Σ (ciphertext length + header entry size)` over the (merged,
    de-duplicated — `Index.merge` skips identical entries) entries of that pack. -/
def sizeFromIndex (ents : List (ID × Entry)) (p : ID) : Option Nat :=
  let mine := (ents.eraseDups).filter (fun pe => pe.1 == p)
  if mine.isEmpty then none
  else some (mine.foldl (fun acc pe => acc + pe.2.len + entrySize pe.2) Restic.Gen.pack_headerSize)

/-! ### RepairIndex, first half: which index files are loaded, which packs are (re)read -/

structure Plan where
  oldIdx : List IdxFile        -- `oldIndexes := repo.idx.IDs()` (the successfully loaded files)
  obsolete0 : List ID          -- invalid index files (default) / all index files (--read-all-packs)
  toRead : List PackFile       -- `packSizeFromList`
  notFound : List ID           -- packs referenced by the index but not listed
deriving Repr

def Plan.removePacks (pl : Plan) : List ID := pl.toRead.map (·.id) ++ pl.notFound

/-- entries of all successfully loaded index files -/
def loadedEntries (idxs : List IdxFile) : List (ID × Entry) :=
  flatAll (idxs.filterMap (·.content))

def plan (r : Repo) (readAll : Bool) : Plan :=
  let oldIdx := if readAll then [] else r.idxs.filter (·.content.isSome)
  let obsolete0 := if readAll then r.idxs.map (·.id) else (r.idxs.filter (·.content.isNone)).map (·.id)
  let ents := loadedEntries oldIdx
  -- `repo.List(PackFile)`: not in index or size mismatch => read
  let toRead := r.packs.filter fun p => sizeFromIndex ents p.id != some p.size
  -- what is left in packSizeFromIndex afterwards
  let notFound := ((ents.map (·.1)).eraseDups).filter fun p => !(r.packs.map (·.id)).contains p
  { oldIdx, obsolete0, toRead, notFound }

/-- `createIndexFromPacks`: entries of every pack whose header could be listed; the others are
    reported as invalid and get no entry. -/
def createIndexFromPacks (toRead : List PackFile) : IdxContent :=
  toRead.filterMap fun p => p.hdr.map fun es => (p.id, es)

/-! ### `MasterIndex.Rewrite` -/

/-- insertion sort by offset (`pack.Blobs.Sort`; structural, so `decide` can evaluate examples) -/
def insertOff (e : Entry) : List Entry → List Entry
  | [] => [e]
  | x :: xs => if e.off ≤ x.off then e :: x :: xs else x :: insertOff e xs

def sortOff (l : List Entry) : List Entry := l.foldr insertOff []

/-- `Index.EachByPack(excludePacks)` of a decoded (final) index: blobs grouped by pack ID, packs
    in `exclude` skipped. Blob order inside a group is canonical (sorted by offset, as
    `PackBlobsHash` does before hashing). -/
def groupsOf (c : IdxContent) (exclude : List ID) : IdxContent :=
  (((c.map (·.1)).eraseDups.filter (fun p => !exclude.contains p)).map fun p =>
    (p, sortOff ((c.filter (fun pe => pe.1 == p)).flatMap (·.2)))).filter
    fun g => !g.2.isEmpty

structure RwState where
  seen : IdxContent       -- `packBlobsIDSet`: keys = (pack ID, offset-sorted blobs), the pack ID is part of the key
  newIndex : IdxContent   -- packs stored into the new index so far (all `newIndex` objects joined)
  obsolete : List ID
  kept : List IdxFile
deriving Repr

/-- second loop of the rewrite goroutine: store every not yet seen pack group -/
def storeGroups (st : RwState) (gs : IdxContent) : RwState :=
  gs.foldl (fun st g =>
    if st.seen.contains g then st
    else { st with seen := st.seen ++ [g], newIndex := st.newIndex ++ [g] }) st

/-- one `rewriteTask` -/
def rewriteOne (exclude : List ID) (st : RwState) (f : IdxFile) : RwState :=
  match f.content with
  | none => st        -- cannot happen for oldIndexes (they were loaded); Go: Rewrite fails
  | some c =>
    let gs := groupsOf c exclude
    if (c.map (·.1)).all (fun p => !exclude.contains p) && f.keepable
        && gs.all (fun g => !st.seen.contains g) then
      -- index is already up to date
      { st with seen := st.seen ++ gs.eraseDups, kept := st.kept ++ [f] }
    else
      storeGroups { st with obsolete := st.obsolete ++ [f.id] } gs

def rewrite (exclude : List ID) (old : List IdxFile) (extraObsolete : List ID) : RwState :=
  old.foldl (rewriteOne exclude) { seen := [], newIndex := [], obsolete := extraObsolete, kept := [] }

/-! ### the whole command -/

inductive Ev where
  | saveIdx (c : IdxContent)
  | removeIdx (id : ID)
  | removePack (id : ID)
deriving Repr

structure Result where
  kept : List IdxFile          -- old index files left untouched
  fromPacks : IdxContent       -- new index written by createIndexFromPacks (may be empty = not saved)
  rewritten : IdxContent       -- new index written by Rewrite (may be empty = not saved)
  removed : List ID            -- index files deleted at the end
  trace : List Ev
deriving Repr

def repairIndex (r : Repo) (readAll : Bool) : Result :=
  let pl := plan r readAll
  let fromPacks := createIndexFromPacks pl.toRead
  let st := rewrite pl.removePacks pl.oldIdx pl.obsolete0
  { kept := st.kept, fromPacks, rewritten := st.newIndex, removed := st.obsolete,
    trace := (if fromPacks.isEmpty then [] else [Ev.saveIdx fromPacks]) ++
             (if st.newIndex.isEmpty then [] else [Ev.saveIdx st.newIndex]) ++
             st.obsolete.map Ev.removeIdx }

/-- all (pack, entry) pairs the index files describe after the command -/
def Result.entries (res : Result) : List (ID × Entry) :=
  flatAll (res.kept.filterMap (·.content)) ++ flat res.fromPacks ++ flat res.rewritten

/-! ### Executable statement of the property -/

def entriesOf (ents : List (ID × Entry)) (p : ID) : List Entry :=
  (ents.filter (fun pe => pe.1 == p)).map (·.2)

/-- same set of entries -/
def sameSet (a b : List Entry) : Bool := a.all (b.contains ·) && b.all (a.contains ·)

/-- C33, exact form: the final index lists, for every stored pack whose header is readable,
    exactly the header entries (true type, id, offset, length), nothing for unreadable packs and
    nothing for packs that are not stored; no pack file disappeared. -/
def specExact (r : Repo) (final : List (ID × Entry)) (packsAfter : List ID) : Bool :=
  r.packs.all (fun p => packsAfter.contains p.id) &&
  r.packs.all (fun p => sameSet (entriesOf final p.id) (p.hdr.getD [])) &&
  final.all (fun pe => (r.packs.map (·.id)).contains pe.1)

/-- the documented criterion of the default mode: a pack is *trusted* (not read again) when the
    loaded index knows it and the size computed from its entries equals the stored size -/
def trustedPack (r : Repo) (p : PackFile) : Bool :=
  sizeFromIndex (loadedEntries (r.idxs.filter (·.content.isSome))) p.id == some p.size

/-- C33, default mode (without --read-all-packs), relative form: trusted packs keep exactly
    their old entries; every other stored pack is described exactly by its header (nothing if
    unreadable); nothing for packs that are not stored; no pack file disappeared. -/
def specDefault (r : Repo) (final : List (ID × Entry)) (packsAfter : List ID) : Bool :=
  let old := loadedEntries (r.idxs.filter (·.content.isSome))
  r.packs.all (fun p => packsAfter.contains p.id) &&
  r.packs.all (fun p =>
    if trustedPack r p then sameSet (entriesOf final p.id) (entriesOf old p.id)
    else sameSet (entriesOf final p.id) (p.hdr.getD [])) &&
  final.all (fun pe => (r.packs.map (·.id)).contains pe.1)

/-- hypothesis under which the default mode is exact: the old entries of every trusted pack are
    the header entries ("decodable but wrong entries with a consistent size need
    --read-all-packs") -/
def trustedCorrect (r : Repo) : Bool :=
  let old := loadedEntries (r.idxs.filter (·.content.isSome))
  r.packs.all fun p => !trustedPack r p || sameSet (entriesOf old p.id) (p.hdr.getD [])

def specOK (r : Repo) (readAll : Bool) (final : List (ID × Entry)) (packsAfter : List ID) : Bool :=
  if readAll then specExact r final packsAfter
  else specDefault r final packsAfter && (!trustedCorrect r || specExact r final packsAfter)

/-! ### trace acceptance (recorded backend mutations of the real command) -/

inductive TEv where
  | saveIndex (id : ID)
  | removeIndex (id : ID)
  | other (what : String)      -- any mutation of a pack or snapshot file
deriving Repr, DecidableEq

/-- language of `repair index`: index saves, then index removals; nothing else. -/
def acceptTrace : List TEv → Bool
  | [] => true
  | .saveIndex _ :: rest => acceptTrace rest
  | .removeIndex _ :: rest => rest.all (fun e => match e with | .removeIndex _ => true | _ => false)
  | .other _ :: _ => false

end Restic.Model.RepairIndex
