/-
Model for C38 (the local cache never changes what restic reads):
  `cacheBackend.Load` / `loadFromCache` / `cacheFile` (internal/backend/cache/backend.go),
  `Cache.load` / `Cache.Forget` / `Cache.remove` (internal/backend/cache/file.go) and
  `Repository.LoadRaw` with its verify – forget – retry (internal/repository/raw.go), plus the
  single-pack core of `LoadBlob`'s error – forget – retry (internal/repository/repository.go).

One handle is modelled: the repository's bytes `be` (absent = deleted from the repository), the
cache cell `cell` (absent or *arbitrary* bytes: stale, truncated, bit-flipped …) and the
once-per-run `forgotten` mark. Other processes sharing the cache directory are an adversary that
may replace or delete the cell at the interleaving points (`Adv`). `hash` is a parameter.
Core Lean only.
-/
namespace Restic.Model.Cache

abbrev Bytes := List UInt8

/-- how the file type of the handle is treated (`cacheLayoutPaths`, `autoCacheTypes`) -/
inductive Kind where
  | notCacheable     -- key, lock, config
  | cacheable        -- data pack that is not marked as metadata: used if present, never auto-stored
  | autoCached       -- index, snapshot, metadata pack
deriving DecidableEq, Repr

inductive Err where
  | backendNotExist | backendTooSmall | cacheTooShort | invalidData | verifyFailed
  | backendFail      -- transient failure of the wrapped backend's Load
deriving DecidableEq, Repr

inductive Res where
  | ok (b : Bytes)
  | err (e : Err)
  | errWithData (e : Err) (b : Bytes)   -- LoadRaw returns the corrupt buffer along with ErrInvalidData
deriving DecidableEq, Repr

structure S where
  be : Option Bytes
  cell : Option Bytes
  forgotten : Bool
deriving DecidableEq, Repr

/-- interference by another process at an interleaving point: `none` = nothing happens,
    `some v` = the cache cell now is `v` -/
abbrev Adv := Option (Option Bytes)

def applyAdv (a : Adv) (s : S) : S :=
  match a with
  | none => s
  | some v => { s with cell := v }

/-- the byte range a reader with (length, offset) yields; length 0 = to the end -/
def slice (c : Bytes) (length offset : Nat) : Bytes :=
  if length = 0 then c.drop offset else (c.drop offset).take length

/-- `Cache.load` + consumer on an existing cell -/
def readCell (c : Bytes) (length offset : Nat) : Res :=
  if c.length < offset + length then .err .cacheTooShort else .ok (slice c length offset)

/-- fault of one `Load` of the wrapped backend: none; failure before the consumer runs; or the
    body ends early with a clean EOF after `n` bytes, the consumer returns nil, and only then `Load`
    reports the error (`util.DefaultLoad` returns `rd.Close()`'s error) -/
inductive Fault where
  | none | failBefore | late (n : Nat)
deriving DecidableEq, Repr

/-- `Backend.Load` of the wrapped backend with the caller's consumer (reads everything it gets).
    A late failure yields an error, but the consumer has already seen (truncated) data. -/
def beLoad (be : Option Bytes) (length offset : Nat) (f : Fault := .none) : Res :=
  match f with
  | .failBefore => .err .backendFail
  | _ =>
    match be with
    | none => .err .backendNotExist
    | some d =>
      if d.length < offset + length then .err .backendTooSmall
      else match f with
        | .late n => .errWithData .backendFail ((slice d length offset).take n)
        | _ => .ok (slice d length offset)

/-- faults of the (at most two) backend loads inside one `cacheBackend.Load`: `dl` for the download
    by `cacheFile`, `be` for the direct / fall-back load with the caller's consumer -/
structure Faults where
  dl : Fault := .none
  be : Fault := .none
deriving DecidableEq, Repr

/-- `cacheBackend.Load` (one loader at a time; `a1` acts between the first cache miss and
    `cacheFile`'s `Has`, `a2` between the download and the second `loadFromCache`) -/
def cbLoad (k : Kind) (length offset : Nat) (a1 a2 : Adv) (s : S) (f : Faults := {}) : S × Res :=
  -- inCache, err := b.loadFromCache(...)
  match (if k = .notCacheable then none else s.cell) with
  | some c => (s, readCell c length offset)            -- "the caller must explicitly use cache.Forget()"
  | none =>
    if k ≠ .autoCached then (s, beLoad s.be length offset f.be)
    else
      let s := applyAdv a1 s
      -- cacheFile: `if !b.Cache.Has(h)` download with `Cache.save` as consumer; whenever the
      -- download returns an error — also one reported after the consumer stored a (truncated)
      -- body — the entry is removed again: `if err != nil { b.Cache.remove(h) }`
      let dl : S × Option Err :=
        if s.cell.isSome then (s, none)
        else match f.dl with
          | .failBefore => ({ s with cell := none }, some .backendFail)
          | fl =>
            match s.be with
            | none => ({ s with cell := none }, some .backendNotExist)
            | some d =>
              match fl with
              | .late _ => ({ s with cell := none }, some .backendFail)
              | _ => ({ s with cell := some d }, none)
      match dl.2 with
      | some e => (dl.1, .err e)
      | none =>
        let s := applyAdv a2 dl.1
        match s.cell with
        | some c => (s, readCell c length offset)
        | none => (s, beLoad s.be length offset f.be)  -- "falling back to backend"

/-- `Cache.Forget`: at most once per run, and only marks when a file was really removed -/
def forget (k : Kind) (s : S) : S :=
  if s.forgotten then s
  else if k ≠ .notCacheable ∧ s.cell.isSome then { s with cell := none, forgotten := true }
  else s

structure Advs where
  a1 : Adv := none
  a2 : Adv := none
  a3 : Adv := none
  a4 : Adv := none
  f1 : Faults := {}      -- backend faults during the first / second `cacheBackend.Load`
  f2 : Faults := {}
deriving Repr

/-- what `loadRaw`'s consumer left in `buf` -/
def bufOf : Res → Bytes
  | .ok b => b
  | .errWithData _ b => b
  | _ => []

/-- `Repository.LoadRaw` (whole file: length 0, offset 0) -/
def loadRaw {ID : Type} [DecidableEq ID] (hash : Bytes → ID) (id : ID) (k : Kind) (isConfig : Bool)
    (adv : Advs) (s : S) : S × Res :=
  let r1 := cbLoad k 0 0 adv.a1 adv.a2 s adv.f1
  if !isConfig && decide (hash (bufOf r1.2) ≠ id) then
    let s2 := forget k r1.1
    let r2 := cbLoad k 0 0 adv.a3 adv.a4 s2 adv.f2
    match r2.2 with
    | .ok b => if hash b ≠ id then (r2.1, .errWithData .invalidData b) else (r2.1, .ok b)
    | .errWithData e _ => (r2.1, .err e)
    | e => (r2.1, e)
  else
    -- `if err != nil { return nil, err }`
    match r1.2 with
    | .errWithData e _ => (r1.1, .err e)
    | _ => r1

/-- The core of `LoadBlob` for a blob stored in one pack: `loadBlob` reads the blob's range and
    verifies it (`verify` = decrypt, decompress, compare the content address: C02); on any error the
    pack is forgotten and the read is tried once more. -/
def loadBlob1 (verify : Bytes → Bool) (k : Kind) (length offset : Nat) (adv : Advs) (s : S) : S × Res :=
  let try1 := cbLoad k length offset adv.a1 adv.a2 s adv.f1
  let ok1 : Bool := match try1.2 with | .ok b => verify b | _ => false
  if ok1 then try1
  else
    let s2 := forget k try1.1
    let try2 := cbLoad k length offset adv.a3 adv.a4 s2 adv.f2
    match try2.2 with
    | .ok b => if verify b then try2 else (try2.1, .err .verifyFailed)
    | .errWithData e _ => (try2.1, .err e)
    | e => (try2.1, e)

/-! ### executable statement of C38 for one load -/

/-- what the error-free, cache-less repository gives -/
def plainRaw (be : Option Bytes) : Option Bytes := be

/-- C38 on one `LoadRaw`: state before, result, cell afterwards. `good b` = the bytes match the
    content address. Returns the violated clause. -/
def specViolation (good : Bytes → Bool) (k : Kind) (interference : Bool) (before : S) (res : Res) (cellAfter : Option Bytes) :
    Option String :=
  -- 1. a successful load returns verified bytes, equal to the repository's file whenever that
  --    file is itself intact (a file deleted from / damaged in the repository may still be
  --    served from a healthy cached copy: content-addressed, so it is what the repository stored)
  let c1 : Option String := match res with
    | .ok b =>
      if !good b then some "ok-with-bytes-not-matching-id"
      else match before.be with
        | some d => if good d && d != b && !interference then some "ok-with-bytes-differing-from-repository" else none
        | none => none
    | _ => none
  -- 2. a corrupted cached file is detected and replaced (first time in this run, nobody interferes)
  let corrupt : Bool := match before.cell with | some c => !good c | none => false
  let c2 : Option String :=
    if corrupt && k != .notCacheable && !before.forgotten && !interference then
      if cellAfter == none || cellAfter == before.be then none else some "corrupt-cache-file-not-replaced"
    else none
  -- 3. with a healthy repository file a corrupt cache (first time) does not make the load fail
  let c3 : Option String :=
    match before.be with
    | some d =>
      if good d && !before.forgotten && !interference then
        (match res with | .ok _ => none | _ => some "healthy-file-not-loaded-despite-retry")
      else none
    | none => none
  c1 <|> c2 <|> c3

/-- The cache by itself never stores or serves wrong bytes: statement for one
    `cacheBackend.Load` when nobody else writes to the cache directory. `cellOK` = the cell is
    absent or equals the repository's file. -/
def cellOK (s : S) : Bool := s.cell == none || s.cell == s.be

def cbSpecViolation (length offset : Nat) (before : S) (res : Res) (cellAfter : Option Bytes) : Option String :=
  if !cellOK before then none else
  let c1 : Option String := match res with
    | .ok b => (match before.be with
      | some d => if b == slice d length offset then none else some "ok-with-bytes-differing-from-repository"
      | none => some "ok-for-file-not-in-repository")
    | _ => none
  let c2 : Option String :=
    if cellAfter == none || cellAfter == before.be then none else some "cache-stores-bytes-differing-from-repository"
  c1 <|> c2

def specOK (good : Bytes → Bool) (k : Kind) (interference : Bool) (before : S) (res : Res) (cellAfter : Option Bytes) : Bool :=
  (specViolation good k interference before res cellAfter).isNone

end Restic.Model.Cache
