import Restic.Model.RepairIndex
/-
Model of `repair packs` and `repair snapshots` (C34):
 * `repository.RepairPacks`, `resolveBlobsForPacks`, `reuploadBlobsFromPack`
   (internal/repository/repair_pack.go), with `MasterIndex.Rewrite` reused from
   `Restic.Model.RepairIndex`;
 * the `RewriteNode` / `RewriteFailedTree` callbacks of cmd/restic/cmd_repair_snapshots.go over
   `walker.TreeRewriter.RewriteTree` (internal/walker/rewriter.go).
Core Lean only.
-/
namespace Restic.Model.RepairPacks
open Restic.Model.RepairIndex

/-- `restic.BlobHandle` -/
structure Handle where
  typ : Nat
  id : ID
deriving DecidableEq, Repr, Inhabited

def handleOf (e : Entry) : Handle := ⟨e.typ, e.id⟩

/-- what `RepairPacks` knows about one pack named on the command line -/
structure NamedPack where
  id : ID
  idx : List Entry            -- `listPacksFromIndex`: blobs the (merged) index lists for the pack
  hdr : Option (List Entry)   -- `resolveBlobsForPacks`: `listPack`; none = error / pack not stored
deriving Repr, Inhabited

/-- `reuploadBlobsFromPack`: the blobs are streamed in offset order (`blobs.Sort()` in
    `streamPack`); a blob whose load fails is logged and skipped, every other one is saved again
    (`SaveBlob(…, storeDuplicate = true)`). `loadable p e` is the oracle "`loadBlobsFromPack`
    delivers blob `e` of pack `p` without error" (from the pack bytes, or through the `LoadBlob`
    fallback from another indexed copy). -/
def reupload (loadable : ID → Entry → Bool) (p : ID) (blobs : List Entry) : List Handle :=
  ((sortOff blobs).filter (loadable p)).map handleOf

/-- loop body of `RepairPacks` for one pack -/
def repairOne (loadable : ID → Entry → Bool) (np : NamedPack) : List Handle :=
  reupload loadable np.id np.idx ++
    (match np.hdr with
     | some hb => if sortOff np.idx != sortOff hb then reupload loadable np.id hb else []
     | none => [])

inductive Ev where
  | upload (h : Handle)          -- SaveBlob into a new pack
  | flush                        -- WithBlobUploader returns: new packs and their index are stored
  | idx (e : RepairIndex.Ev)     -- events of rewriteIndexFiles(ids, nil, nil)
  | removePack (id : ID)
deriving Repr

structure Result where
  uploaded : List Handle
  rw : RwState                   -- result of `Rewrite(excludePacks = ids)` over all index files
  trace : List Ev
deriving Repr

/-- `RepairPacks(ids)`; `idxs` = the stored (loaded) index files -/
def repairPacks (loadable : ID → Entry → Bool) (named : List NamedPack) (idxs : List IdxFile) : Result :=
  let uploaded := named.flatMap (repairOne loadable)
  let rw := rewrite (named.map (·.id)) idxs []
  { uploaded, rw,
    trace := uploaded.map Ev.upload ++ [Ev.flush] ++
      ((if rw.newIndex.isEmpty then [] else [Ev.idx (.saveIdx rw.newIndex)]) ++
        rw.obsolete.map (fun i => Ev.idx (.removeIdx i))) ++
      named.map (fun np => Ev.removePack np.id) }

/-! ### executable statement (packs part) -/

/-- every blob of a named pack that the index or the pack header lists and that can still be
    loaded is among the handles available afterwards; nothing that was available from other
    packs is lost; the named packs are gone from the pack listing and from the index. -/
def specPacks (loadable : ID → Entry → Bool) (named : List NamedPack) (other : List Handle)
    (availAfter : List Handle) (packsAfter idxPacksAfter : List ID) : Bool :=
  named.all (fun np =>
    (np.idx ++ np.hdr.getD []).all (fun e => !loadable np.id e || availAfter.contains (handleOf e))) &&
  other.all (availAfter.contains ·) &&
  named.all (fun np => !packsAfter.contains np.id && !idxPacksAfter.contains np.id)

/-! ### trace acceptance for recorded runs -/

inductive TEv where
  | saveData (id : ID)
  | saveIndex (id : ID)
  | removeIndex (id : ID)
  | removeData (id : ID)
  | other (what : String)
deriving Repr, DecidableEq

/-- phases of `repair packs`: (save data | save index)*, (remove index)*, (remove named pack)* -/
def acceptFrom (named : List ID) : Nat → List TEv → Bool
  | _, [] => true
  | ph, .saveData _ :: rest => ph == 0 && acceptFrom named 0 rest
  | ph, .saveIndex _ :: rest => ph == 0 && acceptFrom named 0 rest
  | ph, .removeIndex _ :: rest => ph ≤ 1 && acceptFrom named 1 rest
  | _, .removeData i :: rest => named.contains i && acceptFrom named 2 rest
  | _, .other _ :: _ => false

def acceptTrace (named : List ID) (t : List TEv) : Bool := acceptFrom named 0 t

/-! ### repair snapshots: the tree rewriter with the repair callbacks -/

mutual
inductive Node where
  | file (name : String) (md : String) (content : List ID) (size : Nat)
  | dir (name : String) (md : String) (sub : Sub)
  | other (name : String) (md : String)      -- symlink, device, fifo, socket: returned unchanged
  | invalid (name : String) (md : String)    -- NodeTypeIrregular / NodeTypeInvalid: removed
inductive Sub where
  | missing                  -- subtree id nil, or the tree blob cannot be loaded
  | tree (nodes : Nodes)
inductive Nodes where
  | nil
  | cons (n : Node) (rest : Nodes)
end

/-- `RewriteNode` for a file: keep the content blobs the index knows, recompute the size -/
def fixContent (avail : ID → Option Nat) (content : List ID) : List ID :=
  content.filter fun i => (avail i).isSome

def sumSizes (avail : ID → Option Nat) (content : List ID) : Nat :=
  (content.map fun i => (avail i).getD 0).sum

mutual
/-- `RewriteNode` + the directory branch of `RewriteTree`; `none` = node dropped -/
def rwNode (avail : ID → Option Nat) : Node → Option Node
  | .file n m c _ => some (.file n m (fixContent avail c) (sumSizes avail (fixContent avail c)))
  | .dir n m sub => some (.dir n m (.tree (rwSub avail sub)))
  | .other n m => some (.other n m)
  | .invalid _ _ => none
/-- `RewriteTree` of a non-root directory: a failed load is replaced by an empty tree
    (`RewriteFailedTree`, path ≠ "/") -/
def rwSub (avail : ID → Option Nat) : Sub → Nodes
  | .missing => .nil
  | .tree ns => rwNodes avail ns
def rwNodes (avail : ID → Option Nat) : Nodes → Nodes
  | .nil => .nil
  | .cons n rest =>
    match rwNode avail n with
    | some n' => .cons n' (rwNodes avail rest)
    | none => rwNodes avail rest
end

/-- `RewriteTree` at the root: an unreadable root removes the snapshot (`none`) -/
def rwRoot (avail : ID → Option Nat) : Sub → Option Nodes
  | .missing => none
  | .tree ns => some (rwNodes avail ns)

/-! executable statement (snapshots part) -/

mutual
/-- what `check` demands of a tree: every file's blobs are indexed and the recorded size is the
    sum of the blob sizes, every subtree is loadable and OK itself, no node of invalid type -/
def nodeOK (avail : ID → Option Nat) : Node → Bool
  | .file _ _ c s => c.all (fun i => (avail i).isSome) && s == sumSizes avail c
  | .dir _ _ sub => subOK avail sub
  | .other _ _ => true
  | .invalid _ _ => false
def subOK (avail : ID → Option Nat) : Sub → Bool
  | .missing => false
  | .tree ns => nodesOK avail ns
def nodesOK (avail : ID → Option Nat) : Nodes → Bool
  | .nil => true
  | .cons n rest => nodeOK avail n && nodesOK avail rest
end

def Node.name : Node → String
  | .file n _ _ _ => n
  | .dir n _ _ => n
  | .other n _ => n
  | .invalid n _ => n

/-- first node with the given name (what a path lookup sees) -/
def Nodes.find (name : String) : Nodes → Option Node
  | .nil => none
  | .cons n rest => if n.name == name then some n else rest.find name

/-- look a path up: descend through loadable directories -/
def lookup : List String → Nodes → Option Node
  | [], _ => none
  | [x], ns => ns.find x
  | x :: y :: rest, ns =>
    match ns.find x with
    | some (.dir _ _ (.tree sub)) => lookup (y :: rest) sub
    | _ => none

/-- a file whose data is fully available (and whose recorded size is consistent) -/
def intactFile (avail : ID → Option Nat) : Node → Bool
  | .file _ _ c s => c.all (fun i => (avail i).isSome) && s == sumSizes avail c
  | _ => false

end Restic.Model.RepairPacks
