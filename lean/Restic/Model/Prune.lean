import Restic.Model.Repo
import Restic.Gen.Consts
/-!
# Prune: planning (`PlanPrune`) and execution protocol (`PrunePlan.Execute`)

Close transcription of `internal/repository/prune.go`:

* `packInfoFromIndex` — the three passes over the index in `ListBlobs` order: occurrence counter
  per used blob saturating at 255, missing-blob abort, per-pack accounting, duplicate pass with
  the three-way condition and the "0 marks the last remaining occurrence" trick, final sanity
  check (`panic`);
* `decidePackAction` — loop over the listed pack files (unindexed ⇒ remove first, size check,
  remove / keep / candidate), missing packs (ignored when unneeded, error otherwise), the
  "fewer than 10 small packs are kept" rule, and the repack loop. The order of candidates after
  `sort.Slice` and the float valued `MaxUnusedBytes` only influence *which* candidates are
  repacked; that is abstracted to a choice oracle `choice : ID → Bool` (theorems quantify over
  every oracle; the driver feeds the observed choice). For `--max-unused 0` without repack limit
  the choice is forced (`forcedChoice`);
* the `keepBlobs` subtraction loop of `PlanPrune` and the statistics totals;
* `step`/`accept`: the language of backend operation sequences `Execute` may produce
  (phases: delete unindexed packs; save packs and index files; delete index files; delete packs)
  with the local guards the safety proof needs.

Maps are functions with point updates; Go `uint` arithmetic is `Nat` (subtractions are proved /
observed not to underflow); the `uint8` counter is a `Nat` that is never incremented beyond 255.

`marks` in the state of the duplicate pass is ghost state (one flag per visited entry, newest
first: "this entry was switched to used"); it does not influence any other field.

Core Lean only.
-/
namespace Restic.Model.Prune
open Restic.Model.Repo

/-- one item of `ListBlobs`: a blob stored in a pack -/
structure PB where
  pack : ID
  e : Entry
deriving DecidableEq, Repr, Inhabited

/-- `packInfo.tpe`: a blob type, `InvalidBlob` for mixed packs, `NumBlobTypes` for "not set" -/
inductive PType | invalid | data | tree | unset
deriving DecidableEq, Repr, Inhabited

def PType.ofB : BType → PType
  | .data => .data
  | .tree => .tree

structure PackInfo where
  usedBlobs : Nat := 0
  unusedBlobs : Nat := 0
  duplicateBlobs : Nat := 0
  usedSize : Nat := 0
  unusedSize : Nat := 0
  tpe : PType := .invalid
  uncompressed : Bool := false
deriving DecidableEq, Repr, Inhabited

structure Stats where
  bUsed : Nat := 0
  bDup : Nat := 0
  bUnused : Nat := 0
  bTotal : Nat := 0
  bRepack : Nat := 0
  bRepackrm : Nat := 0
  bRemove : Nat := 0
  bRemoveTotal : Nat := 0
  bRemain : Nat := 0
  sUsed : Nat := 0
  sDup : Nat := 0
  sUnused : Nat := 0
  sUnref : Nat := 0
  sUncomp : Nat := 0
  sTotal : Nat := 0
  sRepack : Nat := 0
  sRepackrm : Nat := 0
  sRemove : Nat := 0
  sRemoveTotal : Nat := 0
  sRemain : Nat := 0
  sRemainUnused : Nat := 0
  pUsed : Nat := 0
  pUnused : Nat := 0
  pPartly : Nat := 0
  pUnref : Nat := 0
  pTotal : Nat := 0
  pKeep : Nat := 0
  pRepack : Nat := 0
  pRemove : Nat := 0
  pRemoveTotal : Nat := 0
deriving DecidableEq, Repr, Inhabited

inductive PruneErr
  | badOptions          -- connection limit, compression on v1, repack-smaller-than too large
  | indexIncomplete     -- ErrIndexIncomplete: a used blob is in no index
  | packsMissing        -- ErrPacksMissing: a needed pack is not in the repository
  | sizeNotMatching     -- ErrSizeNotMatching
  | panicSelection      -- panic("internal error during blob selection")
deriving DecidableEq, Repr, Inhabited

abbrev Cnt := BlobH → Option Nat
abbrev IP := ID → Option PackInfo

def upd {α β : Type} [DecidableEq α] (f : α → β) (k : α) (v : β) : α → β :=
  fun x => if x = k then v else f x

/-! ## packInfoFromIndex -/

def initCnt (used : List BlobH) : Cnt := fun b => if b ∈ used then some 0 else none

/-- function-valued loop states are wrapped in a structure so that the compiled model evaluates
    them once per step (an unwrapped function-valued `def` is compiled to a closure that redoes
    the whole loop on every lookup) -/
structure CntS where
  f : Cnt

structure HdrS where
  f : ID → Option Nat

/-- first pass: count occurrences of used blobs, saturating at 255 (`math.MaxUint8`) -/
def countStep (c : CntS) (pb : PB) : CntS :=
  match c.f pb.e.blob with
  | some n => ⟨upd c.f pb.e.blob (some (if n < 255 then n + 1 else n))⟩
  | none => c

def countPass (used : List BlobH) (idx : List PB) : CntS := idx.foldl countStep ⟨initCnt used⟩

/-- `pack.CalculateEntrySize` -/
def entrySizeOf (compressed : Bool) : Nat :=
  if compressed then Restic.Gen.pack_entrySize else Restic.Gen.pack_plainEntrySize

/-- `pack.Size(ctx, idx, onlyHdr = true)` -/
def hdrStep (sz : HdrS) (pb : PB) : HdrS :=
  let size := (sz.f pb.pack).getD Restic.Gen.pack_headerSize
  ⟨upd sz.f pb.pack (some (size + entrySizeOf (!pb.e.unc)))⟩

def hdrSizes (idx : List PB) : HdrS := idx.foldl hdrStep ⟨fun _ => none⟩

/-- the keys of the `indexPack` map, in first-occurrence order -/
def packKeys (idx : List PB) : List ID := (idx.map (·.pack)).eraseDups

/-- `indexPack` initialised with the computed header sizes, type "not set" -/
def ipOf (hs : HdrS) : IP := fun p =>
  (hs.f p).map fun h => { tpe := .unset, usedSize := h }

structure S2 where
  ip : IP
  st : Stats
  hasDup : Bool

/-- second pass: per-pack accounting; duplicates are counted as unused for now -/
def pass2Step (cnt : Cnt) (s : S2) (pb : PB) : S2 :=
  let ip0 : PackInfo := (s.ip pb.pack).getD {}
  let t := PType.ofB pb.e.blob.tpe
  let ip1 := if ip0.tpe = .unset then { ip0 with tpe := t } else ip0
  let ip2 := if ip1.tpe ≠ t then { ip1 with tpe := .invalid } else ip1
  let size := pb.e.len
  let dupCount := (cnt pb.e.blob).getD 0
  let ip3 : PackInfo :=
    if dupCount ≥ 2 then
      { ip2 with unusedSize := ip2.unusedSize + size, unusedBlobs := ip2.unusedBlobs + 1,
                 duplicateBlobs := ip2.duplicateBlobs + 1 }
    else if dupCount = 1 then
      { ip2 with usedSize := ip2.usedSize + size, usedBlobs := ip2.usedBlobs + 1 }
    else
      { ip2 with unusedSize := ip2.unusedSize + size, unusedBlobs := ip2.unusedBlobs + 1 }
  let st : Stats :=
    if dupCount ≥ 2 then { s.st with sDup := s.st.sDup + size, bDup := s.st.bDup + 1 }
    else if dupCount = 1 then { s.st with sUsed := s.st.sUsed + size, bUsed := s.st.bUsed + 1 }
    else { s.st with sUnused := s.st.sUnused + size, bUnused := s.st.bUnused + 1 }
  let ip4 := if pb.e.unc then { ip3 with uncompressed := true } else ip3
  { ip := upd s.ip pb.pack (some ip4), st := st, hasDup := s.hasDup || decide (dupCount ≥ 2) }

structure S3 where
  cnt : Cnt
  ip : IP
  st : Stats
  marks : List Bool   -- ghost: per visited entry (newest first), was it switched to "used"

/-- third pass (only when duplicates exist): select one occurrence of every duplicated blob -/
def pass3Step (s : S3) (pb : PB) : S3 :=
  match s.cnt pb.e.blob with
  | none => { s with marks := false :: s.marks }
  | some count =>
    if count = 1 then { s with marks := false :: s.marks } else
    let ip : PackInfo := (s.ip pb.pack).getD {}
    let size := pb.e.len
    if ip.usedBlobs > 0 ∨ ip.duplicateBlobs = ip.unusedBlobs ∨ count = 0 then
      { cnt := upd s.cnt pb.e.blob (some 1)
        ip := upd s.ip pb.pack (some { ip with usedSize := ip.usedSize + size, usedBlobs := ip.usedBlobs + 1,
                                               unusedSize := ip.unusedSize - size, unusedBlobs := ip.unusedBlobs - 1 })
        st := { s.st with sUsed := s.st.sUsed + size, bUsed := s.st.bUsed + 1,
                          sDup := s.st.sDup - size, bDup := s.st.bDup - 1 }
        marks := true :: s.marks }
    else
      let c := count - 1
      let c := if c = 1 then 0 else c
      { s with cnt := upd s.cnt pb.e.blob (some c), ip := upd s.ip pb.pack (some ip), marks := false :: s.marks }

structure PackInfoResult where
  cnt : Cnt
  ip : IP
  st : Stats
  marks : List Bool   -- ghost: in index order, "this duplicate entry was selected"

/-- second and (if duplicates exist) third pass -/
def pass23 (cnt : CntS) (idx : List PB) (st : Stats) : S3 :=
  let hs := hdrSizes idx
  let s2 := idx.foldl (pass2Step cnt.f) { ip := ipOf hs, st := st, hasDup := false }
  if s2.hasDup then idx.foldl pass3Step { cnt := cnt.f, ip := s2.ip, st := s2.st, marks := [] }
  else { cnt := cnt.f, ip := s2.ip, st := s2.st, marks := idx.map fun _ => false }

def packInfoFromIndex (used : List BlobH) (idx : List PB) (st : Stats) : Except PruneErr PackInfoResult :=
  let cnt := countPass used idx
  if used.any (fun b => cnt.f b == some 0) then .error .indexIncomplete else
  let s3 := pass23 cnt idx st
  if used.any (fun b => s3.cnt b != some 1) then .error .panicSelection else
  .ok { cnt := s3.cnt, ip := s3.ip, st := s3.st, marks := s3.marks.reverse }

/-! ## decidePackAction -/

structure Opts where
  repackCacheableOnly : Bool := false
  repackUncompressed : Bool := false
  smallPackBytes : Nat := 0
  maxRepackBytes : Nat := 2 ^ 64 - 1
  maxUnusedZero : Bool := false     -- `--max-unused 0` (absolute or percent): MaxUnusedBytes ≡ 0
  repoVersion : Nat := 2
  packSize : Nat := Restic.Gen.repo_DefaultPackSize
  connections : Nat := 2
deriving Repr, Inhabited

structure Cand where
  id : ID
  info : PackInfo
  mustCompress : Bool
deriving Repr, Inhabited

/-- insertion sort (structural, so that examples evaluate by `decide`); only the element at one
    position of the sorted sizes is used -/
def insertNat (a : Nat) : List Nat → List Nat
  | [] => [a]
  | b :: l => if a ≤ b then a :: b :: l else b :: insertNat a l

def sortNat (l : List Nat) : List Nat := l.foldr insertNat []

/-- `calculateTargetPacksize` -/
def targetPackSize (o : Opts) (keys : List ID) (ip : IP) : Nat :=
  let t :=
    if keys.length > 0 then
      let sizes := sortNat (keys.map fun k => let p : PackInfo := (ip k).getD {}; p.usedSize + p.unusedSize)
      (max Restic.Gen.repo_MinPackSize (sizes.getD (keys.length * 3 / 100) 0)) * 4 / 5
    else 0
  if o.smallPackBytes > 0 then o.smallPackBytes else t

structure D1 where
  ip : IP
  removeFirst : List ID := []
  removePacks : List ID := []
  cands : List Cand := []
  small : List Cand := []
  st : Stats

/-- the four outcomes of the `switch` that decides what to do with a listed, indexed pack -/
inductive Action | remove | keep | small | cand
deriving DecidableEq, Repr, Inhabited

def mustCompressOf (o : Opts) (p : PackInfo) : Bool :=
  decide (o.repoVersion ≥ 2) && ((p.tpe = .tree || o.repackUncompressed) && p.uncompressed)

/-- the "decide what to do" switch of `decidePackAction`, same case order -/
def packAction (o : Opts) (target : Nat) (p : PackInfo) (packSize : Nat) : Action :=
  if p.usedBlobs = 0 then .remove
  else if o.repackCacheableOnly ∧ p.tpe = .data then .keep
  else if p.unusedBlobs = 0 ∧ p.tpe ≠ .invalid ∧ mustCompressOf o p = false then
    if packSize ≥ target then .keep else .small
  else .cand

/-- statistics updated for one listed, indexed pack -/
def listStats (st : Stats) (p : PackInfo) (a : Action) : Stats :=
  let st : Stats :=
    if p.usedBlobs = 0 then { st with pUnused := st.pUnused + 1 }
    else if p.unusedBlobs = 0 then { st with pUsed := st.pUsed + 1 }
    else { st with pPartly := st.pPartly + 1 }
  let st : Stats := if p.uncompressed then { st with sUncomp := st.sUncomp + (p.unusedSize + p.usedSize) } else st
  match a with
  | .remove => { st with bRemove := st.bRemove + p.unusedBlobs, sRemove := st.sRemove + p.unusedSize }
  | .keep => { st with pKeep := st.pKeep + 1 }
  | _ => st

/-- body of the callback of `repo.List(PackFile, …)` for one listed pack -/
def listStep (o : Opts) (target : Nat) (s : D1) (id : ID) (packSize : Nat) : Except PruneErr D1 :=
  match s.ip id with
  | none => .ok { s with removeFirst := s.removeFirst ++ [id], st := { s.st with sUnref := s.st.sUnref + packSize } }
  | some p =>
    if p.unusedSize + p.usedSize ≠ packSize ∧ p.usedBlobs ≠ 0 then .error .sizeNotMatching else
    let a := packAction o target p packSize
    let c : Cand := { id := id, info := p, mustCompress := mustCompressOf o p }
    .ok { ip := upd s.ip id none
          removeFirst := s.removeFirst
          removePacks := if a = .remove then s.removePacks ++ [id] else s.removePacks
          cands := if a = .cand then s.cands ++ [c] else s.cands
          small := if a = .small then s.small ++ [c] else s.small
          st := listStats s.st p a }

def listLoop (o : Opts) (target : Nat) : D1 → List (ID × Nat) → Except PruneErr D1
  | s, [] => .ok s
  | s, (id, size) :: rest =>
    match listStep o target s id size with
    | .error e => .error e
    | .ok s' => listLoop o target s' rest

/-- missing packs (still in `indexPack` after the listing): unneeded ones are ignored -/
def ignoreStep (s : D1 × List ID) (id : ID) : D1 × List ID :=
  match s.1.ip id with
  | none => s
  | some p =>
    if p.usedBlobs = 0 then
      ({ s.1 with ip := upd s.1.ip id none,
                  st := { s.1.st with bRemove := s.1.st.bRemove + p.unusedBlobs, sRemove := s.1.st.sRemove + p.unusedSize } },
       s.2 ++ [id])
    else s

/-- the `repack` closure -/
def repackStats (st : Stats) (p : PackInfo) : Stats :=
  let st := { st with bRepack := st.bRepack + (p.unusedBlobs + p.usedBlobs), sRepack := st.sRepack + (p.unusedSize + p.usedSize),
                      bRepackrm := st.bRepackrm + p.unusedBlobs, sRepackrm := st.sRepackrm + p.unusedSize }
  if p.uncompressed then { st with sUncomp := st.sUncomp - (p.unusedSize + p.usedSize) } else st

/-- the repack loop; which candidates are repacked is the oracle's choice -/
def selStep (choice : ID → Bool) (s : Stats × List ID) (c : Cand) : Stats × List ID :=
  if choice c.id then (repackStats s.1 c.info, s.2 ++ [c.id])
  else ({ s.1 with pKeep := s.1.pKeep + 1 }, s.2)

structure Plan where
  removeFirst : List ID
  repack : List ID
  remove : List ID
  ignore : List ID
  keep : Option (List BlobH)
  stats : Stats
deriving Repr, Inhabited

def decidePackAction (o : Opts) (choice : ID → Bool) (keys : List ID) (ip : IP) (packs : List (ID × Nat)) (st : Stats) :
    Except PruneErr Plan :=
  let target := targetPackSize o keys ip
  match listLoop o target { ip := ip, st := st } packs with
  | .error e => .error e
  | .ok d =>
    let (d, ignore) := keys.foldl ignoreStep (d, [])
    if keys.any (fun k => (d.ip k).isSome) then .error .packsMissing else
    let (st, cands) : Stats × List Cand :=
      if d.small.length < 10 then ({ d.st with pKeep := d.st.pKeep + d.small.length }, d.cands)
      else (d.st, d.cands ++ d.small)
    let (st, repack) := cands.foldl (selStep choice) (st, [])
    let st := { st with pUnref := d.removeFirst.eraseDups.length, pRepack := repack.eraseDups.length,
                        pRemove := d.removePacks.eraseDups.length }
    let st := if o.repoVersion < 2 then { st with sUncomp := 0 } else st
    .ok { removeFirst := d.removeFirst, repack := repack, remove := d.removePacks, ignore := ignore, keep := none, stats := st }

/-! ## PlanPrune -/

/-- the `keepBlobs` subtraction loop: a blob stored in a pack that stays is not repacked.
    `skipIgnored` = the loop also skips index entries of *missing* (ignored) packs; `false` is the
    code as found at the pinned commit (finding F17), `true` the corrected code. -/
def keepStep (skipIgnored : Bool) (pl : Plan) (k : List BlobH) (pb : PB) : List BlobH :=
  if pb.pack ∈ pl.remove ∨ pb.pack ∈ pl.repack ∨ (skipIgnored ∧ pb.pack ∈ pl.ignore) then k
  else k.filter (· ≠ pb.e.blob)

def totals (st : Stats) : Stats :=
  let st := { st with bTotal := st.bUsed + st.bUnused + st.bDup }
  let st := { st with bRemoveTotal := st.bRemove + st.bRepackrm }
  let st := { st with bRemain := st.bTotal - st.bRemoveTotal }
  let st := { st with sTotal := st.sUsed + st.sDup + st.sUnused + st.sUnref }
  let st := { st with sRemoveTotal := st.sRemove + st.sRepackrm + st.sUnref }
  let st := { st with sRemain := st.sTotal - st.sRemoveTotal }
  let st := { st with sRemainUnused := st.sDup + st.sUnused - st.sRemove - st.sRepackrm }
  let st := { st with pTotal := st.pUsed + st.pPartly + st.pUnused + st.pUnref }
  { st with pRemoveTotal := st.pUnref + st.pRemove }

def planPruneG (skipIgnored : Bool) (o : Opts) (choice : ID → Bool) (used : List BlobH) (idx : List PB)
    (packs : List (ID × Nat)) : Except PruneErr Plan :=
  if o.connections < 2 then .error .badOptions else
  if o.repoVersion < 2 ∧ o.repackUncompressed then .error .badOptions else
  if o.smallPackBytes > o.packSize then .error .badOptions else
  match packInfoFromIndex used idx {} with
  | .error e => .error e
  | .ok pi =>
    match decidePackAction o choice (packKeys idx) pi.ip packs pi.st with
    | .error e => .error e
    | .ok pl =>
      let keep := if pl.repack ≠ [] then some (idx.foldl (keepStep skipIgnored pl) used) else none
      .ok { pl with keep := keep, stats := totals pl.stats }

/-- the planner (with the F17 correction, which is what `/repo` contains after the fix commit) -/
def planPrune := planPruneG true

/-- with `--max-unused 0` and no repack limit every candidate is repacked -/
def forcedChoice (o : Opts) : Bool := o.maxUnusedZero && o.maxRepackBytes == 2 ^ 64 - 1

/-! ## The executable statement for a plan (`PlanOK`) -/

/-- `b` has an index entry in a pack that is listed and in none of the given sets -/
def hasCopyOutside (idx : List PB) (packs : List (ID × Nat)) (avoid : List ID) (b : BlobH) : Bool :=
  idx.any fun pb => pb.e.blob = b && !(avoid.contains pb.pack) && packs.any (fun x => x.1 = pb.pack)

def hasCopyIn (idx : List PB) (packs : List (ID × Nat)) (within : List ID) (b : BlobH) : Bool :=
  idx.any fun pb => pb.e.blob = b && within.contains pb.pack && packs.any (fun x => x.1 = pb.pack)

/-- C09 for a plan: packs deleted first are unindexed; ignored packs are absent; every used blob that is not going to be
    repacked has a copy in a present pack that is neither deleted nor repacked; every blob to be
    repacked lies in a present pack that is repacked. -/
def planOK (used : List BlobH) (idx : List PB) (packs : List (ID × Nat)) (pl : Plan) : Bool :=
  pl.removeFirst.all (fun p => !(idx.any fun pb => pb.pack = p)) &&
  pl.ignore.all (fun p => !(packs.any fun x => x.1 = p)) &&
  used.all fun b =>
    match pl.keep with
    | none => hasCopyOutside idx packs (pl.remove ++ pl.repack) b
    | some k =>
      if k.contains b then hasCopyIn idx packs pl.repack b
      else hasCopyOutside idx packs (pl.remove ++ pl.repack) b

/-! ## C10 for a plan -/

/-- the pack stays: neither deleted, nor repacked, nor missing -/
def keptB (pl : Plan) (p : ID) : Bool := !(pl.remove.contains p) && !(pl.repack.contains p) && !(pl.ignore.contains p)

/-- blob handles listed by the index after a completed prune: the entries of the packs that stay,
    plus one entry for every repacked blob -/
def afterBlobs (pl : Plan) (idx : List PB) : List BlobH :=
  (idx.filter fun x => keptB pl x.pack).map (·.e.blob) ++ pl.keep.getD []

/-- C10 (index part) for a plan: afterwards the index lists only used blobs, each exactly once,
    and only for packs that are present -/
def fullPlanOK (used : List BlobH) (idx : List PB) (packs : List (ID × Nat)) (pl : Plan) : Bool :=
  (afterBlobs pl idx).all (fun b => used.contains b) &&
  used.all (fun b => (afterBlobs pl idx).count b = 1) &&
  idx.all (fun x => !(keptB pl x.pack) || packs.any (fun y => y.1 = x.pack))

/-! ## Execution: the language of backend operation sequences -/

/-- what `Execute` needs from the plan -/
structure XPlan where
  removeFirst : List ID     -- unindexed packs, deleted first
  exclude : List ID         -- removePacks ∪ repackPacks ∪ ignorePacks: dropped from the index, then deleted
  keep : List BlobH         -- blobs that must be in new packs before anything referenced is deleted
deriving Repr, Inhabited

def Plan.toX (pl : Plan) : XPlan :=
  { removeFirst := pl.removeFirst, exclude := pl.remove ++ pl.repack ++ pl.ignore, keep := pl.keep.getD [] }

/-- `b` is listed by a present index file for a present pack holding it, the pack not in `avoid` -/
def hasWitness (avoid : List ID) (r : Repo) (b : BlobH) : Bool :=
  r.indexes.any fun i => i.2.any fun x =>
    !(avoid.contains x.1) && x.2.any (fun e => e.blob = b) && packHas r x.1 b

def noIndexNames (r : Repo) (p : ID) : Bool := r.indexes.all fun i => i.2.all fun x => x.1 ≠ p

/-- guard of an index save: fresh name; every entry names a present pack that holds exactly such
    an entry and that is not scheduled for deletion -/
def idxSaveOK (pl : XPlan) (r : Repo) (i : ID) (f : IdxFile) : Bool :=
  r.indexes.all (fun x => x.1 ≠ i) &&
  f.all fun x => !(pl.exclude.contains x.1) && !(pl.removeFirst.contains x.1) &&
    r.packs.any fun pk => pk.1 = x.1 && x.2.all fun e => pk.2.contains e

/-- guard of an index removal: every entry for a pack that stays is also listed by another index
    file that is present -/
def idxRemoveOK (pl : XPlan) (r : Repo) (i : ID) : Bool :=
  r.indexes.all fun ix => ix.1 ≠ i || ix.2.all fun x =>
    pl.exclude.contains x.1 || x.2.all fun e =>
      r.indexes.any fun j => j.1 ≠ i && j.2.any fun y => y.1 = x.1 && y.2.any fun e' => e'.blob = e.blob

/-- guard at the end of the saving phase (`keepBlobs.Len() != 0` check): every blob to repack has
    a copy outside the packs scheduled for deletion -/
def keepGuard (pl : XPlan) (r : Repo) : Bool :=
  pl.keep.all (hasWitness (pl.removeFirst ++ pl.exclude) r)

/-- phases: 0 deleting unindexed packs, 1 saving (new packs, index files), 2 deleting index
    files, 3 deleting packs. `step` returns the phase after the event, `none` = not allowed. -/
def step (pl : XPlan) (ph : Nat) (r : Repo) : Ev → Option Nat
  | .read _ _ => some ph
  | .save .lock _ _ => some ph
  | .remove .lock _ => some ph
  | .remove .pack p =>
    if ph = 0 ∧ pl.removeFirst.contains p ∧ noIndexNames r p then some 0
    else if pl.exclude.contains p ∧ noIndexNames r p ∧ (ph ≥ 2 ∨ keepGuard pl r) then some 3
    else none
  | .save .pack p (.pack _) =>
    if ph ≤ 1 ∧ !(packPresent r p) ∧ !(pl.exclude.contains p) ∧ !(pl.removeFirst.contains p) then some 1 else none
  | .save .index i (.index f) =>
    if ph ≤ 1 ∧ idxSaveOK pl r i f then some 1 else none
  | .remove .index i =>
    if ph ≤ 2 ∧ idxRemoveOK pl r i ∧ (ph = 2 ∨ keepGuard pl r) then some 2 else none
  | _ => none

def acceptFrom (pl : XPlan) : Nat → Repo → List Ev → Bool
  | _, _, [] => true
  | ph, r, e :: tr =>
    match step pl ph r e with
    | none => false
    | some ph' => acceptFrom pl ph' (apply r e) tr

/-- the acceptor for a prune run starting in repository state `r` -/
def accept (pl : XPlan) (r : Repo) (tr : List Ev) : Bool := acceptFrom pl 0 r tr

/-- index of the first event that is not allowed (for diagnostics) -/
def firstReject (pl : XPlan) : Nat → Repo → List Ev → Nat → Option Nat
  | _, _, [], _ => none
  | ph, r, e :: tr, n =>
    match step pl ph r e with
    | none => some n
    | some ph' => firstReject pl ph' (apply r e) tr (n + 1)

/-! ## C10: the executable statement after a completed full prune -/

/-- the distinct index entries (pack, blob entry): the same entry listed by two index files is one
    entry, as in the loaded master index (`merge` drops identical entries) -/
def distinctEntries (r : Repo) : List (ID × Entry) :=
  (r.indexes.flatMap fun i => i.2.flatMap fun x => x.2.map fun e => (x.1, e)).eraseDups

/-- the index holds exactly the used blobs, each once, names only present packs, and every
    present pack is named -/
def fullPruneOK (used : List BlobH) (r : Repo) : Bool :=
  let ib := (distinctEntries r).map (·.2.blob)
  ib.all (fun b => used.contains b) &&
  used.all (fun b => ib.count b = 1) &&
  (indexedPacks r).all (packPresent r) &&
  r.packs.all (fun p => (indexedPacks r).contains p.1)

end Restic.Model.Prune
