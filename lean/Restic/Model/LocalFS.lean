/-
Model for C36 (the local backend never exposes a partially written file):
`Local.Save` of internal/backend/local/local.go over a small durability model of a directory.

* The **step list** of `Save` is not written here: `mainSteps` / `cleanupSteps` compute it from the
  regenerated call list `Restic.Gen.localSave_calls` (tie T1), so a reordering in the source
  changes the list the theorems are about.
* **File system model**: one new inode (the temporary file) with volatile content, a flag
  `dirty` (content has writes that no `fsync` made durable: after a power loss it is arbitrary),
  the volatile directory (does the temporary / the final name refer to the new inode), the
  durable directory, and the list of metadata operations not yet made durable by a directory
  fsync.  A crash keeps the durable directory plus any *prefix* of the pending metadata
  operations (they depend on each other in order: create, rename, unlink); a process kill keeps
  the volatile state.  Core Lean only.
-/
namespace Restic.Model.LocalFS

abbrev Bytes := List UInt8

/-- the file system relevant steps of `Local.Save` (`writePartial` only occurs as the effect of a
    failing / interrupted `io.Copy`) -/
inductive Step where
  | mkdir | create | prealloc | write | writePartial | fsyncFile | close | rename | fsyncDir | chmod | unlinkTmp
deriving DecidableEq, Repr, Inhabited

/-- which call of the regenerated call list is which step -/
def classify : String → Option Step
  | "tempFile" => some .create
  | "os.MkdirAll" => some .mkdir
  | "fileio.PreallocateFile" => some .prealloc
  | "io.Copy" => some .write
  | "f.Sync" => some .fsyncFile
  | "f.Close" => some .close
  | "os.Rename" => some .rename
  | "fsyncDir" => some .fsyncDir
  | "setFileReadonly" => some .chmod
  | "os.Remove" => some .unlinkTmp
  | _ => none

/-- Calls that cannot touch the file system: everything from the pure helper packages, plus the
    few local/method calls of the current `Save` that only compute names, lengths or classify
    errors. Closed world: a call that is neither a step (`classify`) nor harmless is *unknown* —
    the model does not know what it does to the directory (e.g. a helper that opens the final
    name for writing), and the step-order theorems must not silently ignore it. -/
def hasPrefix (p c : String) : Bool := c.toList.take p.toList.length == p.toList

def harmless (c : String) : Bool :=
  hasPrefix "errors." c || hasPrefix "debug." c || hasPrefix "filepath." c || hasPrefix "fmt." c ||
  hasPrefix "strings." c || hasPrefix "backoff." c ||
  c ∈ ["func", "b.Filename", "b.IsNotExist", "os.IsPermission", "f.Name", "rd.Length", "isMacENOTTY"]

def knownCall (c : String) : Bool := (classify c).isSome || harmless c

/-- the step list covers the whole function: no unknown calls, and the only way a name gets into
    the directory is `tempFile` (a temporary name) or `os.Rename` -/
def allCallsKnown (calls : List String) : Bool := calls.all knownCall

/-- the part of a call list after the last occurrence of `x` (whole list if absent) -/
def afterLast (x : String) : List String → List String
  | [] => []
  | c :: cs => if x ∈ cs then afterLast x cs else if c = x then cs else c :: cs

/-- the part of a call list before the last occurrence of `x` -/
def beforeLast (x : String) : List String → List String
  | [] => []
  | c :: cs => if x ∈ cs then c :: beforeLast x cs else if c = x then [] else c :: cs

/-- Main path of `Save`: the temporary file is created (second `tempFile` = retry after
    `MkdirAll`), the deferred cleanup closure is registered (it ends at the last `func` marker of
    the call list), then the calls that follow, in source order. -/
def mainSteps (calls : List String) : List Step :=
  (if "tempFile" ∈ beforeLast "func" calls then [Step.create] else []) ++ (afterLast "func" calls).filterMap classify

/-- The deferred cleanup (runs when `Save` returns an error): the calls between the last
    `tempFile` and the end of the deferred closure. -/
def cleanupSteps (calls : List String) : List Step :=
  (afterLast "tempFile" (beforeLast "func" calls)).filterMap classify

/-! ### concrete file system semantics -/

inductive MetaOp where
  | createTmp | renameTmpFinal | unlinkTmp
deriving DecidableEq, Repr

/-- a directory, as far as the new inode is concerned: (temp name → new inode, final name → new inode) -/
def applyMeta : Bool × Bool → MetaOp → Bool × Bool
  | (_, f), .createTmp => (true, f)
  | (t, f), .renameTmpFinal => if t then (false, true) else (t, f)
  | (_, f), .unlinkTmp => (false, f)

structure St where
  created : Bool := false
  tmp : Bool := false          -- volatile directory: temporary name exists
  fin : Bool := false          -- volatile directory: final name refers to the new inode
  vdata : Bytes := []          -- content of the new inode
  pos : Nat := 0               -- file offset of the open descriptor
  dirty : Bool := false        -- content not completely fsynced
  pending : List MetaOp := []  -- directory operations since the last directory fsync
  dTmp : Bool := false         -- durable directory
  dFin : Bool := false
deriving Repr

inductive Ev where
  | mkdir | create | prealloc (n : Nat) | write (bs : Bytes) | fsyncFile | close | rename | fsyncDir | chmod | unlinkTmp
deriving Repr, DecidableEq

def overwrite (old : Bytes) (pos : Nat) (bs : Bytes) : Bytes :=
  old.take pos ++ bs ++ old.drop (pos + bs.length)

def apply (s : St) : Ev → St
  | .create => { s with created := true, tmp := true, vdata := [], pos := 0, dirty := false, pending := s.pending ++ [.createTmp] }
  | .prealloc n =>   -- fallocate(fd, 0, 0, n): extends the file with zeros
    { s with vdata := s.vdata ++ List.replicate (n - s.vdata.length) 0, dirty := true }
  | .write bs => { s with vdata := overwrite s.vdata s.pos bs, pos := s.pos + bs.length, dirty := true }
  | .fsyncFile => { s with dirty := false }
  | .rename => if s.tmp then { s with tmp := false, fin := true, pending := s.pending ++ [.renameTmpFinal] } else s
  | .fsyncDir =>
    let d := s.pending.foldl applyMeta (s.dTmp, s.dFin)
    { s with dTmp := d.1, dFin := d.2, pending := [] }
  | .unlinkTmp => if s.tmp then { s with tmp := false, pending := s.pending ++ [.unlinkTmp] } else s
  | .mkdir => s
  | .close => s
  | .chmod => s

def run (s : St) (tr : List Ev) : St := tr.foldl apply s

/-- what a directory listing + read shows: content under the temporary name, content of the new
    inode under the final name (`none` = the final name still shows what was there before) -/
structure View where
  tmpC : Option Bytes
  finC : Option Bytes
deriving Repr, DecidableEq

/-- after a process kill the volatile state is what the next process sees -/
def killView (s : St) : View :=
  { tmpC := if s.tmp then some s.vdata else none, finC := if s.fin then some s.vdata else none }

/-- after a power loss: durable directory + the first `k` pending directory operations; content
    of the new inode is `garbage` (arbitrary) unless it was completely fsynced -/
def crashView (s : St) (k : Nat) (garbage : Bytes) : View :=
  let d := (s.pending.take k).foldl applyMeta (s.dTmp, s.dFin)
  let c := if s.dirty then garbage else s.vdata
  { tmpC := if d.1 then some c else none, finC := if d.2 then some c else none }

/-- content visible under the final name given what was there before the save -/
def finalContent (prev : Option Bytes) (v : View) : Option Bytes :=
  match v.finC with
  | some c => some c
  | none => prev

/-- the executable statement of C36 for one observation: the final name shows the previous state
    (absent, or the old file) or the complete new content -/
def specOK (prev : Option Bytes) (data : Bytes) (v : View) : Bool :=
  finalContent prev v == prev || finalContent prev v == some data

/-- concretisation of a step for a save of `data`; `n` = bytes a failing write got through -/
def conc (data : Bytes) (n : Nat) : Step → Ev
  | .mkdir => .mkdir
  | .create => .create
  | .prealloc => .prealloc data.length
  | .write => .write data
  | .writePartial => .write (data.take n)
  | .fsyncFile => .fsyncFile
  | .close => .close
  | .rename => .rename
  | .fsyncDir => .fsyncDir
  | .chmod => .chmod
  | .unlinkTmp => .unlinkTmp

/-- An execution of `Save`: `k` steps of the main path succeed; then either nothing more happened
    yet, or step `k` failed (`failed`; a failing `io.Copy` may have written part of the data) and
    `j` steps of the deferred cleanup ran. -/
def execSteps (main cleanup : List Step) (k : Nat) (failed : Bool) (j : Nat) : List Step :=
  main.take k ++
    (if failed then (if main[k]? = some .write then [Step.writePartial] else []) ++ cleanup.take j else [])

/-! ### abstract interpretation of step lists (what `decide` evaluates on the regenerated list) -/

inductive Content where
  | empty | zeroed | full | other
deriving DecidableEq, Repr

structure Abs where
  created : Bool := false
  content : Content := .empty
  dirty : Bool := false
  tmp : Bool := false
  renamed : Bool := false          -- a rename of the new inode to the final name was issued
  renameDurable : Bool := false    -- ... and a directory fsync followed
deriving DecidableEq, Repr

/-- `none` = the step is not safe in this abstract state -/
def absStep (a : Abs) : Step → Option Abs
  | .create =>
    if a.created || a.renamed then none else some { a with created := true, content := .empty, dirty := false, tmp := true }
  | .prealloc =>
    if a.renamed then none else
    some { a with content := (if a.content = .empty then .zeroed else if a.content = .zeroed then .zeroed else .other), dirty := true }
  | .write =>
    if a.renamed then none else
    some { a with content := (if a.content = .empty ∨ a.content = .zeroed then .full else .other), dirty := true }
  | .writePartial => if a.renamed then none else some { a with content := .other, dirty := true }
  | .fsyncFile => some { a with dirty := false }
  | .rename =>
    if !a.tmp then some a
    else if a.content = .full ∧ a.dirty = false then some { a with tmp := false, renamed := true } else none
  | .fsyncDir => some { a with renameDurable := a.renamed }
  | .unlinkTmp => some { a with tmp := false }
  | .mkdir => some a
  | .close => some a
  | .chmod => some a

def absRun (a : Abs) : List Step → Option Abs
  | [] => some a
  | st :: rest => match absStep a st with
    | none => none
    | some a' => absRun a' rest

/-- all executions (every success prefix, failure at every step, every prefix of the cleanup)
    are safe — a finite check on the regenerated lists -/
def allExecsSafe (main cleanup : List Step) : Bool :=
  (List.range (main.length + 1)).all fun k =>
    (absRun {} (execSteps main cleanup k false 0)).isSome &&
    (List.range (cleanup.length + 1)).all fun j => (absRun {} (execSteps main cleanup k true j)).isSome

/-- the complete main path ends with the data fsynced and the rename made durable -/
def durableAtEnd (main : List Step) : Bool :=
  match absRun {} main with
  | some a => a.renameDurable && a.renamed && !a.dirty && a.content == .full
  | none => false

/-! ### names: temporary files never look like repository files -/

def isHex (c : Char) : Bool := ('0' ≤ c && c ≤ '9') || ('a' ≤ c && c ≤ 'f') || ('A' ≤ c && c ≤ 'F')

/-- `restic.ParseID` succeeds (length 64, `hex.DecodeString` accepts) -/
def parsesAsID (s : List Char) : Bool := s.length == 64 && s.all isHex

/-- the text of a Go string literal as written (`"…"`, no escapes expected) without its quotes -/
def unquote (lit : String) : Option (List Char) :=
  match lit.toList with
  | '"' :: rest => (match rest.reverse with | '"' :: mid => some mid.reverse | _ => none)
  | _ => none

/-- The infix of temporary names, from the regenerated `literals` fact of `Local.Save`: the first
    string literal of the body (`tmpname := filepath.Base(finalname) + "-tmp-"`). The
    correspondence run checks every temporary name it sees against this infix. -/
def tmpInfixOf (lits : List String) : Option (List Char) :=
  lits.findSome? unquote

/-- names `os.CreateTemp(dir, base+infix)` produces: pattern without `*`, random decimal suffix -/
def tempName (base inf suffix : List Char) : List Char := base ++ inf ++ suffix

end Restic.Model.LocalFS
