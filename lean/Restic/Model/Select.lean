import Restic.Model.Filter
/-
Model of path selection by include / exclude patterns in `restic rewrite` (C27) and
`restic restore` (C20). Core Lean only.

* `PatList`, `listOn`: what `filter.RejectByPattern` / `IncludeByPattern` and their
  case-insensitive variants compute for one item (internal/filter/include.go, exclude.go);
* C27: `gatherExcludeFilters` / `gatherIncludeFilters` (cmd/restic/cmd_rewrite.go),
  `TreeRewriter.RewriteTree` as used by `NewSnapshotSizeRewriter` (node cache disabled,
  `KeepEmptyDirectory`, null ID ⇒ drop, file count / size accounting) (internal/walker/rewriter.go);
* C20: `selectExcludeFilter` / `selectIncludeFilter` (cmd/restic/cmd_restore.go),
  `traverseTreeInner` with its `childMayBeSelected` pruning and the `leaveDir` condition,
  `removeUnexpectedFiles` (internal/restorer/restorer.go).

Snapshot trees are a nested inductive type; an item is addressed by the list of node names from the
root (`names`); the filter sees `path.Join("/", names…)` split into components (`itemComps`).
-/
namespace Restic.Model.Select
open Restic.Model.Filter

inductive Node where
  | file (name : Str) (size : Nat)       -- regular file
  | other (name : Str) (socket : Bool)   -- symlink, device, fifo, socket (neither directory nor regular file);
                                         -- sockets are never restored
  | dir (name : Str) (children : List Node)
deriving Repr, BEq

def Node.name : Node → Str
  | .file n _ => n
  | .other n _ => n
  | .dir n _ => n

def Node.isDir : Node → Bool
  | .dir _ _ => true
  | _ => false

/-- one list of patterns as produced by `CollectPatterns` -/
structure PatList where
  insensitive : Bool
  pats : List Pattern
deriving Repr

/-- `strings.ToLower` on ASCII -/
def lowerChar (c : Char) : Char :=
  if 'A'.toNat ≤ c.toNat ∧ c.toNat ≤ 'Z'.toNat then Char.ofNat (c.toNat + 32) else c
def lowerStr (s : Str) : Str := s.map lowerChar

/-- components the filter sees for the item with node names `names` below the root: the path
    string is `"/" + names joined by "/"`; for the root itself it is "/", which `splitPath` turns
    into `["/", ""]`. -/
def itemComps (names : List Str) : List Str :=
  if names = [] then [slash, []] else slash :: names

/-- `IncludeByPattern(…)(item)` / `RejectByPattern(…)(item)` (+ insensitive variants): the answer of
    `ListWithChild` / `List`; on an error a warning is printed and the answer is (false, false).
    (`panic`/`fuel` are impossible for parsed patterns: `Restic.Props.C28.list_total`.) -/
def listOn (glob : Glob) (l : PatList) (checkChild : Bool) (names : List Str) : Bool × Bool :=
  let comps := itemComps names
  let comps := if l.insensitive then comps.map lowerStr else comps
  if l.pats.length = 0 then (false, false) else
  match listStrs glob l.pats checkChild comps with
  | .ok r => r
  | _ => (false, false)

/-! ### option collection: `ExcludePatternOptions.CollectPatterns` / `IncludePatternOptions.CollectPatterns` -/

/-- `unicode.IsSpace` on ASCII -/
def isSpace (c : Char) : Bool :=
  c = ' ' || c = '\t' || c = '\n' || c = '\r' || c = Char.ofNat 11 || c = Char.ofNat 12

/-- `strings.TrimSpace` -/
def trimSpace (s : Str) : Str := ((s.dropWhile isSpace).reverse.dropWhile isSpace).reverse

/-- `readPatternsFromFiles`: every line trimmed; empty lines and comment lines skipped
    (`os.Expand` is the identity on lines without `$`; generated lines contain none) -/
def readPatternLines (files : List (List Str)) : List Str :=
  files.flatten.filterMap fun line =>
    let t := trimSpace line
    if t = [] then none else if t.head? = some '#' then none else some t

/-- the four option slices of one kind (exclude or include) -/
structure PatternOpts where
  pats : List Str               -- --exclude / --include values
  ipats : List Str              -- --iexclude / --iinclude values
  files : List (List Str)       -- lines of every --exclude-file / --include-file, in order
  ifiles : List (List Str)      -- lines of every --iexclude-file / --iinclude-file
deriving Repr

/-- `Empty()` -/
def PatternOpts.isEmpty (o : PatternOpts) : Bool :=
  o.pats.isEmpty && o.ipats.isEmpty && o.files.isEmpty && o.ifiles.isEmpty

/-- `ValidatePatterns(patterns) == nil` -/
def validateAll (clean : Str → Str) (glob : Glob) (raw : List Str) : Bool :=
  match parsePatterns clean raw with
  | .ok ps => ps.all (validPattern glob)
  | _ => false

def parsedOr (clean : Str → Str) (raw : List Str) : List Pattern :=
  match parsePatterns clean raw with
  | .ok ps => ps
  | _ => []          -- impossible: `preparePattern` only fails on the empty string, which is skipped

/-- case-sensitive patterns after `opts.Excludes = append(opts.Excludes, patternsFromFiles...)` -/
def PatternOpts.sens (o : PatternOpts) : List Str :=
  if o.files.isEmpty then o.pats else o.pats ++ readPatternLines o.files

/-- case-insensitive patterns after `opts.InsensitiveExcludes = append(…, patternsFromIFiles...)` -/
def PatternOpts.insens (o : PatternOpts) : List Str :=
  if o.ifiles.isEmpty then o.ipats else o.ipats ++ readPatternLines o.ifiles

/-- `CollectPatterns`: patterns from files are validated and appended to the list of THEIR kind
    (case-sensitive files to `pats`, case-insensitive files to `ipats`), then each non-empty list is
    validated and becomes one matching function; the insensitive one (patterns lower-cased) comes
    first. `none` = Fatal error. -/
def collectPatterns (clean : Str → Str) (glob : Glob) (o : PatternOpts) : Option (List PatList) :=
  if !o.files.isEmpty && !validateAll clean glob (readPatternLines o.files) then none
  else if !o.ifiles.isEmpty && !validateAll clean glob (readPatternLines o.ifiles) then none
  else if !o.insens.isEmpty && !validateAll clean glob o.insens then none
  else if !o.sens.isEmpty && !validateAll clean glob o.sens then none
  else some ((if o.insens.isEmpty then [] else [⟨true, parsedOr clean (o.insens.map lowerStr)⟩]) ++
             (if o.sens.isEmpty then [] else [⟨false, parsedOr clean o.sens⟩]))

/-! ### C27: rewrite -/

/-- `gatherExcludeFilters.exSelectByName` -/
def exSelect (glob : Glob) : List PatList → List Str → Bool
  | [], _ => true
  | l :: ls, names => if (listOn glob l false names).1 then false else exSelect glob ls names

/-- `gatherIncludeFilters.inSelectByName` -/
def inSelect (glob : Glob) : List PatList → List Str → Bool → Bool
  | [], _, _ => false
  | l :: ls, names, isDir =>
    let r := listOn glob l true names
    if isDir then (if r.1 || r.2 then true else inSelect glob ls names isDir)
    else if r.1 then true else inSelect glob ls names isDir

/-- `gatherIncludeFilters.inSelectByNameDir` (= keepEmptyDirectory) -/
def inSelectDir (glob : Glob) : List PatList → List Str → Bool
  | [], _ => false
  | l :: ls, names => if (listOn glob l true names).1 then true else inSelectDir glob ls names

/-- `SnapshotSize` accumulated by `NewSnapshotSizeRewriter` -/
structure Stats where
  count : Nat
  size : Nat
deriving Repr, DecidableEq

mutual
/-- one iteration of the loop in `RewriteTree`: `sel` = `RewriteNode` keeps the node,
    `keep` = `KeepEmptyDirectory`. `none` = node dropped. -/
def rwNode (sel : List Str → Bool → Bool) (keep : List Str → Bool) (names : List Str) :
    Node → Stats → Option Node × Stats
  | .file n sz, st =>
    if sel (names ++ [n]) false then (some (.file n sz), ⟨st.count + 1, st.size + sz⟩) else (none, st)
  | .other n s, st =>
    if sel (names ++ [n]) false then (some (.other n s), st) else (none, st)
  | .dir n ch, st =>
    if sel (names ++ [n]) true then
      -- newID := t.RewriteTree(path, subtree); null ID ⇒ continue
      match rwList sel keep (names ++ [n]) ch st with
      | (res, st') =>
        if res.isEmpty && !keep (names ++ [n]) then (none, st') else (some (.dir n res), st')
    else (none, st)
/-- the loop of `RewriteTree` over the nodes of one tree -/
def rwList (sel : List Str → Bool → Bool) (keep : List Str → Bool) (names : List Str) :
    List Node → Stats → List Node × Stats
  | [], st => ([], st)
  | c :: cs, st =>
    match rwNode sel keep names c st with
    | (none, st1) => rwList sel keep names cs st1
    | (some c', st1) =>
      match rwList sel keep names cs st1 with
      | (r, st2) => (c' :: r, st2)
end

/-- `RewriteTree(ctx, repo, uploader, "/", *sn.Tree)`: `none` = null tree ID -/
def rewriteRoot (sel : List Str → Bool → Bool) (keep : List Str → Bool) (root : List Node) :
    Option (List Node) × Stats :=
  match rwList sel keep [] root ⟨0, 0⟩ with
  | (res, st) => if res.isEmpty && !keep [] then (none, st) else (some res, st)

inductive RewriteMode where
  | exclude
  | include
deriving Repr, DecidableEq

inductive RewriteResult where
  | fatal                                        -- option check failed
  | unchanged                                    -- "not modified"
  | changed (tree : List Node) (st : Stats)      -- new snapshot saved
deriving Repr

/-- decision logic of `runRewrite` / `rewriteSnapshot` / `filterAndReplaceSnapshot` for pattern
    options only (`nEx`, `nIn` = number of exclude / include flag values given; `lists` = non-empty
    lists after `CollectPatterns`; `allValid` = `ValidatePatterns` passed; `origSummary` = the
    (TotalFilesProcessed, TotalBytesProcessed) pair of the snapshot's summary, if any and if the
    summary has no other content that differs). -/
def runRewrite (glob : Glob) (nEx nIn : Nat) (allValid : Bool) (exLists inLists : List PatList)
    (root : List Node) (origSummary : Option Stats) : RewriteResult :=
  if nEx = 0 ∧ nIn = 0 then .fatal
  else if nEx > 0 ∧ nIn > 0 then .fatal
  else if !allValid then .fatal
  else
    let r := if inLists.length > 0
      then rewriteRoot (fun p d => inSelect glob inLists p d) (fun p => inSelectDir glob inLists p) root
      else rewriteRoot (fun p _ => exSelect glob exLists p) (fun _ => true) root
    match r with
    | (none, _) => .unchanged       -- include mode: keepEmptySnapshot
    | (some t, st) =>
      if t == root && origSummary = some st then .unchanged else .changed t st

/-! #### executable statement of C27 -/

/-- one item of a tree: names-path from the root, kind, size (0 unless a regular file) -/
structure Entry where
  path : List Str
  isDir : Bool
  isFile : Bool
  size : Nat
  sock : Bool       -- a socket node (restore skips it, its name still protects a target entry from --delete)
deriving DecidableEq, Repr

mutual
/-- the item of a node and everything below it -/
def entriesNode (names : List Str) : Node → List Entry
  | .file n sz => [⟨names ++ [n], false, true, sz, false⟩]
  | .other n s => [⟨names ++ [n], false, false, 0, s⟩]
  | .dir n ch => ⟨names ++ [n], true, false, 0, false⟩ :: entriesList (names ++ [n]) ch
/-- every item of a tree -/
def entriesList (names : List Str) : List Node → List Entry
  | [] => []
  | c :: cs => entriesNode names c ++ entriesList names cs
end

/-- every item of a tree -/
def entries (names : List Str) (l : List Node) : List Entry := entriesList names l

theorem entries_nil (names : List Str) : entries names [] = [] := by
  simp [entries, entriesList]
theorem entries_file (names : List Str) (n : Str) (sz : Nat) (rest : List Node) :
    entries names (.file n sz :: rest) = ⟨names ++ [n], false, true, sz, false⟩ :: entries names rest := by
  simp [entries, entriesList, entriesNode]
theorem entries_other (names : List Str) (n : Str) (s : Bool) (rest : List Node) :
    entries names (.other n s :: rest) = ⟨names ++ [n], false, false, 0, s⟩ :: entries names rest := by
  simp [entries, entriesList, entriesNode]
theorem entries_dir (names : List Str) (n : Str) (ch rest : List Node) :
    entries names (.dir n ch :: rest) =
      ⟨names ++ [n], true, false, 0, false⟩ :: (entries (names ++ [n]) ch ++ entries names rest) := by
  simp [entries, entriesList, entriesNode]

def isFileNode : Node → Bool
  | .file _ _ => true
  | _ => false

mutual
def filesNode (names : List Str) : Node → List (List Str × Nat)
  | .file n sz => [(names ++ [n], sz)]
  | .other _ _ => []
  | .dir n ch => filesList (names ++ [n]) ch
def filesList (names : List Str) : List Node → List (List Str × Nat)
  | [] => []
  | c :: cs => filesNode names c ++ filesList names cs
end

/-- regular files of a tree with their sizes -/
def files (names : List Str) (l : List Node) : List (List Str × Nat) := filesList names l

theorem files_nil (names : List Str) : files names [] = [] := by
  simp [files, filesList]
theorem files_file (names : List Str) (n : Str) (sz : Nat) (rest : List Node) :
    files names (.file n sz :: rest) = (names ++ [n], sz) :: files names rest := by
  simp [files, filesList, filesNode]
theorem files_other (names : List Str) (n : Str) (s : Bool) (rest : List Node) :
    files names (.other n s :: rest) = files names rest := by
  simp [files, filesList, filesNode]
theorem files_dir (names : List Str) (n : Str) (ch rest : List Node) :
    files names (.dir n ch :: rest) = files (names ++ [n]) ch ++ files names rest := by
  simp [files, filesList, filesNode]

/-- all proper, non-empty prefixes of a names-path -/
def ancestors (p : List Str) : List (List Str) :=
  (List.range p.length).filterMap fun k => if k = 0 then none else some (p.take k)

/-- C27 for exclude patterns, on observed trees (`new` = listing of the rewritten snapshot):
    an item survives iff neither it nor one of its ancestors matches. -/
def specExcludeOK (bad : List Str → Bool) (orig new : List Node) : Bool :=
  let eo := entries [] orig
  let en := entries [] new
  eo.all (fun e => en.contains e == (!bad e.path && (ancestors e.path).all fun a => !bad a)) &&
  en.all (fun e => eo.contains e)

/-- C27 for include patterns: a non-directory survives iff it matches; a directory survives iff it
    matches or something below it survives; nothing is invented. -/
def specIncludeOK (matched : List Str → Bool) (orig new : List Node) : Bool :=
  let eo := entries [] orig
  let en := entries [] new
  eo.all (fun e =>
    if e.isDir then
      en.contains e == (matched e.path || en.any fun f => f.path.length > e.path.length && f.path.take e.path.length == e.path)
    else en.contains e == matched e.path) &&
  en.all (fun e => eo.contains e)

/-- summary statistics = regular files of the new tree -/
def specSummaryOK (new : List Node) (st : Stats) : Bool :=
  st.count = (files [] new).length && st.size = ((files [] new).map (·.2)).sum

/-! ### C20: restore -/

/-- `selectExcludeFilter` -/
def selectExclude (glob : Glob) (lists : List PatList) (names : List Str) (isDir : Bool) : Bool × Bool :=
  let selected := exSelect glob lists names      -- loop with break at the first match
  (selected, selected && isDir)

/-- the loop of `selectIncludeFilter` -/
def selectIncludeLoop (glob : Glob) (names : List Str) : List PatList → Bool → Bool → Bool × Bool
  | [], s, c => (s, c)
  | l :: ls, s, c =>
    let r := listOn glob l true names
    let s' := s || r.1
    let c' := c || r.2
    if s' && c' then (s', c') else selectIncludeLoop glob names ls s' c'

/-- `selectIncludeFilter` -/
def selectInclude (glob : Glob) (lists : List PatList) (names : List Str) (isDir : Bool) : Bool × Bool :=
  let r := selectIncludeLoop glob names lists false false
  (r.1, r.2 && isDir)

/-- option handling of `runRestore`: both kinds collected (Fatal on an invalid pattern), include and
    exclude are mutually exclusive, without patterns everything is selected. `none` = Fatal. -/
def restoreFilter (clean : Str → Str) (glob : Glob) (ex inc : PatternOpts) :
    Option (List Str → Bool → Bool × Bool) :=
  match collectPatterns clean glob ex, collectPatterns clean glob inc with
  | some exL, some inL =>
    if !exL.isEmpty && !inL.isEmpty then none
    else if !exL.isEmpty then some (selectExclude glob exL)
    else if !inL.isEmpty then some (selectInclude glob inL)
    else some fun _ _ => (true, true)
  | _, _ => none

/-- what the visitor is told during one tree pass -/
inductive Ev where
  | enter (p : List Str)                          -- enterDir (first pass: ensureDir)
  | visit (p : List Str) (isFile : Bool)          -- visitNode on a selected non-directory
  | leave (p : List Str) (expected : Option (List Str))   -- leaveDir with the names of the tree, `none` = nil slice
  | skipped (p : List Str) (expected : Option (List Str)) -- skippedDir: traversed, nothing restored inside
deriving Repr, DecidableEq

mutual
/-- body of the loop of `traverseTreeInner` for one node: events and the node's contribution to
    `hasRestored` -/
def trNode (sel : List Str → Bool → Bool × Bool) (names : List Str) : Node → List Ev × Bool
  | .file n _ => if (sel (names ++ [n]) false).1 then ([.visit (names ++ [n]) true], true) else ([], false)
  | .other n s =>
    -- sockets cannot be restored: `continue` before SelectFilter (the name is already in `filenames`)
    if s then ([], false)
    else if (sel (names ++ [n]) false).1 then ([.visit (names ++ [n]) false], true) else ([], false)
  | .dir n ch =>
    let s := sel (names ++ [n]) true
    let evEnter := if s.1 then [Ev.enter (names ++ [n])] else []
    match (if s.2 then (match trList sel (names ++ [n]) ch with | (e, r) => (e, r, some (ch.map Node.name)))
           else ([], false, none)) with
    | (evs, childHasRestored, filenames) =>
      let evLeave := if s.1 || childHasRestored then [Ev.leave (names ++ [n]) filenames]
        else if s.2 then [Ev.skipped (names ++ [n]) filenames] else []
      (evEnter ++ evs ++ evLeave, s.1 || childHasRestored)
def trList (sel : List Str → Bool → Bool × Bool) (names : List Str) : List Node → List Ev × Bool
  | [] => ([], false)
  | c :: cs =>
    match trNode sel names c, trList sel names cs with
    | (e1, r1), (e2, r2) => (e1 ++ e2, r1 || r2)
end

/-- `traverseTree`: the root is always entered; `leaveDir` if something was restored, `skippedDir`
    otherwise -/
def traverse (sel : List Str → Bool → Bool × Bool) (root : List Node) : List Ev :=
  match trList sel [] root with
  | (evs, hasRestored) =>
    [Ev.enter []] ++ evs ++ (if hasRestored then [Ev.leave [] (some (root.map Node.name))]
                             else [Ev.skipped [] (some (root.map Node.name))])

/-- the traversal as it was before the fix of finding C20:delete:selected-stale-entry-survives:
    no `skippedDir` callback -/
def traverseOld (sel : List Str → Bool → Bool × Bool) (root : List Node) : List Ev :=
  (traverse sel root).filter fun | .skipped _ _ => false | _ => true

mutual
def dirListingsNode (names : List Str) : Node → List (List Str × List Str)
  | .dir n ch => (names ++ [n], ch.map Node.name) :: dirListingsList (names ++ [n]) ch
  | .file _ _ => []
  | .other _ _ => []
def dirListingsList (names : List Str) : List Node → List (List Str × List Str)
  | [] => []
  | c :: cs => dirListingsNode names c ++ dirListingsList names cs
end

/-- every directory of the snapshot (the root included) with the names in its tree -/
def dirListings (root : List Node) : List (List Str × List Str) :=
  ([], root.map Node.name) :: dirListingsList [] root

/-- is `a` a prefix of `b` (`b` lies in or below `a`)? -/
def isPrefix (a b : List Str) : Bool := a.length ≤ b.length && b.take a.length == a

/-- paths that exist below the target after the first pass creations: every entered directory and
    every visited node, with all their ancestors (`MkdirAll`) -/
def created (evs : List Ev) : List (List Str) :=
  evs.flatMap fun
    | .enter p => (List.range (p.length + 1)).map p.take
    | .visit p _ => (List.range (p.length + 1)).map p.take
    | .leave _ _ => []
    | .skipped _ _ => []

/-- the directory and name list handed to `removeUnexpectedFiles` by the second pass -/
def delDir : Ev → Option (List Str × Option (List Str))
  | .leave p e => some (p, e)
  | .skipped p e => some (p, e)
  | _ => none

/-- `removeUnexpectedFiles` for all `leaveDir` / `skippedDir` calls: `pre` = entries that existed in the target
    before the restore (names-paths relative to the target). Returns the top-most removed entries. -/
def deletedTops (sel : List Str → Bool → Bool × Bool) (evs : List Ev) (pre : List (List Str)) : List (List Str) :=
  evs.flatMap fun ev =>
    match delDir ev with
    | some (p, expected) =>
      pre.filter fun e =>
        e.length = p.length + 1 && isPrefix p e &&
        !((expected.getD []).contains (e.getLast?.getD [])) &&
        (sel e false).1
    | none => []

/-- the set of names-paths below the target after `restore [--delete]` (as a membership test) -/
def afterRestore (sel : List Str → Bool → Bool × Bool) (root : List Node) (delete : Bool)
    (pre : List (List Str)) (p : List Str) : Bool :=
  let evs := traverse sel root
  let del := if delete then deletedTops sel evs pre else []
  (created evs).contains p || (pre.contains p && !(del.any fun d => isPrefix d p))

/-! #### executable statement of C20 -/

/-- all items of the snapshot that the traversal can reach: every ancestor directory lets the
    traversal descend (`childMayBeSelected`) -/
def reachable (sel : List Str → Bool → Bool × Bool) (p : List Str) : Bool :=
  (ancestors p).all fun a => (sel a true).2

/-- C20, include/exclude part, on the observed target (`has p` = path exists after the restore into
    an empty target): a non-directory of the snapshot is written iff it is selected (and, for exclude
    patterns, no ancestor is excluded); a directory exists iff it is selected-and-reachable or
    holds a written item; nothing else exists. -/
def specRestoreOK (sel : List Str → Bool → Bool × Bool) (exclude : Bool) (root : List Node)
    (target : List (List Str)) : Bool :=
  let es := entries [] root
  let want (e : Entry) : Bool :=
    !e.sock &&      -- sockets cannot be restored
    (if exclude then (sel e.path e.isDir).1 && (ancestors e.path).all fun a => (sel a true).1
     else (sel e.path e.isDir).1)
  let written := es.filter want
  es.all (fun e =>
    target.contains e.path == (want e || (e.isDir && written.any fun w => isPrefix e.path w.path))) &&
  target.all (fun p => p == [] || es.any fun e => e.path == p)

/-- C20, `--delete` part: a pre-existing entry whose path is part of the snapshot still exists
    afterwards; one that is not part of the snapshot listing of its (snapshot) directory is gone iff it — or the top-most non-snapshot directory holding it — is
    selected; `full = true` demands this in every snapshot directory the traversal reaches,
    `full = false` only in directories that were left with `leaveDir` (something restored inside
    or the directory itself selected). -/
def specDeleteOK (sel : List Str → Bool → Bool × Bool) (root : List Node) (full : Bool)
    (pre : List (List Str)) (target : List (List Str)) : Bool :=
  let es := entries [] root
  let evs := traverse sel root
  let snapDirs : List (List Str) := [] :: (es.filter (·.isDir)).map (·.path)
  pre.all fun e =>
    -- the top-most ancestor-or-self of `e` that is not in the snapshot, and its parent directory
    match ((List.range (e.length + 1)).filterMap fun k =>
        let q := e.take k
        if k > 0 ∧ !(es.any fun x => x.path == q) ∧ snapDirs.contains (e.take (k - 1)) then some q else none).head? with
    | none => target.contains e   -- part of the snapshot (sockets included): restore may replace it, never lose it
    | some top =>
      let parent := top.take (top.length - 1)
      let considered := if full then reachable sel top
        else evs.any fun | .leave p _ => p == parent | .skipped p _ => p == parent | _ => false
      let gone := !target.contains e
      if considered then gone == (sel top false).1
      else !gone

end Restic.Model.Select
