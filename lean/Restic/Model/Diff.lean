import Restic.Model.SnapTree
/-
Model of `restic diff` (C53): `data.DualTreeIterator` (internal/data/tree.go), `Comparer.diffTree`,
`printDir`, `collectDir`, `addBlobs`, `DiffStat.Add`, `updateBlobs` and the statistics part of
`runDiff` (cmd/restic/cmd_diff.go).  Core Lean only.

Everything the Go code does while it walks (print a change, count an item, remember a blob) is one
event; the functions return the list of events in program order, the printed lines and all
statistics are projections of that list.

Paths are lists of components; the driver renders them as "/" ++ components joined by "/"
(++ "/" for the directory form), which is what `path.Join(prefix, name)` yields for the clean,
slash-free, non-empty names found in repository trees.
-/
namespace Restic.Model.Diff
open Restic.Model.SnapTree

structure Blob where
  tree : Bool          -- restic.TreeBlob (true) or restic.DataBlob (false)
  id : Nat
deriving DecidableEq, Repr

inductive Side where | removed | added
deriving DecidableEq, Repr

def Side.str : Side → String | .removed => "-" | .added => "+"

inductive Which where | before | after | common
deriving DecidableEq, Repr

def Side.which : Side → Which | .removed => .before | .added => .after

/-- one `printChange` call -/
structure Line where
  path : List Name
  slash : Bool         -- printed with a trailing "/"
  mod : String
deriving DecidableEq, Repr

inductive Ev where
  | line (l : Line)                 -- c.printChange(NewChange(name, mod))
  | stat (s : Side) (m : Meta)      -- stats.Removed.Add(node) / stats.Added.Add(node)
  | changed                         -- stats.ChangedFiles++
  | blob (w : Which) (b : Blob)     -- insertion into BlobsBefore / BlobsAfter / BlobsCommon
  | exhausted                       -- model only: recursion fuel used up (never with fuel > depth)
deriving DecidableEq, Repr

/-- `addBlobs` -/
def blobsOf (m : Meta) : List Blob :=
  match m.type with
  | .file => m.content.map (Blob.mk false)
  | .dir => [Blob.mk true m.subtree]
  | _ => []

mutual
/-- `printDir`: every node below a directory that exists on one side only, in tree order -/
def printDirT (s : Side) (pre : List Name) : Tree → List Ev
  | .mk m kids =>
    [Ev.line ⟨pre ++ [m.name], m.type == .dir, s.str⟩, Ev.stat s m] ++ (blobsOf m).map (Ev.blob s.which) ++
      (if m.type == .dir then printDirL s (pre ++ [m.name]) kids else [])
def printDirL (s : Side) (pre : List Name) : List Tree → List Ev
  | [] => []
  | t :: ts => printDirT s pre t ++ printDirL s pre ts
end

mutual
/-- `collectDir`: blobs of a subtree that is identical on both sides -/
def collectT : Tree → List Ev
  | .mk m kids => (blobsOf m).map (Ev.blob .common) ++ (if m.type == .dir then collectL kids else [])
def collectL : List Tree → List Ev
  | [] => []
  | t :: ts => collectT t ++ collectL ts
end

/-- `DualTreeIterator` once the first tree's head `x` is fixed: advance in the second tree -/
def dualAux (x : Tree) (k : List Tree → List (Option Tree × Option Tree)) :
    List Tree → List (Option Tree × Option Tree)
  | [] => (some x, none) :: k []
  | y :: ys =>
    if x.meta.name < y.meta.name then (some x, none) :: k (y :: ys)
    else if y.meta.name < x.meta.name then (none, some y) :: dualAux x k ys
    else (some x, some y) :: k ys

/-- `DualTreeIterator`: parallel iteration over two node lists; equal names are paired, otherwise
    the node with the smaller name comes first, alone -/
def dual : List Tree → List Tree → List (Option Tree × Option Tree)
  | [], ys => ys.map (fun y => (none, some y))
  | x :: xs, ys => dualAux x (dual xs) ys

/-- `Node.Equals` for two nodes: every field (the `other` class stands for times, owner, xattrs …) -/
def equals (a b : Meta) : Bool := a == b

/-- the modifier string built in the `node1 != nil && node2 != nil` case -/
def modOf (metadata : Bool) (m1 m2 : Meta) : String :=
  let t := if m1.type != m2.type then "T" else ""
  if m1.type == .file && m2.type == .file && m1.content != m2.content then
    t ++ "M" ++ (if equals { m1 with content := [] } { m2 with content := [] } then "?" else "")
  else if metadata && !(equals m1 m2) then t ++ "U"
  else t

def isM (m1 m2 : Meta) : Bool := m1.type == .file && m2.type == .file && m1.content != m2.content

/-- body of the loop of `diffTree` for one item of the dual iteration; `rec` is the recursive call -/
def diffItem (rec : List Name → List Tree → List Tree → List Ev) (metadata : Bool) (pre : List Name) :
    Option Tree × Option Tree → List Ev
  | (some (.mk m1 k1), some (.mk m2 k2)) =>
    (blobsOf m1).map (Ev.blob .before) ++ (blobsOf m2).map (Ev.blob .after) ++
    (if modOf metadata m1 m2 != "" then [Ev.line ⟨pre ++ [m1.name], m2.type == .dir, modOf metadata m1 m2⟩] else []) ++
    (if isM m1 m2 then [Ev.changed] else []) ++
    (if m1.type == .dir && m2.type == .dir then
       (if m1.subtree == m2.subtree then collectL k1 else rec (pre ++ [m1.name]) k1 k2)
     else if m1.type == .dir then printDirL .removed (pre ++ [m1.name]) k1      -- type change away from a directory
     else if m2.type == .dir then printDirL .added (pre ++ [m1.name]) k2        -- type change to a directory
     else [])
  | (some (.mk m1 k1), none) =>
    (blobsOf m1).map (Ev.blob .before) ++
    [Ev.line ⟨pre ++ [m1.name], m1.type == .dir, "-"⟩, Ev.stat .removed m1] ++
    (if m1.type == .dir then printDirL .removed (pre ++ [m1.name]) k1 else [])
  | (none, some (.mk m2 k2)) =>
    (blobsOf m2).map (Ev.blob .after) ++
    [Ev.line ⟨pre ++ [m2.name], m2.type == .dir, "+"⟩, Ev.stat .added m2] ++
    (if m2.type == .dir then printDirL .added (pre ++ [m2.name]) k2 else [])
  | (none, none) => []

/-- `Comparer.diffTree`; the fuel bounds the recursion depth (one unit per directory level) -/
def diffTree (metadata : Bool) : Nat → List Name → List Tree → List Tree → List Ev
  | 0, _, _, _ => [Ev.exhausted]
  | fuel + 1, pre, l1, l2 => (dual l1 l2).flatMap (diffItem (diffTree metadata fuel) metadata pre)

/-! ### projections: printed lines and statistics -/

def prLine : Ev → Option Line
  | .line l => some l
  | _ => none

def prStat (s : Side) : Ev → Option Meta
  | .stat s' m => if s' = s then some m else none
  | _ => none

def prChanged : Ev → Option Unit
  | .changed => some ()
  | _ => none

def prBlob (w : Which) : Ev → Option Blob
  | .blob w' b => if w' = w then some b else none
  | _ => none

def lines (evs : List Ev) : List Line := evs.filterMap prLine

def statItems (s : Side) (evs : List Ev) : List Meta := evs.filterMap (prStat s)

def changedCount (evs : List Ev) : Nat := (evs.filterMap prChanged).length

def blobSet (w : Which) (evs : List Ev) : List Blob := (evs.filterMap (prBlob w)).eraseDups

structure DiffStat where
  files : Nat := 0
  dirs : Nat := 0
  others : Nat := 0
  dataBlobs : Nat := 0
  treeBlobs : Nat := 0
  bytes : Nat := 0
deriving DecidableEq, Repr

structure Result where
  lines : List Line
  changedFiles : Nat
  added : DiffStat
  removed : DiffStat
  exhausted : Bool
deriving DecidableEq, Repr

/-- `DiffStat.Add` over the counted items, then `updateBlobs` over the blob set -/
def mkStat (items : List Meta) (blobs : List Blob) (size : Blob → Nat) : DiffStat :=
  { files := (items.filter (·.type == .file)).length,
    dirs := (items.filter (·.type == .dir)).length,
    others := (items.filter (fun m => m.type != .file && m.type != .dir)).length,
    dataBlobs := (blobs.filter (!·.tree)).length,
    treeBlobs := (blobs.filter (·.tree)).length,
    bytes := (blobs.map size).sum }

/-- `runDiff` after the snapshots and their (sub)trees are found: the two root tree blobs are
    recorded, the trees compared, and the blob statistics derived as
    before ∖ (before ∩ after) ∖ common  and  after ∖ (before ∩ after) ∖ common. -/
def runDiff (metadata : Bool) (fuel : Nat) (root1 root2 : Nat) (l1 l2 : List Tree) (size : Blob → Nat) : Result :=
  let evs := [Ev.blob .before ⟨true, root1⟩, Ev.blob .after ⟨true, root2⟩] ++ diffTree metadata fuel [] l1 l2
  let before := blobSet .before evs
  let after := blobSet .after evs
  let common := blobSet .common evs
  let both := before.filter (after.contains ·)
  let rem := (before.filter (!both.contains ·)).filter (!common.contains ·)
  let add := (after.filter (!both.contains ·)).filter (!common.contains ·)
  { lines := lines evs,
    changedFiles := changedCount evs,
    added := mkStat (statItems .added evs) add size,
    removed := mkStat (statItems .removed evs) rem size,
    exhausted := evs.contains Ev.exhausted }

/-! ### executable statement of C53 -/

mutual
/-- names strictly increasing on every level: what `TreeJSONBuilder.AddNode` enforces for every
    tree blob written, and the precondition of `DualTreeIterator` -/
def sortedT : Tree → Bool
  | .mk _ kids => sortedL kids
def sortedL : List Tree → Bool
  | [] => true
  | t :: ts => sortedT t && ts.all (fun u => decide (t.meta.name < u.meta.name)) && sortedL ts
end

mutual
def eqT : Tree → Tree → Bool
  | .mk m k, .mk m' k' => m == m' && eqL k k'
def eqL : List Tree → List Tree → Bool
  | [], [] => true
  | a :: as, b :: bs => eqT a b && eqL as bs
  | _, _ => false
end

mutual
/-- all nodes of a forest, with their subtrees -/
def subT : Tree → List Tree
  | .mk m k => Tree.mk m k :: subL k
def subL : List Tree → List Tree
  | [] => []
  | t :: ts => subT t ++ subL ts
end

/-- content addressing, checked: directories of the two forests with the same subtree id have the
    same children -/
def faithfulB (l1 l2 : List Tree) : Bool :=
  (subL l1).all fun t1 => (subL l2).all fun t2 =>
    !(t1.meta.type == .dir && t2.meta.type == .dir && t1.meta.subtree == t2.meta.subtree) || eqL t1.kids t2.kids

def find (ts : List Tree) (n : Name) : Option Tree := ts.find? (fun t => t.meta.name == n)

/-- the node at a path (list of components) below a node list -/
def lookup : List Tree → List Name → Option Tree
  | _, [] => none
  | ts, n :: rest =>
    match find ts n with
    | none => none
    | some t => if rest.isEmpty then some t else lookup t.kids rest

mutual
/-- all paths of a forest -/
def pathsT (pre : List Name) : Tree → List (List Name)
  | .mk m kids => (pre ++ [m.name]) :: pathsL (pre ++ [m.name]) kids
def pathsL (pre : List Name) : List Tree → List (List Name)
  | [] => []
  | t :: ts => pathsT pre t ++ pathsL pre ts
end

/-- What `diff` has to print for path `p`: "-" / "+" iff the path exists on one side only;
    otherwise "T" iff the types differ, "M" iff both are files whose content differs (with "?" when
    nothing else differs), "U" only with `--metadata`; nothing if none of these applies. -/
def expectedLine (metadata : Bool) (l1 l2 : List Tree) (p : List Name) : Option Line :=
  match lookup l1 p, lookup l2 p with
  | some t1, none => some ⟨p, t1.meta.type == .dir, "-"⟩
  | none, some t2 => some ⟨p, t2.meta.type == .dir, "+"⟩
  | some t1, some t2 =>
    if modOf metadata t1.meta t2.meta != "" then some ⟨p, t2.meta.type == .dir, modOf metadata t1.meta t2.meta⟩ else none
  | none, none => none

/-- C53 on printed lines: every expected line is printed, and nothing else is -/
def specLines (metadata : Bool) (l1 l2 : List Tree) (out : List Line) : Bool :=
  let ps := pathsL [] l1 ++ pathsL [] l2
  ps.all (fun p => match expectedLine metadata l1 l2 p with | some l => out.contains l | none => true) &&
  out.all (fun l => ps.any (fun p => expectedLine metadata l1 l2 p == some l))

/-- evaluate `g` on (node at `p` in `a`, node at `p` in `b`) for every path `p` of `a`, in tree order -/
def specList (g : Option Tree → Option Tree → Option β) (a b : List Tree) : List β :=
  (pathsL [] a).filterMap fun p => g (lookup a p) (lookup b p)

def gOnly : Option Tree → Option Tree → Option Meta
  | some t, none => some t.meta
  | _, _ => none

def gChanged : Option Tree → Option Tree → Option Unit
  | some x, some y => if isM x.meta y.meta then some () else none
  | _, _ => none

/-- the nodes whose path exists in `a` but not in `b` -/
def onlyIn (a b : List Tree) : List Meta := specList gOnly a b

/-- number of paths that are regular files with different content on both sides -/
def changedIn (a b : List Tree) : Nat := (specList gChanged a b).length

def cntOK (ms : List Meta) (d : DiffStat) : Bool :=
  d.files == (ms.filter (·.type == .file)).length && d.dirs == (ms.filter (·.type == .dir)).length &&
  d.others == (ms.filter (fun m => m.type != .file && m.type != .dir)).length

/-- the item counters: an item is added / removed iff its path exists on one side only; a file is
    changed iff it is a file on both sides with different content -/
def specCounts (l1 l2 : List Tree) (r : Result) : Bool :=
  cntOK (onlyIn l1 l2) r.removed && cntOK (onlyIn l2 l1) r.added && r.changedFiles == changedIn l1 l2

end Restic.Model.Diff
