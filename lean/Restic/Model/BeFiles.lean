/-
A small model of a restic backend as a finite map from handles to contents, and of the backend
operations ("events") that reach it. Used by C29, C30, C31 and C39 (builder A15); other
builders have similar event models, to be unified later (DESIGN §4). Core Lean only.

Contents are opaque tokens (the harness sends a digest of the bytes), names are strings.
-/
namespace Restic.Model.BeFiles

/-- backend file types (`backend.FileType`) -/
inductive FType where
  | data | key | lock | snapshot | index | config
deriving DecidableEq, Repr, Inhabited

def FType.ofString : String → Option FType
  | "data" => some .data
  | "key" => some .key
  | "lock" => some .lock
  | "snapshot" => some .snapshot
  | "index" => some .index
  | "config" => some .config
  | _ => none

def FType.toString : FType → String
  | .data => "data" | .key => "key" | .lock => "lock"
  | .snapshot => "snapshot" | .index => "index" | .config => "config"

structure Handle where
  t : FType
  name : String
deriving DecidableEq, Repr, Inhabited

abbrev Content := String

/-- the backend state: association list, first binding wins; `none` = no such file -/
abbrev State := List (Handle × Content)

def get (st : State) (h : Handle) : Option Content :=
  match st with
  | [] => none
  | (h', c) :: rest => if h' = h then some c else get rest h

def erase (st : State) (h : Handle) : State := st.filter (fun p => p.1 ≠ h)

def put (st : State) (h : Handle) (c : Content) : State := (h, c) :: erase st h

/-- operations that reach a backend (`backend.Backend` interface) -/
inductive Ev where
  | save (h : Handle) (c : Content)
  | remove (h : Handle)
  | load (h : Handle)
  | stat (h : Handle)
  | list (t : FType)
deriving DecidableEq, Repr, Inhabited

def Ev.mutating : Ev → Bool
  | .save _ _ => true
  | .remove _ => true
  | _ => false

/-- the handle a mutating event writes to -/
def Ev.target : Ev → Option Handle
  | .save h _ => some h
  | .remove h => some h
  | _ => none

def apply (st : State) : Ev → State
  | .save h c => put st h c
  | .remove h => erase st h
  | _ => st

def applyAll (st : State) (evs : List Ev) : State := evs.foldl apply st

/-- two states hold the same files with the same contents -/
def sameFiles (a b : State) : Prop := ∀ h, get a h = get b h

end Restic.Model.BeFiles
