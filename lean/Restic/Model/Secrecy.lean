/-!
Symbolic model for C04: what the four sealing call sites and the backend `Save` call sites of
`internal/repository` write, as TERMS — so that "no plaintext outside a seal" and "no nonce used
twice" are statements about data flow, for every sequence of operations.

Call sites transcribed (T1 facts tie each of them to the source):
* `Repository.saveAndEncrypt` — `nonce := NewRandomNonce(); ct = nonce ‖ Seal(master, nonce, data or zstd(data))`,
  handed to the packer;
* `Packer.Finalize` — `nonce := NewRandomNonce(); hdr = nonce ‖ Seal(master, nonce, header) ‖ le32(len)`,
  appended after the blobs; `savePacker` uploads blobs ‖ hdr;
* `Repository.saveUnpacked` — `nonce := NewRandomNonce(); file = nonce ‖ Seal(master, nonce, buf or 2‖zstd(buf))`;
* `AddKey` — `nonce := NewRandomNonce(); Data = nonce ‖ Seal(user, nonce, json(master))`, stored inside the
  key file's JSON next to the informational fields (created, username, hostname, KDF parameters, salt);
* `upgrade_repo` re-uploads the raw config it loaded before (the very same stored bytes).

`NewRandomNonce` is the `i`-th draw of a supply; distinct draws are distinct nonces (the
probability-1 idealisation of 128 random bits, an assumption). Core Lean only.
-/
namespace Restic.Model.Secrecy

abbrev Bytes := List UInt8

inductive KeyRef where
  | master | user (i : Nat)
deriving Repr, DecidableEq, Inhabited

inductive Term where
  | plain (b : Bytes)                      -- user data: contents, names, metadata, tags, the master key
  | enc (t : Term)                         -- a deterministic public encoding of `t` (zstd, JSON, version byte)
  | pub (b : Bytes)                        -- public framing: header length, key file's informational JSON fields
  | nonce (i : Nat)                        -- the i-th draw of `NewRandomNonce`
  | sealed (k : KeyRef) (n : Nat) (body : Term)   -- `Seal(k, nonce n, body)`
  | cat (a b : Term)
deriving Repr, DecidableEq, Inhabited

/-- the idiom of every sealing call site -/
def sealWithNonce (k : KeyRef) (n : Nat) (body : Term) : Term := .cat (.nonce n) (.sealed k n body)

/-- repository state as far as C04 is concerned -/
structure St where
  next : Nat := 0                 -- position in the nonce supply
  packer : List Term := []        -- blobs added to the current packer
  stored : List Term := []        -- every payload handed to `be.Save`, in order
  seals : List Nat := []          -- nonce index of every `Seal` call, in order
deriving Repr, Inhabited

inductive Op where
  | saveBlob (data : Bytes) (compress : Bool)
  | finalizePack (header : Bytes)           -- `Packer.Finalize` + `savePacker`
  | saveUnpacked (data : Bytes) (compress : Bool)
  | addKey (info : Bytes) (userKey : Nat) (masterKey : Bytes)
  | resaveConfig (i : Nat)                  -- re-upload the i-th stored payload unchanged (upgrade_repo)
deriving Repr, Inhabited

def encodeData (data : Bytes) (compress : Bool) : Term :=
  if compress then .enc (.plain data) else .plain data

def step (s : St) : Op → St
  | .saveBlob data c =>
    let n := s.next                                         -- `nonce := crypto.NewRandomNonce()`
    { s with next := n + 1, seals := s.seals ++ [n],
             packer := s.packer ++ [sealWithNonce .master n (encodeData data c)] }
  | .finalizePack header =>
    let n := s.next
    let hdr := Term.cat (sealWithNonce .master n (.plain header)) (.pub [])   -- ‖ le32(len)
    let file := s.packer.foldr Term.cat hdr
    { s with next := n + 1, seals := s.seals ++ [n], packer := [], stored := s.stored ++ [file] }
  | .saveUnpacked data c =>
    let n := s.next
    { s with next := n + 1, seals := s.seals ++ [n],
             stored := s.stored ++ [sealWithNonce .master n (encodeData data c)] }
  | .addKey info u mk =>
    let n := s.next
    { s with next := n + 1, seals := s.seals ++ [n],
             stored := s.stored ++ [.cat (.pub info) (sealWithNonce (.user u) n (.enc (.plain mk)))] }
  | .resaveConfig i =>
    match s.stored[i]? with
    | some t => { s with stored := s.stored ++ [t] }
    | none => s

def run (ops : List Op) : St := ops.foldl step {}

/-- no `plain` occurs outside a `sealed` -/
def Term.safe : Term → Bool
  | .plain _ => false
  | .enc t => t.safe
  | .pub _ => true
  | .nonce _ => true
  | .sealed _ _ _ => true
  | .cat a b => a.safe && b.safe

/-- nonce indices used by the seals occurring in a term, left to right -/
def Term.sealNonces : Term → List Nat
  | .sealed _ n _ => [n]
  | .cat a b => a.sealNonces ++ b.sealNonces
  | .enc t => t.sealNonces
  | _ => []

/-- every seal in the term is directly preceded by the nonce it was made with (the reader finds the
    right nonce in the first 16 bytes of the object) -/
def Term.wellFramed : Term → Bool
  | .cat (.nonce i) (.sealed _ n _) => i == n
  | .cat a b => a.wellFramed && b.wellFramed
  | .sealed _ _ _ => false
  | .enc t => t.wellFramed
  | _ => true

/-! ### Executable statement of C04 on observed repositories (a TEST, see docs) -/

/-- `leaks` = number of marker occurrences found in raw backend bytes outside the key files'
    informational fields; `nonces` = the 16-byte nonce prefix of every encrypted object found
    (each blob, each pack header, each unpacked file, each key's `data`). -/
def specOK (leaks : Nat) (nonces : List Bytes) : Bool :=
  leaks == 0 && nonces.eraseDups.length == nonces.length

end Restic.Model.Secrecy
