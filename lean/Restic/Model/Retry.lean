/-
Model of the retry backend (C35): internal/backend/retry/backend_retry.go
  `Backend.retry` (+ `retryAtLeastOnce`, `backoff.WithMaxRetries`, `backoff.WithContext`,
  `backoff.RetryNotify`'s loop, the permanent-error short circuit), `Save` (rewind, save, cleanup
  `Remove` unless the backend replaces atomically), `Load` (circuit breaker), `Stat` (not-exist is
  permanent, context cancelled), `Remove`, `List` (dedup map, the callback's error wins).

The wrapped backend is a *scripted faulty backend*: one handle space `Name = Nat`, content
`Name → Option Bytes`, and per attempt of an operation one fault description (fail before doing
anything, partial write then fail, complete write then report failure, permanent error, context
cancelled during the attempt, no fault).  Time / backoff is abstracted to an oracle
`stop : Nat → Bool` (does the exponential backoff say `Stop` at its i-th call); theorems quantify
over every oracle.  Core Lean only.
-/
namespace Restic.Model.Retry

abbrev Bytes := List UInt8
abbrev Name := Nat

/-- error values, as far as the retry logic can tell them apart -/
inductive Err where
  | transient   -- an ordinary backend error
  | permanent   -- `IsPermanentError` and not `IsNotExist`
  | notExist    -- `IsNotExist` (which is also `IsPermanentError`)
  | canceled    -- `context.Canceled`
  | breaker     -- "circuit breaker open for file"
  | fn          -- the error returned by the caller's callback (List `fn`, Load `consumer`)
  | rewind      -- `RewindReader.Rewind` failed
deriving DecidableEq, Repr, Inhabited

/-- `be.Backend.IsPermanentError` of the scripted backend -/
def Err.isPerm : Err → Bool
  | .permanent => true
  | .notExist => true
  | _ => false

/-- `be.Backend.IsNotExist` -/
def Err.isNotExist : Err → Bool
  | .notExist => true
  | _ => false

structure Cfg where
  redesign : Bool      -- feature.BackendErrorRedesign (beta: on by default)
  flaky : Bool         -- Properties().HasFlakyErrors
  atomic : Bool        -- Properties().HasAtomicReplace
  maxTries : Nat       -- the literal of `backoff.WithMaxRetries(b, 10)` (deprecated mode only)
deriving Repr

/-- the retry bound of the deprecated mode as the model has it (`backoff.WithMaxRetries(b, 10)`);
    `Props/C35.gen_max_retries` proves it equal to the literal regenerated from the source -/
def maxRetries : Nat := 10

def parseNat (cs : List Char) : Option Nat :=
  if cs.isEmpty then none else
  cs.foldl (fun acc c => match acc with
    | none => none
    | some n => if '0' ≤ c ∧ c ≤ '9' then some (n * 10 + (c.toNat - '0'.toNat)) else none) (some 0)

/-- last argument of the rendered call `backoff.WithMaxRetries(<backoff>, <n>)` in a `callargs` fact -/
def maxRetriesOfCalls (calls : List String) : Option Nat :=
  calls.findSome? fun c =>
    let l := c.toList
    let pre := "backoff.WithMaxRetries(".toList
    if l.take pre.length == pre then
      -- text after the last ", " up to the closing parenthesis
      let args := (l.drop pre.length).reverse
      match args with
      | ')' :: rest => parseNat ((rest.takeWhile (· != ' ')).reverse)
      | _ => none
    else none

inductive Res where
  | ok
  | err (e : Err)
  | outOfScript        -- modelling artefact: the fault script ended before the loop did
deriving DecidableEq, Repr, Inhabited

/-- what one call of the retried closure `f` did -/
structure Att (σ : Type) where
  st : σ
  err : Option Err
  wrapped : Bool := false   -- `f` itself returned `backoff.Permanent(err)` (Stat, not-exist)
  cancel : Bool := false    -- the context given to `retry` was cancelled during this call

structure Out (σ : Type) where
  st : σ
  res : Res
  trace : List (Option Err)   -- what each executed attempt returned
  ctxDone : Bool

/-- the wrapper closure of `Backend.retry` counting permanent errors:
    `if redesign && !errors.Is(err, &backoff.PermanentError{}) && IsPermanentError(err) { permanentErrorAttempts-- }` -/
def nextPl (cfg : Cfg) (wrapped : Bool) (e : Err) (pl : Nat) : Nat :=
  if cfg.redesign && !wrapped && e.isPerm then pl - 1 else pl

/-- After a failing attempt: `some res` = the loop ends with `res`, `none` = sleep and try again.
    In source order: `if permanentErrorAttempts <= 0 { return backoff.Permanent(err) }` (and
    `doRetryNotify` returns `permanent.Err` without asking the backoff); then `b.NextBackOff()`
    through backOffContext (cancelled context: Stop, result `ctx.Err()`), backOffTries (deprecated
    mode only), retryAtLeastOnce (never Stop at the first call), ExponentialBackOff (`stop`). -/
def verdictAfterErr (cfg : Cfg) (stop : Nat → Bool) (wrapped : Bool) (e : Err) (pl' nt : Nat) (cd' : Bool) :
    Option Res :=
  if wrapped || pl' == 0 then some (.err e)
  else if cd' then some (.err .canceled)
  else if !cfg.redesign && cfg.maxTries ≤ nt then some (.err e)
  else if stop (nt + 1) && nt + 1 != 1 then some (.err e)
  else none

/-- `backoff.RetryNotify` running the wrapper closure of `Backend.retry`.
    `pl` = `permanentErrorAttempts`, `nt` = number of `NextBackOff` calls so far (the counters of
    `retryAtLeastOnce` and `backOffTries` advance together), `cd` = context already cancelled. -/
def retryLoop {σ φ : Type} (cfg : Cfg) (stop : Nat → Bool) (f : σ → φ → Att σ) :
    List φ → σ → Nat → Nat → Bool → Out σ
  | [], s, _, _, cd => { st := s, res := .outOfScript, trace := [], ctxDone := cd }
  | a :: rest, s, pl, nt, cd =>
    let r := f s a
    let cd' := cd || r.cancel
    match r.err with
    | none => { st := r.st, res := .ok, trace := [none], ctxDone := cd' }
    | some e =>
      let pl' := nextPl cfg r.wrapped e pl
      match verdictAfterErr cfg stop r.wrapped e pl' nt cd' with
      | some res => { st := r.st, res := res, trace := [some e], ctxDone := cd' }
      | none =>
        let o := retryLoop cfg stop f rest r.st pl' (nt + 1) cd'
        { o with trace := some e :: o.trace }

/-- `Backend.retry` -/
def retry {σ φ : Type} (cfg : Cfg) (stop : Nat → Bool) (ctxAlready : Bool) (f : σ → φ → Att σ)
    (script : List φ) (s : σ) : Out σ :=
  if ctxAlready then { st := s, res := .err .canceled, trace := [], ctxDone := true }
  else retryLoop cfg stop f script s (if cfg.flaky then 5 else 1) 0 false

/-! ### the scripted backend -/

abbrev Cells := Name → Option Bytes

def Cells.set (c : Cells) (h : Name) (v : Option Bytes) : Cells := fun n => if n = h then v else c n

inductive SaveKind where
  | ok
  | failBefore
  | partialFail (k : Nat)     -- the first k bytes reach the final name, then an error
  | writeThenFail             -- everything is written, an error is reported nevertheless
  | permanent
  | cancelFail (k : Nat)      -- context cancelled mid-write (k bytes written), `context.Canceled`
deriving Repr, DecidableEq

structure SaveAtt where
  rewindFails : Bool
  kind : SaveKind
  removeFails : Bool          -- the cleanup `Remove` of this attempt fails (and removes nothing)
deriving Repr, DecidableEq

/-- the scripted backend's `Save`: new content, returned error, context cancelled -/
def innerSave (atomic : Bool) (c : Cells) (h : Name) (data : Bytes) : SaveKind → Cells × Option Err × Bool
  | .ok => (c.set h (some data), none, false)
  | .failBefore => (c, some .transient, false)
  | .partialFail k => (if atomic then c else c.set h (some (data.take k)), some .transient, false)
  | .writeThenFail => (c.set h (some data), some .transient, false)
  | .permanent => (c, some .permanent, false)
  | .cancelFail k => (if atomic then c else c.set h (some (data.take k)), some .canceled, true)

/-- the scripted backend's `Remove` (a cancelled context makes it fail, as with real backends) -/
def innerRemove (c : Cells) (h : Name) (fails : Bool) : Cells × Option Err :=
  if fails then (c, some .transient)
  else if (c h).isNone then (c, some .notExist)
  else (c.set h none, none)

/-- the closure of `Backend.Save` -/
def saveF (cfg : Cfg) (h : Name) (data : Bytes) (c : Cells) (a : SaveAtt) : Att Cells :=
  if a.rewindFails then { st := c, err := some .rewind }
  else
    let r := innerSave cfg.atomic c h data a.kind
    match r.2.1 with
    | none => { st := r.1, err := none, cancel := r.2.2 }
    | some e =>
      if cfg.atomic then { st := r.1, err := some e, cancel := r.2.2 }
      else { st := (innerRemove r.1 h (a.removeFails || r.2.2)).1, err := some e, cancel := r.2.2 }

inductive LoadKind where
  | none
  | failBefore
  | partialFail (k : Nat)     -- consumer sees k bytes, then a read error, and returns it
  | afterFail                 -- consumer got everything and returned nil, Load reports an error
  | permanent
  | consumerErr               -- consumer got everything and rejects it
  | cancelFail
deriving Repr, DecidableEq

/-- one invocation of the consumer: the bytes it could read, and whether it reached EOF -/
structure Deliv where
  data : Bytes
  complete : Bool
deriving Repr, DecidableEq

def loadF (c : Cells) (h : Name) (log : List Deliv) : LoadKind → Att (List Deliv)
  | .failBefore => { st := log, err := some .transient }
  | .permanent => { st := log, err := some .permanent }
  | .cancelFail => { st := log, err := some .canceled, cancel := true }
  | k =>
    match c h with
    | none => { st := log, err := some .notExist }
    | some d =>
      match k with
      | .partialFail n => { st := log ++ [⟨d.take n, false⟩], err := some .transient }
      | .afterFail => { st := log ++ [⟨d, true⟩], err := some .transient }
      | .consumerErr => { st := log ++ [⟨d, true⟩], err := some .fn }
      | _ => { st := log ++ [⟨d, true⟩], err := none }

inductive StatKind where
  | none | failBefore | permanent | cancelFail
deriving Repr, DecidableEq

/-- the closure of `Backend.Stat`; the state is the size in the `fi` of the last attempt -/
def statF (c : Cells) (h : Name) (_fi : Nat) : StatKind → Att Nat
  | .failBefore => { st := 0, err := some .transient }
  | .permanent => { st := 0, err := some .permanent }
  | .cancelFail => { st := 0, err := some .canceled, cancel := true }
  | .none =>
    match c h with
    | none => { st := 0, err := some .notExist, wrapped := true, cancel := true }
    | some d => { st := d.length, err := none }

inductive RemoveKind where
  | none | failBefore | removedThenFail | permanent | cancelFail
deriving Repr, DecidableEq

def removeF (h : Name) (c : Cells) : RemoveKind → Att Cells
  | .failBefore => { st := c, err := some .transient }
  | .removedThenFail => { st := c.set h none, err := some .transient }
  | .permanent => { st := c, err := some .permanent }
  | .cancelFail => { st := c, err := some .canceled, cancel := true }
  | .none => if (c h).isNone then { st := c, err := some .notExist } else { st := c.set h none, err := none }

/-- one attempt of the scripted backend's `List`: it delivers `count` names of the listing
    rotated by `rot` (twice over when `dup`), then returns `outcome` -/
structure ListAtt where
  rot : Nat
  count : Nat
  dup : Bool
  outcome : Option Err
deriving Repr, DecidableEq

structure ListSt where
  listed : List Name          -- keys of the `listed` map, in insertion order = calls of `fn`
  innerErr : Option Err
deriving Repr, DecidableEq

/-- the callback `Backend.List` hands to the wrapped backend, run over the delivered names; the
    wrapped backend stops at the first error the callback returns (`true` = aborted).
    `fnFailAt = some k`: the caller's `fn` fails at its k-th invocation (0-based). -/
def feed (fnFailAt : Option Nat) : ListSt → List Name → ListSt × Bool
  | s, [] => (s, false)
  | s, n :: ns =>
    if n ∈ s.listed then feed fnFailAt s ns
    else
      let calls := s.listed.length
      let e : Option Err := if fnFailAt = some calls then some .fn else none
      let s' : ListSt := { listed := s.listed ++ [n], innerErr := e }
      if e.isSome then (s', true) else feed fnFailAt s' ns

def rotate (l : List Name) (r : Nat) : List Name :=
  if l.length = 0 then l else l.drop (r % l.length) ++ l.take (r % l.length)

def delivered (names : List Name) (a : ListAtt) : List Name :=
  let d := (rotate names a.rot).take a.count
  if a.dup then d ++ d else d

def listF (names : List Name) (fnFailAt : Option Nat) (s : ListSt) (a : ListAtt) : Att ListSt :=
  let r := feed fnFailAt s (delivered names a)
  if r.2 then { st := r.1, err := r.1.innerErr, cancel := true }   -- `cancel()`; `return innerErr`
  else { st := r.1, err := a.outcome, cancel := a.outcome == some .canceled }

/-! ### the operations of `retry.Backend` on a history state -/

structure MState where
  cells : Cells
  failed : List Name        -- keys of `failedLoads`

inductive Op where
  | save (h : Name) (data : Bytes) (script : List SaveAtt)
  | load (h : Name) (expired : Bool) (script : List LoadKind)
  | stat (h : Name) (script : List StatKind)
  | remove (h : Name) (script : List RemoveKind)
  | list (fnFailAt : Option Nat) (script : List ListAtt)
deriving Repr

structure OpOut where
  res : Res
  trace : List (Option Err)
  size : Nat := 0
  delivs : List Deliv := []
  reported : List Name := []
deriving Repr, DecidableEq

/-- names `< uni` that exist, in the scripted backend's (sorted) listing order -/
def present (c : Cells) (uni : Nat) : List Name := (List.range uni).filter fun n => (c n).isSome

def step (cfg : Cfg) (uni : Nat) (stop : Nat → Bool) (ctxAlready : Bool) (m : MState) : Op → MState × OpOut
  | .save h data script =>
    let o := retry cfg stop ctxAlready (saveF cfg h data) script m.cells
    ({ m with cells := o.st }, { res := o.res, trace := o.trace })
  | .load h expired script =>
    -- circuit breaker
    if h ∈ m.failed && !expired then (m, { res := .err .breaker, trace := [] })
    else
      let failed := if h ∈ m.failed then m.failed.erase h else m.failed
      let o := retry cfg stop ctxAlready (loadF m.cells h) script []
      let failed' := match o.res with
        | .err e => if cfg.redesign && !o.ctxDone && !e.isPerm && !(h ∈ failed) then failed ++ [h] else failed
        | _ => failed
      ({ m with failed := failed' }, { res := o.res, trace := o.trace, delivs := o.st })
  | .stat h script =>
    let o := retry cfg stop ctxAlready (statF m.cells h) script 0
    (m, { res := o.res, trace := o.trace, size := o.st })
  | .remove h script =>
    let o := retry cfg stop ctxAlready (removeF h) script m.cells
    ({ m with cells := o.st }, { res := o.res, trace := o.trace })
  | .list fnFailAt script =>
    let o := retry cfg stop ctxAlready (listF (present m.cells uni) fnFailAt) script ⟨[], none⟩
    -- "the error fn returned takes precedence"
    let res := match o.st.innerErr with
      | some e => .err e
      | none => o.res
    (m, { res := res, trace := o.trace, reported := o.st.listed })

/-! ### the executable statement of C35 -/

/-- the operation on an error-free backend, without any retry layer -/
def plain (uni : Nat) (c : Cells) : Op → Cells × OpOut
  | .save h data _ => (c.set h (some data), { res := .ok, trace := [] })
  | .load h _ _ =>
    match c h with
    | some d => (c, { res := .ok, trace := [], delivs := [⟨d, true⟩] })
    | none => (c, { res := .err .notExist, trace := [] })
  | .stat h _ =>
    match c h with
    | some d => (c, { res := .ok, trace := [], size := d.length })
    | none => (c, { res := .err .notExist, trace := [] })
  | .remove h _ =>
    if (c h).isNone then (c, { res := .err .notExist, trace := [] }) else (c.set h none, { res := .ok, trace := [] })
  | .list _ _ => (c, { res := .ok, trace := [], reported := present c uni })

def nodupB : List Name → Bool
  | [] => true
  | x :: xs => !(x ∈ xs) && nodupB xs

def sameSet (a b : List Name) : Bool := a.all (· ∈ b) && b.all (· ∈ a)

/-- equality of contents on the names below `uni` -/
def cellsEq (uni : Nat) (a b : Cells) : Bool := (List.range uni).all fun n => a n == b n

/-- every cleanup of a save script works (the forced hypothesis of `save_err_clean`) -/
def cleanupsWork (script : List SaveAtt) : Bool :=
  script.all fun a => !a.removeFails && (match a.kind with | .cancelFail _ => false | _ => true)

/-- ok attempts of a list script deliver the whole listing -/
def okListsComplete (n : Nat) (script : List ListAtt) : Bool :=
  script.all fun a => a.outcome.isSome || n ≤ a.count

/-- "permanent errors are not retried": no attempt follows one that returned a permanent error -/
def noRetryAfterPermanent : List (Option Err) → Bool
  | [] => true
  | [_] => true
  | some e :: rest => !e.isPerm && noRetryAfterPermanent rest
  | none :: rest => noRetryAfterPermanent rest

/-- clause 1: a completed operation gives what an error-free backend gives -/
def clause1 (uni : Nat) (before : Cells) (op : Op) (after : Cells) (out : OpOut) : Option String :=
  let p := plain uni before op
  if out.res == .ok then
    if !cellsEq uni after p.1 then some "ok-but-state-differs-from-error-free"
    else match op with
      | .load .. => if out.delivs.getLast? == p.2.delivs.getLast? && p.2.res == .ok then none else some "ok-but-load-data-differs"
      | .stat .. => if out.size == p.2.size && p.2.res == .ok then none else some "ok-but-stat-differs"
      | .list _ script =>
        if !okListsComplete (present before uni).length script then none
        else if sameSet out.reported p.2.reported then none else some "ok-but-listing-differs"
      | .remove .. => if p.2.res == .ok then none else some "ok-but-error-free-remove-fails"
      | .save .. => none
  else none

/-- clause 2: listing reports each file at most once -/
def clause2 (op : Op) (out : OpOut) : Option String :=
  match op with
  | .list .. => if nodupB out.reported then none else some "list-reports-file-twice"
  | _ => none

/-- clause 3: a failed save never leaves a partial file under its final name (on backends
    without atomic replace: provided the cleanups of the script work) -/
def clause3 (cfg : Cfg) (before : Cells) (op : Op) (after : Cells) (out : OpOut) : Option String :=
  match op with
  | .save h data script =>
    if out.res != .ok && (cfg.atomic || cleanupsWork script) then
      if after h == none || after h == some data || after h == before h then none else some "failed-save-left-partial-file"
    else none
  | _ => none

/-- clause 4: permanent errors are not retried -/
def clause4 (cfg : Cfg) (out : OpOut) : Option String :=
  if cfg.redesign && !cfg.flaky && !noRetryAfterPermanent out.trace then some "permanent-error-retried" else none

/-- clause 5: only the touched handle changes, reads change nothing -/
def clause5 (uni : Nat) (before : Cells) (op : Op) (after : Cells) : Option String :=
  match op with
  | .save h _ _ =>
    if (List.range uni).all (fun n => n == h || after n == before n) then none else some "other-file-changed"
  | .remove h _ =>
    if (List.range uni).all (fun n => n == h || after n == before n) then none else some "other-file-changed"
  | _ => if cellsEq uni after before then none else some "read-changed-state"

/-- C35 evaluated on one operation: state before, the operation, state after and the output (of
    the model or of the implementation). Returns the name of the violated clause. -/
def specViolation (cfg : Cfg) (uni : Nat) (before : Cells) (op : Op) (after : Cells) (out : OpOut) : Option String :=
  clause1 uni before op after out <|> clause2 op out <|> clause3 cfg before op after out <|>
    clause4 cfg out <|> clause5 uni before op after

def specOK (cfg : Cfg) (uni : Nat) (before : Cells) (op : Op) (after : Cells) (out : OpOut) : Bool :=
  (specViolation cfg uni before op after out).isNone

end Restic.Model.Retry
