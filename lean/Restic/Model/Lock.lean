/-
Model of the repository lock protocol (C12): `newLock` (checkForOtherLocks, createLock,
waitBeforeLockCheck, checkForOtherLocks again), `refresh` (createReplacementLock then
adoptReplacementLock = remove the old file), `unlock`, `stale` / `RemoveStaleLocks`
(internal/repository/lock_file.go, internal/repository/lock.go). Core Lean only.

Transition system: an arbitrary (unbounded) table of processes, each a small automaton

    idle --check1--> checked1 --create--> created --check2ok--> holding
    holding --refreshCreate--> refreshing --refreshRemove--> holding
    holding --giveUp--> stopping --cleanup--> released         (Unlock / cancelled context, then unlock())
    created --check2fail--> stopping                           (second check found a conflicting lock)
    any --crash--> dead                                        (lock files stay behind)
    holding --expire--> stale0                                 (monitor forces a refresh: backend frozen)
    stale0 --srCheck1--> stale1 --srCreate--> stale2 --srCheck2--> stale3 --srAdopt--> holding
           (refreshStaleLock: old file exists, write replacement, old file still exists, adopt = remove old)
    stale0/1/2 --srFail--> stopping                            (old file gone / error: cleanup replacement, cancel)

plus a remover (`restic unlock`) deleting files it judges stale (`removeStale`: older than
`staleLockTimeout` by its own clock, clocks differing by at most `eps` from real time;
`removeDead`: the owning process is dead), plus `tick` (real time advances by one unit).

Shared state = the lock files in the repository. A process owns at most two: `f1` (the file
`lockID` points to) and `f2` (the replacement written by `refresh` before the old one is removed);
the stored value is the `Time` field written into the file.

Assumptions that are part of the model (they are the assumptions named in the statement of C12):
 * a check (`checkForOtherLocks`) sees an atomic snapshot of the lock files (the passing check is
   linearised at its successful `List`; lock files are immutable, so the later `Load`s return what
   was there at that point);
 * a process that believes it holds the lock (or is between create and re-check) lets real time pass
   only while `now < Time + R + M` (`R` = refreshabilityTimeout, `M` = the longest stall inside one
   operation): at the latest then it takes a step of its own (refresh, give up, finish the check).
   This is the guard of `tick`; C13 is about the holder actually behaving like this.
-/
namespace Restic.Model.Lock

inductive PC where
  | idle | checked1 | created | holding | refreshing | stopping | released | dead
  | stale0 | stale1 | stale2 | stale3
deriving DecidableEq, Repr, Inhabited

structure Proc where
  pc : PC := .idle
  /-- the process wants an exclusive lock -/
  excl : Bool
  /-- `lock.Time` of the newest lock file this process wrote -/
  t : Nat := 0
  /-- the file `lockID` points to, if it is in the repository (value: its `Time` field) -/
  f1 : Option Nat := none
  /-- the replacement file written by `refresh`, until it is adopted -/
  f2 : Option Nat := none
deriving DecidableEq, Repr, Inhabited

/-- S = staleLockTimeout, R = refreshabilityTimeout, M = maximal stall, eps = clock skew -/
structure Params where
  S : Nat
  R : Nat
  M : Nat
  eps : Nat
deriving DecidableEq, Repr

structure Sys where
  now : Nat
  procs : List Proc
deriving DecidableEq, Repr

/-- actions of one process (or, for the two `remove…` actions, of a remover on that process's file) -/
inductive LAct where
  | check1 | check1fail | abort | create | check2ok | check2fail
  | refreshCreate | refreshRemove | giveUp | cleanup | crash
  | expire | srCheck1 | srCreate | srCheck2 | srAdopt | srFail | srFailKeep
  | removeStale (second : Bool)
  | removeDead (second : Bool)
deriving DecidableEq, Repr

inductive Act where
  | proc (i : Nat) (a : LAct)
  | tick
deriving DecidableEq, Repr

def filePresent (p : Proc) : Bool := p.f1.isSome || p.f2.isSome

/-- `l.Exclusive || lock.Exclusive` in `checkForOtherLocks` -/
def conflict (a b : Bool) : Bool := a || b

/-- `checkForOtherLocks` of process `i` wanting `e` finds no conflicting lock of another process -/
def clearB (s : Sys) (i : Nat) (e : Bool) : Bool :=
  s.procs.zipIdx.all fun pj => pj.2 == i || !filePresent pj.1 || !conflict e pj.1.excl

/-- the process believes it holds the lock -/
def holds (p : Proc) : Bool := p.pc == .holding || p.pc == .refreshing

/-- a remover whose clock is at most `eps` ahead, reading a `Time` written by a clock at most `eps`
    behind, can find `time.Since(l.Time) > staleLockTimeout` -/
def canJudgeStale (P : Params) (now b : Nat) : Bool := decide (b + P.S < now + 2 * P.eps)

def getFile (p : Proc) (second : Bool) : Option Nat := if second then p.f2 else p.f1
def clearFile (p : Proc) (second : Bool) : Proc := if second then { p with f2 := none } else { p with f1 := none }

/-- local transition of one process; `clear` = result of its `checkForOtherLocks` now -/
def localStep (P : Params) (now : Nat) (clear : Bool) (p : Proc) : LAct → Option Proc
  | .check1 => if (p.pc = .idle ∨ p.pc = .checked1) ∧ clear = true then some { p with pc := .checked1 } else none
  | .check1fail => if p.pc = .checked1 then some { p with pc := .idle } else none
  | .abort => if p.pc = .idle ∨ p.pc = .checked1 then some { p with pc := .released } else none
  | .create => if p.pc = .checked1 then some { p with pc := .created, t := now, f1 := some now } else none
  | .check2ok => if p.pc = .created ∧ clear = true then some { p with pc := .holding } else none
  | .check2fail => if p.pc = .created then some { p with pc := .stopping } else none
  | .refreshCreate => if p.pc = .holding then some { p with pc := .refreshing, t := now, f2 := some now } else none
  | .refreshRemove => if p.pc = .refreshing then some { p with pc := .holding, f1 := p.f2, f2 := none } else none
  | .giveUp => if p.pc = .holding then some { p with pc := .stopping } else none
  | .cleanup => if p.pc = .stopping then some { p with pc := .released, f1 := none } else none
  | .crash => if p.pc ≠ .dead then some { p with pc := .dead } else none
  -- forced refresh of a lock that could not be refreshed in time (tryRefreshStaleLock / refreshStaleLock)
  | .expire => if p.pc = .holding then some { p with pc := .stale0 } else none
  | .srCheck1 => if p.pc = .stale0 ∧ p.f1.isSome = true then some { p with pc := .stale1 } else none
  | .srCreate => if p.pc = .stale1 then some { p with pc := .stale2, t := now, f2 := some now } else none
  -- second existence check (after the replacement is stored): the old file must still be there
  | .srCheck2 => if p.pc = .stale2 ∧ p.f1.isSome = true then some { p with pc := .stale3 } else none
  -- adoption: `lockID` points to the replacement, the old file is removed (whether or not it is still there)
  | .srAdopt => if p.pc = .stale3 then some { p with pc := .holding, f1 := p.f2, f2 := none } else none
  | .srFail =>
    if p.pc = .stale0 ∨ p.pc = .stale1 ∨ p.pc = .stale2 then some { p with pc := .stopping, f2 := none } else none
  -- adoption attempted (`lockID` already points to the replacement) but removing the old file failed:
  -- error, the replacement stays until unlock removes it
  | .srFailKeep => if p.pc = .stale3 then some { p with pc := .stopping, f1 := p.f2, f2 := none } else none
  | .removeStale k =>
    match getFile p k with
    | some b => if canJudgeStale P now b then some (clearFile p k) else none
    | none => none
  | .removeDead k => if p.pc = .dead ∧ (getFile p k).isSome then some (clearFile p k) else none

/-- must act before real time passes: between create and re-check, while believing to hold, and
    between writing the replacement of a forced refresh and adopting it. A process in `stale0`/`stale1`
    (backend frozen, lock possibly long expired) is not urgent: it may be arbitrarily late. -/
def urgent (p : Proc) : Bool :=
  p.pc == .created || p.pc == .holding || p.pc == .refreshing || p.pc == .stale2 || p.pc == .stale3

def step (P : Params) (s : Sys) : Act → Option Sys
  | .proc i a =>
    match s.procs[i]? with
    | some p =>
      match localStep P s.now (clearB s i p.excl) p a with
      | some p' => some { s with procs := s.procs.set i p' }
      | none => none
    | none => none
  | .tick =>
    if s.procs.all (fun p => !urgent p || decide (s.now < p.t + P.R + P.M)) then some { s with now := s.now + 1 }
    else none

def run (P : Params) (s : Sys) : List Act → Option Sys
  | [] => some s
  | a :: as => match step P s a with
    | some s' => run P s' as
    | none => none

def init (now : Nat) (excls : List Bool) : Sys :=
  { now := now, procs := excls.map fun e => { excl := e } }

/-! ### Executable statement of the property -/

/-- C12: no two different processes believe at the same time that they hold conflicting locks
    (in particular: while one holds an exclusive lock nobody else holds any lock). -/
def mutexB (s : Sys) : Bool :=
  s.procs.zipIdx.all fun pi => s.procs.zipIdx.all fun qj =>
    pi.2 == qj.2 || !(holds pi.1 && holds qj.1) || !conflict pi.1.excl qj.1.excl

/-- the same statement on what is observed of the implementation: the list of (process, exclusive)
    of the processes that currently believe they hold the lock -/
def holdersOK (hs : List (Nat × Bool)) : Bool :=
  hs.all fun a => hs.all fun b => a.1 == b.1 || !conflict a.2 b.2

end Restic.Model.Lock
