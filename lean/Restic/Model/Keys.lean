/-
Model for C29: key files, `openKey` / `searchKey` (internal/repository/key.go),
`Repository.SearchKey` (internal/repository/repository.go), and the backend traces of
`key add` / `key passwd` / `key remove` (cmd/restic/cmd_key_*.go, `AddKey`, `RemoveKey`).
Core Lean only.

KDF/MAC idealisation (assumed, see meta): a key file created with password `p` opens with `p` and
yields `crypto.ErrUnauthenticated` for every other password.
-/
namespace Restic.Model.Keys

abbrev Password := String
abbrev KeyID := String

/-- what a file under `keys/` can be -/
inductive KeyFile where
  | good (pw : Password) (master : Nat)   -- written by `AddKey` for `pw`, sealing master key `master`
  | bad                                   -- not a key file restic can parse (bad JSON, wrong KDF, data too short)
deriving DecidableEq, Repr

inductive OpenRes where
  | ok (master : Nat)
  | unauth          -- crypto.ErrUnauthenticated
  | err             -- any other error
deriving DecidableEq, Repr

/-- `openKey` under the idealisation -/
def openKey (kf : KeyFile) (pw : Password) : OpenRes :=
  match kf with
  | .good p m => if p = pw then .ok m else .unauth
  | .bad => .err

/-- key files in the order `Repository.List` reports them (names that are not IDs are skipped) -/
abbrev Listing := List (KeyID × KeyFile)

inductive SearchRes where
  | ok (id : KeyID) (master : Nat)
  | noKeyFound
  | maxKeysReached
  | err (id : KeyID)         -- `openKey` failed with an error other than ErrUnauthenticated
deriving DecidableEq, Repr

/-- the callback of the `s.List` loop of `searchKey`, with the counter `checked` -/
def searchList (maxKeys : Nat) (pw : Password) : Nat → Listing → SearchRes
  | _, [] => .noKeyFound
  | checked, (id, kf) :: rest =>
    let checked := checked + 1
    if maxKeys > 0 ∧ checked > maxKeys then .maxKeysReached
    else match openKey kf pw with
      | .ok m => .ok id m
      | .unauth => searchList maxKeys pw checked rest
      | .err => .err id

def hasPrefix (p s : String) : Bool := p.toList.isPrefixOf s.toList

/-- `restic.Find`: the unique listed ID starting with `prefix` -/
def findPrefix (l : Listing) (pfx : String) : Option (KeyID × KeyFile) :=
  match l.filter (fun e => hasPrefix pfx e.1) with
  | [e] => some e
  | _ => none

/-- `searchKey(password, maxKeys, keyHint)`: the hinted key is tried first; when it cannot be found
    or does not open, the list loop runs over all keys (the hinted one included) -/
def searchKey (maxKeys : Nat) (pw : Password) (hint : String) (l : Listing) : SearchRes :=
  let viaHint : Option SearchRes :=
    if hint.isEmpty then none else
    match findPrefix l hint with
    | some (id, kf) =>
      (match openKey kf pw with
       | .ok m => some (.ok id m)
       | _ => none)
    | none => none
  match viaHint with
  | some r => r
  | none => searchList maxKeys pw 0 l

inductive RepoOpen where
  | ok (id : KeyID)
  | noKeyFound | maxKeysReached
  | keyError                -- unreadable key file met before a matching one
  | damaged                 -- a key opened but its master key does not decrypt the config
deriving DecidableEq, Repr

/-- `Repository.SearchKey`: `searchKey`, then `LoadConfig` with the master key found -/
def repoSearchKey (cfgMaster : Nat) (maxKeys : Nat) (pw : Password) (hint : String) (l : Listing) : RepoOpen :=
  match searchKey maxKeys pw hint l with
  | .ok id m => if m = cfgMaster then .ok id else .damaged
  | .noKeyFound => .noKeyFound
  | .maxKeysReached => .maxKeysReached
  | .err _ => .keyError

/-! ## key management commands as backend traces -/

inductive KEv where
  | save (id : KeyID) (kf : KeyFile)
  | remove (id : KeyID)
deriving DecidableEq, Repr

/-- key files as a set: saving a new id adds it, removing deletes every entry with that id -/
def applyK (ks : Listing) : KEv → Listing
  | .save id kf => (id, kf) :: ks.filter (fun e => e.1 ≠ id)
  | .remove id => ks.filter (fun e => e.1 ≠ id)

def applyAllK (ks : Listing) (evs : List KEv) : Listing := evs.foldl applyK ks

inductive KeyOp where
  /-- `key add`: `AddKey(newPw, template = repo.Key())`, verification `SearchKey(pw, 0, newID)` -/
  | add (newID : KeyID) (pw : Password) (verifyOK : Bool)
  /-- `key passwd`: `AddKey`, verification, `RemoveKey(oldID)` -/
  | passwd (newID : KeyID) (pw : Password) (verifyOK : Bool)
  /-- `key remove id` (id already resolved by `restic.Find`) -/
  | remove (id : KeyID)
deriving DecidableEq, Repr

/-- successful backend writes on key files of one command run by a session that opened the
    repository with key `cur` (master key `m`). `switchToNewKeyAndRemoveIfBroken` removes the new
    key again when it cannot be used; `deleteKey` / `RemoveKey` refuse `id = cur`. -/
def opTrace (cur : KeyID) (m : Nat) : KeyOp → List KEv
  | .add n pw true => [.save n (.good pw m)]
  | .add n pw false => [.save n (.good pw m), .remove n]
  | .passwd n pw true => [.save n (.good pw m), .remove cur]
  | .passwd n pw false => [.save n (.good pw m), .remove n]
  | .remove id => if id = cur then [] else [.remove id]

def KeyOp.newID : KeyOp → Option KeyID
  | .add n _ _ => some n
  | .passwd n _ _ => some n
  | .remove _ => none

/-! ## The property, executable -/

/-- some key file present was created with `pw` -/
def hasPw (l : Listing) (pw : Password) : Bool :=
  l.any (fun e => match e.2 with | .good p _ => p == pw | .bad => false)

def allGood (l : Listing) : Bool := l.all (fun e => match e.2 with | .good _ _ => true | .bad => false)

/-- C29, opening: for a repository whose key files were all written by restic, with at most
    `maxKeys` keys (or a hint naming a key of that password), `opened` ⟺ some key has `pw`;
    in any case a password that opens belongs to some key. -/
def specOpen (maxKeys : Nat) (l : Listing) (pw : Password) (hintHit : Bool) (opened : Bool) : Bool :=
  !allGood l ||
  ((!opened || hasPw l pw) &&
   (!(decide (l.length ≤ maxKeys) || hintHit) || (opened == hasPw l pw)))

/-- C29, interruption: some key works -/
def someKeyWorks (m : Nat) (l : Listing) : Bool :=
  l.any (fun e => match e.2 with | .good _ m' => m' == m | .bad => false)

end Restic.Model.Keys
