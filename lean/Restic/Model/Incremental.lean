/-
Model for C40 (incremental backups store the same tree as full backups): `fileChanged`,
`allBlobsPresent`, the re-use of the previous node's content list in `Archiver.save`, the recursion
of `saveDir` with `TreeFinder.Find` / `loadSubtree`, the `SkipIfUnchanged` test of
`Archiver.Snapshot` (internal/archiver/archiver.go) and the option logic of `findParentSnapshot`
(cmd/restic/cmd_backup.go). Core Lean only.

Chunking + storing a file's content is the parameter `chunkIDs : Bytes → List ID` (C17: a function
of the content and the repository polynomial only; C16/C02: ids are content addresses).
-/
namespace Restic.Model.Incremental

abbrev Bytes := List UInt8

/-- what `lstat` shows of an item that matters here (all other metadata travels in `md`) -/
structure FileInfo where
  size : Nat
  mtime : Int        -- nanoseconds
  ctime : Int
  inode : Nat
deriving DecidableEq, Repr, Inhabited

/-- a source tree at the time of a backup; `md` stands for all the metadata `nodeFromFileInfo`
    takes freshly from the file system (mode, owner, times, xattrs …) -/
inductive Src where
  | file (name : Bytes) (md : Nat) (fi : FileInfo) (content : Bytes)
  | other (name : Bytes) (md : Nat)                 -- symlink, fifo, device: no content
  | dir (name : Bytes) (md : Nat) (children : List Src)
deriving Repr

/-- nodes of a snapshot tree -/
inductive TNode (ID : Type) where
  | file (name : Bytes) (md : Nat) (fi : FileInfo) (content : List ID)
  | other (name : Bytes) (md : Nat)
  | dir (name : Bytes) (md : Nat) (children : List (TNode ID))
deriving Repr

def TNode.name {ID : Type} : TNode ID → Bytes
  | .file n .. => n
  | .other n _ => n
  | .dir n .. => n

structure Flags where
  ignoreCtime : Bool      -- ChangeIgnoreCtime
  ignoreInode : Bool      -- ChangeIgnoreInode
deriving DecidableEq, Repr, Inhabited

/-- `runBackup`: the command-line options become `ChangeIgnoreFlags`; `--ignore-inode` implies
    `--ignore-ctime` ("on FUSE, the ctime is not reliable either") -/
def cliFlags (optIgnoreCtime optIgnoreInode : Bool) : Flags :=
  let f : Flags := ⟨false, false⟩
  let f := if optIgnoreInode then { ignoreCtime := true, ignoreInode := true } else f
  if optIgnoreCtime then { f with ignoreCtime := true } else f

/-- `fileChanged(fi, node, ignoreFlags)`; called for regular files only -/
def fileChanged {ID : Type} (fi : FileInfo) (node : Option (TNode ID)) (fl : Flags) : Bool :=
  match node with
  | none => true                                        -- node == nil
  | some (.other ..) => true                            -- node.Type != file: type change
  | some (.dir ..) => true
  | some (.file _ _ nfi _) =>
    if fi.size ≠ nfi.size then true
    else if fi.mtime ≠ nfi.mtime then true
    else
      let checkCtime := !fl.ignoreCtime
      let checkInode := !fl.ignoreInode
      if checkCtime && fi.ctime ≠ nfi.ctime then true
      else if checkInode && nfi.inode ≠ fi.inode then true
      else false

/-- `allBlobsPresent`: every id of the previous content list is in the index -/
def allBlobsPresent {ID : Type} (inIndex : ID → Bool) (content : List ID) : Bool := content.all inIndex

/-- `TreeFinder.Find(name)` on the (name-sorted) previous tree -/
def findNode {ID : Type} (prev : List (TNode ID)) (name : Bytes) : Option (TNode ID) :=
  prev.find? (·.name = name)

/-- `loadSubtree`: the children of the previous node if it is a directory -/
def subtreeOf {ID : Type} : Option (TNode ID) → List (TNode ID)
  | some (.dir _ _ cs) => cs
  | _ => []

mutual
/-- `Archiver.save` for one item with the node found at the same name in the parent tree -/
def save {ID : Type} (chunkIDs : Bytes → List ID) (inIndex : ID → Bool) (fl : Flags)
    (previous : Option (TNode ID)) : Src → TNode ID
  | .file name md fi content =>
    if !fileChanged fi previous fl then
      match previous with
      | some (.file _ _ _ pc) =>
        if allBlobsPresent inIndex pc then
          .file name md fi pc                    -- node from nodeFromFileInfo, node.Content = previous.Content
        else .file name md fi (chunkIDs content) -- "parts of … not found in the repository index; storing the file again"
      | _ => .file name md fi (chunkIDs content)
    else .file name md fi (chunkIDs content)     -- fileSaver.Save
  | .other name md => .other name md
  | .dir name md cs => .dir name md (saveList chunkIDs inIndex fl (subtreeOf previous) cs)
/-- the loop of `saveDir`: `oldNode := finder.Find(name)`, then `save` -/
def saveList {ID : Type} (chunkIDs : Bytes → List ID) (inIndex : ID → Bool) (fl : Flags)
    (prev : List (TNode ID)) : List Src → List (TNode ID)
  | [] => []
  | c :: cs =>
    let name := match c with | .file n .. => n | .other n _ => n | .dir n .. => n
    save chunkIDs inIndex fl (findNode prev name) c :: saveList chunkIDs inIndex fl prev cs
end

/-- a backup without a parent (`--force`, or no snapshot found) -/
def fullBackup {ID : Type} (chunkIDs : Bytes → List ID) (root : Src) : TNode ID :=
  save chunkIDs (fun _ => true) ⟨false, false⟩ none root

/-- a backup with the parent tree `p` -/
def incrBackup {ID : Type} (chunkIDs : Bytes → List ID) (inIndex : ID → Bool) (fl : Flags)
    (p : TNode ID) (root : Src) : TNode ID :=
  save chunkIDs inIndex fl (some p) root

/-- `Archiver.Snapshot`, the `SkipIfUnchanged` test: `true` = no snapshot is created -/
def skipSnapshot {TID : Type} [DecidableEq TID] (skipIfUnchanged : Bool) (parentTree : Option (Option TID)) (rootTree : TID) : Bool :=
  match parentTree with
  | none => false                                  -- opts.ParentSnapshot == nil
  | some pt =>
    if skipIfUnchanged then
      match pt with
      | some t => t = rootTree                     -- ps.Tree != nil && rootTreeID.Equal(*ps.Tree)
      | none => false
    else false

/-- outcome of `findParentSnapshot` -/
inductive ParentSel (S : Type) | noParent | parent (s : S) | error
deriving Repr, DecidableEq

/-- `findParentSnapshot`: `--force` disables the parent; otherwise the snapshot named by
    `--parent`, or the latest one matching the group-by filter (`latest` is C24's concern and
    comes in as the result of `FindLatest`); "no snapshot found" is an error only for an explicit
    `--parent`. -/
def findParentSnapshot {S : Type} (force : Bool) (explicitParent : Bool) (findLatest : Option (Option S)) : ParentSel S :=
  if force then .noParent else
  match findLatest with
  | some (some s) => .parent s
  | some none => if explicitParent then .error else .noParent      -- ErrNoSnapshotFound
  | none => .error                                                  -- any other error

/-! ## Specification side -/

mutual
/-- The hypothesis of the property: wherever the parent tree has a regular file at the same place and
    `fileChanged` says "unchanged", the parent's content list is what chunking the current content
    yields ("files whose content changed also changed size, mtime, ctime or inode"). -/
def HypOK {ID : Type} [DecidableEq ID] (chunkIDs : Bytes → List ID) (fl : Flags) (previous : Option (TNode ID)) : Src → Bool
  | .file _ _ fi content =>
    match previous with
    | some (.file _ _ _ pc) => fileChanged fi previous fl || pc == chunkIDs content
    | _ => true
  | .other .. => true
  | .dir _ _ cs => HypOKL chunkIDs fl (subtreeOf previous) cs
def HypOKL {ID : Type} [DecidableEq ID] (chunkIDs : Bytes → List ID) (fl : Flags) (prev : List (TNode ID)) : List Src → Bool
  | [] => true
  | c :: cs =>
    let name := match c with | .file n .. => n | .other n _ => n | .dir n .. => n
    HypOK chunkIDs fl (findNode prev name) c && HypOKL chunkIDs fl prev cs
end

mutual
def TNode.beq {ID : Type} [DecidableEq ID] : TNode ID → TNode ID → Bool
  | .file n m fi c, .file n' m' fi' c' => n == n' && m == m' && fi == fi' && c == c'
  | .other n m, .other n' m' => n == n' && m == m'
  | .dir n m cs, .dir n' m' cs' => n == n' && m == m' && TNode.beqL cs cs'
  | _, _ => false
def TNode.beqL {ID : Type} [DecidableEq ID] : List (TNode ID) → List (TNode ID) → Bool
  | [], [] => true
  | a :: as, b :: bs => TNode.beq a b && TNode.beqL as bs
  | _, _ => false
end

/-- Executable statement for one incremental backup: under the hypothesis the tree stored with a
    parent equals the tree stored without; and the snapshot is omitted exactly when skipping was
    requested, a parent exists and its tree is the new tree. -/
def specOK {ID : Type} [DecidableEq ID] (hyp : Bool) (withParent withoutParent : TNode ID) : Bool :=
  !hyp || TNode.beq withParent withoutParent

def skipSpecOK (skipRequested parentExists parentTreeEqNew omitted : Bool) : Bool :=
  omitted == (skipRequested && parentExists && parentTreeEqNew)

end Restic.Model.Incremental
