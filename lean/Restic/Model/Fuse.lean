/-
Model of reading a file through the FUSE mount (C46): `file.Open` (the `cumsize` prefix sums
built from the index sizes of the content blobs) and `openFile.Read` (`sort.Search` for the
first blob, then the copy loop) of internal/fuse/file.go; `sort.Search` itself is transcribed
from the Go standard library (binary search). Core Lean only.

A file is a list of content entries `(size, blob)`: `size` is what `LookupBlobSize` reports for
the blob id, `blob` is what `getBlobAt` (blob cache + `LoadBlob`) returns for it (`none` = the
load failed). The Go code uses `size` for `cumsize` and `blob` for the bytes; the two agree for
a healthy repository (hypothesis `WellFormed` of the theorems), but the transcription does not
assume it: a slice expression that would be out of range is the outcome `panic`.
-/
namespace Restic.Model.Fuse

/-- `cumsize` of `file.Open`: `cumsize[0] = 0`, `cumsize[i+1] = cumsize[i] + size i`
    (`acc` is the running `bytes` variable). The result has one more element than `sizes`. -/
def cumsizeFrom (acc : Nat) : List Nat → List Nat
  | [] => [acc]
  | s :: ss => acc :: cumsizeFrom (acc + s) ss

def cumsize (sizes : List Nat) : List Nat := cumsizeFrom 0 sizes

/-- the loop of Go's `sort.Search(n, f)`: `for i < j { h := (i+j)/2; if !f(h) { i = h+1 } else { j = h } }`.
    `fuel` bounds the number of iterations (`j - i` decreases strictly; `search` passes `n`). -/
def searchLoop (f : Nat → Bool) : Nat → Nat → Nat → Nat
  | 0, i, _ => i
  | fuel + 1, i, j =>
    if i < j then
      let h := (i + j) / 2
      if !f h then searchLoop f fuel (h + 1) j else searchLoop f fuel i h
    else i

/-- `sort.Search(n, f)` -/
def search (n : Nat) (f : Nat → Bool) : Nat := searchLoop f n 0 n

inductive ReadRes (α : Type) where
  | ok (data : List α)     -- `resp.Data`, nil error
  | err                    -- `getBlobAt` failed, Read returns the error
  | panic                  -- a slice expression / index out of range
deriving Repr, DecidableEq, BEq

/-- The copy loop of `openFile.Read`, started at blob `startContent` (the list is
    `Content[startContent:]`): `offset` is the number of bytes to skip in the first blob,
    `remaining` = `remainingBytes`, `acc` = `resp.Data[:readBytes]`. -/
def copyLoop {α : Type} : List (Option (List α)) → Nat → Nat → List α → ReadRes α
  | [], _, _, acc => .ok acc                        -- i < len(f.cumsize)-1 is false
  | b :: bs, offset, remaining, acc =>
    if remaining = 0 then .ok acc                   -- remainingBytes > 0 is false
    else match b with
      | none => .err
      | some blob =>
        if offset > blob.length then .panic         -- blob[offset:] out of range
        else
          let blob' := if offset > 0 then blob.drop offset else blob
          let copied := min remaining blob'.length  -- copy(dst, blob)
          copyLoop bs 0 (remaining - copied) (acc ++ blob'.take copied)

/-- `openFile.Read` on a handle whose table is `cs` (`f.cumsize`) and whose content entries load
    as `blobs`; `off` is `uint64(req.Offset)`, `n` is `req.Size`. -/
def readWith {α : Type} (cs : List Nat) (blobs : List (Option (List α))) (off n : Nat) : ReadRes α :=
  -- `f.node.Size` after Open is the sum of the index sizes = last element of cumsize
  if cs.getLastD 0 = 0 then .ok []
  else
    match search cs.length (fun i => decide (cs.getD i 0 > off)) with
    | 0 => .panic                                    -- f.cumsize[-1]
    | s + 1 =>                                       -- startContent = s
      match cs[s]? with
      | none => .panic
      | some c => copyLoop (blobs.drop s) (off - c) n []

/-- `file.Open` followed by `openFile.Read` -/
def readAt {α : Type} (file : List (Nat × Option (List α))) (off n : Nat) : ReadRes α :=
  readWith (cumsize (file.map (·.1))) (file.map (·.2)) off n

/-! ### `file.Open` with its early returns

The Go `file` node is immutable (root, node, inode): `Open` builds the table in a local slice and
only a successful Open hands it to the new handle. So an Open is a function of the index sizes
(`none` = id not found) and of the point at which the context gets cancelled — not of earlier
Opens. `cancelAt = some c`: `ctx.Err()` is non-nil from the check at the top of iteration `c`
on (`some 0` = already cancelled when Open starts). -/

inductive OpenRes where
  | ok (cumsize : List Nat)
  | cancelled            -- `return nil, ctx.Err()`
  | notFound             -- "id … not found in repository"
deriving Repr, DecidableEq

/-- `ctx.Err() != nil` at the top of iteration `i` -/
def cancelledAt (cancelAt : Option Nat) (i : Nat) : Bool :=
  match cancelAt with
  | some c => decide (c ≤ i)
  | none => false

/-- the loop of `file.Open` from iteration `i`, `bytes` so far, `acc` = `cumsize[:i+1]` -/
def openLoop (cancelAt : Option Nat) : Nat → List (Option Nat) → Nat → List Nat → OpenRes
  | _, [], _, acc => .ok acc
  | i, sz :: rest, bytes, acc =>
    if cancelledAt cancelAt i then .cancelled
    else match sz with
      | none => .notFound
      | some s => openLoop cancelAt (i + 1) rest (bytes + s) (acc ++ [bytes + s])

def openNode (sizes : List (Option Nat)) (cancelAt : Option Nat) : OpenRes :=
  openLoop cancelAt 0 sizes 0 [0]

/-- a sequence of Opens of the same node: each attempt has its own view of the index and its own
    cancellation point; there is no state carried from one attempt to the next -/
def openSeq (attempts : List (List (Option Nat) × Option Nat)) : List OpenRes :=
  attempts.map fun a => openNode a.1 a.2

/-- `uint64(req.Offset)` for an `int64` offset -/
def offsetOfInt (o : Int) : Nat := if o < 0 then (o + 18446744073709551616).toNat else o.toNat

/-! ### Executable statement of the property -/

/-- C46: the data returned for `(off, n)` is exactly that range of the file's content (the
    concatenation of its blobs), empty past the end. -/
def specOK {α : Type} [BEq α] (blobs : List (List α)) (off n : Nat) (out : List α) : Bool :=
  out == (blobs.flatten.drop off).take n

/-- a file whose index sizes are the lengths of the blobs and whose blobs all load -/
def mkFile {α : Type} (blobs : List (List α)) : List (Nat × Option (List α)) :=
  blobs.map fun b => (b.length, some b)

end Restic.Model.Fuse
