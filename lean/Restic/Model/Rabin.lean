import Restic.Model.Chunk
/-
Transcription of the external library github.com/restic/chunker v0.5.0 (`BaseChunker`: `reset`,
`fillTables`, `slide`, `updateDigest`, `nextSplitPoint`; `Pol.Deg/Mod`, `appendByte`) as an instance
of `Restic.Model.Chunk.Splitter`. Used (a) by the C17 driver to predict the chunk boundaries of the
real library and (b) to show that the laws assumed of the splitter (range, streaming, reset after a
cut, size bounds) are satisfiable and in fact hold for this transcription. Core Lean only.

Deviations from the Go text, all outside the reachable range: `uint` counters are `Nat` (no wrap
at 2^64 bytes); `MinSize < windowSize` (Go: `pre` wraps around) is excluded by `RCfg.minSize ≥ 64`
in the generators; a table index ≥ 256 (Go: index panic; unreachable because the digest stays
below 2^deg) reads 0.
-/
namespace Restic.Model.Rabin
open Restic.Model.Chunk

def windowSize : Nat := 64

/-- `bits.Len64` -/
def bitLen (x : UInt64) : Nat := if x = 0 then 0 else x.toNat.log2 + 1

/-- `Pol.Deg() + 1` (so that zero has "degree+1" 0) -/
def degP1 (x : UInt64) : Nat := bitLen x

/-- `Pol.Mod` (`DivMod` keeping the remainder); `d ≠ 0` (Go panics on division by zero) -/
def polMod (x d : UInt64) : UInt64 :=
  if x = 0 then 0 else
  let D := degP1 d
  let rec go (fuel : Nat) (x : UInt64) : UInt64 :=
    match fuel with
    | 0 => x
    | fuel + 1 =>
      if degP1 x < D ∨ x = 0 then x
      else go fuel (x ^^^ (d <<< (UInt64.ofNat (degP1 x - D))))
  go 65 x

/-- `appendByte` -/
def appendByte (hash : UInt64) (b : UInt8) (pol : UInt64) : UInt64 :=
  polMod ((hash <<< 8) ||| b.toUInt64) pol

structure RCfg where
  minSize : Nat
  maxSize : Nat
  pol : UInt64
  polShift : UInt64
  outT : Array UInt64
  modT : Array UInt64
  splitmask : UInt64

/-- `fillTables` -/
def mkCfg (pol : UInt64) (minSize maxSize avgBits : Nat) : RCfg :=
  let k := degP1 pol - 1
  let outT := (Array.range 256).map fun b =>
    let h := appendByte 0 (UInt8.ofNat b) pol
    (List.range (windowSize - 1)).foldl (fun h _ => appendByte h 0 pol) h
  let modT := (Array.range 256).map fun b =>
    let bb := UInt64.ofNat b
    polMod (bb <<< UInt64.ofNat k) pol ||| (bb <<< UInt64.ofNat k)
  { minSize, maxSize, pol, polShift := UInt64.ofNat (k - 8), outT, modT,
    splitmask := (1 <<< UInt64.ofNat avgBits) - 1 }

/-- `chunkerState`. `hw` records the invariant `wpos < windowSize` that the Go code maintains
    (`c.wpos = wpos % windowSize`); it is erased at run time. -/
structure RState where
  window : Array UInt8
  wpos : Nat
  digest : UInt64
  pre : Nat
  count : Nat
  hw : wpos < windowSize

/-- `updateDigest` -/
@[inline] def updateDigest (cfg : RCfg) (digest : UInt64) (b : UInt8) : UInt64 :=
  let index := digest >>> cfg.polShift
  ((digest <<< 8) ||| b.toUInt64) ^^^ cfg.modT.getD index.toNat 0

/-- `BaseChunker.reset` (state part) -/
def reset (cfg : RCfg) : RState :=
  -- window zeroed, digest = 0, wpos = 0, count = 0; digest = slide(digest, 1)
  let window : Array UInt8 := Array.replicate windowSize 0
  let out := window.getD 0 0
  let window := window.set! 0 1
  let digest : UInt64 := 0 ^^^ cfg.outT.getD out.toNat 0
  let digest := updateDigest cfg digest 1
  { window, wpos := 1 % windowSize, digest, pre := cfg.minSize - windowSize, count := 0, hw := by decide }

/-- local variables of the scan loop of `nextSplitPoint` -/
structure Scan where
  digest : UInt64
  win : Array UInt8
  wpos : Nat
  add : Nat

/-- one iteration of `for i, b := range buf`; `true` = split after this byte -/
@[inline] def scanByte (cfg : RCfg) (s : Scan) (b : UInt8) : Scan × Bool :=
  let out := s.win.getD (s.wpos % windowSize) 0
  let win := s.win.set! (s.wpos % windowSize) b
  let digest := s.digest ^^^ cfg.outT.getD out.toNat 0
  let wpos := s.wpos + 1
  let digest := updateDigest cfg digest b
  let add := s.add + 1
  let s' : Scan := { digest, win, wpos, add }
  (s', if (digest &&& cfg.splitmask) = 0 ∨ add ≥ cfg.maxSize then
         (if add < cfg.minSize then false /- continue -/ else true)
       else false)

/-- the scan loop: index (1-based end) of the first split in `buf`, and the locals afterwards -/
def scan (cfg : RCfg) : Scan → Bytes → Nat → Option Nat × Scan
  | s, [], _ => (none, s)
  | s, b :: rest, i =>
    let r := scanByte cfg s b
    if r.2 then (some (i + 1), r.1) else scan cfg r.1 rest (i + 1)

/-- `BaseChunker.nextSplitPoint` -/
def nextSplitPoint (cfg : RCfg) (c : RState) (buf : Bytes) : Option Nat × RState :=
  if c.pre > 0 ∧ c.pre ≥ buf.length then
    (none, { c with pre := c.pre - buf.length, count := c.count + buf.length })
  else
    -- buf = buf[c.pre:]; idx = c.pre; c.count += c.pre; c.pre = 0
    let idx := c.pre
    let buf' := buf.drop c.pre
    let count := c.count + c.pre
    match scan cfg { digest := c.digest, win := c.window, wpos := c.wpos, add := count } buf' 0 with
    | (some i, _) => (some (idx + i), reset cfg)
    | (none, s) =>
      (none, { window := s.win, wpos := s.wpos % windowSize, digest := s.digest, pre := 0,
               count := count + buf'.length, hw := Nat.mod_lt _ (by decide) })

/-- the library as a `Splitter` -/
def splitter (cfg : RCfg) : Splitter RState :=
  { init := reset cfg, next := nextSplitPoint cfg }

end Restic.Model.Rabin
