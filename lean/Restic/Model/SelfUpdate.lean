/-!
# Model for C51 — self-update installs only a signed, hash-matching binary

Transcription of `internal/selfupdate/download.go`:

* `findHash` — `bufio.Scanner` lines, `strings.Split(line, "  ")`, exactly two fields, exact
  file-name match, first match wins, `hex.DecodeString`;
* `getGithubDataFile` — first asset whose name has the given suffix, then download;
* `DownloadLatestStableRelease` — the decision chain
  release → (up to date?) → SHA256SUMS → SHA256SUMS.asc → GPGVerify → archive → findHash →
  SHA-256 compare → extractToFile.

OpenPGP verification, SHA-256, HTTP downloads and decompression are PARAMETERS (`Env`).
The only step that writes to the target binary is `extractToFile`; its outcome is a parameter
too, with the three shapes the Go code has: failed before the rename (target untouched), renamed
(target replaced), renamed but the final `Chmod` failed (target replaced *and* an error returned).
-/
namespace Restic.Model.SelfUpdate

abbrev Bytes := List UInt8

/-! ## findHash -/

/-- `bufio.MaxScanTokenSize`: a longer line makes `Scanner.Scan` stop (the error is not looked at) -/
def maxScanTokenSize : Nat := 65536

/-- `bufio.ScanLines` on the whole buffer: split at `\n`, drop one trailing `\r` per line, no
    empty line after a final newline -/
def splitLinesAux : Bytes → Bytes → List Bytes
  | [], cur => if cur.isEmpty then [] else [cur.reverse]
  | c :: rest, cur => if c = 0x0a then cur.reverse :: splitLinesAux rest [] else splitLinesAux rest (c :: cur)

def dropCR (l : Bytes) : Bytes :=
  if l.getLast? = some 0x0d then l.dropLast else l

/-- the lines `sc.Scan()` delivers: scanning stops at the first over-long line -/
def scanLines (buf : Bytes) : List Bytes :=
  ((splitLinesAux buf []).takeWhile fun l => l.length < maxScanTokenSize).map dropCR

/-- `strings.Split(s, "  ")` (two spaces), leftmost non-overlapping separators -/
def splitDS : Bytes → Bytes → List Bytes
  | [], cur => [cur.reverse]
  | [c], cur => [(c :: cur).reverse]
  | a :: b :: rest, cur =>
    if a = 0x20 ∧ b = 0x20 then cur.reverse :: splitDS rest [] else splitDS (b :: rest) (a :: cur)

def hexVal (c : UInt8) : Option UInt8 :=
  if 0x30 ≤ c ∧ c ≤ 0x39 then some (c - 0x30)
  else if 0x61 ≤ c ∧ c ≤ 0x66 then some (c - 0x61 + 10)
  else if 0x41 ≤ c ∧ c ≤ 0x46 then some (c - 0x41 + 10)
  else none

/-- `hex.DecodeString` (none = error: odd length or a non-hex byte) -/
def hexDecode : Bytes → Option Bytes
  | [] => some []
  | [_] => none
  | a :: b :: rest =>
    match hexVal a, hexVal b, hexDecode rest with
    | some x, some y, some t => some ((x <<< 4 ||| y) :: t)
    | _, _, _ => none

inductive HashResult where
  | ok (h : Bytes)
  | badHex          -- the matching line's first field is not hex: error, no further line is tried
  | notFound
deriving DecidableEq, Repr, Inhabited

/-- the loop of `findHash` over the scanned lines -/
def findHashLines (filename : Bytes) : List Bytes → HashResult
  | [] => .notFound
  | line :: rest =>
    match splitDS line [] with
    | [h, name] =>
      if name = filename then
        match hexDecode h with
        | some d => .ok d
        | none => .badHex
      else findHashLines filename rest
    | _ => findHashLines filename rest

def findHash (buf filename : Bytes) : HashResult := findHashLines filename (scanLines buf)

/-! ## the decision chain -/

structure Asset where
  name : Bytes
  url : Bytes
deriving DecidableEq, Repr, Inhabited

inductive GpgResult where
  | error            -- `GPGVerify` returned an error (every rejected signature in the current code)
  | ok (b : Bool)
deriving DecidableEq, Repr, Inhabited

/-- outcome of `extractToFile` -/
inductive Extract where
  | failed                         -- error before the rename: target untouched
  | installed (content : Bytes)    -- renamed over the target
  | installedChmodErr (content : Bytes)  -- renamed, then `os.Chmod` failed: replaced AND error
deriving DecidableEq, Repr, Inhabited

/-- everything outside restic's own logic -/
structure Env where
  latest : Option (Bytes × List Asset)     -- `GitHubLatestRelease`: version, assets (none = error)
  fetch : Bytes → Option Bytes             -- `getGithubData url` (none = error)
  gpgVerify : Bytes → Bytes → GpgResult    -- `GPGVerify data sig`
  sha256 : Bytes → Bytes
  extract : Bytes → Bytes → Extract        -- `extractToFile buf filename`
  suffix : Bytes                           -- `<GOOS>_<GOARCH>.<ext>`

/-- `"SHA256SUMS"`, `"SHA256SUMS.asc"` -/
def sumsName : Bytes := [0x53,0x48,0x41,0x32,0x35,0x36,0x53,0x55,0x4d,0x53]
def sigName : Bytes := sumsName ++ [0x2e,0x61,0x73,0x63]

def hasSuffix (s suf : Bytes) : Bool := suf.reverse.isPrefixOf s.reverse

/-- `getGithubDataFile`: first asset with the suffix (an empty URL counts as not found) -/
def getFile (env : Env) (assets : List Asset) (suffix : Bytes) : Option (Bytes × Bytes) :=
  match assets.find? fun a => hasSuffix a.name suffix with
  | none => none
  | some a =>
    if a.url.isEmpty then none else
    match env.fetch a.url with
    | none => none
    | some d => some (a.name, d)

inductive Stage where
  | release | upToDate | sums | signature | gpgError | gpgFalse | archive | hashLookup | hashMismatch
  | extract | done
deriving DecidableEq, Repr, Inhabited

structure Result where
  stage : Stage                 -- where the function returned
  err : Bool                    -- it returned an error
  written : Option Bytes        -- new content of the target (none = target not touched)
deriving DecidableEq, Repr, Inhabited

def stop (s : Stage) : Result := ⟨s, true, none⟩

/-- `DownloadLatestStableRelease` -/
def download (env : Env) (currentVersion : Bytes) : Result :=
  match env.latest with
  | none => stop .release
  | some (version, assets) =>
    if version = currentVersion then ⟨.upToDate, false, none⟩ else
    match getFile env assets sumsName with
    | none => stop .sums
    | some (_, sums) =>
      match getFile env assets sigName with
      | none => stop .signature
      | some (_, sig) =>
        match env.gpgVerify sums sig with
        | .error => stop .gpgError
        | .ok false => stop .gpgFalse
        | .ok true =>
          match getFile env assets env.suffix with
          | none => stop .archive
          | some (fname, buf) =>
            match findHash sums fname with
            | .notFound => stop .hashLookup
            | .badHex => stop .hashLookup
            | .ok want =>
              if want ≠ env.sha256 buf then stop .hashMismatch else
              match env.extract buf fname with
              | .failed => stop .extract
              | .installed c => ⟨.done, false, some c⟩
              | .installedChmodErr c => ⟨.extract, true, some c⟩

/-! ## executable statement of the property -/

/-- C51 on one observation: `changed` = the target's bytes differ after the call;
    `sigValid` = the served SHA256SUMS carries a valid signature of the embedded key;
    `listed` = the hash SHA256SUMS lists for exactly the downloaded file name (if any);
    `archiveHash` = SHA-256 of the downloaded archive. -/
def specOK (changed sigValid : Bool) (listed : Option Bytes) (archiveHash : Bytes) : Bool :=
  !changed || (sigValid && listed == some archiveHash)

end Restic.Model.SelfUpdate
