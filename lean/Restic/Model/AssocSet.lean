import Restic.Model.Index
/-!
# Model of `internal/repository/index/associated_data.go` (C48)

`AssociatedSet[T]` over a `MasterIndex` (model: `Restic.Model.Index.MasterIndex`). A handle that is
part of `idx[0]` is stored at its `blobIndex` (= `firstIndex` in the per-type map, C56) in the
`byType` arrays, any other handle in the `overflow` map. `T` is `Nat` here (the harness uses `uint8`).

`ASet.all` transcribes the iteration **after** the fix `fix/C48-associated-set-once`
(`All` walks the main index and yields a handle only at its first index position);
`ASet.allOld` transcribes the iteration of the original code (yield once per index entry of every
index), kept for the negation witness in `Props/C48`.

The Go `map` `overflow` is an association list with unique keys; its iteration order is not
specified, all outputs are compared as multisets.
-/
namespace Restic.Model.AssocSet
open Restic.Model.IndexMap (ID Val firstPos)
open Restic.Model.Index

structure Sub where
  value : List Nat
  isSet : List Bool
deriving Repr, Inhabited

structure ASet where
  data : Sub
  tree : Sub
  overflow : List (Handle × Nat)
deriving Repr, Inhabited

def ASet.sub (a : ASet) : BlobType → Sub
  | .data => a.data
  | .tree => a.tree

def ASet.setSub (a : ASet) (t : BlobType) (s : Sub) : ASet :=
  match t with
  | .data => { a with data := s }
  | .tree => { a with tree := s }

/-- `MasterIndex.blobIndex`: only `idx[0]` is consulted -/
def blobIndex (mi : MasterIndex) (h : Handle) : Int := firstPos (mi.first.byType h.type) h.id

/-- `MasterIndex.stableLen` -/
def stableLen (mi : MasterIndex) (t : BlobType) : Nat := (mi.first.byType t).length

/-- `NewAssociatedSet`: index starts counting at 1 -/
def ASet.new (mi : MasterIndex) : ASet :=
  let mk (t : BlobType) : Sub :=
    let count := stableLen mi t + 1
    ⟨List.replicate count 0, List.replicate count false⟩
  ⟨mk .data, mk .tree, []⟩

def ovGet (o : List (Handle × Nat)) (h : Handle) : Option Nat := (o.find? fun p => p.1 == h).map (·.2)
def ovSet (o : List (Handle × Nat)) (h : Handle) (v : Nat) : List (Handle × Nat) :=
  if (o.any fun p => p.1 == h) then o.map fun p => if p.1 == h then (h, v) else p else o ++ [(h, v)]
def ovDel (o : List (Handle × Nat)) (h : Handle) : List (Handle × Nat) := o.filter fun p => !(p.1 == h)

/-- `Get` -/
def ASet.get (mi : MasterIndex) (a : ASet) (h : Handle) : Option Nat :=
  match ovGet a.overflow h with
  | some v => some v
  | none =>
    let idx := blobIndex mi h
    let bt := a.sub h.type
    if idx ≥ bt.value.length ∨ idx = -1 then none
    else if bt.isSet.getD idx.toNat false then some (bt.value.getD idx.toNat 0) else none

def ASet.has (mi : MasterIndex) (a : ASet) (h : Handle) : Bool := (a.get mi h).isSome

/-- `Set` -/
def ASet.set (mi : MasterIndex) (a : ASet) (h : Handle) (v : Nat) : ASet :=
  if (ovGet a.overflow h).isSome then { a with overflow := ovSet a.overflow h v } else
  let idx := blobIndex mi h
  let bt := a.sub h.type
  if idx ≥ bt.value.length ∨ idx = -1 then { a with overflow := ovSet a.overflow h v }
  else a.setSub h.type ⟨bt.value.set idx.toNat v, bt.isSet.set idx.toNat true⟩

/-- `Insert` -/
def ASet.insert (mi : MasterIndex) (a : ASet) (h : Handle) : ASet := a.set mi h 0

/-- `Delete` -/
def ASet.delete (mi : MasterIndex) (a : ASet) (h : Handle) : ASet :=
  if (ovGet a.overflow h).isSome then { a with overflow := ovDel a.overflow h } else
  let idx := blobIndex mi h
  let bt := a.sub h.type
  if idx < bt.value.length ∧ idx ≠ -1 then a.setSub h.type { bt with isSet := bt.isSet.set idx.toNat false }
  else a

/-- `Index.firstValues` for one per-type map `m` (added by the fix): walk `m.values()` counting the
    position (`pos++`), yield the handle where `m.firstIndex(e.id) == pos` -/
def firstValuesFrom (t : BlobType) (m : IMap) : Nat → List Val → List (Nat × Handle)
  | _, [] => []
  | pos, v :: vs =>
    if firstPos m v.id == ((pos + 1 : Nat) : Int) then (pos + 1, ⟨t, v.id⟩) :: firstValuesFrom t m (pos + 1) vs
    else firstValuesFrom t m (pos + 1) vs

def firstValuesOf (t : BlobType) (m : IMap) : List (Nat × Handle) := firstValuesFrom t m 0 m

/-- `MasterIndex.firstValues` (added by the fix): every handle of `idx[0]` once, with its blobIndex -/
def firstValues (mi : MasterIndex) : List (Nat × Handle) :=
  firstValuesOf .data mi.first.data ++ firstValuesOf .tree mi.first.tree

/-- `All` (fixed code): overflow first, then the handles of the main index at their first position -/
def ASet.all (mi : MasterIndex) (a : ASet) : List (Handle × Nat) :=
  a.overflow ++ (firstValues mi).filterMap fun (i, h) =>
    if (ovGet a.overflow h).isSome then none     -- already reported via overflow set
    else
      let bt := a.sub h.type
      if i < bt.isSet.length ∧ bt.isSet.getD i false then some (h, bt.value.getD i 0) else none

/-- handles of `MasterIndex.Values()`: every entry of every index -/
def allHandles (mi : MasterIndex) : List Handle :=
  mi.idx.flatMap fun i => (i.data.map fun v => (⟨.data, v.id⟩ : Handle)) ++ (i.tree.map fun v => ⟨.tree, v.id⟩)

/-- `All` of the original code: one report per index entry whose handle is a member -/
def ASet.allOld (mi : MasterIndex) (a : ASet) : List (Handle × Nat) :=
  a.overflow ++ (allHandles mi).filterMap fun h =>
    if (ovGet a.overflow h).isSome then none
    else (a.get mi h).map fun v => (h, v)

def ASet.keys (mi : MasterIndex) (a : ASet) : List Handle := (a.all mi).map (·.1)
def ASet.len (mi : MasterIndex) (a : ASet) : Nat := (a.all mi).length

def intersectLoop (mi : MasterIndex) (a other : ASet) : List Handle → ASet → ASet
  | [], r => r
  | h :: hs, r =>
    if other.has mi h then
      match a.get mi h with
      | some v => intersectLoop mi a other hs (r.set mi h v)
      | none => intersectLoop mi a other hs (r.set mi h 0)   -- `val, _ := a.Get(bh)`: zero value
    else intersectLoop mi a other hs r

/-- `Intersect` -/
def ASet.intersect (mi : MasterIndex) (a other : ASet) : ASet :=
  intersectLoop mi a other (a.keys mi) (ASet.new mi)

def subLoop (mi : MasterIndex) (a other : ASet) : List Handle → ASet → ASet
  | [], r => r
  | h :: hs, r =>
    if !other.has mi h then
      match a.get mi h with
      | some v => subLoop mi a other hs (r.set mi h v)
      | none => subLoop mi a other hs (r.set mi h 0)
    else subLoop mi a other hs r

/-- `Sub` -/
def ASet.subtract (mi : MasterIndex) (a other : ASet) : ASet :=
  subLoop mi a other (a.keys mi) (ASet.new mi)

/-! ## executable statement of C48

Reference: a finite map `Handle → T` as an association list with unique keys. -/

abbrev Ref := List (Handle × Nat)

def Ref.set (r : Ref) (h : Handle) (v : Nat) : Ref := ovSet r h v
def Ref.delete (r : Ref) (h : Handle) : Ref := ovDel r h
def Ref.get (r : Ref) (h : Handle) : Option Nat := ovGet r h
def Ref.intersect (a : Ref) (b : Ref) : Ref := a.filter fun p => (b.get p.1).isSome
def Ref.subtract (a : Ref) (b : Ref) : Ref := a.filter fun p => (b.get p.1).isNone

/-- `Len` is the number of distinct members -/
def specLen (r : Ref) (len : Nat) : Bool := len == r.length
/-- `Keys` enumerates each member exactly once -/
def specKeys (r : Ref) (keys : List Handle) : Bool := keys.isPerm (r.map (·.1))
/-- `All` enumerates each member exactly once with its value -/
def specAll (r : Ref) (all : List (Handle × Nat)) : Bool := all.isPerm r
def specGet (r : Ref) (h : Handle) (out : Option Nat) : Bool := out == r.get h

end Restic.Model.AssocSet
