/-
Model of restic's content-defined chunking of one file (C17): `fileChunkState.readNextChunk`,
the chunk loop of `fileSaver.saveFile` and the per-worker reuse of chunker and chunk state in
`fileSaver.worker` (internal/archiver/file_saver.go). The splitter (`restic.Chunker`, implemented by
github.com/restic/chunker) is a parameter; its concrete transcription is `Restic.Model.Rabin`.
Core Lean only.
-/
namespace Restic.Model.Chunk

abbrev Bytes := List UInt8

/-- `restic.Chunker`: `Reset()` puts the chunker into `init`; `NextSplitPoint(buf)` returns -1
    (`none`) or the index before which to split `buf`, and updates the chunker. -/
structure Splitter (σ : Type) where
  init : σ
  next : σ → Bytes → Option Nat × σ

/-- The source file as seen through `io.ReadFull`: the bytes still to be delivered and whether
    the reader ends with a read error (EIO …) instead of `io.EOF`. How the underlying `Read`
    calls are cut into short reads is absorbed by `io.ReadFull` (validated in the T2 run). -/
structure Reader where
  data : Bytes
  failAtEnd : Bool

inductive RErr | nil | eof | unexpectedEOF | other
deriving DecidableEq, Repr

/-- `io.ReadFull(rd, buf)` with `len(buf) = n`: (bytes read, error, reader afterwards) -/
def readFull (rd : Reader) (n : Nat) : Bytes × RErr × Reader :=
  if n ≤ rd.data.length then (rd.data.take n, .nil, { rd with data := rd.data.drop n })
  else if rd.failAtEnd then (rd.data, .other, { rd with data := [] })
  else if rd.data.isEmpty then ([], .eof, rd)
  else (rd.data, .unexpectedEOF, { rd with data := [] })

/-- `fileChunkState`: `buf` is `readBuf[0:bmax]` (so `bmax = buf.length`) -/
structure CState where
  buf : Bytes
  bpos : Nat
  closed : Bool
deriving Repr

/-- `fileChunkState.reset` -/
def CState.reset (_ : CState) : CState := { buf := [], bpos := 0, closed := false }

/-- result of one `readNextChunk` call -/
inductive Next
  | chunk (data : Bytes)          -- (data, nil)
  | eof                           -- (nil, io.EOF)
  | error                         -- (nil, err) for a read error
  | badSplit (k avail : Nat)      -- the splitter answered 0 or more than it was given: outside the
                                  -- library contract (Go: empty chunk without progress / stale buffer
                                  -- bytes / slice panic); made explicit, never defaulted
  | spin                          -- ReadFull returned (0, nil): only with an empty read buffer; Go loops forever
deriving Repr

/-- the top of the loop body of `readNextChunk`: refill `readBuf` when it is used up.
    `inl` = the function returns here, `inr` = continue with the split below. -/
def refill (bufSize : Nat) (cs : CState) (rd : Reader) (data : Bytes) :
    (Next × CState × Reader) ⊕ (CState × Reader) :=
  if cs.bpos ≥ cs.buf.length then
    let r := readFull rd bufSize
    let got := r.1
    let rd' := r.2.2
    -- if err == io.ErrUnexpectedEOF { err = nil }
    let err := if r.2.1 = .unexpectedEOF then RErr.nil else r.2.1
    if err = .eof ∧ cs.closed = false then
      -- s.closed = true; if len(data) > 0 { return data, nil }; then `if err != nil { return nil, err }`
      if data ≠ [] then .inl (.chunk data, { cs with closed := true }, rd')
      else .inl (.eof, { cs with closed := true }, rd')
    else if err = .eof then .inl (.eof, cs, rd')
    else if err = .other then .inl (.error, cs, rd')
    else if got.isEmpty then .inl (.spin, cs, rd')
    else .inr ({ cs with buf := got, bpos := 0 }, rd')
  else .inr (cs, rd)

theorem refill_inr {bufSize : Nat} {cs : CState} {rd : Reader} {data : Bytes} {cs' : CState} {rd' : Reader}
    (h : refill bufSize cs rd data = .inr (cs', rd')) :
    (cs.bpos < cs.buf.length ∧ cs' = cs ∧ rd' = rd) ∨
    (cs.buf.length ≤ cs.bpos ∧ cs'.bpos = 0 ∧ cs'.buf ≠ [] ∧ cs'.closed = cs.closed ∧
      rd.data = cs'.buf ++ rd'.data ∧ rd'.failAtEnd = rd.failAtEnd) := by
  unfold refill at h
  by_cases hb : cs.bpos ≥ cs.buf.length
  · right
    simp only [hb, if_true] at h
    unfold readFull at h
    by_cases h1 : bufSize ≤ rd.data.length
    · simp only [h1, if_true] at h
      simp at h
      split at h
      · simp at h
      · rename_i h0
        simp at h
        obtain ⟨h2, h3⟩ := h
        subst h2; subst h3
        refine ⟨hb, rfl, ?_, rfl, ?_, rfl⟩
        · intro hc; simp at hc; exact h0 hc
        · simp
    · simp only [h1, if_false] at h
      by_cases h2 : rd.failAtEnd = true
      · simp [h2] at h
      · by_cases h3 : rd.data.isEmpty = true
        · simp [h2, h3] at h
          split at h
          · split at h <;> simp at h
          · simp at h
        · simp [h2, h3] at h
          obtain ⟨h4, h5⟩ := h
          subst h4; subst h5
          refine ⟨hb, rfl, ?_, rfl, ?_, ?_⟩
          · simpa using h3
          · simp
          · simpa using h2
  · left
    simp only [hb, if_false] at h
    simp at h
    exact ⟨by omega, h.1.symm, h.2.symm⟩

/-- `fileChunkState.readNextChunk(rd, chnker, data)`; `data` is the accumulator (`data[:0]` at the
    call). Returns the outcome and the updated chunk state, reader and chunker. -/
def readNextChunk {σ : Type} (sp : Splitter σ) (bufSize : Nat) (cs : CState) (rd : Reader) (st : σ)
    (data : Bytes) : Next × CState × Reader × σ :=
  match h : refill bufSize cs rd data with
  | .inl (r, cs', rd') => (r, cs', rd', st)
  | .inr (cs', rd') =>
    let piece := cs'.buf.drop cs'.bpos            -- s.readBuf[s.bpos:s.bmax]
    match sp.next st piece with
    | (some k, st') =>
      if k = 0 ∨ piece.length < k then (.badSplit k piece.length, cs', rd', st')
      else (.chunk (data ++ piece.take k), { cs' with bpos := cs'.bpos + k }, rd', st')
    | (none, st') =>
      readNextChunk sp bufSize { cs' with bpos := cs'.buf.length } rd' st' (data ++ piece)
termination_by 2 * rd.data.length + (if cs.bpos < cs.buf.length then 1 else 0)
decreasing_by
  rcases refill_inr h with ⟨h1, h2, h3⟩ | ⟨h1, _, h3, _, h5, _⟩
  · subst h2; subst h3; simp [h1]
  · have : 0 < cs'.buf.length := List.length_pos_iff.mpr h3
    have h6 : rd.data.length = cs'.buf.length + rd'.data.length := by rw [h5]; simp
    simp
    split <;> omega

/-- outcome of chunking one file -/
inductive Out
  | ok (chunks : List Bytes)
  | error                         -- read error: saveFile calls completeError, no node
  | badSplit (k avail : Nat)
  | spin
  | fuel                          -- never happens (theorem `saveFile_ne_fuel`)
deriving Repr

/-- the `for { … readNextChunk … }` loop of `saveFile`; `acc` are the chunks handed to
    `SaveBlobAsync` so far, in `node.Content` order -/
def chunkLoop {σ : Type} (sp : Splitter σ) (bufSize : Nat) :
    Nat → CState → Reader → σ → List Bytes → Out × CState × σ
  | 0, cs, _, st, _ => (.fuel, cs, st)
  | fuel + 1, cs, rd, st, acc =>
    match readNextChunk sp bufSize cs rd st [] with
    | (.chunk d, cs', rd', st') => chunkLoop sp bufSize fuel cs' rd' st' (acc ++ [d])
    | (.eof, cs', _, st') => (.ok acc, cs', st')
    | (.error, cs', _, st') => (.error, cs', st')
    | (.badSplit k a, cs', _, st') => (.badSplit k a, cs', st')
    | (.spin, cs', _, st') => (.spin, cs', st')

/-- `saveFile` as far as chunking is concerned: `chnker.Reset(); chunkState.reset()`, then the loop.
    The chunker and chunk state of the worker come in and go out (they are reused for the next file). -/
def saveFile {σ : Type} (sp : Splitter σ) (bufSize : Nat) (cs : CState) (_st : σ) (file : Reader) :
    Out × CState × σ :=
  chunkLoop sp bufSize (file.data.length + 2) cs.reset file sp.init []

/-- `fileSaver.worker`: one chunker and one chunk state serve all files of the worker in turn -/
def worker {σ : Type} (sp : Splitter σ) (bufSize : Nat) : CState → σ → List Reader → List Out
  | _, _, [] => []
  | cs, st, f :: fs =>
    let r := saveFile sp bufSize cs st f
    r.1 :: worker sp bufSize r.2.1 r.2.2 fs

/-! ### several workers at once

`newFileSaver` starts `fileWorkers` goroutines; each runs `worker`, i.e. owns ONE chunker obtained
from `chunkerFactory.NewChunker()` and ONE `fileChunkState`. The goroutines interleave arbitrarily.
The model: one `WState` per worker, a schedule (list of worker indices) says whose turn it is, a
turn is one `readNextChunk` call of that worker's chunk loop. Nothing is shared between workers —
that the factory really hands out independent chunkers is tied by T1 (`NewChunker` calls
`chunker.NewBase`) and by the `conc` correspondence stream. -/

/-- a worker in the middle of `saveFile` -/
structure WState (σ : Type) where
  cs : CState
  rd : Reader
  st : σ
  acc : List Bytes
  out : Option Out       -- `some` once the file is finished

/-- one iteration of the chunk loop of one worker -/
def wstep {σ : Type} (sp : Splitter σ) (bufSize : Nat) (w : WState σ) : WState σ :=
  match w.out with
  | some _ => w
  | none =>
    match readNextChunk sp bufSize w.cs w.rd w.st [] with
    | (.chunk d, cs', rd', st') => { cs := cs', rd := rd', st := st', acc := w.acc ++ [d], out := none }
    | (.eof, cs', rd', st') => { cs := cs', rd := rd', st := st', acc := w.acc, out := some (.ok w.acc) }
    | (.error, cs', rd', st') => { cs := cs', rd := rd', st := st', acc := w.acc, out := some .error }
    | (.badSplit k a, cs', rd', st') => { cs := cs', rd := rd', st := st', acc := w.acc, out := some (.badSplit k a) }
    | (.spin, cs', rd', st') => { cs := cs', rd := rd', st := st', acc := w.acc, out := some .spin }

/-- a worker that has just taken `file` from the job channel: `saveFile` resets chunker and chunk state -/
def wstart {σ : Type} (sp : Splitter σ) (cs : CState) (_st : σ) (file : Reader) : WState σ :=
  { cs := cs.reset, rd := file, st := sp.init, acc := [], out := none }

/-- the pool: the worker named by each schedule entry takes one turn -/
def runPool {σ : Type} (sp : Splitter σ) (bufSize : Nat) (sched : List Nat) (ws : List (WState σ)) : List (WState σ) :=
  sched.foldl (fun ws i => ws.modify i (wstep sp bufSize)) ws

/-- chunks of a file that is read without error, from a fresh worker -/
def chunks {σ : Type} (sp : Splitter σ) (bufSize : Nat) (file : Bytes) : Out :=
  (saveFile sp bufSize { buf := [], bpos := 0, closed := false } sp.init { data := file, failAtEnd := false }).1

/-! ## Specification side -/

/-- Reference chunking: hand the whole remaining file to the splitter at once. -/
def refChunks {σ : Type} (sp : Splitter σ) (st : σ) (file : Bytes) : List Bytes :=
  if file = [] then [] else
  match sp.next st file with
  | (none, _) => [file]
  | (some k, st') =>
    if _h : 0 < k ∧ k ≤ file.length then file.take k :: refChunks sp st' (file.drop k) else [file]
termination_by file.length
decreasing_by simp; omega

def allButLast {α : Type} : List α → List α
  | [] => []
  | [_] => []
  | a :: b :: r => a :: allButLast (b :: r)

/-- Executable statement of C17 for one file and the chunk list some implementation produced:
    lossless, every chunk but the last within [min,max], the last one non-empty and ≤ max. -/
def specOK (min max : Nat) (file : Bytes) (cs : List Bytes) : Bool :=
  cs.flatten == file &&
  (allButLast cs).all (fun c => min ≤ c.length && c.length ≤ max) &&
  cs.all (fun c => 0 < c.length && c.length ≤ max)

/-- the same statement on chunk *sizes* (used when the harness reports sizes and checks the
    concatenation itself) -/
def sizesOK (min max fileLen : Nat) (sizes : List Nat) : Bool :=
  sizes.sum == fileLen &&
  (allButLast sizes).all (fun c => min ≤ c && c ≤ max) &&
  sizes.all (fun c => 0 < c && c ≤ max)

/-- cut positions (absolute offsets of the chunk ends) -/
def cutsOf (sizes : List Nat) : List Nat :=
  (sizes.foldl (fun (acc : Nat × List Nat) s => (acc.1 + s, acc.2 ++ [acc.1 + s])) (0, [])).2

/-- Edit locality, executable: `old`/`new` are the chunk lists of `p ++ x ++ t` and `p ++ y ++ t`.
    (1) chunks of `old` that end at or before `|p|` and are not the last chunk are chunks of `new`;
    (2) if both have a cut at the same offset inside the common tail `t`, all later chunks agree. -/
def commonPrefixLen : List Bytes → List Bytes → Nat
  | a :: as, b :: bs => if a == b then commonPrefixLen as bs + 1 else 0
  | _, _ => 0

def stablePrefixCount (plen : Nat) (cs : List Bytes) : Nat :=
  let rec go (off : Nat) : List Bytes → Nat
    | [] => 0
    | [_] => 0
    | c :: r => if off + c.length ≤ plen then go (off + c.length) r + 1 else 0
  go 0 cs

def editLocalOK (plen : Nat) (old new : List Bytes) : Bool :=
  stablePrefixCount plen old ≤ commonPrefixLen old new

/-- the chunks following an exact cut at absolute offset `cut` (`none`: no cut there) -/
def chunksAfter : Nat → List Bytes → Option (List Bytes)
  | 0, cs => some cs
  | _ + 1, [] => none
  | n + 1, c :: r => if c.length ≤ n + 1 then chunksAfter (n + 1 - c.length) r else none

/-- (2) of edit locality, executable: whenever `old` has a cut at offset `c` inside the common tail
    (`c ≥ plen + xlen`) and `new` has a cut at the corresponding offset `c - xlen + ylen`, the chunk
    lists after these cuts are equal. -/
def resyncOK (plen xlen ylen : Nat) (old new : List Bytes) : Bool :=
  (cutsOf (old.map List.length)).all fun c =>
    if plen + xlen ≤ c then
      match chunksAfter c old, chunksAfter (c - xlen + ylen) new with
      | some a, some b => a == b
      | _, _ => true
    else true

end Restic.Model.Chunk
