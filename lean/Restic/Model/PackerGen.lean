import Restic.Model.Packer
import Restic.Gen.Consts
/-!
The pack layout constants of the *current* source (regenerated `Restic.Gen`) as the `Cfg` the
packer model runs with; used by the driver and by the theorems of C44.
-/
namespace Restic.Model.Packer

/-- `HeaderOverhead()` is `crypto.CiphertextLength(0) + binary.Size(uint32(0))` -/
def genCfg : Cfg :=
  { headerSize := Restic.Gen.pack_headerSize
    entrySize := Restic.Gen.pack_entrySize
    plainEntrySize := Restic.Gen.pack_plainEntrySize
    maxHeaderSize := Restic.Gen.pack_MaxHeaderSize
    maxHeaderEntries := Restic.Gen.pack_MaxHeaderEntries
    headerOverhead := Restic.Gen.crypto_Extension + Restic.Gen.pack_headerLengthSize }

end Restic.Model.Packer
