/-
Model of snapshot selection (C24): `Snapshot.HasTags / HasTagList / HasPaths / HasHostname`
(internal/data/snapshot.go), `SnapshotFilter.matches / findLatest / FindAll`
(internal/data/snapshot_find.go) and `GroupSnapshots` (internal/data/snapshot_group.go).
Core Lean only. Strings are byte strings (one `Char` < 256 per byte, see `Driver.unhexStr`), so
`String`'s lexicographic order is Go's `sort.Strings` order.
-/
namespace Restic.Model.Snapshots

abbrev Tag := String

/-- the fields of `data.Snapshot` that selection and grouping look at; `id` is the position of the
    snapshot in the generated set (stands for the snapshot's file id), `time` is the instant in
    nanoseconds (only compared with `After`/`Before`). -/
structure Snap where
  id : Nat
  time : Int
  host : String
  paths : List String
  tags : List Tag
deriving DecidableEq, Repr, Inhabited

/-! ### snapshot.go -/

/-- `hasTag`: `slices.Contains(sn.Tags, tag)` -/
def hasTag (sn : Snap) (t : Tag) : Bool := sn.tags.contains t

/-- `HasTags`: the loop with its two early exits, in source order -/
def hasTags (sn : Snap) : List Tag → Bool
  | [] => true
  | t :: rest =>
    if t == "" && sn.tags.isEmpty then true
    else if !hasTag sn t then false
    else hasTags sn rest

/-- `HasTagList` -/
def hasTagList (sn : Snap) (l : List (List Tag)) : Bool :=
  if l.isEmpty then true else l.any (hasTags sn)

/-- `HasPaths` (the map is only a set of `sn.Paths`) -/
def hasPaths (sn : Snap) (paths : List String) : Bool := paths.all fun p => sn.paths.contains p

/-- `HasHostname` -/
def hasHostname (sn : Snap) (hosts : List String) : Bool :=
  if hosts.isEmpty then true else hosts.contains sn.host

/-! ### snapshot_find.go -/

/-- `SnapshotFilter`; `limit = none` is the zero `TimestampLimit` -/
structure Filter where
  hosts : List String
  tags : List (List Tag)
  paths : List String
  limit : Option Int
deriving Repr, Inhabited

/-- `SnapshotFilter.Empty` -/
def Filter.empty (f : Filter) : Bool := f.hosts.length + f.tags.length + f.paths.length == 0

/-- `SnapshotFilter.matches` -/
def Filter.matches (f : Filter) (sn : Snap) : Bool :=
  hasHostname sn f.hosts && hasTagList sn f.tags && hasPaths sn f.paths

/-- body of the `ForAllSnapshots` callback of `findLatest` (three early `return nil`, then the
    assignment) -/
def latestStep (f : Filter) (latest : Option Snap) (sn : Snap) : Option Snap :=
  if (match f.limit with | some lim => decide (sn.time > lim) | none => false) then latest
  else if (match latest with | some l => decide (sn.time < l.time) | none => false) then latest
  else if !f.matches sn then latest
  else some sn

/-- `findLatest` for a visiting order `visit` of the snapshot files (`ParallelList` completes in
    an arbitrary order); `f.paths` are the already cleaned absolute paths (`filepath.Abs/Clean`
    is an oracle of the harness). -/
def findLatest (f : Filter) (visit : List Snap) : Option Snap := visit.foldl (latestStep f) none

/-- `FindAll` without explicit ids: the snapshots handed to the callback, in visiting order -/
def findAll (f : Filter) (visit : List Snap) : List Snap := visit.filter f.matches

/-- an explicit snapshot argument of `FindAll`, after `FindSnapshot`'s id resolution (prefix
    resolution is C57's subject): -/
inductive Arg where
  | latest                       -- "latest"
  | latestSub                    -- "latest:<subfolder>"
  | id (n : Nat) (sub : Bool)    -- resolves to snapshot n; `sub`: written as "<id>:<subfolder>"
  | unknown                      -- does not resolve to a snapshot (error from Find / LoadSnapshot)
deriving DecidableEq, Repr

/-- what the callback of `FindAll` is called with -/
inductive Ev where
  | snap (n : Nat)
  | err (kind : String)
deriving DecidableEq, Repr

structure IdsState where
  usedFilter : Bool := false
  ids : List Nat := []
  out : List Ev := []

/-- one iteration of the loop over `snapshotIDs` in `FindAll`; `latestRes` is the result of
    `findLatest` (computed once by the caller: it does not depend on the loop state) -/
def idsStep (latestRes : Option Snap) (st : IdsState) : Arg → IdsState
  | .latest =>
    if st.usedFilter then st
    else
      match latestRes with
      | some sn => { usedFilter := true, ids := sn.id :: st.ids, out := st.out ++ [.snap sn.id] }
      | none => { st with usedFilter := true, out := st.out ++ [.err "nomatch"] }
  | .latestSub => { st with out := st.out ++ [.err "syntax"] }
  | .unknown => { st with out := st.out ++ [.err "notfound"] }
  | .id n sub =>
    if sub then { st with out := st.out ++ [.err "syntax"] }
    else if st.ids.contains n then st
    else { st with ids := n :: st.ids, out := st.out ++ [.snap n] }

/-- `FindAll` with explicit ids (callback never fails) -/
def findAllIds (f : Filter) (latestRes : Option Snap) (args : List Arg) : List Ev :=
  let st := args.foldl (idsStep latestRes) {}
  if !st.usedFilter && !f.empty then st.out ++ [.err "filters"] else st.out

/-! ### snapshot_group.go -/

structure GroupBy where
  tag : Bool
  host : Bool
  path : Bool
deriving DecidableEq, Repr

/-- insert into an ascending list -/
def insertStr (x : String) : List String → List String
  | [] => [x]
  | y :: ys => if x ≤ y then x :: y :: ys else y :: insertStr x ys

/-- `sort.Strings` (result only: the ascending arrangement) -/
def sortStrings : List String → List String
  | [] => []
  | x :: xs => insertStr x (sortStrings xs)

/-- `SnapshotGroupKey` as marshalled into the map key. JSON marshalling of the three fields is
    taken to be injective (holds for valid UTF-8 strings and `nil` empty lists, which is what a
    snapshot loaded from a repository written by restic has). -/
structure GroupKey where
  host : String
  paths : List String
  tags : List Tag
deriving DecidableEq, Repr

/-- the grouping key computed in the loop of `GroupSnapshots` -/
def keyOf (g : GroupBy) (sn : Snap) : GroupKey :=
  { tags := if g.tag then sortStrings sn.tags else []
    host := if g.host then sn.host else ""
    paths := if g.path then sortStrings sn.paths else [] }

/-- `snapshotGroups[k] = append(snapshotGroups[k], sn)` on an association list that keeps the
    keys in order of first appearance (Go's map has no order; the harness canonicalises) -/
def addToGroups {α : Type} : List (GroupKey × List α) → GroupKey → α → List (GroupKey × List α)
  | [], k, sn => [(k, [sn])]
  | (k', l) :: rest, k, sn =>
    if k' = k then (k', l ++ [sn]) :: rest else (k', l) :: addToGroups rest k sn

/-- the loop of `GroupSnapshots` for elements whose key is computed by `kf` -/
def groupWith {α : Type} (kf : α → GroupKey) (l : List α) : List (GroupKey × List α) :=
  l.foldl (fun gs sn => addToGroups gs (kf sn) sn) []

/-- `GroupSnapshots` -/
def groupSnapshots (g : GroupBy) (l : List Snap) : List (GroupKey × List Snap) :=
  groupWith (keyOf g) l

/-! ### Executable statement of the property (evaluated on the implementation's own output) -/

/-- a tag list in which the meaning of the empty tag is not specified: `""` together with other
    entries (the code is order dependent there, see `Props/C24`), or a snapshot that itself
    carries the tag `""` (restic never writes one: `Flatten` drops empty tags) -/
def unspecifiedTagCase (sn : Snap) (l : List Tag) : Bool :=
  (l.contains "" && l != [""]) || sn.tags.contains ""

/-- does `sn` satisfy the tag list `l` — the reading of the help text: all tags of `l` are tags
    of the snapshot; the list `[""]` selects exactly the untagged snapshots -/
def tagListSat (sn : Snap) (l : List Tag) : Bool :=
  if unspecifiedTagCase sn l then hasTags sn l            -- characterised, no claim
  else if l = [""] then sn.tags.isEmpty
  else l.all fun t => sn.tags.contains t

/-- the filter as a predicate on one snapshot -/
def specMatches (f : Filter) (sn : Snap) : Bool :=
  (f.hosts.isEmpty || f.hosts.contains sn.host) &&
  (f.tags.isEmpty || f.tags.any (tagListSat sn)) &&
  (f.paths.all fun p => sn.paths.contains p)

def withinLimit (f : Filter) (sn : Snap) : Bool :=
  match f.limit with | some lim => decide (sn.time ≤ lim) | none => true

/-- filter mode: the selected ids are exactly the ids of the snapshots satisfying the filter -/
def specFindAll (f : Filter) (snaps : List Snap) (selected : List Nat) : Bool :=
  snaps.all fun sn => selected.contains sn.id == specMatches f sn

/-- 'latest': the answer is a snapshot of the repository that satisfies the filter, is not after
    the limit, and no other such snapshot is newer; "none" only if there is no such snapshot -/
def specLatest (f : Filter) (snaps : List Snap) (res : Option Nat) : Bool :=
  let cand := snaps.filter fun sn => specMatches f sn && withinLimit f sn
  match res with
  | none => cand.isEmpty
  | some n => cand.any (fun sn => sn.id == n) &&
      (cand.filter (fun sn => sn.id == n)).all fun s => cand.all fun s' => decide (s'.time ≤ s.time)

/-- same group ⇔ equal chosen keys, paths and tags compared as multisets (order-insensitive) -/
def specSameGroup (g : GroupBy) (a b : Snap) : Bool :=
  (!g.host || a.host == b.host) && (!g.path || a.paths.isPerm b.paths) && (!g.tag || a.tags.isPerm b.tags)

/-- grouping: the groups (lists of ids) partition the input, and two snapshots share a group
    exactly when `specSameGroup` says so -/
def specGroups (g : GroupBy) (snaps : List Snap) (groups : List (List Nat)) : Bool :=
  let flat := groups.flatten
  (snaps.all fun sn => flat.count sn.id == 1) && flat.length == snaps.length &&
  groups.all (fun grp => !grp.isEmpty) &&
  snaps.all fun a => snaps.all fun b =>
    (groups.any fun grp => grp.contains a.id && grp.contains b.id) == specSameGroup g a b

end Restic.Model.Snapshots
