/-
Model for C31: `UpgradeRepo` / `upgradeRepository` (internal/repository/upgrade_repo.go) as a
state machine over the content of the config file, parameterised by `HasAtomicReplace` and by an
arbitrary fault schedule (which backend operations fail). Core Lean only.

A crash after k backend operations is the prefix of length k of the state sequence; "all later
operations fail" is one particular fault schedule, so crash points and failure positions are
covered by the same definitions.
-/
namespace Restic.Model.Upgrade

/-- what the config file holds -/
inductive Cfg where
  | old      -- the version-1 config (raw bytes as read before the upgrade)
  | new      -- the version-2 config
  | none     -- no config file
deriving DecidableEq, Repr

inductive OpKind where
  | remove | saveNew | saveOld
deriving DecidableEq, Repr

/-- one attempted backend operation on the config file, whether it succeeded, the config after it -/
structure Step where
  op : OpKind
  ok : Bool
  after : Cfg
deriving DecidableEq, Repr

/-- `be.Remove(config)`: fails when told to, or when there is no config file -/
def doRemove (fail : Bool) (st : Cfg) : Step :=
  if fail then ⟨.remove, false, st⟩
  else if st = .none then ⟨.remove, false, st⟩
  else ⟨.remove, true, .none⟩

/-- `be.Save(config, …)`: fails when told to; a backend without atomic replace refuses to overwrite
    an existing file (mem: "file already exists"); a failed save leaves the file as it was -/
def doSave (atomic : Bool) (fail : Bool) (op : OpKind) (target : Cfg) (st : Cfg) : Step :=
  if fail then ⟨op, false, st⟩
  else if atomic || st == .none then ⟨op, true, target⟩
  else ⟨op, false, st⟩

inductive Outcome where
  | upgraded
  | failedRestored       -- upgradeRepoV2Error with ReuploadOldConfigError == nil
  | failedNotRestored    -- … with ReuploadOldConfigError != nil
deriving DecidableEq, Repr

/-- does the contingency path remove the config before re-uploading the old one?
    unchanged source: always (`true`); with the fix: only on backends without atomic replace -/
def contRemoves (fixed : Bool) (atomic : Bool) : Bool := !fixed || !atomic

/-- contingency of `UpgradeRepo` from state `st`, `n` operations done so far -/
def contingency (fixed atomic : Bool) (fail : Nat → Bool) (n : Nat) (st : Cfg) : Outcome × List Step :=
  if contRemoves fixed atomic then
    let r := doRemove (fail n) st          -- `_ = repo.be.Remove(ctx, h)`: error ignored
    let s := doSave atomic (fail (n + 1)) .saveOld .old r.after
    (if s.ok then .failedRestored else .failedNotRestored, [r, s])
  else
    let s := doSave atomic (fail n) .saveOld .old st
    (if s.ok then .failedRestored else .failedNotRestored, [s])

/-- `UpgradeRepo` on a version-1 repository whose config file is `st`; `fail i` = the i-th backend
    operation on the config file fails. Returns the outcome and every step in order. -/
def upgrade (fixed atomic : Bool) (fail : Nat → Bool) (st : Cfg) : Outcome × List Step :=
  if !atomic then
    -- upgradeRepository: remove the original file first
    let r := doRemove (fail 0) st
    if !r.ok then
      let c := contingency fixed atomic fail 1 r.after
      (c.1, r :: c.2)
    else
      let s := doSave atomic (fail 1) .saveNew .new r.after
      if s.ok then (.upgraded, [r, s])
      else
        let c := contingency fixed atomic fail 2 s.after
        (c.1, r :: s :: c.2)
  else
    let s := doSave atomic (fail 0) .saveNew .new st
    if s.ok then (.upgraded, [s])
    else
      let c := contingency fixed atomic fail 1 s.after
      (c.1, s :: c.2)

/-- the config after each prefix of the run (index 0 = before the first operation) -/
def states (st : Cfg) (steps : List Step) : List Cfg := st :: steps.map (·.after)

def finalState (st : Cfg) (steps : List Step) : Cfg := (states st steps).getLast?.getD st

/-! ## The property, executable -/

/-- the repository still opens with either the old or the new config -/
def cfgOK : Cfg → Bool
  | .none => false
  | _ => true

/-- C31 (config part) for one observed run: every state reachable by an interruption holds a config -/
def specOK (observed : List Cfg) : Bool := observed.all cfgOK

/-- the classes of interruption points at which the config is missing (canonical signatures) -/
inductive Loss where
  | nonAtomicWindow         -- non-atomic: only the initial Remove(config) of upgradeRepository has happened
  | nonAtomicFailure        -- non-atomic: an operation failed, the old config is not back yet
  | nonAtomicDoubleFailure  -- non-atomic: run finished, two operations failed, the last one being the re-upload
  | atomicContingency       -- atomic: the config was removed
  | unclassified            -- anything else (never expected)
deriving DecidableEq, Repr

/-- class of a state without config, from the steps performed before it; `final` = the run was not
    interrupted -/
def lossAt (atomic : Bool) (before : List Step) (final : Bool) : Loss :=
  let failed := (before.filter (fun s => !s.ok)).length
  let lastIsFailedSave := match before.getLast? with
    | some s => !s.ok && s.op != .remove
    | none => false
  if atomic then .atomicContingency
  else if before.length == 1 && failed == 0 then .nonAtomicWindow
  else if final then (if failed ≥ 2 && lastIsFailedSave then .nonAtomicDoubleFailure else .unclassified)
  else if failed ≥ 1 then .nonAtomicFailure
  else .unclassified

def Loss.signature : Loss → String
  | .nonAtomicWindow => "C31:crash-between-remove-config-and-save:non-atomic"
  | .nonAtomicFailure => "C31:failed-save-before-reupload:non-atomic"
  | .nonAtomicDoubleFailure => "C31:save-and-reupload-both-failed:non-atomic"
  | .atomicContingency => "C31:contingency-removes-config:atomic"
  | .unclassified => "C31:config-missing:unclassified"

end Restic.Model.Upgrade
