/-
Model of streaming blobs from a pack (C43): `streamPack` (sort, overlap check, the partition loop
with `maxChunkSize` / `maxUnusedRange`), `streamPackPart` (download; on failure per-blob
fallback through `loadBlobFn`; otherwise the `packBlobIterator` loop with fallback on a damaged
blob), the decision part of `packBlobIterator.Next`, `blobsInPack` of `LoadBlobsFromPack`, and
the copy loop of `Repository.loadBlob` (internal/repository/repository.go). Core Lean only.

What is abstracted (parameters of the model = `Env`): the bytes. For every requested blob the
environment says what `packBlobIterator.Next` finds at its place in the downloaded data
(`good p`: decrypts, decompresses and hashes to the id, plaintext `p`; `damaged`: one of the three
"soft" errors put into `val.Err`; `invalid`: length ≤ nonce size, the hard error), whether the
n-th download succeeds, what `loadBlobFn` returns for an id, and whether the caller's
`handleBlobFn` returns an error for a blob. Context cancellation is not modelled.
-/
namespace Restic.Model.StreamPack

structure Blob where
  id : Nat
  off : Nat
  len : Nat
deriving DecidableEq, Repr

/-- `pack.Blobs.Sort` (by offset); insertion sort, stable -/
def insertBlob (b : Blob) : List Blob → List Blob
  | [] => [b]
  | c :: cs => if b.off < c.off then b :: c :: cs else c :: insertBlob b cs

def sortBlobs (l : List Blob) : List Blob := l.foldr insertBlob []

/-- result of the partition loop of `streamPack`: the parts handed to `streamPackPart`, in order,
    and how the loop ended -/
inductive LoopEnd where
  | done          -- all blobs distributed (the last part is the "remainder")
  | overlap       -- `blobs[i].Offset < lastPos`: "overlapping blobs in pack"
  | emptyPart     -- would call streamPackPart with an empty slice (index out of range panic)
deriving DecidableEq, Repr

/-- The loop `for i := range blobs` of `streamPack`. `cur` = `blobs[lowerIdx:i]`, `lastPos` as
    in Go, `acc` = parts already handed to `streamPackPart`. `mc` = `maxChunkSize`, `mu` =
    `maxUnusedRange`. -/
def partLoop (mc mu : Nat) : List Blob → List Blob → Nat → List (List Blob) → List (List Blob) × LoopEnd
  | [], cur, _, acc => (acc ++ [cur], .done)                    -- `streamPackPart(blobs[lowerIdx:])`
  | b :: rest, cur, lastPos, acc =>
    if b.off < lastPos then (acc, .overlap)
    else
      -- blobs[lowerIdx].Offset (blob i itself when i == lowerIdx)
      let start := match cur with | [] => b.off | c :: _ => c.off
      let chunkSizeAfter := (b.off + b.len) - start
      let split := (!cur.isEmpty && decide (chunkSizeAfter ≥ mc)) || decide (b.off - lastPos > mu)
      if split then
        if cur.isEmpty then (acc, .emptyPart)
        else partLoop mc mu rest [b] (b.off + b.len) (acc ++ [cur])
      else partLoop mc mu rest (cur ++ [b]) (b.off + b.len) acc

/-- `streamPack` up to the calls of `streamPackPart`: `none` = nothing to do (no blobs) -/
def partition (mc mu : Nat) (blobs : List Blob) : List (List Blob) × LoopEnd :=
  match sortBlobs blobs with
  | [] => ([], .done)
  | b :: rest => partLoop mc mu (b :: rest) [] b.off []

/-! ### streaming a part -/

inductive Copy where
  | good (p : Nat)       -- decrypts, decompresses, hash matches: plaintext p
  | damaged              -- decryption / decompression / hash mismatch: `val.Err != nil`
  | invalid              -- `entry.Length <= NonceSize`: `Next` itself fails
deriving DecidableEq, Repr

structure Env where
  copy : Blob → Copy                     -- what the iterator finds for this entry in this pack
  dl : Nat → Bool                        -- does the n-th call of `beLoad` (0-based) succeed
  fallback : Option (Nat → Option Nat)   -- `loadBlobFn` (`none` = nil); `f id = none` = it fails
  cbFails : Nat → Bool                   -- `handleBlobFn` returns an error for this blob id

/-- one invocation of `handleBlobFn` -/
inductive CB where
  | ok (id : Nat) (p : Nat)              -- (handle, plaintext, nil)
  | err (id : Nat)                       -- (handle, _, err)
deriving DecidableEq, Repr

def CB.id : CB → Nat
  | .ok id _ => id
  | .err id => id

inductive Outcome where
  | ok
  | overlap            -- "overlapping blobs in pack"
  | download           -- download failed and there is no loadBlobFn
  | invalidLength      -- "invalid blob length"
  | callback           -- handleBlobFn returned an error
  | notInPack          -- LoadBlobsFromPack: "blob not found in pack"
  | panic
deriving DecidableEq, Repr

/-- download failed, `loadBlobFn != nil`: `for _, entry := range blobs { buf, ierr := loadBlobFn(entry);
    err = handleBlobFn(entry, buf, ierr); if err != nil { break } }` -/
def fallbackLoop (f : Nat → Option Nat) (cbFails : Nat → Bool) : List Blob → List CB → List CB × Outcome
  | [], log => (log, .ok)
  | e :: rest, log =>
    let cb := match f e.id with | some p => CB.ok e.id p | none => CB.err e.id
    if cbFails e.id then (log ++ [cb], .callback) else fallbackLoop f cbFails rest (log ++ [cb])

/-- the `for { val, err := it.Next(); … }` loop of `streamPackPart` -/
def iterLoop (env : Env) : List Blob → List CB → List CB × Outcome
  | [], log => (log, .ok)                                        -- errPackEOF
  | e :: rest, log =>
    match env.copy e with
    | .invalid => (log, .invalidLength)
    | .good p =>
      if env.cbFails e.id then (log ++ [.ok e.id p], .callback) else iterLoop env rest (log ++ [.ok e.id p])
    | .damaged =>
      let cb := match env.fallback with
        | some f => (match f e.id with | some p => CB.ok e.id p | none => CB.err e.id)
        | none => CB.err e.id
      if env.cbFails e.id then (log ++ [cb], .callback) else iterLoop env rest (log ++ [cb])

/-- `streamPackPart` for the `n`-th part -/
def streamPart (env : Env) (n : Nat) (part : List Blob) (log : List CB) : List CB × Outcome :=
  match part with
  | [] => (log, .panic)                                          -- blobs[0] on an empty slice
  | _ :: _ =>
    if env.dl n then iterLoop env part log
    else match env.fallback with
      | none => (log, .download)
      | some f => fallbackLoop f env.cbFails part log

/-- run the parts in order, stop at the first error -/
def streamParts (env : Env) : Nat → List (List Blob) → List CB → List CB × Outcome
  | _, [], log => (log, .ok)
  | n, p :: ps, log =>
    match streamPart env n p log with
    | (log', .ok) => streamParts env (n + 1) ps log'
    | r => r

/-- `streamPack` -/
def streamPack (mc mu : Nat) (env : Env) (blobs : List Blob) : List CB × Outcome :=
  if blobs.isEmpty then ([], .ok)
  else
    let pr := partition mc mu blobs
    match streamParts env 0 pr.1 [] with
    | (log, .ok) =>
      (match pr.2 with
        | .done => (log, .ok)
        | .overlap => (log, .overlap)
        | .emptyPart => (log, .panic))
    | r => r

/-- `blobsInPack` + `streamPack` = `LoadBlobsFromPack`: `inPack id` is the index entry of the
    handle in this pack, if any -/
def loadBlobsFromPack (mc mu : Nat) (env : Env) (inPack : Nat → Option Blob) (handles : List Nat) :
    List CB × Outcome :=
  match handles.mapM inPack with
  | none => ([], .notInPack)
  | some blobs => streamPack mc mu env blobs

/-- the copy loop of `Repository.loadBlob`: the first copy that loads and verifies wins -/
def loadBlobCopies : List Copy → Option Nat
  | [] => none
  | .good p :: _ => some p
  | _ :: rest => loadBlobCopies rest

/-- a stored copy of a blob: its ciphertext length in its pack (copies written with and without
    compression differ in length) and what decoding it yields -/
structure StoredCopy where
  len : Nat
  state : Copy
deriving DecidableEq, Repr

/-- `Repository.loadBlob` with the read buffer made explicit: for **every** copy the buffer is
    re-sliced / re-allocated to that copy's `Blob.Length` (the `switch` at the top of the loop)
    before `ReadAt`; the iterator needs exactly `len` bytes (`readFull` fails on fewer), so a copy
    decodes only if the buffer has its length. `bufLen` = `len(buf)` carried between iterations. -/
def loadBlobSized : List StoredCopy → Nat → Option Nat
  | [], _ => none
  | c :: rest, _ =>
    let bufLen := c.len
    match c.state with
    | .good p => if bufLen = c.len then some p else loadBlobSized rest bufLen
    | _ => loadBlobSized rest bufLen

/-! ### Executable statement of the property (on an observed callback log) -/

def countId (id : Nat) (log : List CB) : Nat := (log.filter (fun c => c.id == id)).length

/-- C43 on an observed run: `requested` = ids of the requested blobs, `mustBeOk id` = an intact
    copy is reachable for this blob (so it must not be reported as an error), `payloadOK` = every
    plaintext handed to the callback hashes to its id (computed by the harness).
    * every requested blob is called back at most once, nothing else is called back;
    * if the call succeeded, every requested blob was called back exactly once;
    * a blob with a reachable intact copy is never reported as an error. -/
def specOK (requested : List Nat) (mustBeOk : Nat → Bool) (payloadOK : Bool)
    (log : List CB) (ok : Bool) : Bool :=
  log.all (fun c => requested.contains c.id) &&
  requested.all (fun id => countId id log ≤ 1) &&
  (!ok || requested.all (fun id => countId id log == 1)) &&
  log.all (fun c => match c with | .err id => !mustBeOk id | .ok _ _ => true) &&
  payloadOK

/-- what `loadBlobFn` can deliver -/
def recoverable (env : Env) (id : Nat) : Bool :=
  match env.fallback with
  | some f => (f id).isSome
  | none => false

end Restic.Model.StreamPack
