/-
Abstract repository + backend-event traces for the crash / schedule properties C11, C14, C26
(DESIGN §4). Core Lean only (the drivers link against this file).

A repository is what the backend holds: pack files (with the blob entries of their headers),
index files (pack id ↦ blob entries), snapshot files. Every other file type (keys, locks, config)
is irrelevant for these properties and is dropped by the harness before the trace gets here.

The Go code this file follows:
  * `Repository.savePacker`      internal/repository/packer_manager.go   be.Save(pack) ; idx.StorePack
  * `MasterIndex.StorePack`      internal/repository/index/master_index.go   storePack ; saveFullIndex
  * `Repository.flush`           internal/repository/repository.go   flushPackUploader ; idx.Flush
  * `Repository.WithBlobUploader`                                     fn ; flush
  * `Archiver.Snapshot`          internal/archiver/archiver.go       WithBlobUploader ; SaveSnapshot
  * `changeTags`                 cmd/restic/cmd_tag.go               SaveSnapshot ; RemoveUnpacked
  * `filterAndReplaceSnapshot`   cmd/restic/cmd_rewrite.go           WithBlobUploader ; SaveSnapshot ; RemoveUnpacked?
-/
namespace Restic.Model.RepoTrace

/-- one entry of a pack header / of an index file: type (0 data, 1 tree), id, offset, length -/
structure Blob where
  tpe : Nat
  id : Nat
  off : Nat
  len : Nat
deriving DecidableEq, Repr, Inhabited

/-- blob handle: (type, id) -/
abbrev Handle := Nat × Nat

def Blob.h (b : Blob) : Handle := (b.tpe, b.id)

/-- A snapshot file, reduced to what the properties talk about.
    `needs` is the closure of the root tree: every tree and data blob a restore has to load
    (computed by the harness by decoding the tree blobs; traversal itself is C42's subject).
    `key` is a lineage marker that tag / rewrite / repair keep (the harness uses the snapshot's
    unique path list). -/
structure Snap where
  key : Nat
  tree : Nat
  orig : Option Nat
  needs : List Handle
deriving DecidableEq, Repr, Inhabited

abbrev IndexEntry := Nat × List Blob          -- pack id, blobs listed for it

structure Repo where
  packs : List (Nat × List Blob)
  indexes : List (Nat × List IndexEntry)
  snaps : List (Nat × Snap)
deriving Repr, Inhabited

def Repo.empty : Repo := ⟨[], [], []⟩

/-- mutating backend operations on the three file types (below all of restic's wrappers) -/
inductive Ev where
  | savePack (p : Nat) (bs : List Blob)
  | saveIndex (i : Nat) (es : List IndexEntry)
  | saveSnap (s : Nat) (sn : Snap)
  | removePack (p : Nat)
  | removeIndex (i : Nat)
  | removeSnap (s : Nat)
deriving Repr, Inhabited, DecidableEq

def apply (r : Repo) : Ev → Repo
  | .savePack p bs => { r with packs := (p, bs) :: r.packs }
  | .saveIndex i es => { r with indexes := (i, es) :: r.indexes }
  | .saveSnap s sn => { r with snaps := (s, sn) :: r.snaps }
  | .removePack p => { r with packs := r.packs.filter (fun x => x.1 != p) }
  | .removeIndex i => { r with indexes := r.indexes.filter (fun x => x.1 != i) }
  | .removeSnap s => { r with snaps := r.snaps.filter (fun x => x.1 != s) }

def applyAll (r : Repo) (tr : List Ev) : Repo := tr.foldl apply r

/-! ### Observables (all executable) -/

/-- pack file `p` exists and its header lists exactly this entry -/
def packHas (r : Repo) (p : Nat) (b : Blob) : Bool :=
  r.packs.any fun q => q.1 == p && q.2.contains b

/-- an index entry is backed by the pack it names -/
def entryOK (r : Repo) (e : IndexEntry) : Bool := e.2.all (packHas r e.1)

/-- `Indexed`: some index file names a pack for the blob, and that pack exists with that entry -/
def indexed (r : Repo) (h : Handle) : Bool :=
  r.indexes.any fun ix => ix.2.any fun e => e.2.any fun b => b.h == h && packHas r e.1 b

/-- `Restorable`: every blob of the snapshot's closure is indexed -/
def restorable (r : Repo) (sn : Snap) : Bool := sn.needs.all (indexed r)

/-- index files only name saved packs, with matching entries -/
def indexSound (r : Repo) : Bool := r.indexes.all fun ix => ix.2.all (entryOK r)

/-- every snapshot present is restorable -/
def snapsOK (r : Repo) : Bool := r.snaps.all fun s => restorable r s.2

/-- `CheckOK'`: the abstract counterpart of `restic check` reporting no error
    (packs not named by any index are only hints and do not matter) -/
def checkOK (r : Repo) : Bool := indexSound r && snapsOK r

def snapPresent (r : Repo) (s : Nat) : Bool := r.snaps.any fun x => x.1 == s
def keyPresent (r : Repo) (k : Nat) : Bool := r.snaps.any fun x => x.2.key == k
def lookupSnap (r : Repo) (s : Nat) : Option Snap := (r.snaps.find? fun x => x.1 == s).map (·.2)

/-! ### C11 / C14: the writer language -/

/-- local guard of one additive event against the state it is applied to (monotone in the
    state: what holds in a smaller repository holds in a larger one) -/
def addGuard (r : Repo) : Ev → Bool
  | .savePack _ _ => true
  | .saveIndex _ es => es.all (entryOK r)                   -- names only packs saved earlier
  | .saveSnap _ sn => restorable r sn                       -- closure indexed by earlier index saves
  | _ => false                                              -- a backup never removes anything

/-- file names are content derived: a save never hits an existing name (checked on recorded
    traces by the drivers; not needed by any theorem) -/
def freshOK : Repo → List Ev → Bool
  | _, [] => true
  | r, e :: tr =>
    (match e with
     | .savePack p _ => !(r.packs.any fun q => q.1 == p)
     | .saveIndex i _ => !(r.indexes.any fun q => q.1 == i)
     | .saveSnap s _ => !(r.snaps.any fun q => q.1 == s)
     | _ => true) && freshOK (apply r e) tr

/-- every event is additive and passes its guard in the state reached so far -/
def acceptAdds : Repo → List Ev → Bool
  | _, [] => true
  | r, e :: tr => addGuard r e && acceptAdds (apply r e) tr

def isSaveSnap : Ev → Bool
  | .saveSnap _ _ => true
  | _ => false

/-- phase structure of one backup: blob/index uploads, then at most one snapshot, which is last -/
def snapOnlyLast : List Ev → Bool
  | [] => true
  | [_] => true
  | e :: tr => !isSaveSnap e && snapOnlyLast tr

/-- language of (prefixes of) one backup run: `[savePack | saveIndex]* ; saveSnap?` with guards -/
def accept_backup (r : Repo) (tr : List Ev) : Bool := acceptAdds r tr && snapOnlyLast tr

/-- a successfully finished backup ends with its snapshot -/
def endsWithSnap (tr : List Ev) : Bool :=
  match tr.getLast? with
  | some e => isSaveSnap e
  | none => false

/-- packs uploaded in this run that no index file saved in this run names (what the final
    `idx.Flush` must leave empty before the snapshot is written) -/
def unindexedPacks (tr : List Ev) : List Nat :=
  let named : List Nat := tr.flatMap fun e => match e with
    | .saveIndex _ es => es.map (·.1)
    | _ => []
  tr.filterMap fun e => match e with
    | .savePack p _ => if named.contains p then none else some p
    | _ => none

/-! ### The writer, transcribed: uploader goroutines + flush + snapshot

`savePacker` is a three-instruction program per finished packer; the uploader pool runs several of
them concurrently, so the instructions of different packers interleave (the `schedule`). -/

/-- one `savePacker` call: pack id, blobs, and the oracle for `index.Full` at its `saveFullIndex`
    together with the id the index file gets if it is saved -/
structure PackJob where
  pid : Nat
  blobs : List Blob
  full : Bool
  iid : Nat
deriving Repr

structure WState where
  jobs : List PackJob
  pc : Nat → Nat              -- per job: next instruction 0 upload, 1 store, 2 saveFull, 3 done
  pending : List IndexEntry   -- packs in the in-memory non-final index (stored, not yet in a saved index file)
  out : List Ev               -- backend operations so far (newest first)
  failed : Bool

def setPc (w : WState) (j v : Nat) : WState := { w with pc := fun k => if k = j then v else w.pc k }

/-- run the next instruction of job `j`; `fail` = the backend operation of this instruction
    returns an error (after retries) -/
def stepJob (w : WState) (j : Nat) (fail : Bool) : WState :=
  match w.jobs[j]? with
  | none => w
  | some job =>
    if w.pc j = 0 then
      -- err = r.be.Save(ctx, h, rrd); if err != nil { return err }
      if fail then { setPc w j 3 with failed := true }
      else setPc { w with out := .savePack job.pid job.blobs :: w.out } j 1
    else if w.pc j = 1 then
      -- mi.storePack(id, blobs)
      setPc { w with pending := (job.pid, job.blobs) :: w.pending } j 2
    else if w.pc j = 2 then
      -- mi.saveFullIndex: finalizeFullIndexes, SaveIndex each
      if job.full && !w.pending.isEmpty then
        if fail then { setPc w j 3 with failed := true }
        else setPc { w with out := .saveIndex job.iid w.pending.reverse :: w.out, pending := [] } j 3
      else setPc w j 3
    else w

/-- the uploader pool: a schedule of (job index, does its backend operation fail) -/
def runJobs (w : WState) : List (Nat × Bool) → WState
  | [] => w
  | (j, f) :: s => runJobs (stepJob w j f) s

def allDone (w : WState) : Bool := (List.range w.jobs.length).all fun k => w.pc k == 3

/-- `Repository.flush` after the packers were flushed and the uploader pool was waited for:
    `idx.Flush` saves the remaining in-memory index (one file; id `fid`) -/
def flushIndex (w : WState) (fid : Nat) (fail : Bool) : WState :=
  if w.pending.isEmpty then w
  else if fail then { w with failed := true }
  else { w with out := .saveIndex fid w.pending.reverse :: w.out, pending := [] }

/-- `Archiver.Snapshot`: `WithBlobUploader(fn ; flush)`, and only if that returned nil,
    `SaveSnapshot`. errgroup: any failed `savePacker` makes `wg.Wait` return the error; flush is
    only reached when all `savePacker` calls have returned. Returns the backend trace in order. -/
def backupRun (jobs : List PackJob) (sched : List (Nat × Bool)) (fid : Nat) (flushFails : Bool)
    (sid : Nat) (sn : Snap) (snapFails : Bool) : List Ev :=
  let w := runJobs { jobs := jobs, pc := fun _ => 0, pending := [], out := [], failed := false } sched
  if w.failed || !allDone w then w.out.reverse
  else
    let w := flushIndex w fid flushFails
    if w.failed then w.out.reverse
    else if snapFails then w.out.reverse
    else (Ev.saveSnap sid sn :: w.out).reverse

/-! ### C14: writers and a reader on one backend -/

/-- global interleaved trace: every writer event passes its guard in the *global* state -/
def accept_global : Repo → List Ev → Bool := acceptAdds

/-- what a reader works with: the snapshots it listed in state `r1`, the index files it listed
    (and then loaded) in state `r2` -/
def loadedIndexHas (r2 : Repo) (h : Handle) : Bool := indexed r2 h

/-- reader's own operation order: kinds of its backend operations -/
inductive ROp where
  | listSnapshots | listIndex | other
deriving DecidableEq, Repr

/-- every snapshot listing precedes the first index listing (`LoadIndex`) -/
def readerOrderOK : List ROp → Bool
  | [] => true
  | .listIndex :: rest => !rest.contains .listSnapshots
  | _ :: rest => readerOrderOK rest

/-- a long-running reader (fuse `updateSnapshots`) that found a changed snapshot set: after its
    last snapshot listing it lists (reloads) the index again -/
def refreshReloads (ops : List ROp) : Bool :=
  (ops.reverse.takeWhile (· != .listSnapshots)).contains .listIndex && ops.contains .listSnapshots

/-! ### C26: snapshot rewrites (tag, rewrite, repair snapshots)

One automaton for a whole command run (several snapshots are processed one after the other):
`( [savePack | saveIndex]* ; saveSnap n ; (removeSnap o)? )*`, where a `removeSnap o` is only
allowed directly after the save of the snapshot that replaces `o` (same lineage key).
`emptiedKeys` lists the lineages the command reported as "removed empty snapshot" (root tree
became null: nothing to save); those are removed without a replacement by design. -/

/-- every snapshot file named `o` belongs to a lineage satisfying `ok` -/
def removalCovered (r : Repo) (o : Nat) (ok : Nat → Bool) : Bool :=
  r.snaps.all fun x => x.1 != o || ok x.2.key

def accept_rewrites (emptiedKeys : List Nat) : Repo → Option (Nat × Nat) → List Ev → Bool
  | _, _, [] => true
  | r, last, e :: tr =>
    match e with
    | .savePack _ _ | .saveIndex _ _ => addGuard r e && accept_rewrites emptiedKeys (apply r e) none tr
    | .saveSnap n sn => addGuard r e && accept_rewrites emptiedKeys (apply r e) (some (n, sn.key)) tr
    | .removeSnap o =>
      ((match last with
        | some (n, k) => o != n && removalCovered r o (· == k)
        | none => false) || removalCovered r o emptiedKeys.contains)
      && accept_rewrites emptiedKeys (apply r e) none tr
    | _ => false

/-- the simple shape of DESIGN §5 C26 for one snapshot `old` (lineage key `key`):
    uploads, save new, optionally remove old, nothing else -/
def rewrite1Go (old key : Nat) : Repo → List Ev → Bool
  | _, [] => true
  | r, .saveSnap n sn :: rest =>
    addGuard r (.saveSnap n sn) && n != old && sn.key == key &&
      (match rest with
       | [] => true
       | [.removeSnap o] => o == old
       | _ => false)
  | r, e :: rest => addGuard r e && rewrite1Go old key (apply r e) rest

def accept_rewrite1 (r : Repo) (old : Nat) (tr : List Ev) : Bool :=
  match lookupSnap r old with
  | none => false
  | some so => rewrite1Go old so.key r tr

/-- decision logic of `changeTags` (after the tag edit itself, which is C25's subject):
    the backend operations it issues -/
def changeTagsOps (old : Nat) (so : Snap) (changed : Bool) (newId : Nat) : List Ev :=
  if changed then
    let orig := match so.orig with | none => some old | some o => some o
    [.saveSnap newId { so with orig := orig }, .removeSnap old]
  else []

inductive FROutcome where
  | unchanged | removedEmpty | wouldChange | replaced
deriving DecidableEq, Repr

/-- decision logic of `filterAndReplaceSnapshot` after the filter ran inside `WithBlobUploader`
    (`uploads` = what that produced): `filtered` = resulting root tree (none = null ID) with its
    closure. Returns the outcome and the backend operations. -/
def filterAndReplaceOps (old : Nat) (so : Snap) (uploads : List Ev) (filtered : Option (Nat × List Handle))
    (summaryChanged metaChanged keepEmpty dryRun forget : Bool) (newId : Nat) : FROutcome × List Ev :=
  match filtered with
  | none =>
    if keepEmpty then (.unchanged, uploads)
    else if !forget then (.unchanged, uploads)      -- nothing is removed without `--forget`
    else if dryRun then (.removedEmpty, uploads)
    else (.removedEmpty, uploads ++ [.removeSnap old])
  | some (t, needs) =>
    if t == so.tree && !metaChanged && !summaryChanged then (.unchanged, uploads)
    else if dryRun then (.wouldChange, uploads)
    else
      let sn' : Snap := { so with orig := some old, tree := t, needs := needs }
      (.replaced, uploads ++ [.saveSnap newId sn'] ++ (if forget then [.removeSnap old] else []))

/-! ### Executable statements of the properties (evaluated on the implementation's own output) -/

/-- C11 at one crash state: the decoded backend content passes the abstract check, every snapshot
    that was there before is still there and restorable -/
def specC11State (r0 r : Repo) : Bool :=
  checkOK r && r0.snaps.all fun s => snapPresent r s.1 && restorable r s.2

/-- C26 at one crash state: every lineage present before is still present (unless reported empty) -/
def specC26State (emptiedKeys : List Nat) (r0 r : Repo) : Bool :=
  r0.snaps.all fun s => emptiedKeys.contains s.2.key || keyPresent r s.2.key

/-- C26: the new snapshot keeps the first snapshot's id as original -/
def specOriginal (isTag : Bool) (old : Nat) (so sn' : Snap) : Bool :=
  if isTag then sn'.orig == (match so.orig with | none => some old | some o => some o)
  else sn'.orig == some old

end Restic.Model.RepoTrace
