import Restic.Model.BeFiles
/-
Model of `restic init` (C30): the version switch of `runInit` (cmd/restic/cmd_init.go), the range
check of `global.CreateRepository`, the decision list of `Repository.Init` and `Repository.init`
(internal/repository/repository.go), `restic.CreateConfig` (internal/restic/config.go).
Core Lean only. Close transcription: same order of checks, same early returns.
-/
namespace Restic.Model.Init
open Restic.Model.BeFiles

/-- `restic.MinRepoVersion`, `MaxRepoVersion`, `StableRepoVersion` (regenerated: `Restic.Gen`) -/
structure Consts where
  minV : Nat
  maxV : Nat
  stableV : Nat
deriving Repr

/-- value of the flag `--repository-version` after the `switch` of `runInit` -/
inductive VerArg where
  | latest            -- "latest" or ""
  | stable            -- "stable"
  | num (n : Nat)     -- strconv.ParseUint(s, 10, 32) succeeded
  | invalid           -- ParseUint failed
deriving DecidableEq, Repr

def parseVersion (k : Consts) : VerArg → Option Nat
  | .latest => some k.maxV
  | .stable => some k.stableV
  | .num n => some n
  | .invalid => none

structure Config where
  version : Nat
  id : String
  pol : Nat
deriving DecidableEq, Repr

/-- injected backend fault: which operation of the run returns an error -/
inductive Fault where
  | none | stat | listKey | listSnap | saveKey | saveCfg
deriving DecidableEq, Repr

inductive ErrKind where
  | invalidVersion | versionRange | tooHigh | tooLow
  | statFailed | alreadyInitialized | listFailed | containsKeys | containsSnapshots
  | saveKeyFailed | saveConfigFailed
deriving DecidableEq, Repr

inductive Result where
  | ok (cfg : Config)
  | err (k : ErrKind)
deriving DecidableEq, Repr

def Result.isOk : Result → Bool
  | .ok _ => true
  | .err _ => false

/-- fresh values supplied by the environment: `chunker.RandomPolynomial`, `NewRandomID`, the name
    (= SHA-256 of the JSON) and bytes of the new key file, the bytes of the encrypted config -/
structure Oracle where
  randPol : Nat
  randID : String
  keyName : String
  keyContent : Content
  cfgContent : Content
deriving Repr

def isHex (c : Char) : Bool :=
  ('0' ≤ c && c ≤ '9') || ('a' ≤ c && c ≤ 'f') || ('A' ≤ c && c ≤ 'F')

/-- `restic.ParseID` succeeds: 64 hex digits (`hex.DecodeString` accepts both cases) -/
def validID (s : String) : Bool := s.toList.length == 64 && s.toList.all isHex

def cfgH : Handle := ⟨.config, ""⟩

/-- `Repository.List(t, fn)` calls `fn` at least once: some listed name parses as an ID
    (names that do not parse are skipped by `Repository.List`) -/
def listHas (st : State) (t : FType) : Bool :=
  st.any (fun p => p.1.t == t && validID p.1.name)

/-- `restic.CreateConfig` -/
def createConfig (version : Nat) (pol : Option Nat) (o : Oracle) : Config :=
  { version := version, id := o.randID, pol := match pol with | none => o.randPol | some p => p }

/-- `Repository.Init` followed by `Repository.init`; returns the result and, in order, the backend
    operations: reads as attempted (also when they fail), writes only when they succeeded -/
def repoInit (k : Consts) (st : State) (f : Fault) (version : Nat) (pol : Option Nat) (o : Oracle) :
    Result × List Ev :=
  if version > k.maxV then (.err .tooHigh, [])
  else if version < k.minV then (.err .tooLow, [])
  else if f = .stat then (.err .statFailed, [.stat cfgH])
  else if (get st cfgH).isSome then (.err .alreadyInitialized, [.stat cfgH])
  else if f = .listKey then (.err .listFailed, [.stat cfgH, .list .key])
  else if listHas st .key then (.err .containsKeys, [.stat cfgH, .list .key])
  else if f = .listSnap then (.err .listFailed, [.stat cfgH, .list .key, .list .snapshot])
  else if listHas st .snapshot then (.err .containsSnapshots, [.stat cfgH, .list .key, .list .snapshot])
  else
    let cfg := createConfig version pol o
    -- init: createMasterKey -> AddKey -> be.Save(key file)
    if f = .saveKey then (.err .saveKeyFailed, [.stat cfgH, .list .key, .list .snapshot])
    else if f = .saveCfg then
      (.err .saveConfigFailed, [.stat cfgH, .list .key, .list .snapshot, .save ⟨.key, o.keyName⟩ o.keyContent])
    else
      (.ok cfg, [.stat cfgH, .list .key, .list .snapshot, .save ⟨.key, o.keyName⟩ o.keyContent,
                 .save cfgH o.cfgContent])

/-- `runInit` + `global.CreateRepository` -/
def runInit (k : Consts) (st : State) (f : Fault) (va : VerArg) (pol : Option Nat) (o : Oracle) :
    Result × List Ev :=
  match parseVersion k va with
  | none => (.err .invalidVersion, [])
  | some v =>
    if v < k.minV ∨ v > k.maxV then (.err .versionRange, [])
    else repoInit k st f v pol o

/-! ## The property, executable (evaluated on the implementation's own output) -/

/-- the location "already holds a config, any key or any snapshot" -/
def occupied (st : State) : Bool :=
  (get st cfgH).isSome || listHas st .key || listHas st .snapshot

/-- every file that existed before is still there with the same content -/
def preserved (pre post : State) : Bool :=
  pre.all (fun p => get post p.1 == get pre p.1)

/-- handles present in `post` that were absent in `pre` -/
def newFiles (pre post : State) : List Handle :=
  (post.filter (fun p => (get pre p.1).isNone)).map (·.1)

/-- what is observed of one run -/
structure Observed where
  pre : State
  post : State
  ok : Bool                 -- init reported success
  cfg : Option Config       -- the config as read back with the password (when ok)
  irreducible : Bool        -- the config's polynomial is irreducible (oracle: chunker.Pol.Irreducible)
  idFresh : Bool            -- the config id is 64 hex digits and was never seen before
  opens : Bool              -- the repository opens with the given password
  rejectsWrong : Bool       -- and does not open with a different one
deriving Repr

/-- C30 as a predicate: `reqV` = requested version (none: unparsable), `pol` = given polynomial,
    `faulted` = a backend fault was injected -/
def specOK (k : Consts) (reqV : Option Nat) (pol : Option Nat) (faulted : Bool) (ob : Observed) : Bool :=
  preserved ob.pre ob.post &&
  (!occupied ob.pre || (!ob.ok && newFiles ob.pre ob.post == [])) &&
  (if ob.ok then
    (match ob.cfg with
     | none => false
     | some c =>
       decide (k.minV ≤ c.version) && decide (c.version ≤ k.maxV) && reqV == some c.version &&
       (match pol with | some p => c.pol == p | none => ob.irreducible) &&
       ob.idFresh && ob.opens && ob.rejectsWrong &&
       (newFiles ob.pre ob.post).length == 2 &&
       (newFiles ob.pre ob.post).any (· == cfgH) &&
       (newFiles ob.pre ob.post).any (fun h => h.t == .key))
   else
    -- a refused init writes nothing; an init that failed on an injected fault may leave the key
    (newFiles ob.pre ob.post == [] ||
      (faulted && (newFiles ob.pre ob.post).length == 1 && (newFiles ob.pre ob.post).all (fun h => h.t == .key))))

end Restic.Model.Init
