/-
Model of the tree / node encoding (C41): `TreeJSONBuilder.AddNode/Finalize`, `treeIterator.init/next`
(internal/data/tree.go), `Node.MarshalJSON/UnmarshalJSON`, `fixTime` (internal/data/node.go) and
`treeSaver.save` (internal/archiver/tree_saver.go).  Core Lean only.

`encoding/json` (struct encoder/decoder) and `strconv.Quote/Unquote`, `utf8.ValidString` are
ORACLES (`Oracles`), with the laws J1/J2 stated in `Restic.Props.C41`.  What is transcribed is
restic's own logic around them.  The token level of `json.Decoder` that `treeIterator` drives
(`Token`, `More`, `Decode(&raw)`) is modelled by a small scanner (`scanValue`, `expect`, …) that
is exact on well-formed JSON; it is tied to the real decoder by the correspondence run.
-/
namespace Restic.Model.TreeCodec

abbrev Bytes := List UInt8

/-! ### byte-wise string order (Go's `<=` on strings) -/

def bytesLt : Bytes → Bytes → Bool
  | [], [] => false
  | [], _ :: _ => true
  | _ :: _, [] => false
  | a :: as, b :: bs => if a < b then true else if b < a then false else bytesLt as bs

/-- Go: `a <= b` -/
def bytesLe (a b : Bytes) : Bool := !bytesLt b a

/-! ### TreeJSONBuilder -/

/-- `{"nodes":[` -/
def treePrefix : Bytes := [123, 34, 110, 111, 100, 101, 115, 34, 58, 91]
/-- `]}` and a newline -/
def treeSuffix : Bytes := [93, 125, 10]

structure Builder where
  buf : Bytes
  lastName : Bytes
  count : Nat
deriving Repr, DecidableEq

def newBuilder : Builder := { buf := treePrefix, lastName := [], count := 0 }

inductive AddRes where
  | ok (b : Builder)
  | notOrdered            -- ErrTreeNotOrdered
  | marshalErr            -- json.Marshal(node) failed
deriving Repr, DecidableEq

/-- `AddNode`; `enc` is the result of `json.Marshal(node)` (`none` = error) -/
def addNode (b : Builder) (name : Bytes) (enc : Option Bytes) : AddRes :=
  if bytesLe name b.lastName then .notOrdered
  else
    match enc with
    | none => .marshalErr
    | some v =>
      .ok { buf := b.buf ++ (if b.lastName ≠ [] then [44] else []) ++ v, lastName := name,
            count := b.count + 1 }

/-- `Finalize` -/
def finalize (b : Builder) : Bytes := b.buf ++ treeSuffix

/-- `SaveTree`-style loop: add all nodes, then finalize -/
def buildFrom (b : Builder) : List (Bytes × Option Bytes) → Option Bytes
  | [] => some (finalize b)
  | (name, enc) :: rest =>
    match addNode b name enc with
    | .ok b' => buildFrom b' rest
    | _ => none

def buildTree (nodes : List (Bytes × Option Bytes)) : Option Bytes := buildFrom newBuilder nodes

/-! ### treeSaver.save -/

/-- a node as the tree saver sees it: name, `json.Marshal` result, and a key such that
    `a.Equals(b)` iff the keys are equal -/
structure TNode where
  name : Bytes
  enc : Option Bytes
  key : Nat
deriving Repr, DecidableEq

/-- result of one future (`futureNodeResult`) -/
inductive Fut where
  /-- `fnr.err != nil`; `canceled`: it is `context.Canceled`; `ignored`: `errFn` returns nil -/
  | failed (canceled ignored : Bool)
  /-- `fnr.node == nil` -/
  | excluded
  | node (n : TNode)
deriving Repr, DecidableEq

inductive SaveRes where
  | ok (buf : Bytes) (errFnCalls : Nat)
  | err (kind : String)
deriving Repr, DecidableEq

/-- the loop of `treeSaver.save`: futures are taken strictly in list order -/
def saveLoop : List Fut → Builder → Option TNode → Nat → SaveRes
  | [], b, _, w => .ok (finalize b) w
  | .failed canceled ignored :: fs, b, last, w =>
    if canceled then .err "canceled"
    else if ignored then saveLoop fs b last (w + 1)
    else .err "item"
  | .excluded :: fs, b, last, w => saveLoop fs b last w
  | .node n :: fs, b, last, w =>
    match addNode b n.name n.enc with
    | .ok b' => saveLoop fs b' (some n) w
    | .notOrdered =>
      match last with
      | some l => if n.key = l.key then saveLoop fs b (some n) (w + 1) else .err "order"
      | none => .err "order"
    | .marshalErr => .err "marshal"

def treeSave (futs : List Fut) : SaveRes := saveLoop futs newBuilder none 0

/-! ### the token level of json.Decoder used by treeIterator -/

def isWS (c : UInt8) : Bool := c == 32 || c == 9 || c == 10 || c == 13

def skipWS : Bytes → Bytes
  | [] => []
  | c :: r => if isWS c then skipWS r else c :: r

/-- input after an opening quote: (raw content, rest after the closing quote) -/
def scanStr : Bytes → Bytes → Option (Bytes × Bytes)
  | [], _ => none
  | c :: r, acc =>
    if c == 34 then some (acc.reverse, r)
    else if c == 92 then
      match r with
      | [] => none
      | d :: r' => scanStr r' (d :: c :: acc)
    else scanStr r (c :: acc)

/-- input after the first `{`/`[` (already in `acc`): scan to the matching closer -/
def scanComp : Bytes → Nat → Bool → Bool → Bytes → Option (Bytes × Bytes)
  | [], _, _, _, _ => none
  | c :: r, d, true, true, acc => scanComp r d true false (c :: acc)
  | c :: r, d, true, false, acc =>
    if c == 92 then scanComp r d true true (c :: acc)
    else if c == 34 then scanComp r d false false (c :: acc)
    else scanComp r d true false (c :: acc)
  | c :: r, d, false, _, acc =>
    if c == 34 then scanComp r d true false (c :: acc)
    else if c == 123 || c == 91 then scanComp r (d + 1) false false (c :: acc)
    else if c == 125 || c == 93 then
      (if d ≤ 1 then some ((c :: acc).reverse, r) else scanComp r (d - 1) false false (c :: acc))
    else scanComp r d false false (c :: acc)

def isDelim (c : UInt8) : Bool := c == 44 || c == 93 || c == 125 || isWS c

def scanScalar : Bytes → Bytes → Bytes × Bytes
  | [], acc => (acc.reverse, [])
  | c :: r, acc => if isDelim c then (acc.reverse, c :: r) else scanScalar r (c :: acc)

/-- `Decode(&raw)`: the next JSON value as raw bytes, and the rest of the input -/
def scanValue (b : Bytes) : Option (Bytes × Bytes) :=
  match skipWS b with
  | [] => none
  | c :: r =>
    if c == 34 then
      match scanStr r [] with
      | some (s, r') => some (34 :: s ++ [34], r')
      | none => none
    else if c == 123 || c == 91 then scanComp r 1 false false [c]
    else if isDelim c then none
    else some (scanScalar (c :: r) [])

/-- `assertToken(Delim c)` (also used for the `:` the decoder swallows after a key) -/
def expect (c : UInt8) (b : Bytes) : Option Bytes :=
  match skipWS b with
  | x :: r => if x == c then some r else none
  | [] => none

/-- the decoder swallows the `,` between elements / members -/
def skipComma (b : Bytes) : Bytes :=
  match skipWS b with
  | 44 :: r => r
  | o => o

/-- `nodes` -/
def nodesKey : Bytes := [110, 111, 100, 101, 115]

/-- the key loop of `treeIterator.init` (fuel = input length) -/
def initLoop : Nat → Bytes → Option Bytes
  | 0, _ => none
  | f + 1, b =>
    match skipWS (skipComma b) with
    | 34 :: r =>
      match scanStr r [] with
      | none => none
      | some (key, r1) =>
        match expect 58 r1 with
        | none => none
        | some r2 =>
          if key = nodesKey then expect 91 r2
          else
            match scanValue r2 with
            | none => none
            | some (_, r3) => initLoop f r3
    | _ => none     -- "expected string key"

/-- `treeIterator.init`: input positioned behind the `[` of "nodes" -/
def iterInit (b : Bytes) : Option Bytes :=
  match expect 123 b with
  | none => none
  | some r => initLoop (r.length + 1) r

inductive Next where
  | node (raw rest : Bytes)
  | eof
  | err
deriving Repr, DecidableEq

/-- the loop after `]` in `treeIterator.next`: skip unknown members up to `}`.
    (`dec.Token()` returning io.EOF is passed on as io.EOF, i.e. a clean end.) -/
def tailLoop : Nat → Bytes → Next
  | 0, _ => .err
  | f + 1, b =>
    match skipWS (skipComma b) with
    | [] => .eof
    | c :: r =>
      if c == 125 then .eof
      else if c == 34 then
        match scanStr r [] with
        | none => .err
        | some (_, r1) =>
          match expect 58 r1 with
          | none => .err
          | some r2 =>
            match scanValue r2 with
            | none => .err
            | some (_, r3) => tailLoop f r3
      else .err

/-- `treeIterator.next` -/
def iterNext (b : Bytes) : Next :=
  match skipWS b with
  | [] => .eof                       -- More() = false, Token() = io.EOF
  | c :: r =>
    if c != 93 && c != 125 then       -- dec.More()
      match skipWS (skipComma b) with
      | [] => .eof                   -- Decode at the end of input returns io.EOF: clean end
      | _ =>
        match scanValue (skipComma b) with
        | some (raw, rest) => .node raw rest
        | none => .err
    else if c == 93 then tailLoop (r.length + 1) r
    else .err

/-- iterate to the end: raw node values, and whether the iteration ended without error -/
def iterAll : Nat → Bytes → List Bytes × Bool
  | 0, _ => ([], false)
  | f + 1, b =>
    match iterNext b with
    | .eof => ([], true)
    | .err => ([], false)
    | .node raw rest => let r := iterAll f rest; (raw :: r.1, r.2)

/-- `NewTreeNodeIterator` + full iteration -/
def decodeRaw (b : Bytes) : Option (List Bytes × Bool) :=
  match iterInit b with
  | none => none
  | some r => some (iterAll (r.length + 1) r)

/-! ### Node.MarshalJSON / UnmarshalJSON over the stdlib oracles -/

/-- a `time.Time`: its year and everything else (month … zone) as an opaque token -/
structure Time where
  year : Int
  rest : Bytes
deriving Repr, DecidableEq

/-- `fixTime` ("other than the year nothing is changed") -/
def fixTime (t : Time) : Time :=
  if t.year < 0 then { t with year := 0 }
  else if t.year > 9999 then { t with year := 9999 }
  else t

structure Node where
  name : Bytes
  linkTarget : Bytes
  /-- `LinkTargetRaw`; must be nil when marshalling -/
  raw : Option Bytes
  mtime : Time
  atime : Time
  ctime : Time
  /-- fields stored as plain JSON strings -/
  typ : Bytes
  user : Bytes
  group : Bytes
  error : Bytes
  /-- extended attributes: name (plain JSON string) and value (base64) -/
  xattrs : List (Bytes × Bytes)
  /-- generic attributes: key and raw JSON value -/
  generic : List (Bytes × Bytes)
  /-- mode uid gid inode device_id size links device -/
  nums : List Nat
  content : Option (List Bytes)
  subtree : Option Bytes
deriving Repr, DecidableEq

structure Oracles where
  /-- `strconv.Quote` (with the surrounding quotes) -/
  quote : Bytes → Bytes
  /-- `strconv.Unquote` -/
  unquote : Bytes → Option Bytes
  /-- `utf8.ValidString` -/
  validUTF8 : Bytes → Bool
  /-- `json.Marshal` of the method-less struct `nodeJSON` -/
  jsonEnc : Node → Option Bytes
  /-- `json.Unmarshal` into a zero `nodeJSON` -/
  jsonDec : Bytes → Option Node

inductive Marshal where
  | ok (b : Bytes)
  | err
  | panic        -- "LinkTargetRaw must not be set manually"
deriving Repr, DecidableEq

/-- what `MarshalJSON` hands to `json.Marshal` -/
def wrapNode (o : Oracles) (n : Node) : Node :=
  let q := o.quote n.name
  { n with
    mtime := fixTime n.mtime, atime := fixTime n.atime, ctime := fixTime n.ctime,
    name := (q.drop 1).dropLast,                       -- name[1 : len(name)-1]
    raw := if o.validUTF8 n.linkTarget then none else some n.linkTarget }

/-- `Node.MarshalJSON` -/
def marshalNode (o : Oracles) (n : Node) : Marshal :=
  if n.raw.isSome then .panic
  else
    match o.jsonEnc (wrapNode o n) with
    | some b => .ok b
    | none => .err

/-- `Node.UnmarshalJSON` -/
def unmarshalNode (o : Oracles) (data : Bytes) : Option Node :=
  match o.jsonDec data with
  | none => none
  | some nj =>
    match o.unquote (34 :: nj.name ++ [34]) with
    | none => none
    | some name =>
      some (match nj.raw with
        | some r => { nj with name := name, linkTarget := r, raw := none }
        | none => { nj with name := name })

/-! ### Executable statements of the property -/

/-- node level: decoding what was encoded gives back every field -/
def specNode (input : Node) (decoded : Option Node) : Bool :=
  decoded == some input

/-- tree level (on the implementation's outputs): the bytes are framed and ordered, and the
    decoded sequence re-encodes to exactly the encodings of the input nodes, in order -/
def strictSorted : List Bytes → Bool
  | [] => true
  | [x] => bytesLt [] x
  | x :: y :: r => bytesLt [] x && bytesLt x y && strictSorted (y :: r)

def specTree (names : List Bytes) (encs : List Bytes) (built : Option Bytes) (decodedEncs : Option (List Bytes)) : Bool :=
  match built with
  | none => !strictSorted names            -- rejected exactly when not strictly sorted
  | some _ => strictSorted names && decodedEncs == some encs

end Restic.Model.TreeCodec
