/-!
# Model of blob deduplication during a backup (C16)

Transcription of `Repository.saveBlob` (internal/repository/repository.go) and
`MasterIndex.AddPending` / `storePack` (internal/repository/index/master_index.go) as atomic steps
of concurrently running `saveBlob` calls:

* step 1 of a call: `known = !r.idx.AddPending(h)` — test "pending or in some index" and insertion
  into `pendingBlobs` happen under `idxMutex` (one atomic step);
* step 2: `if !known || storeDuplicate { saveAndEncrypt }` — the blob goes to a packer;
* an uploader stores a finished pack in the index: `storePack` removes its blobs from
  `pendingBlobs` and adds them to the index, again under `idxMutex` (one atomic step).

A schedule is a list of actions (`thread i` = the next step of call `i`, `store hs`, `flush`);
theorems quantify over all schedules. Handles (blob type + id) are opaque numbers.
-/
namespace Restic.Model.Dedup

abbrev Handle := Nat

structure Call where
  h : Handle
  dup : Bool      -- storeDuplicate
deriving DecidableEq, Repr

inductive PC
  | start                    -- before AddPending
  | checked (known : Bool)   -- AddPending done, saveAndEncrypt (if any) not yet
  | done (known : Bool)      -- returned
deriving DecidableEq, Repr

structure Thread where
  call : Call
  pc : PC
deriving DecidableEq, Repr

structure St where
  index : List Handle      -- handles present in some index of the master index
  pending : List Handle    -- mi.pendingBlobs
  threads : List Thread
  saves : List Handle      -- executions of saveAndEncrypt, newest first
  packed : List Handle     -- saved blobs whose pack is not yet stored in the index
deriving Repr

def St.init (idx0 : List Handle) (calls : List Call) : St :=
  ⟨idx0, [], calls.map (fun c => ⟨c, .start⟩), [], []⟩

/-- `MasterIndex.AddPending`: false if the blob is pending or in any index, else insert -/
def addPending (s : St) (h : Handle) : St × Bool :=
  if h ∈ s.pending then (s, false)
  else if h ∈ s.index then (s, false)
  else ({ s with pending := h :: s.pending }, true)

inductive Act
  | thread (i : Nat)             -- next atomic step of call i
  | store (hs : List Handle)     -- an uploader stores a pack holding (some of) these saved blobs
  | flush                        -- session end: every remaining pack is stored

/-- `storePack` for the blobs `hs` -/
def storePack (s : St) (hs : List Handle) : St :=
  { s with pending := s.pending.filter (fun h => !hs.contains h),
           index := hs ++ s.index,
           packed := s.packed.filter (fun h => !hs.contains h) }

def step (s : St) : Act → St
  | .thread i =>
    match s.threads[i]? with
    | none => s
    | some t =>
      match t.pc with
      | .start =>
        let r := addPending s t.call.h
        { r.1 with threads := r.1.threads.set i { t with pc := .checked (!r.2) } }
      | .checked known =>
        if !known || t.call.dup then
          { s with saves := t.call.h :: s.saves, packed := t.call.h :: s.packed,
                   threads := s.threads.set i { t with pc := .done known } }
        else
          { s with threads := s.threads.set i { t with pc := .done known } }
      | .done _ => s
  | .store hs => storePack s (hs.filter (fun h => s.packed.contains h))
  | .flush => storePack s s.packed

def run (idx0 : List Handle) (calls : List Call) (sched : List Act) : St :=
  sched.foldl step (St.init idx0 calls)

/-- every call has returned -/
def allDone (s : St) : Bool := s.threads.all fun t => match t.pc with | .done _ => true | _ => false

/-- the `known` results, one per call (none: not yet decided) -/
def knownFlags (s : St) : List (Option Bool) :=
  s.threads.map fun t => match t.pc with | .start => none | .checked k => some k | .done k => some k

/-! ### executable statement of C16 -/

/-- number of `storeDuplicate` calls for `h` -/
def dupCalls (calls : List Call) (h : Handle) : Nat := (calls.filter fun c => c.h == h && c.dup).length

/-- C16 on an observed run: `saves` = how often each handle was stored (entries in new packs),
    `knowns` = the `known` result of every call, all calls returned. A blob in the loaded index is
    never claimed and stored only on explicit request; any other submitted blob is claimed by exactly
    one call and stored once plus once per `storeDuplicate` call that found it known. -/
def specOK (idx0 : List Handle) (calls : List Call) (knowns : List Bool) (saves : List Handle) : Bool :=
  knowns.length == calls.length &&
  (calls.map (·.h)).eraseDups.all fun h =>
    let mine := (calls.zip knowns).filter (fun ck => ck.1.h == h)
    let claims := (mine.filter (fun ck => !ck.2)).length
    let dupKnown := (mine.filter (fun ck => ck.2 && ck.1.dup)).length
    if idx0.contains h then claims == 0 && saves.count h == dupKnown
    else claims == 1 && saves.count h == 1 + dupKnown

end Restic.Model.Dedup
