/-
Model of the in-memory blob cache (C47): `bloblru.Cache` (internal/bloblru/cache.go) on top of
`simplelru.LRU` (hashicorp/golang-lru/v2): `New`, `add` (skip oversize, skip present, evict
until it fits, the LRU's own capacity eviction through the `evict` callback), `get`, and
`GetOrCompute` as a machine of atomic steps (one step = one critical section under `c.mu`, one
channel operation, or the `compute()` call), so that theorems can quantify over all
interleavings of concurrent callers. Core Lean only.

Keys (blob ids) and values (blob contents) are abstract naturals; a value carries its `cap`
(the accounting uses `cap(blob)`, not `len`).
-/
namespace Restic.Model.Lru

abbrev Key := Nat
abbrev Val := Nat

structure Entry where
  key : Key
  val : Val
  cap : Nat
deriving DecidableEq, Repr

/-- `Cache` + its `simplelru.LRU`. `entries` is the LRU's list from **oldest to newest**
    (the order of `simplelru.Keys()`); `maxEntries` is the LRU's `size`. -/
structure Cache where
  entries : List Entry
  free : Int
  size : Int
  maxEntries : Nat
  overhead : Nat
deriving DecidableEq, Repr

inductive NewRes where
  | ok (c : Cache)
  | panic            -- `NewLRU` rejects maxEntries <= 0 and `New` panics
deriving DecidableEq, Repr

/-- `bloblru.New(size)` -/
def new (overhead : Nat) (size : Int) : NewRes :=
  let maxEntries := Int.tdiv size overhead
  if maxEntries ≤ 0 then .panic
  else .ok { entries := [], free := size, size := size, maxEntries := maxEntries.toNat, overhead := overhead }

/-- `c.c.Contains(id)` -/
def contains (c : Cache) (k : Key) : Bool := c.entries.any (·.key == k)

/-- take the entry with key `k` out of the list (map lookup + `evictList.Remove`) -/
def extract (k : Key) : List Entry → Option (Entry × List Entry)
  | [] => none
  | e :: es =>
    if e.key == k then some (e, es)
    else match extract k es with
      | none => none
      | some (x, r) => some (x, e :: r)

/-- the `evict` callback of `Cache`: `c.free += cap(blob) + overhead` -/
def evict (c : Cache) (e : Entry) : Cache := { c with free := c.free + ((e.cap + c.overhead : Nat) : Int) }

/-- `simplelru.Get`: a hit moves the entry to the front (= newest end) -/
def lruGet (c : Cache) (k : Key) : Option Entry × Cache :=
  match extract k c.entries with
  | none => (none, c)
  | some (e, rest) => (some e, { c with entries := rest ++ [e] })

/-- `Cache.get` (one critical section) -/
def cacheGet (c : Cache) (k : Key) : Option Val × Cache :=
  let r := lruGet c k
  (r.1.map (·.val), r.2)

/-- `simplelru.Add` -/
def lruAdd (c : Cache) (e : Entry) : Cache :=
  match extract e.key c.entries with
  | some (_, rest) => { c with entries := rest ++ [e] }       -- existing item: MoveToFront, new value
  | none =>
    let es := c.entries ++ [e]                                 -- PushFront
    if es.length > c.maxEntries then                           -- evictList.Length() > c.size
      match es with
      | [] => c
      | o :: rest => evict { c with entries := rest } o        -- removeOldest → onEvict
    else { c with entries := es }

/-- the loop `for size > c.free { c.c.RemoveOldest() }` of `Cache.add`, on (entries, free).
    `RemoveOldest` on an empty LRU changes nothing, so the Go loop would spin forever: `none`. -/
def evictLoop (ov : Nat) (sz : Int) : List Entry → Int → Option (List Entry × Int)
  | [], free => if sz > free then none else some ([], free)
  | e :: rest, free =>
    if sz > free then evictLoop ov sz rest (free + ((e.cap + ov : Nat) : Int))
    else some (e :: rest, free)

inductive AddRes where
  | done (c : Cache)
  | hang
deriving DecidableEq, Repr

/-- `Cache.add(id, blob)` with `cap(blob) = cap` -/
def cacheAdd (c : Cache) (k : Key) (v : Val) (cap : Nat) : AddRes :=
  let sz : Int := ((cap + c.overhead : Nat) : Int)
  if sz > c.size then .done c                     -- too large for the cache: not stored
  else if contains c k then .done c               -- already there (recency untouched)
  else
    match evictLoop c.overhead sz c.entries c.free with
    | none => .hang
    | some (es, free) =>
      let c1 := lruAdd { c with entries := es, free := free } ⟨k, v, cap⟩
      .done { c1 with free := c1.free - sz }

/-! ### `GetOrCompute` as atomic steps -/

inductive Res where
  | ok (v : Val)
  | err
deriving DecidableEq, Repr

/-- program counter of one `GetOrCompute` call. `owner` = this call registered its `finish`
    channel in `inProgress` (so the deferred cleanup runs when it returns). -/
inductive PC where
  | start                                   -- before the first `c.get(id)`
  | checkProgress                           -- first get missed; next: lock, look at inProgress[id]
  | waiting (ch : Nat)                      -- `<-waitForResult`; `ch` = call that owns the channel
  | secondGet (owner : Bool)                -- the "try again" `c.get(id)`
  | computing (owner : Bool)                -- `compute()` is running (outside the lock)
  | adding (owner : Bool) (v : Val) (cap : Nat)   -- compute succeeded; `c.add(id, blob)` pending
  | cleanupDelete (r : Res)                 -- deferred: lock; delete(inProgress, id); unlock
  | cleanupClose (r : Res)                  -- deferred: close(finish)
  | done (r : Res)                          -- returned
  | hung                                    -- stuck in the eviction loop of `add`
deriving DecidableEq, Repr

structure Thread where
  key : Key
  pc : PC
  ownFailed : Bool := false                 -- ghost: this call's own compute() returned an error
deriving DecidableEq, Repr

/-- what `compute()` returns when the scheduled step is the compute step -/
inductive Oracle where
  | ok (v : Val) (cap : Nat)
  | fail
deriving DecidableEq, Repr

structure Sys where
  cache : Cache
  inProgress : List (Key × Nat)             -- id ↦ channel (named by the index of the owning call)
  closed : List Nat                         -- closed channels
  threads : List Thread
  produced : List (Key × Val)               -- ghost: every (id, value) a compute() has returned
deriving Repr

def initSys (c : Cache) : Sys := { cache := c, inProgress := [], closed := [], threads := [], produced := [] }

def lookupCh (k : Key) : List (Key × Nat) → Option Nat
  | [] => none
  | (k', ch) :: rest => if k' == k then some ch else lookupCh k rest

def finishPC (owner : Bool) (r : Res) : PC := if owner then .cleanupDelete r else .done r

/-- one atomic step of call number `t` (thread `th`); returns the new shared state and the new pc
    (+ the ghost flag). A thread that cannot move (waiting on an open channel, done) stutters. -/
def stepThread (s : Sys) (t : Nat) (th : Thread) (o : Oracle) : Sys × Thread :=
  match th.pc with
  | .start =>
    match cacheGet s.cache th.key with
    | (some v, c) => ({ s with cache := c }, { th with pc := .done (.ok v) })
    | (none, c) => ({ s with cache := c }, { th with pc := .checkProgress })
  | .checkProgress =>
    match lookupCh th.key s.inProgress with
    | some ch => (s, { th with pc := .waiting ch })
    | none => ({ s with inProgress := (th.key, t) :: s.inProgress }, { th with pc := .secondGet true })
  | .waiting ch =>
    if s.closed.contains ch then (s, { th with pc := .secondGet false }) else (s, th)
  | .secondGet ow =>
    match cacheGet s.cache th.key with
    | (some v, c) => ({ s with cache := c }, { th with pc := finishPC ow (.ok v) })
    | (none, c) => ({ s with cache := c }, { th with pc := .computing ow })
  | .computing ow =>
    match o with
    | .ok v cap => ({ s with produced := (th.key, v) :: s.produced }, { th with pc := .adding ow v cap })
    | .fail => (s, { th with pc := finishPC ow .err, ownFailed := true })
  | .adding ow v cap =>
    match cacheAdd s.cache th.key v cap with
    | .hang => (s, { th with pc := .hung })
    | .done c => ({ s with cache := c }, { th with pc := finishPC ow (.ok v) })
  | .cleanupDelete r =>
    ({ s with inProgress := s.inProgress.filter (fun p => p.1 != th.key) }, { th with pc := .cleanupClose r })
  | .cleanupClose r => ({ s with closed := t :: s.closed }, { th with pc := .done r })
  | .done _ => (s, th)
  | .hung => (s, th)

inductive Action where
  | spawn (k : Key)                 -- a new goroutine calls GetOrCompute(k, …)
  | step (t : Nat) (o : Oracle)     -- the scheduler lets call `t` do its next atomic step
deriving DecidableEq, Repr

def act (s : Sys) : Action → Sys
  | .spawn k => { s with threads := s.threads ++ [{ key := k, pc := .start }] }
  | .step t o =>
    match s.threads[t]? with
    | none => s
    | some th =>
      let r := stepThread s t th o
      { r.1 with threads := r.1.threads.set t r.2 }

def run (s : Sys) (acts : List Action) : Sys := acts.foldl act s

/-! ### Executable statements of the property -/

/-- bytes accounted for the entries: Σ (cap + overhead) -/
def cost (ov : Nat) : List Entry → Int
  | [] => 0
  | e :: es => ((e.cap + ov : Nat) : Int) + cost ov es

/-- bytes of blob data held -/
def held : List Entry → Int
  | [] => 0
  | e :: es => (e.cap : Int) + held es

/-- budget part of C47 on an observed cache state: `free ≥ 0`, `free + Σ(cap+overhead) = size`,
    hence the blob bytes held never exceed the configured size. -/
def budgetOK (c : Cache) : Bool :=
  decide (0 ≤ c.free) && decide (c.free + cost c.overhead c.entries = c.size) && decide (held c.entries ≤ c.size)

/-- value part of C47 for one returned result: a successful lookup of `k` returns a value that
    some `compute()` for the same `k` has produced; an error is only returned to a caller whose
    own computation failed. -/
def resultOK (produced : List (Key × Val)) (th : Thread) (r : Res) : Bool :=
  match r with
  | .ok v => produced.contains (th.key, v)
  | .err => th.ownFailed

/-! ### helpers for the driver: run a call until it blocks -/

def isBlocked (s : Sys) (th : Thread) : Bool :=
  match th.pc with
  | .waiting ch => !s.closed.contains ch
  | .computing _ => true          -- needs the harness to release compute()
  | .done _ => true
  | .hung => true
  | _ => false

/-- let call `t` run on its own until it returns, reaches `compute()` or blocks on a channel -/
def runUntilBlocked (s : Sys) (t : Nat) : Nat → Sys
  | 0 => s
  | fuel + 1 =>
    match s.threads[t]? with
    | none => s
    | some th => if isBlocked s th then s else runUntilBlocked (act s (.step t .fail)) t fuel

end Restic.Model.Lru
