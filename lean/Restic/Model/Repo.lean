/-!
# The abstract repository (DESIGN §4)

A repository is what the backend holds, decoded: pack files (with the blob list of their header),
index files (lists of pack-id / blob-list pairs), snapshot files, and the mere presence of the
remaining files (keys, locks, config). Backend operations are events; `apply` is their effect.

`Indexed`, `Restorable`, `IdxSound`, `CheckOK` are the abstract counterparts of "the blob can be
loaded through the index", "restore of the snapshot finds every blob", "no index entry points to
a missing pack or to a blob the pack does not hold" and "`check` reports no error" (unreferenced
packs and duplicate entries are allowed, as in the real command). All of them are executable
(`Bool`), so the drivers evaluate them on recorded backend states.

Abstractions (recorded in meta): the content of a blob is a function of its id (content
addressing, C02), so the set of blobs reachable from a snapshot tree does not depend on the
repository state; it is carried by the snapshot (`Snap.reach`, the result of the traversal of
C42). Byte-level pack/index encodings are C06/C07.

Core Lean only.
-/
namespace Restic.Model.Repo

abbrev ID := String

inductive BType | data | tree
deriving DecidableEq, Repr, Inhabited

/-- blob handle: type + content id -/
structure BlobH where
  tpe : BType
  id : ID
deriving DecidableEq, Repr, Inhabited

/-- a blob as listed in a pack header or an index entry -/
structure Entry where
  blob : BlobH
  off : Nat
  len : Nat          -- length of the ciphertext inside the pack
  unc : Bool         -- stored uncompressed
deriving DecidableEq, Repr, Inhabited

inductive FType | pack | index | snapshot | key | lock | config
deriving DecidableEq, Repr, Inhabited

structure Snap where
  tree : ID
  reach : List BlobH
deriving DecidableEq, Repr, Inhabited

/-- entries of one index file: pack id with the blobs listed for it -/
abbrev IdxFile := List (ID × List Entry)

structure Repo where
  packs : List (ID × List Entry) := []
  indexes : List (ID × IdxFile) := []
  snaps : List (ID × Snap) := []
  others : List (FType × ID) := []
deriving Repr, Inhabited

inductive Content
  | pack (es : List Entry)
  | index (ps : IdxFile)
  | snap (s : Snap)
  | opaque
deriving Repr, Inhabited

inductive Ev
  | save (t : FType) (id : ID) (c : Content)
  | remove (t : FType) (id : ID)
  | read (t : FType) (id : ID)        -- list / load / stat: no effect on the state
deriving Repr, Inhabited

def rm (l : List (ID × α)) (id : ID) : List (ID × α) := l.filter fun x => x.1 ≠ id

/-- effect of one completed backend operation (a save of an existing name replaces it) -/
def apply (r : Repo) : Ev → Repo
  | .save .pack id (.pack es) => { r with packs := (id, es) :: rm r.packs id }
  | .save .index id (.index ps) => { r with indexes := (id, ps) :: rm r.indexes id }
  | .save .snapshot id (.snap s) => { r with snaps := (id, s) :: rm r.snaps id }
  | .save t id _ => { r with others := (t, id) :: r.others.filter (· ≠ (t, id)) }
  | .remove .pack id => { r with packs := rm r.packs id }
  | .remove .index id => { r with indexes := rm r.indexes id }
  | .remove .snapshot id => { r with snaps := rm r.snaps id }
  | .remove t id => { r with others := r.others.filter (· ≠ (t, id)) }
  | .read _ _ => r

def applyAll (r : Repo) (tr : List Ev) : Repo := tr.foldl apply r

/-- pack `p` is present and its header lists blob `b` -/
def packHas (r : Repo) (p : ID) (b : BlobH) : Bool :=
  r.packs.any fun x => x.1 = p && x.2.any fun e => e.blob = b

def packPresent (r : Repo) (p : ID) : Bool := r.packs.any fun x => x.1 = p

/-- index file `i` lists blob `b` for pack `p` -/
def idxLists (f : IdxFile) (p : ID) (b : BlobH) : Bool :=
  f.any fun x => x.1 = p && x.2.any fun e => e.blob = b

/-- some index file lists `b` in a pack that is present and holds it -/
def Indexed (r : Repo) (b : BlobH) : Bool :=
  r.indexes.any fun i => i.2.any fun x => x.2.any (fun e => e.blob = b) && packHas r x.1 b

/-- every blob of the snapshot can be fetched -/
def Restorable (r : Repo) (s : Snap) : Bool := s.reach.all (Indexed r)

/-- every index entry points to a present pack whose header has that very entry -/
def IdxSound (r : Repo) : Bool :=
  r.indexes.all fun i => i.2.all fun x =>
    r.packs.any fun pk => pk.1 = x.1 && x.2.all fun e => pk.2.contains e

/-- what `check --read-data` accepts (orphan packs, duplicate entries allowed) -/
def CheckOK (r : Repo) : Bool := IdxSound r && r.snaps.all fun s => Restorable r s.2

/-- all blob handles listed by the index files (with repetitions) -/
def indexBlobs (r : Repo) : List (ID × BlobH) :=
  r.indexes.flatMap fun i => i.2.flatMap fun x => x.2.map fun e => (x.1, e.blob)

/-- pack ids named by some index file -/
def indexedPacks (r : Repo) : List ID := r.indexes.flatMap fun i => i.2.map (·.1)

end Restic.Model.Repo
