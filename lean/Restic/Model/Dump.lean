import Restic.Model.SnapTree
/-
Model of `restic dump` (C45): `printFromTree` (cmd/restic/cmd_dump.go), `Dumper.DumpTree`,
`sendTrees`, `sendNodes` with `walker.Walk`, `Dumper.writeNode` (internal/dump/common.go) and the
header fields set by `dumpNodeTar` / `dumpNodeZip` (internal/dump/tar.go, zip.go).  Core Lean only.

The tar / zip container formats themselves are the standard library's; the model describes the
sequence of members handed to the archive writer (name, type, mode, link target, size, bytes),
which is what the harness reads back with archive/tar and archive/zip.
-/
namespace Restic.Model.Dump
open Restic.Model.SnapTree

abbrev Bytes := List Nat

/-- blob id → content, the repository as far as `LoadBlob(DataBlob, id)` is concerned -/
abbrev Blobs := Nat → Option Bytes

inductive Kind where | reg | dir | symlink
deriving DecidableEq, Repr

/-- one archive member -/
structure Entry where
  path : List Name        -- components below "/", rendered with "/" by the driver
  slash : Bool            -- directory form: name ends with "/"
  kind : Kind
  mode : Nat              -- tar: permission bits plus 0o4000 / 0o2000 / 0o1000
  link : Name             -- tar Linkname; zip: content of a symlink member
  size : Nat              -- tar header Size
  data : Bytes
deriving DecidableEq, Repr

/-! ### writeNode -/

/-- `writeNode` as a function: the writer goroutine takes the futures from the channel in the
    order the loop over `node.Content` put them there, so the output is the concatenation in content
    order (see `Sched` below for the interleavings). `none`: some blob could not be loaded. -/
def writeNode (blobs : Blobs) : List Nat → Option Bytes
  | [] => some []
  | id :: rest =>
    match blobs id, writeNode blobs rest with
    | some b, some bs => some (b ++ bs)
    | _, _ => none

/-- The goroutines of `writeNode` as a transition system, to quantify over schedules:
    `q` futures have been queued by the main loop (each starts a loader), the loaders in `done` have
    delivered their blob, the writer has written the first `w` blobs. -/
structure Sched where
  q : Nat
  done : List Nat
  w : Nat
  out : Bytes
deriving Repr, DecidableEq

inductive Step where
  | queue            -- main loop: next id, `blobs <- ch`, start loader (needs room in the channel)
  | finish (i : Nat) -- loader i completes: `ch <- blob`
  | write            -- writer: `blob := <-ch` for the next future in channel order, `w.Write(blob)`
deriving Repr, DecidableEq

/-- one step; `none` when the step is not enabled in this state. `limit` = capacity of the channel of
    futures (`repo.Connections()`), `bs` = the blobs of `node.Content` in order. -/
def step (limit : Nat) (bs : List Bytes) (s : Sched) : Step → Option Sched
  | .queue => if s.q < bs.length ∧ s.q < s.w + limit + 1 then some { s with q := s.q + 1 } else none
  | .finish i => if i < s.q ∧ i ∉ s.done then some { s with done := i :: s.done } else none
  | .write =>
    if s.w < s.q ∧ s.w ∈ s.done then
      some { s with w := s.w + 1, out := s.out ++ (bs.getD s.w []) }
    else none

def run (limit : Nat) (bs : List Bytes) : Sched → List Step → Option Sched
  | s, [] => some s
  | s, st :: rest => match step limit bs s st with
    | some s' => run limit bs s' rest
    | none => none

/-! ### tar / zip header fields -/

def modeSetuid : Nat := 2 ^ 23
def modeSetgid : Nat := 2 ^ 22
def modeSticky : Nat := 2 ^ 20
def hasBit (m bit : Nat) : Bool := (m / bit) % 2 == 1

/-- `header.Mode` of `dumpNodeTar`: `node.Mode.Perm()` plus the c_ISUID / c_ISGID / c_ISVTX bits -/
def tarMode (mode : Nat) : Nat :=
  mode % 512 + (if hasBit mode modeSetuid then 2048 else 0) + (if hasBit mode modeSetgid then 1024 else 0) +
    (if hasBit mode modeSticky then 512 else 0)

/-- `Typeflag`: set for files, symlinks and directories; any other node type leaves the zero value,
    which archive/tar writes (and reads back) as a regular file -/
def kindOf : NType → Kind
  | .dir => .dir
  | .symlink => .symlink
  | _ => .reg

/-- the member written for one node by `dumpNodeTar` (and, with the same observable fields, by
    `dumpNodeZip`); `none` = the archive writer fails (blob missing, or size ≠ bytes written) -/
def entryOf (blobs : Blobs) (path : List Name) (m : Meta) : Option Entry :=
  match writeNode blobs (if m.type = .file then m.content else []) with
  | none => none
  | some d =>
    if m.type = .file ∧ d.length ≠ m.size then none else
    some { path := path, slash := m.type == .dir, kind := kindOf m.type, mode := tarMode m.mode,
           link := if m.type = .symlink then m.target else [],
           size := if m.type = .file then m.size else 0, data := d }

/-! ### sendTrees / sendNodes -/

/-- the node types that are dumped -/
def dumpable (t : NType) : Bool := t == .file || t == .dir || t == .symlink

mutual
/-- the visitor of `sendNodes` under `walker.Walk`: nodes below the root, filtered by type -/
def sendBelowT (pre : List Name) : Tree → List (List Name × Meta)
  | .mk m kids =>
    (if dumpable m.type then [(pre ++ [m.name], m)] else []) ++
    (if m.type = .dir then sendBelowL (pre ++ [m.name]) kids else [])
def sendBelowL (pre : List Name) : List Tree → List (List Name × Meta)
  | [] => []
  | t :: ts => sendBelowT pre t ++ sendBelowL pre ts
end

/-- `sendNodes` for one node of the dumped directory: the node itself (if its type is dumped — the
    F11 fix; the unchanged code sent it unconditionally), then, for a directory, everything the
    walker visits below it -/
def sendNodes (rootPath : List Name) : Tree → List (List Name × Meta)
  | .mk m kids =>
    if !(dumpable m.type) then [] else
    (rootPath ++ [m.name], m) :: (if m.type = .dir then sendBelowL (rootPath ++ [m.name]) kids else [])

/-- `sendTrees` -/
def sendTrees (rootPath : List Name) (nodes : List Tree) : List (List Name × Meta) :=
  nodes.flatMap (sendNodes rootPath)

def mapOpt (f : α → Option β) : List α → Option (List β)
  | [] => some []
  | a :: as => match f a, mapOpt f as with
    | some b, some bs => some (b :: bs)
    | _, _ => none

/-- `DumpTree`: one member per node sent, in order; fails if any member fails -/
def dumpTree (blobs : Blobs) (rootPath : List Name) (nodes : List Tree) : Option (List Entry) :=
  mapOpt (fun pm => entryOf blobs pm.1 pm.2) (sendTrees rootPath nodes)

/-! ### printFromTree -/

inductive Out where
  | file (data : Bytes)            -- `WriteNode`: the bare content
  | archive (es : List Entry)
  | error
deriving DecidableEq, Repr

def findFirst (ts : List Tree) (n : Name) : Option Tree := ts.find? (fun t => t.meta.name == n)

/-- `printFromTree` for the cleaned, split path; `[]` stands for the path "/" (`pathComponents[0] == ""`) -/
def printFromTree (blobs : Blobs) : List Name → List Name → List Tree → Out
  | _, [], nodes => match dumpTree blobs [] nodes with | some es => .archive es | none => .error
  | pre, c :: rest, nodes =>
    match findFirst nodes c with
    | none => .error                                         -- path not found in snapshot
    | some (.mk m kids) =>
      if rest.isEmpty && m.type == .file then
        (match writeNode blobs m.content with | some d => .file d | none => .error)
      else if !rest.isEmpty && m.type == .dir then printFromTree blobs (pre ++ [c]) rest kids
      else if m.type == .dir then
        (match dumpTree blobs (pre ++ [c]) kids with | some es => .archive es | none => .error)
      else .error                                            -- should be a dir / should be a file

/-! ### executable statement of C45 -/

mutual
/-- all nodes below a directory, in tree order, with their paths -/
def nodesT (pre : List Name) : Tree → List (List Name × Meta)
  | .mk m kids => (pre ++ [m.name], m) :: nodesL (pre ++ [m.name]) kids
def nodesL (pre : List Name) : List Tree → List (List Name × Meta)
  | [] => []
  | t :: ts => nodesT pre t ++ nodesL pre ts
end

def contentOf (blobs : Blobs) (ids : List Nat) : Bytes := (ids.map fun i => (blobs i).getD []).flatten

/-- what the archive must contain: in tree order, exactly one member for each file, directory and
    symlink below the dumped directory — with the node's type, permission bits (incl. setuid /
    setgid / sticky), link target and, for files, the concatenation of its blobs — and nothing for
    other node types -/
def expectedEntries (blobs : Blobs) (rootPath : List Name) (nodes : List Tree) : List Entry :=
  ((nodesL rootPath nodes).filter (fun pm => dumpable pm.2.type)).map fun pm =>
    { path := pm.1, slash := pm.2.type == .dir,
      kind := (match pm.2.type with | .dir => Kind.dir | .symlink => Kind.symlink | _ => Kind.reg),
      mode := tarMode pm.2.mode,
      link := if pm.2.type = .symlink then pm.2.target else [],
      size := if pm.2.type = .file then pm.2.size else 0,
      data := if pm.2.type = .file then contentOf blobs pm.2.content else [] }

def specOK (blobs : Blobs) (rootPath : List Name) (nodes : List Tree) (out : List Entry) : Bool :=
  out == expectedEntries blobs rootPath nodes

end Restic.Model.Dump
