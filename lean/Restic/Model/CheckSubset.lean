import Restic.Model.Strconv
/-
Model of `check --read-data-subset` (C52), cmd/restic/cmd_check.go:
`stringToIntSlice`, the n/t branch of `checkFlags`, `selectPacksByBucket`,
`selectRandomPacksByPercentage`, `selectRandomPacksByFileSize` and the size branch of
`buildPacksFilter`. Core Lean only.

Floating point is not modelled: the one float expression of the code,
`int(float64(packCount) * (percentage / 100.0))`, enters as the integer `k` (computed by the
harness with the same expression); the law the theorems need about it (`k ≤ packCount` when the
percentage is at most 100) is an explicit hypothesis.  The two sources of randomness
(`rand.Perm`, map iteration order) are oracle arguments: the theorems hold for every permutation.
-/
namespace Restic.Model.CheckSubset
open Restic.Model.Strconv

/-- a pack as far as the selection is concerned: its ID (bytes) and size -/
structure Pack where
  id : List UInt8
  size : Int
deriving Repr, DecidableEq

/-- `uint(pack[0])`; IDs are 32-byte arrays in Go, so the head always exists -/
def firstByte (p : Pack) : Nat := (p.id.headD 0).toNat

inductive Out (α : Type) where
  | ok (v : α)
  | panic           -- Go run-time panic (integer divide by zero, index out of range)
deriving Repr, DecidableEq

/-- `selectPacksByBucket`: `uint(pack[0]) % totalBuckets == bucket - 1` in `uint` arithmetic
    (`bucket - 1` wraps for `bucket = 0`; `% 0` panics — only when there is a pack to test) -/
def selectPacksByBucket (packs : List Pack) (bucket total : Nat) : Out (List Pack) :=
  if total = 0 ∧ packs ≠ [] then .panic
  else .ok (packs.filter fun p => firstByte p % total == (bucket + two64 - 1) % two64)

/-! ### flag checks -/

/-- split at '/' (strings.Split with a one-byte separator): always at least one part -/
def splitSlash : Str → List Str
  | [] => [[]]
  | c :: cs =>
    if c = 47 then [] :: splitSlash cs
    else match splitSlash cs with
      | [] => [[c]]          -- unreachable: splitSlash never returns []
      | p :: ps => (c :: p) :: ps

/-- `stringToIntSlice`: `ParseUint(part, 10, 0)` on every part, first error wins -/
def stringToIntSlice (s : Str) : Except NumErr (List Nat) :=
  if s = [] then .ok [] else (splitSlash s).mapM (parseUint 64)

inductive FlagRes where
  | accept (n t : Nat)      -- n/t accepted by checkFlags
  | invalidValue            -- "has invalid value, please see documentation"
  | badRange                -- "values must be positive integers, and n <= t"
  | tTooLarge               -- "t must be at most totalBucketsMax"
  | notIntSlice             -- stringToIntSlice failed: the percentage / size branches decide
deriving Repr, DecidableEq

/-- the n/t branch of `checkFlags` (`--read-data-subset` non-empty, `--read-data` not given) -/
def checkFlagsNT (totalBucketsMax : Nat) (s : Str) : FlagRes :=
  match stringToIntSlice s with
  | .error _ => .notIntSlice
  | .ok ds =>
    match ds with
    | [n, t] =>
      if n = 0 ∨ t = 0 ∨ n > t then .badRange
      else if t > totalBucketsMax then .tTooLarge
      else .accept n t
    | _ => .invalidValue

/-! ### random subsets -/

/-- `packsToCheck` after the clamp; `k` = `int(float64(packCount) * (percentage / 100.0))` -/
def packsToCheck (packCount : Nat) (k : Int) : Int :=
  if packCount > 0 ∧ k < 1 then 1 else k

/-- `keys[j]` for every `j` of the list; `none` = index out of range -/
def pickAll (keys : List Pack) : List Nat → Option (List Pack)
  | [] => some []
  | j :: js =>
    match keys[j]? with
    | none => none
    | some p =>
      match pickAll keys js with
      | none => none
      | some ps => some (p :: ps)

/-- `selectRandomPacksByPercentage`: `keys` = the packs in map iteration order, `perm` =
    `r.Perm(packCount)`; the loop `for i := 0; i < packsToCheck; i++ { keys[idx[i]] }` picks the
    packs at the first `packsToCheck` entries of the permutation (index panic when `packsToCheck`
    exceeds `len(idx)`; a negative count means the loop does not run) -/
def selectRandomByK (keys : List Pack) (perm : List Nat) (k : Int) : Out (List Pack) :=
  let cnt := (packsToCheck keys.length k).toNat
  if cnt > perm.length then .panic
  else match pickAll keys (perm.take cnt) with
    | none => .panic
    | some l => .ok l

/-- the size branch of `buildPacksFilter`: clamp the subset size to the repository size, select by
    percentage when the repository is not empty. `kOf sub repo` is the float oracle
    `int(float64(n) * ((float64(sub)/float64(repo)*100.0) / 100.0))`. -/
def selectBySize (keys : List Pack) (perm : List Nat) (subsetSize : Int) (kOf : Int → Int → Int) : Out (List Pack) :=
  let repoSize := (keys.map (·.size)).foldl (· + ·) 0
  let sub := if subsetSize > repoSize then repoSize else subsetSize
  if repoSize > 0 then selectRandomByK keys perm (kOf sub repoSize) else .ok keys

/-! ### Executable statement of the property -/

/-- C52, bucket part, on observed selections: `sel n` = the packs read for `n/t`. Every pack is in
    the selection of exactly one `n ∈ 1..t`, and selections contain only packs of the repository. -/
def specBuckets (packs : List Pack) (t : Nat) (sel : Nat → List Pack) : Bool :=
  packs.all (fun p => ((List.range t).filter fun i => (sel (i + 1)).contains p).length == 1) &&
  (List.range t).all (fun i => (sel (i + 1)).all fun p => packs.contains p)

def nodupB : List Pack → Bool
  | [] => true
  | x :: xs => !xs.contains x && nodupB xs

/-- C52, random part: a percentage or size subset of a non-empty repository reads at least one
    pack, only packs of the repository, none twice -/
def specSubset (packs : List Pack) (sel : List Pack) : Bool :=
  (packs.isEmpty || !sel.isEmpty) && sel.all (fun p => packs.contains p) && nodupB sel

end Restic.Model.CheckSubset
