/-!
# Model for C15 — `check` on repositories produced by histories of restic commands

Three parts (core Lean only):

1. an abstract repository (`Repo`: pack files with the blobs of their header, index files with
   their entries, snapshots with the blobs they reference) and the backend events that change it;
2. `findings` — what `check --read-data` reports about such a state — and `account`, a
   transcription of the error accounting of `runCheck` (cmd/restic/cmd_check.go): which findings
   are errors (exit status 1, `num_errors`) and which are only hints (`suggest_prune`,
   `suggest_repair_index`);  `CheckOK'` = the accounting reports no error;
3. per command an *acceptor*: the language of event sequences the command may produce (allowed
   event kinds + local guards on each event: an index entry describes a stored pack, a snapshot
   is saved after its blobs are indexed, a pack is removed only when no index mentions it, an
   index file is removed only when every referenced blob stays indexed elsewhere).  The languages
   are prefix closed, so a run cut at any backend operation is again in the language.
-/
namespace Restic.Model.CheckHist

abbrev Id := String
/-- sorted list of blob tokens (type letter + id) -/
abbrev Blobs := List Id

structure Repo where
  packs : List (Id × Blobs)                 -- pack file ↦ blobs listed in its header
  idx   : List (Id × List (Id × Blobs))     -- index file ↦ entries (pack, blobs)
  snaps : List (Id × Blobs)                 -- snapshot ↦ blobs reachable from its tree
deriving Repr, DecidableEq, Inhabited

def Repo.empty : Repo := ⟨[], [], []⟩

inductive Ev where
  | savePack (p : Id) (bs : Blobs)
  | saveIndex (i : Id) (es : List (Id × Blobs))
  | saveSnap (s : Id) (needs : Blobs)
  | removePack (p : Id)
  | removeIndex (i : Id)
  | removeSnap (s : Id)
  | other                                    -- key, lock and config files
deriving Repr, DecidableEq, Inhabited

/-- blob `b` is listed by some index file -/
def indexed (r : Repo) (b : Id) : Bool :=
  r.idx.any fun ie => ie.2.any fun e => e.2.contains b

/-- blob `b` is listed by some index file other than `i` -/
def indexedWithout (i : Id) (r : Repo) (b : Id) : Bool :=
  r.idx.any fun ie => ie.1 != i && ie.2.any fun e => e.2.contains b

/-- local guard of one event in state `r` -/
def evGuard (r : Repo) : Ev → Bool
  | .savePack p bs => r.packs.all fun q => q.1 != p || q.2 == bs      -- content addressed
  | .saveIndex _ es => es.all fun e => r.packs.contains e              -- packs are uploaded first
  | .saveSnap _ ns => ns.all (indexed r)                               -- flush before snapshot
  | .removePack p => r.idx.all fun ie => ie.2.all fun e => e.1 != p    -- index rewritten first
  | .removeIndex i => r.snaps.all fun sn => sn.2.all (indexedWithout i r)  -- superseded first
  | .removeSnap _ => true
  | .other => true

def apply (r : Repo) : Ev → Repo
  | .savePack p bs => if r.packs.contains (p, bs) then r else { r with packs := (p, bs) :: r.packs }
  | .saveIndex i es => if r.idx.contains (i, es) then r else { r with idx := (i, es) :: r.idx }
  | .saveSnap s ns => if r.snaps.contains (s, ns) then r else { r with snaps := (s, ns) :: r.snaps }
  | .removePack p => { r with packs := r.packs.filter fun q => q.1 != p }
  | .removeIndex i => { r with idx := r.idx.filter fun ie => ie.1 != i }
  | .removeSnap s => { r with snaps := r.snaps.filter fun sn => sn.1 != s }
  | .other => r

def run (r : Repo) (tr : List Ev) : Repo := tr.foldl apply r

/-! ## commands and their languages -/

inductive Cmd where
  | init | backup | copy | recover | forget | prune | forgetPrune | tag | rewrite
  | repairIndex | repairSnapshots | key | migrate | unlock
deriving Repr, DecidableEq, Inhabited

/-- event kinds a command may emit at all -/
def allowed : Cmd → Ev → Bool
  | _, .other => true
  | .backup, .savePack .. | .backup, .saveIndex .. | .backup, .saveSnap .. => true
  | .copy, .savePack .. | .copy, .saveIndex .. | .copy, .saveSnap .. => true
  -- recover starts with RepairIndex (cmd_recover.go), so it may also replace index files
  | .recover, .savePack .. | .recover, .saveIndex .. | .recover, .saveSnap .. | .recover, .removeIndex _ => true
  | .forget, .removeSnap _ => true
  | .prune, .savePack .. | .prune, .saveIndex .. | .prune, .removeIndex _ | .prune, .removePack _ => true
  | .forgetPrune, .removeSnap _ | .forgetPrune, .savePack .. | .forgetPrune, .saveIndex ..
  | .forgetPrune, .removeIndex _ | .forgetPrune, .removePack _ => true
  | .tag, .saveSnap .. | .tag, .removeSnap _ => true
  | .rewrite, .savePack .. | .rewrite, .saveIndex .. | .rewrite, .saveSnap .. | .rewrite, .removeSnap _ => true
  | .repairSnapshots, .savePack .. | .repairSnapshots, .saveIndex .. | .repairSnapshots, .saveSnap ..
  | .repairSnapshots, .removeSnap _ => true
  | .repairIndex, .saveIndex .. | .repairIndex, .removeIndex _ => true
  | _, _ => false

/-- the language of command `c` started in state `r` -/
def accept (c : Cmd) (r : Repo) : List Ev → Bool
  | [] => true
  | e :: t => allowed c e && evGuard r e && accept c (apply r e) t

/-- index of the first event that is not accepted (for diagnostics) -/
def firstRejected (c : Cmd) (r : Repo) : List Ev → Nat → Option (Nat × Bool)
  | [], _ => none
  | e :: t, n =>
    if !(allowed c e) then some (n, false)
    else if !(evGuard r e) then some (n, true)
    else firstRejected c (apply r e) t (n + 1)

abbrev History := List (Cmd × List Ev)

def acceptH (r : Repo) : History → Bool
  | [] => true
  | (c, tr) :: h => accept c r tr && acceptH (run r tr) h

def runH (r : Repo) : History → Repo
  | [] => r
  | (_, tr) :: h => runH (run r tr) h

/-- histories with crash points: the command would have produced `tr`, the run was cut after
    `k` events (`k ≥ tr.length`: not cut) -/
abbrev CutHistory := List (Cmd × List Ev × Nat)

def acceptCut (r : Repo) : CutHistory → Bool
  | [] => true
  | (c, tr, k) :: h => accept c r tr && acceptCut (run r (tr.take k)) h

def runCut (r : Repo) : CutHistory → Repo
  | [] => r
  | (_, tr, k) :: h => runCut (run r (tr.take k)) h

/-! ## what check reports -/

inductive Finding where
  | incomplete (p : Id)        -- ErrIncompletePackEntry: index files disagree about a pack
  | duplicate (p : Id)         -- ErrDuplicatePacks: pack listed by several index files
  | mixed (p : Id)             -- ErrMixedPack
  | indexLoadError             -- an index file cannot be loaded
  | packMissing (p : Id)       -- ErrPackMetadata Missing
  | packMismatch (p : Id)      -- ErrPackMetadata Truncated / header differs from index
  | orphan (p : Id)            -- ErrPackMetadata Orphaned
  | blobMissing (s b : Id)     -- TreeError: a referenced blob is not in the index
  | snapshotError (s : Id)     -- SnapshotError / tree cannot be loaded
  | packDataError (p : Id)     -- ErrPackData from ReadPacks
deriving Repr, DecidableEq, Inhabited

/-- the classification of `runCheck`: hints do not set `errorsFound` -/
def isError : Finding → Bool
  | .duplicate _ | .mixed _ | .orphan _ => false
  | _ => true

def entries (r : Repo) : List (Id × Id × Blobs) :=
  r.idx.flatMap fun ie => ie.2.map fun e => (ie.1, e.1, e.2)

def packContent (r : Repo) (p : Id) : Option Blobs :=
  (r.packs.find? fun q => q.1 == p).map (·.2)

def entryFindings (r : Repo) (x : Id × Id × Blobs) : List Finding :=
  (match packContent r x.2.1 with
   | none => [.packMissing x.2.1]
   | some bs' => if bs' == x.2.2 then [] else [.packMismatch x.2.1]) ++
  (if (entries r).any (fun y => y.2.1 == x.2.1 && y.2.2 != x.2.2) then [.incomplete x.2.1]
   else if (entries r).any (fun y => y.2.1 == x.2.1 && y.1 != x.1) then [.duplicate x.2.1]
   else [])

def orphanFindings (r : Repo) : List Finding :=
  r.packs.flatMap fun q => if (entries r).any (fun y => y.2.1 == q.1) then [] else [.orphan q.1]

def snapFindings (r : Repo) : List Finding :=
  r.snaps.flatMap fun sn => (sn.2.filter fun b => !(indexed r b)).map (.blobMissing sn.1)

/-- everything `check --read-data` has to say about the abstract state -/
def findings (r : Repo) : List Finding :=
  (entries r).flatMap (entryFindings r) ++ orphanFindings r ++ snapFindings r

/-- `checkSummary` + `errorsFound` of `runCheck` -/
structure Summary where
  errorsFound : Bool := false
  numErrors : Nat := 0
  hintRepairIndex : Bool := false
  hintPrune : Bool := false
deriving Repr, DecidableEq, Inhabited

/-- one iteration of the accounting loops of `runCheck` (the four phases: index hints and errors,
    pack metadata, structure, pack data) -/
def accountStep (s : Summary) : Finding → Summary
  | .incomplete _ => { s with errorsFound := true, numErrors := s.numErrors + 1 }
  | .duplicate _ => { s with hintRepairIndex := true }
  | .mixed _ => { s with hintPrune := true }
  | .indexLoadError => { s with errorsFound := true, numErrors := s.numErrors + 1, hintRepairIndex := true }
  | .packMissing _ => { s with errorsFound := true, numErrors := s.numErrors + 1 }
  | .packMismatch _ => { s with errorsFound := true, numErrors := s.numErrors + 1 }
  | .orphan _ => { s with hintPrune := true }
  | .blobMissing _ _ => { s with errorsFound := true, numErrors := s.numErrors + 1 }
  | .snapshotError _ => { s with errorsFound := true }
  | .packDataError _ => { s with errorsFound := true, numErrors := s.numErrors + 1 }

def isIndexLoadError : Finding → Bool
  | .indexLoadError => true
  | _ => false

def isIndexPhase : Finding → Bool
  | .incomplete _ | .duplicate _ | .mixed _ | .indexLoadError => true
  | _ => false

/-- `runCheck`: when an index file cannot be loaded the command stops after the index phase -/
def account (fs : List Finding) : Summary :=
  if fs.any isIndexLoadError then (fs.filter isIndexPhase).foldl accountStep {}
  else fs.foldl accountStep {}

/-- exit status of `restic check` -/
def exitCode (s : Summary) : Nat := if s.errorsFound then 1 else 0

/-- "check finds no errors; at most it suggests running prune or repair index" -/
def CheckOK' (r : Repo) : Bool := !(account (findings r)).errorsFound

/-- the executable statement of C15 on one observation of the real `check --read-data`:
    exit status 0, `num_errors` 0, nothing on the error stream -/
def specOK (exit numErrors errLines : Nat) : Bool := exit == 0 && numErrors == 0 && errLines == 0

end Restic.Model.CheckHist
