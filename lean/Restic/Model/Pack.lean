import Restic.Gen.Consts
/-
Model of the pack file format (C06): `Packer.Add`, `Packer.Finalize`, `makeHeader`,
`verifyHeader`, `HeaderFull`, `readRecords`, `readHeader`, `List`, `parseHeaderEntry` of
internal/repository/pack/pack.go. Core Lean only, byte exact (`List UInt8`).

Encryption is a parameter (`Crypto`). Layout constants are the regenerated facts of `Restic.Gen`
(`pack_entrySize`, `pack_plainEntrySize`, `pack_headerSize`, `pack_headerLengthSize`,
`pack_MaxHeaderSize`, `pack_eagerEntries`, `pack_minFileSize`, `crypto_Extension`, `crypto_ivSize`,
`restic_DataBlob`, `restic_TreeBlob`, `restic_idSize`). Go run-time panics (slice bounds) are the
explicit outcome `Res.panic`, never defaulted away.
-/
namespace Restic.Model.Pack
open Restic.Gen

abbrev Bytes := List UInt8

/-- `pack.Blob`: `type` is the numeric `restic.BlobType`, `id` the 32 bytes of `restic.ID` -/
structure Blob where
  type : Nat
  id : Bytes
  length : Nat
  offset : Nat
  ulen : Nat
deriving DecidableEq, Repr

inductive Err where
  | fileTooShort        -- readHeader: "file is too short"
  | hlenZero            -- readRecords: "header length is zero"
  | hlenTooShort        -- "header length is too short"
  | hlenLargerThanFile  -- "header is larger than file"
  | hlenLargerThanMax   -- "header is larger than maxHeaderSize"
  | readAt              -- the ReaderAt returned an error (short read)
  | headerTooShort      -- List: "invalid header, too short"
  | openFailed          -- k.Open failed (MAC)
  | entryShort          -- parseHeaderEntry: "buffer of size %d too short"
  | invalidType         -- parseHeaderEntry: "invalid type %d"
  | invalidBlobType     -- makeHeader: "invalid blob type %v"
  | verifyDecode        -- verifyHeader: "header decoding failed"
  | verifySize          -- verifyHeader: "unexpected header size"
  | verifyCount         -- verifyHeader: "pack header size mismatch"
  | verifyEntry         -- verifyHeader: "pack header entry mismatch"
deriving DecidableEq, Repr

inductive Res (α : Type) where
  | ok (a : α)
  | err (e : Err)
  | panic
deriving DecidableEq, Repr

/-- `sealB nonce p` = what `k.Seal(dst, nonce, p, nil)` appends; `openB nonce c` = `k.Open` -/
structure Crypto where
  sealB : Bytes → Bytes → Bytes
  openB : Bytes → Bytes → Option Bytes

/-! ### little-endian uint32 -/

/-- `binary.LittleEndian.PutUint32(_, uint32(n))` (the conversion to uint32 truncates) -/
def le32 (n : Nat) : Bytes :=
  [UInt8.ofNat (n % 256), UInt8.ofNat (n / 256 % 256), UInt8.ofNat (n / 65536 % 256),
   UInt8.ofNat (n / 16777216 % 256)]

/-- `binary.LittleEndian.Uint32` of a 4-byte slice -/
def unle32 : Bytes → Nat
  | [a, b, c, d] => a.toNat + 256 * b.toNat + 65536 * c.toNat + 16777216 * d.toNat
  | _ => 0

/-! ### Go slicing: out-of-range is a panic (`none`) -/

/-- `p[lo:hi]` -/
def slice? (p : Bytes) (lo hi : Nat) : Option Bytes :=
  if lo ≤ hi ∧ hi ≤ p.length then some ((p.take hi).drop lo) else none

/-- `p[lo:]` -/
def from? (p : Bytes) (lo : Nat) : Option Bytes :=
  if lo ≤ p.length then some (p.drop lo) else none

/-! ### writing -/

/-- the type byte chosen by the `switch` in `makeHeader`; `none` = "invalid blob type" -/
def typeByte (b : Blob) : Option UInt8 :=
  if b.type = restic_DataBlob ∧ b.ulen = 0 then some 0
  else if b.type = restic_TreeBlob ∧ b.ulen = 0 then some 1
  else if b.type = restic_DataBlob ∧ b.ulen ≠ 0 then some 2
  else if b.type = restic_TreeBlob ∧ b.ulen ≠ 0 then some 3
  else none

/-- one iteration of the loop of `makeHeader` -/
def encEntry (b : Blob) : Option Bytes :=
  match typeByte b with
  | none => none
  | some tb => some (tb :: (le32 b.length ++ ((if b.ulen ≠ 0 then le32 b.ulen else []) ++ b.id)))

/-- `makeHeader` -/
def makeHeader : List Blob → Option Bytes
  | [] => some []
  | b :: bs =>
    match encEntry b with
    | none => none
    | some e =>
      match makeHeader bs with
      | none => none
      | some r => some (e ++ r)

/-! ### reading -/

/-- `rd.ReadAt(buf[:n], off)` on a reader over `file`: a short read is an error -/
def readAt (file : Bytes) (off n : Nat) : Option Bytes :=
  if off + n ≤ file.length then some ((file.drop off).take n) else none

/-- `readRecords(rd, size, bufsize)`: raw header bytes and total header length -/
def readRecords (file : Bytes) (size bufsize : Nat) : Res (Bytes × Nat) :=
  let bufsize := if bufsize > size then size else bufsize
  match readAt file (size - bufsize) bufsize with
  | none => .err .readAt
  | some b =>
    if b.length < pack_headerLengthSize then .panic else      -- b[len(b)-headerLengthSize:] out of range
    let hlen := unle32 (b.drop (b.length - pack_headerLengthSize))
    let b := b.take (b.length - pack_headerLengthSize)
    if hlen = 0 then .err .hlenZero
    else if hlen < crypto_Extension then .err .hlenTooShort
    else if hlen + pack_headerLengthSize > size then .err .hlenLargerThanFile
    else if hlen + pack_headerLengthSize > pack_MaxHeaderSize then .err .hlenLargerThanMax
    else
      let total := (hlen + pack_headerLengthSize) % 4294967296
      if total < bufsize then
        -- truncate to the beginning of the pack header: b[len(b)-int(hlen):]
        if hlen ≤ b.length then .ok (b.drop (b.length - hlen), total) else .panic
      else .ok (b, total)

/-- `readHeader(rd, size)` -/
def readHeader (file : Bytes) (size : Nat) : Res Bytes :=
  if size < pack_minFileSize then .err .fileTooShort else
  let eagerSize := pack_eagerEntries * pack_entrySize + pack_headerSize
  match readRecords file size eagerSize with
  | .err e => .err e
  | .panic => .panic
  | .ok (b, c) =>
    if c ≤ eagerSize then .ok b   -- eager read sufficed
    else
      match readRecords file size c with
      | .err e => .err e
      | .panic => .panic
      | .ok (b, _) => .ok b

/-- `copy(b.ID[:], p)`: the first `idSize` bytes, zero padded (the array is zero initialised) -/
def copyID (p : Bytes) : Bytes :=
  p.take restic_idSize ++ List.replicate (restic_idSize - p.length) 0

/-- `parseHeaderEntry(p)`: the blob (offset not set) and the entry size -/
def parseHeaderEntry (p : Bytes) : Res (Blob × Nat) :=
  let l := p.length
  if l < pack_plainEntrySize then .err .entryShort else
  match p with
  | [] => .panic
  | tpe :: _ =>
    let ty : Option Nat :=
      if tpe = 0 ∨ tpe = 2 then some restic_DataBlob
      else if tpe = 1 ∨ tpe = 3 then some restic_TreeBlob
      else none
    match ty with
    | none => .err .invalidType
    | some ty =>
      match slice? p 1 5, from? p 5 with
      | some lb, some p =>
        let length := unle32 lb
        if tpe = 2 ∨ tpe = 3 then
          if l < pack_entrySize then .err .entryShort else
          match slice? p 0 4, from? p 4 with
          | some ub, some p =>
            .ok ({ type := ty, id := copyID p, length := length, offset := 0, ulen := unle32 ub }, pack_entrySize)
          | _, _ => .panic
        else
          .ok ({ type := ty, id := copyID p, length := length, offset := 0, ulen := 0 }, pack_plainEntrySize)
      | _, _ => .panic

/-- the `for len(buf) > 0` loop of `List`; `fuel` bounds the iterations (each consumes at least one
byte, see `Props.C06.parseLoop_fuel`), running out of fuel is reported as `panic` -/
def parseLoop : Nat → Bytes → Nat → Res (List Blob)
  | _, [], _ => .ok []
  | 0, _ :: _, _ => .panic
  | fuel + 1, buf@(_ :: _), pos =>
    match parseHeaderEntry buf with
    | .err e => .err e
    | .panic => .panic
    | .ok (entry, sz) =>
      match from? buf sz with
      | none => .panic
      | some rest =>
        match parseLoop fuel rest (pos + entry.length) with
        | .err e => .err e
        | .panic => .panic
        | .ok es => .ok ({ entry with offset := pos } :: es)

/-- `List(k, rd, size)`: entries and header size -/
def list (k : Crypto) (file : Bytes) (size : Nat) : Res (List Blob × Nat) :=
  match readHeader file size with
  | .err e => .err e
  | .panic => .panic
  | .ok buf =>
    if buf.length < crypto_Extension then .err .headerTooShort else
    let hdrSize := (pack_headerLengthSize + buf.length) % 4294967296
    match slice? buf 0 crypto_ivSize, from? buf crypto_ivSize with
    | some nonce, some ct =>
      match k.openB nonce ct with
      | none => .err .openFailed
      | some plain =>
        match parseLoop plain.length plain 0 with
        | .err e => .err e
        | .panic => .panic
        | .ok es => .ok (es, hdrSize)
    | _, _ => .panic

/-! ### the packer -/

/-- `verifyHeader(k, header, expected)` -/
def verifyHeader (k : Crypto) (header : Bytes) (expected : List Blob) : Res Unit :=
  match list k header header.length with
  | .err _ => .err .verifyDecode
  | .panic => .panic
  | .ok (decoded, hdrSize) =>
    if hdrSize ≠ header.length % 4294967296 then .err .verifySize
    else if decoded.length ≠ expected.length then .err .verifyCount
    else if (decoded.zip expected).all (fun p => p.1 == p.2) then .ok ()
    else .err .verifyEntry

/-- `Finalize` up to the write: the bytes appended to the pack (`nonce` = `NewRandomNonce()`) -/
def finalize (k : Crypto) (nonce : Bytes) (blobs : List Blob) : Res Bytes :=
  match makeHeader blobs with
  | none => .err .invalidBlobType
  | some header =>
    let enc := nonce ++ k.sealB nonce header
    let enc := enc ++ le32 enc.length
    match verifyHeader k enc blobs with
    | .err e => .err e
    | .panic => .panic
    | .ok () => .ok enc

/-- state of a `Packer`: blobs added, bytes counted, bytes written to `wr` -/
structure Packer where
  blobs : List Blob := []
  bytes : Nat := 0
  out : Bytes := []
deriving Repr

/-- `Packer.Add(t, id, data, uncompressedLength)` (successful write) -/
def Packer.add (p : Packer) (t : Nat) (id data : Bytes) (ulen : Nat) : Packer :=
  { blobs := p.blobs ++ [{ type := t, id := id, length := data.length, offset := p.bytes, ulen := ulen }]
    bytes := p.bytes + data.length
    out := p.out ++ data }

/-- what `Add` returns: bytes written plus the size of the header entry -/
def addResult (data : Bytes) (ulen : Nat) : Nat :=
  data.length + (if ulen ≠ 0 then pack_entrySize else pack_plainEntrySize)

/-- `Packer.Finalize` -/
def Packer.finalize (p : Packer) (k : Crypto) (nonce : Bytes) : Res Packer :=
  match Pack.finalize k nonce p.blobs with
  | .err e => .err e
  | .panic => .panic
  | .ok h => .ok { p with bytes := p.bytes + h.length, out := p.out ++ h }

/-- `Packer.HeaderFull` for a packer holding `n` blobs -/
def headerFull (n : Nat) : Bool :=
  decide (pack_headerSize + (n + 1) * pack_entrySize > pack_MaxHeaderSize)

/-- `CalculateHeaderSize(blobs)` -/
def calculateHeaderSize (bs : List Blob) : Nat :=
  bs.foldl (fun s b => s + (if b.ulen ≠ 0 then pack_entrySize else pack_plainEntrySize)) pack_headerSize

/-! ### Executable statement of the property -/

/-- the listing expected for a sequence of `Add`s: same types, ids, stored and uncompressed
lengths, offsets = running sum of the stored lengths -/
def expectedListing : Nat → List (Nat × Bytes × Nat × Nat) → List Blob
  | _, [] => []
  | pos, (t, id, len, ulen) :: rest =>
    { type := t, id := id, length := len, offset := pos, ulen := ulen } :: expectedListing (pos + len) rest

/-- C06, first half, on observed behaviour: `adds` = (type, id, stored length, uncompressed length)
of every `Add`; `fileLen` = size of the finalized pack; `listed`/`hdrSize` = what `List` returned.
The listing must be exactly the blobs added, and the reported header size must be what the file
holds besides the blob data. -/
def specListing (adds : List (Nat × Bytes × Nat × Nat)) (fileLen : Nat) (listed : List Blob) (hdrSize : Nat) : Bool :=
  listed == expectedListing 0 adds &&
  hdrSize + (adds.foldl (fun s a => s + a.2.2.1) 0) == fileLen &&
  hdrSize == calculateHeaderSize listed

/-- C06, second half, on observed behaviour: `expect` is what the construction of the file
dictates (`some (entries, hdrSize)` for a file that carries an authentic well-formed header, `none`
for a truncated / extended / damaged one), `got` is what `List` returned. A malformed pack must be
rejected with an error: never a panic, never a listing; an intact one must list exactly. -/
def specMalformed (expect : Option (List Blob × Nat)) (got : Res (List Blob × Nat)) : Bool :=
  match got, expect with
  | .panic, _ => false
  | .ok r, some e => r == e
  | .ok _, none => false
  | .err _, some _ => false
  | .err _, none => true

/-- offsets are the running sum of the stored lengths (what `Add` maintains) -/
def offsetsOK : Nat → List Blob → Bool
  | _, [] => true
  | pos, b :: bs => b.offset == pos && offsetsOK (pos + b.length) bs

/-- can this blob list be represented in a pack header at all? (non-empty, types data/tree,
32-byte ids, 32-bit lengths, cumulative offsets, header within `MaxHeaderSize`) -/
def representable (bs : List Blob) : Bool :=
  !bs.isEmpty &&
  bs.all (fun b => (b.type == restic_DataBlob || b.type == restic_TreeBlob) && b.id.length == restic_idSize &&
    decide (b.length < 4294967296) && decide (b.ulen < 4294967296)) &&
  offsetsOK 0 bs &&
  decide (calculateHeaderSize bs ≤ pack_MaxHeaderSize)

/-- C06 for `Finalize`: a packer whose blobs cannot be represented must not produce a pack
(`finOk` = Finalize returned nil); a representable one must be finalized. -/
def specFinalize (bs : List Blob) (finOk : Bool) : Bool :=
  finOk == representable bs

end Restic.Model.Pack
