/-
Model of restoring / verifying ONE regular file (C19, C21). Transcribed from
  internal/restorer/restorer.go     withOverwriteCheck, shouldOverwrite, verifyFile, fileState
  internal/restorer/filerestorer.go restoreFiles (sparse decision, HasMatchingBlob skipping,
                                    truncateFileToSize), downloadBlobs/writeToFile
  internal/restorer/fileswriter.go  createFile, ensureSize
  internal/restorer/sparsewrite.go  partialFile.WriteAt
Core Lean only. The hash function is a parameter (`hash : Bytes → ID`).

File contents on disk are modelled as a length plus a byte function (`File`): the operating
system operations used (ftruncate, pwrite, fallocate) then have one-line pointwise definitions.
-/
namespace Restic.Model.FileRestore

abbrev Bytes := List UInt8

/-! ## files on disk -/

/-- content of a regular file: `len` bytes, byte `i` is `byte i` -/
structure File where
  len : Nat
  byte : Nat → UInt8

namespace File

def empty : File := ⟨0, fun _ => 0⟩

def ofBytes (b : Bytes) : File := ⟨b.length, fun i => b.getD i 0⟩

/-- the byte at position `i`, 0 beyond the end (what a hole / extension reads as) -/
def read (f : File) (i : Nat) : UInt8 := if i < f.len then f.byte i else 0

def toBytes (f : File) : Bytes := (List.range f.len).map f.byte

/-- `ftruncate(n)`: cut, or extend with zeros; bytes below the old length are KEPT -/
def truncate (f : File) (n : Nat) : File := ⟨n, f.read⟩

/-- `fallocate(0, n)` when supported: extends to at least `n` with zeros, never shrinks -/
def preallocate (f : File) (n : Nat) : File := ⟨max f.len n, f.read⟩

/-- `pwrite(p, off)`; Go's `File.WriteAt` issues no system call for an empty slice -/
def writeAt (f : File) (off : Nat) (p : Bytes) : File :=
  if p.isEmpty then f else
  let a := p.toArray      -- O(1) reads in the compiled driver; `a.getD i 0 = p.getD i 0`
  ⟨max f.len (off + p.length), fun i => if off ≤ i ∧ i < off + p.length then a.getD (i - off) 0 else f.read i⟩

/-- the `n` bytes at `off` (only used when `off + n ≤ len`) -/
def seg (f : File) (off n : Nat) : Bytes := (List.range n).map fun k => f.byte (off + k)

end File

/-! ## snapshot side -/

/-- a content blob as the repository serves it -/
structure Blob (ID : Type) where
  id : ID
  data : Bytes

/-- a file node: `node.Size` and `node.Content` (resolved through the index) -/
structure FNode (ID : Type) where
  size : Nat
  content : List (Blob ID)
  mtime : Int

def concat {ID : Type} (bs : List (Blob ID)) : Bytes := bs.flatMap (·.data)

def totalLen {ID : Type} : List (Blob ID) → Nat
  | [] => 0
  | b :: rest => b.data.length + totalLen rest

/-! ## what is at the target path before the restore -/

inductive Target where
  | missing
  /-- regular file; `readable`/`writable` for the restoring user; hard link count; mtime -/
  | regular (f : File) (readable writable : Bool) (links : Nat) (mtime : Int)
  | dir (empty : Bool) (mtime : Int)
  | symlink (mtime : Int)
  | special (mtime : Int)   -- device / socket (a fifo makes restore block and is never generated)

/-- the modification time `Lstat` reports for whatever is at the path -/
def Target.mtime : Target → Int
  | .missing => 0
  | .regular _ _ _ _ m => m
  | .dir _ m => m
  | .symlink m => m
  | .special m => m

/-! ## verifyFile -/

inductive VErr where
  | openFailed | notRegular | size | eof | content (off : Nat)
deriving DecidableEq, Repr

structure FileState where
  blobMatches : Option (List Bool)   -- `none` = nil slice (mtime shortcut)
  sizeMatches : Bool
deriving DecidableEq, Repr

variable {ID : Type} [DecidableEq ID]

/-- the blob loop of `verifyFile`. Result: the `matches` slice and whether the loop ran to the end
    (no `io.EOF` break). -/
def verifyBlobs (hash : Bytes → ID) (failFast : Bool) (f : File) :
    List (Blob ID) → Nat → Except VErr (List Bool × Bool)
  | [], _ => .ok ([], true)
  | b :: rest, off =>
    let n := b.data.length
    -- `f.ReadAt(buf, offset)` with `len(buf) = n` returns io.EOF iff fewer than n bytes are there
    -- (n = 0 never fails)
    if n ≠ 0 ∧ f.len < off + n then
      if failFast then .error .eof else .ok (List.replicate (rest.length + 1) false, false)
    else
      let m := decide (b.id = hash (f.seg off n))
      if failFast && !m then .error (.content off)
      else match verifyBlobs hash failFast f rest (off + n) with
        | .ok (ms, full) => .ok (m :: ms, full)
        | .error e => .error e

/-- `Restorer.verifyFile(target, node, failFast, trustMtime)` -/
def verifyFile (hash : Bytes → ID) (t : Target) (node : FNode ID) (failFast trustMtime : Bool) :
    Except VErr FileState :=
  match t with
  | .missing => .error .openFailed
  | .symlink _ => .error .openFailed        -- O_NOFOLLOW: ELOOP
  | .dir _ _ => .error .notRegular          -- opening a directory read-only works, Stat says dir
  | .special _ => .error .notRegular
  | .regular f readable _ _ mtime =>
    if !readable then .error .openFailed else
    let sizeMatches := decide (node.size = f.len)
    if failFast && !sizeMatches then .error .size else
    if trustMtime && mtime == node.mtime && sizeMatches then .ok ⟨none, sizeMatches⟩ else
    match verifyBlobs hash failFast f node.content 0 with
    | .error e => .error e
    | .ok (ms, full) => .ok ⟨some ms, sizeMatches && full⟩

/-- `(*fileState).NeedsRestore` (nil receiver = no state) -/
def needsRestore : Option FileState → Bool
  | none => true
  | some s => !s.sizeMatches || (match s.blobMatches with | none => false | some ms => ms.any (!·))

/-- `(*fileState).HasMatchingBlob(i)` -/
def hasMatchingBlob (s : Option FileState) (i : Nat) : Bool :=
  match s with
  | some ⟨some ms, _⟩ => ms.getD i false
  | _ => false

/-! ## C21: VerifyFiles -/

/-- what `VerifyFiles` does with one file of the snapshot: only files tracked as restored with
    content (`fileList[location] = false`) are checked, with `failFast = true` -/
def verifyTracked (hash : Bytes → ID) (tracked metadataOnly : Bool) (t : Target) (node : FNode ID) :
    Except VErr Unit :=
  if !tracked || metadataOnly then .ok () else
  match verifyFile hash t node true false with
  | .ok _ => .ok ()
  | .error e => .error e

/-- `VerifyFiles` with the command line's error callback (count and continue): the run is
    reported as failed iff some checked file fails -/
def verifyFilesOK (hash : Bytes → ID) (fs : List (Bool × Bool × Target × FNode ID)) : Bool :=
  fs.all fun (tr, mo, t, n) => match verifyTracked hash tr mo t n with | .ok _ => true | .error _ => false

/-- executable statement of C21 for one checked file whose node is consistent
    (`Σ len = size`): verification succeeds iff the target is a readable regular file with
    exactly the snapshot content -/
def specVerify (t : Target) (node : FNode ID) (implOK : Bool) : Bool :=
  let same := match t with
    | .regular f true _ _ _ => f.toBytes == concat node.content
    | _ => false
  implOK == same

/-! ## C19: restoring one file -/

inductive Overwrite where
  | always | ifChanged | ifNewer | never
deriving DecidableEq, Repr

/-- `shouldOverwrite` (the Lstat error case other than not-exist is not modelled) -/
def shouldOverwrite (ow : Overwrite) (node : FNode ID) (t : Target) : Bool :=
  match ow with
  | .always | .ifChanged => true
  | .ifNewer => (match t with | .missing => true | _ => decide (node.mtime > t.mtime))
  | .never => (match t with | .missing => true | _ => false)

structure Cfg where
  sparse : Bool               -- --sparse
  delete : Bool               -- --delete (allowRecursiveDelete of createFile)
  prealloc : Bool             -- does fallocate work on this file system (oracle)
  /-- does `ensureSize` cut the file to length 0 before the sparse `Truncate(size)`?
      (the unmodified source does not: finding F6; regenerated from the source, see
      `Restic.Gen.ensureSize_calls`) -/
  sparseTruncFirst : Bool
  /-- does `verifyFile` discard the state of a file with several hard links that needs to be
      restored? (`createFile` replaces such a file by an empty one; the unmodified source keeps
      the state and loses the matching blobs; regenerated from `Restic.Gen.verifyFile_calls`) -/
  hardlinkDropsState : Bool

inductive CErr where
  | dirNotEmpty
deriving DecidableEq, Repr

/-- `ensureSize(f, fi, createSize, sparse)` -/
def ensureSize (cfg : Cfg) (f : File) (createSize : Nat) (sparse : Bool) : File :=
  if sparse then
    (if cfg.sparseTruncFirst then File.empty else f).truncate createSize
  else if f.len > createSize then f.truncate createSize
  else if createSize > 0 && cfg.prealloc then f.preallocate createSize
  else f

/-- `createFile(path, createSize, sparse, allowRecursiveDelete)` as far as the content goes.
    Access-denied on open is repaired by `ResetPermissions` (the restoring user owns the file). -/
def createFile (cfg : Cfg) (t : Target) (createSize : Nat) (sparse : Bool) : Except CErr File :=
  match t with
  | .missing => .ok (ensureSize cfg File.empty createSize sparse)
  | .symlink _ | .special _ => .ok (ensureSize cfg File.empty createSize sparse)   -- removed, O_EXCL
  | .dir empty _ =>
    if empty || cfg.delete then .ok (ensureSize cfg File.empty createSize sparse)
    else .error .dirNotEmpty                                                   -- fs.Remove: ENOTEMPTY
  | .regular f _ _ links _ =>
    if links > 1 then .ok (ensureSize cfg File.empty createSize sparse)        -- nuked, fresh file
    else .ok (ensureSize cfg f createSize sparse)

/-- one blob to be written: index in `node.Content`, file offset, plaintext -/
structure Write (ID : Type) where
  idx : Nat
  off : Nat
  id : ID
  data : Bytes

/-- `forEachBlob`: blobs with index and cumulative offset -/
def blobWrites : List (Blob ID) → Nat → Nat → List (Write ID)
  | [], _, _ => []
  | b :: rest, i, off => ⟨i, off, b.id, b.data⟩ :: blobWrites rest (i + 1) (off + b.data.length)

/-- `restic.ZeroPrefixLen` -/
def zeroPrefixLen (p : Bytes) : Nat := (p.takeWhile (· == 0)).length

/-- `partialFile.WriteAt` -/
def pwrite (sparse : Bool) (f : File) (w : Write ID) : File :=
  if !sparse then f.writeAt w.off w.data
  else
    let k := zeroPrefixLen w.data
    -- `len(p) == 0` after skipping: nothing is written
    f.writeAt (w.off + k) (w.data.drop k)

/-- the writes `restoreFiles` schedules for a file: every blob without a verified match -/
def todoWrites (node : FNode ID) (state : Option FileState) : List (Write ID) :=
  (blobWrites node.content 0 0).filter fun w => !hasMatchingBlob state w.idx

/-- the sparse decision of `restoreFiles` -/
def fileSparse (cfg : Cfg) (zeroChunk : ID) (node : FNode ID) (state : Option FileState) : Bool :=
  let s0 := if (todoWrites node state).any (fun w => decide (w.id = zeroChunk)) then cfg.sparse else false
  let s1 := if node.content.length = 1 then cfg.sparse else s0
  if state.isSome then false else s1

/-- `restoreFiles` + `downloadBlobs` for one file. `order` is the order in which the pack
    workers deliver the scheduled writes (a permutation of `todoWrites`); the first delivered
    write creates the file. -/
def restoreContent (cfg : Cfg) (zeroChunk : ID) (t : Target) (node : FNode ID)
    (state : Option FileState) (order : List (Write ID)) : Except CErr File :=
  if (todoWrites node state).isEmpty then
    createFile cfg t node.size false               -- truncateFileToSize
  else
    let sparse := fileSparse cfg zeroChunk node state
    match createFile cfg t node.size sparse with
    | .error e => .error e
    | .ok f0 => .ok (order.foldl (pwrite sparse) f0)

/-- link count `Stat` reports for the opened file -/
def Target.links : Target → Nat
  | .regular _ _ _ l _ => l
  | _ => 1

/-- the tail of `verifyFile` (not reachable with `failFast`, where any mismatch is an error):
    a file with several hard links that needs to be restored gets no state -/
def dropIfHardlinked (cfg : Cfg) (t : Target) (s : FileState) : Option FileState :=
  if cfg.hardlinkDropsState && needsRestore (some s) && decide (t.links > 1) then none else some s

inductive Outcome where
  | untouched                  -- skipped by the overwrite mode, not tracked
  | metadataOnly               -- content verified as identical, tracked
  | restored (f : File)        -- content written, tracked
  | failed (e : CErr)

/-- first pass `visitNode` (`withOverwriteCheck`) followed by `restoreFiles` for one file -/
def restoreFile (hash : Bytes → ID) (cfg : Cfg) (zeroChunk : ID) (ow : Overwrite) (t : Target)
    (node : FNode ID) (order : Option FileState → List (Write ID)) : Outcome :=
  if !shouldOverwrite ow node t then .untouched else
  let state := match verifyFile hash t node false (ow == .ifChanged) with
    | .ok s => dropIfHardlinked cfg t s
    | .error _ => none
  if !needsRestore state then .metadataOnly else
  match restoreContent cfg zeroChunk t node state (order state) with
  | .ok f => .restored f
  | .error e => .failed e

/-- what is at the path afterwards, as bytes (`none` = not a regular file / unchanged non-file) -/
def Outcome.finalBytes (o : Outcome) (t : Target) : Option Bytes :=
  match o with
  | .restored f => some f.toBytes
  | .untouched | .metadataOnly | .failed _ =>
    match t with
    | .regular f _ _ _ _ => some f.toBytes
    | _ => none

/-- the documented contract of `--overwrite if-changed`: same size and mtime means same content -/
def contractBoundary (ow : Overwrite) (t : Target) (node : FNode ID) : Bool :=
  match ow, t with
  | .ifChanged, .regular f true _ _ m =>
    m == node.mtime && decide (f.len = node.size) && !(f.toBytes == concat node.content)
  | _, _ => false

/-- executable statement of C19 for one file, evaluated on what is found at the path after a
    SUCCESSFUL restore (`final = none`: not a regular file), for a consistent node -/
def specRestore (ow : Overwrite) (t : Target) (node : FNode ID) (final : Option Bytes) : Bool :=
  if shouldOverwrite ow node t then
    contractBoundary ow t node || final == some (concat node.content)
  else
    -- if-newer / never say "skip": the existing thing is left untouched
    (match t with
     | .regular f _ _ _ _ => final == some f.toBytes
     | _ => final == none)

end Restic.Model.FileRestore
