import Restic.Model.Store
/-!
Model for C03 (composite): what `restore` reads and what `check --read-data` verifies, over an
ARBITRARY repository content — no relation to any "original" repository is built into the model,
so it covers every flip, truncation, deletion and every combination of them.

* a repository is its pack files (name, bytes), the union of its decoded index entries (plus a flag
  "some index file failed to load"), and its snapshot files (name, raw bytes);
* `loadBlob` = `Repository.LoadBlob` of C02 (`Store.loadBlob`: candidate packs in index order, two
  passes) against a backend that answers every ranged read with the bytes the pack file really has;
* `restoreSnap` = load the snapshot file by name (hash compare of C02's `LoadRaw`, decrypt, parse),
  then walk the tree: every tree blob and every data blob comes out of `loadBlob`;
* `checkAll` = the verdict of `check --read-data`: index load errors, packs named by the index but
  absent, pack file hash vs name, every indexed blob decodes to its ID (`checkPackInner` runs the
  same `packBlobIterator.Next` over every indexed blob), snapshots load, every tree loads and every
  referenced data blob is in the index (`Checker.Structure`).

Parameters: `hash`, `dec`, `zdec` as in C02; `decUnp` (decrypt + `decompressUnpacked` of an
unpacked file); `parseTree`, `parseSnap` (JSON decoding). Core Lean only.

`checkAll` decodes each indexed blob from its own byte range; `checkAllStream` is the closer
transcription of `checkPackInner` (ONE pass over the file with all indexed blobs of the pack, sorted,
through one iterator — gaps are skipped, overlaps are an error — then the whole-file hash);
`Props.C03.checkAllStream_nil` proves that a clean streaming verdict implies a clean ranged one, so
all theorems hold for the streaming check. The header-versus-index comparison of `checkPackInner`
is C06/C33's subject and not modelled.
-/
namespace Restic.Model.Corrupt
open Restic.Model.Store

/-- a decoded tree node: what matters for restore -/
inductive Node where
  | file (name : Bytes) (md : Bytes) (content : List ID)
  | dir (name : Bytes) (md : Bytes) (subtree : ID)
  | other (name : Bytes) (md : Bytes)
deriving Repr, Inhabited

/-- what restore produces -/
inductive RTree where
  | file (name : Bytes) (md : Bytes) (data : Bytes)
  | dir (name : Bytes) (md : Bytes) (children : List RTree)
  | other (name : Bytes) (md : Bytes)
deriving Repr, Inhabited

structure Codec where
  hash : Bytes → ID
  dec : Bytes → Option Bytes
  zdec : Bytes → Option Bytes
  decUnp : Bytes → Option Bytes
  parseTree : Bytes → Option (List Node)
  parseSnap : Bytes → Option ID

structure Repo where
  packs : List (ID × Bytes)
  indexErr : Bool
  index : List PackedBlob
  snaps : List (ID × Bytes)
deriving Inhabited

/-- `mapM` in `Option`, structurally -/
def allSome {α β : Type} (f : α → Option β) : List α → Option (List β)
  | [] => some []
  | a :: as => match f a with
    | none => none
    | some b => match allSome f as with
      | none => none
      | some bs => some (b :: bs)

/-- the backend's answer to `Load(pack, length, offset)`: the bytes the file has there -/
def readReply (r : Repo) (c : PackedBlob) : ReadReply :=
  match r.packs.find? (fun p => p.1 == c.pack) with
  | none => .fail
  | some p => .data ((p.2.drop c.blob.offset).take c.blob.length)

def candidates (r : Repo) (tree : Bool) (id : ID) : List PackedBlob :=
  r.index.filter (fun c => c.blob.id == id && c.blob.tree == tree)

/-- `Repository.LoadBlob` on this repository content (both passes see the same bytes) -/
def loadBlob (C : Codec) (r : Repo) (tree : Bool) (id : ID) : Option Bytes :=
  let cands := candidates r tree id
  match (Store.loadBlob C.hash C.dec C.zdec cands (cands.map (readReply r) ++ cands.map (readReply r))).1 with
  | .ok p => some p
  | _ => none

def restoreNode (lb : ID → Option Bytes) (recT : ID → Option (List RTree)) : Node → Option RTree
  | .file n m content => (allSome lb content).map fun ds => .file n m ds.flatten
  | .dir n m sub => (recT sub).map (.dir n m)
  | .other n m => some (.other n m)

/-- restore the tree with root `id` (fuel bounds the depth; trees are finite) -/
def restoreTree (C : Codec) (r : Repo) : Nat → ID → Option (List RTree)
  | 0, _ => none
  | fuel + 1, id =>
    match loadBlob C r true id with
    | none => none
    | some tb =>
      match C.parseTree tb with
      | none => none
      | some nodes => allSome (restoreNode (loadBlob C r false) (restoreTree C r fuel)) nodes

/-- load a snapshot file by its ID: name/hash compare, decrypt, parse → root tree ID -/
def loadSnapRaw (C : Codec) (s : ID × Bytes) : Option ID :=
  if C.hash s.2 != s.1 then none else (C.decUnp s.2).bind C.parseSnap

def loadSnap (C : Codec) (r : Repo) (sid : ID) : Option ID :=
  match r.snaps.find? (fun s => s.1 == sid) with
  | none => none
  | some s => loadSnapRaw C s

/-- `restic restore <sid>` -/
def restoreSnap (C : Codec) (r : Repo) (fuel : Nat) (sid : ID) : Option (List RTree) :=
  if r.indexErr then none            -- `LoadIndex` failed: the command aborts
  else (loadSnap C r sid).bind (restoreTree C r fuel)

/-! ### check --read-data -/

/-- decode one indexed blob from its byte range with `packBlobIterator.Next` -/
def decodeEntry (C : Codec) (r : Repo) (c : PackedBlob) : Option Bytes :=
  match readAt c.blob.length (readReply r c) with
  | none => none
  | some buf =>
    match (next C.hash C.dec C.zdec { rd := buf, cur := c.blob.offset, blobs := [c.blob] }).1 with
    | .value _ p none => some p
    | _ => none

def hasData (r : Repo) (id : ID) : Bool := r.index.any (fun c => c.blob.id == id && c.blob.tree == false)

def walkNode (hasD : ID → Bool) (recW : ID → Bool) : Node → Bool
  | .file _ _ content => content.all hasD
  | .dir _ _ sub => recW sub
  | .other _ _ => true

/-- `Checker.Structure` below one root: every tree loads and parses, every data blob is indexed -/
def walk (C : Codec) (r : Repo) : Nat → ID → Bool
  | 0, _ => false
  | fuel + 1, id =>
    match loadBlob C r true id with
    | none => false
    | some tb =>
      match C.parseTree tb with
      | none => false
      | some nodes => nodes.all (walkNode (hasData r) (walk C r fuel))

inductive CheckErr where
  | indexLoad
  | packMissing (pack : ID)
  | packHash (pack : ID)
  | blobData (pack : ID) (blob : ID)
  | snapLoad (snap : ID)
  | structure (snap : ID)
deriving Repr, DecidableEq, Inhabited

def checkAll (C : Codec) (r : Repo) (fuel : Nat) : List CheckErr :=
  (if r.indexErr then [.indexLoad] else []) ++
  ((r.index.filter fun c => !(r.packs.any fun p => p.1 == c.pack)).map fun c => .packMissing c.pack) ++
  ((r.packs.filter fun p => C.hash p.2 != p.1).map fun p => .packHash p.1) ++
  ((r.index.filter fun c => (decodeEntry C r c).isNone).map fun c => .blobData c.pack c.blob.id) ++
  (r.snaps.flatMap fun s =>
    match loadSnapRaw C s with
    | none => [.snapLoad s.1]
    | some root => if walk C r fuel root then [] else [.structure s.1])

/-! ### the same verdict with `checkPackInner`'s single streaming pass -/

/-- run the pack's iterator to its end: true iff every value is clean and EOF is reached
    (`fuel` = number of blobs + 1) -/
def streamClean (C : Codec) : Nat → Iter → Bool
  | 0, _ => false
  | fuel + 1, it =>
    match next C.hash C.dec C.zdec it with
    | (.eof, _) => true
    | (.value _ _ none, it') => streamClean C fuel it'
    | _ => false                   -- a blob error (collected in `blobErrors`) or `partialReadError`

/-- `blobs.Sort()` of the index entries of one pack -/
def packBlobsSorted (r : Repo) (pack : ID) : List Blob :=
  ((r.index.filter fun c => c.pack == pack).map fun c => c.blob).mergeSort fun a b => a.offset ≤ b.offset

/-- `checkPackInner`: one pass over the file from offset 0 with all indexed blobs, then the
    whole-file hash against the name -/
def checkPackStream (C : Codec) (r : Repo) (p : ID × Bytes) : Bool :=
  let blobs := packBlobsSorted r p.1
  streamClean C (blobs.length + 1) { rd := p.2, cur := 0, blobs := blobs } && C.hash p.2 == p.1

def checkAllStream (C : Codec) (r : Repo) (fuel : Nat) : List CheckErr :=
  (if r.indexErr then [.indexLoad] else []) ++
  ((r.index.filter fun c => !(r.packs.any fun p => p.1 == c.pack)).map fun c => .packMissing c.pack) ++
  ((r.packs.filter fun p => !checkPackStream C r p).map fun p => .packHash p.1) ++
  (r.snaps.flatMap fun s =>
    match loadSnapRaw C s with
    | none => [.snapLoad s.1]
    | some root => if walk C r fuel root then [] else [.structure s.1])

/-! ### Classification of single-site corruptions (what the correspondence run compares) -/

inductive FileKind where
  | pack | index | snapshot | key | config
  | multi          -- several sites at once (random multi-site mutants)
deriving Repr, DecidableEq, Inhabited

inductive Mutation where
  | flip | truncate | delete
  | swapped        -- content replaced by the authentic content of another file of the same type
  | none           -- the unmutated repository (control case)
deriving Repr, DecidableEq, Inhabited

/-- observable verdicts of one mutant -/
structure Observed where
  checkErr : Bool              -- `check --read-data` reported an error / failed
  /-- per snapshot of the original repository: none = restore failed, some true = restored bytes
      equal the original, some false = restore "succeeded" with different bytes -/
  restores : List (Option Bool)
  dumps : List (Option Bool)
deriving Repr, Inhabited

/-- must `check --read-data` complain about a single-site mutant of this class, whatever the
    snapshots need? (theorems `modified_pack_reported`, `deleted_pack_reported`,
    `modified_snapshot_reported`, `index_error_reported`; key / config: the repository cannot be
    opened at all) -/
def mustReport (k : FileKind) (m : Mutation) : Bool :=
  match k, m with
  | _, .none => false
  | .multi, _ => false               -- only rules (1) and (2)
  | .snapshot, .delete => false      -- the snapshot is gone; nothing that is left depends on it
  | .index, .delete => false         -- reported iff a snapshot needs a blob listed only there: rule (2)
  | _, _ => true

/-- predicted verdict of `check --read-data` (none = depends on what the snapshots need) -/
def expectCheck (k : FileKind) (m : Mutation) : Option Bool :=
  match k, m with
  | _, .none => some false
  | .multi, _ => none
  | .snapshot, .delete => some false
  | .index, .delete => none
  | _, _ => some true

inductive RExp where
  | fail | same | failOrSame
deriving Repr, DecidableEq, Inhabited

/-- predicted outcome of restoring / dumping one snapshot; `self` = the mutated file is that
    snapshot's own file -/
def expectRestore (k : FileKind) (m : Mutation) (self : Bool) : RExp :=
  match k, m with
  | _, .none => .same
  | .multi, _ => .failOrSame
  | .key, _ => .fail                 -- no usable key: the repository cannot be opened
  | .config, _ => .fail
  | .index, .flip => .fail           -- LoadIndex fails (hash of the file differs from its name)
  | .index, .truncate => .fail
  | .index, .swapped => .fail
  | .index, .delete => .failOrSame
  | .snapshot, _ => if self then .fail else .same
  | .pack, _ => .failOrSame          -- fails iff a needed blob lies in the damaged region

def RExp.admits : RExp → Option Bool → Bool
  | .fail, none => true
  | .same, some true => true
  | .failOrSame, none => true
  | .failOrSame, some true => true
  | _, _ => false

/-- C03 as a decidable predicate on the observed behaviour of one mutant:
    (1) no restore / dump "succeeds" with bytes different from the original;
    (2) if any still-listed snapshot no longer restores to the original, `check` has reported;
    (3) mutants of a class that `check` always reads are reported. -/
def specOK (k : FileKind) (m : Mutation) (stillListed : List Bool) (o : Observed) : Bool :=
  o.restores.all (· != some false) && o.dumps.all (· != some false) &&
  ((List.zip stillListed o.restores).all (fun p => !p.1 || p.2 == some true) || o.checkErr) &&
  (!mustReport k m || o.checkErr)

end Restic.Model.Corrupt
