/-
Model for C55 (backups that skip source items are reported as incomplete): the error funnel of
`Archiver.save` / `saveDir` / `saveTree` (`filterNotExist`, `filterError`, `arch.error`, the
"ignore error, continue" loops), of `fileSaver.saveFile` + `treeSaver.save` (read errors reach the
same callback through `errFn`), of `nodeFromFileInfo` (incomplete metadata: reported, node kept),
and the `success` flag / exit status logic of `runBackup` + `main`. Core Lean only.

The source tree is described by what each file-system operation on each item answers
(`Fault`); the `arch.Error` callback of the backup command returns nil for every non-fatal error,
which is what this model transcribes (a fatal error aborts the snapshot: `archErr`).
-/
namespace Restic.Model.BackupErr

abbrev Bytes := List UInt8
abbrev Path := List Bytes

inductive Fault | ok | enoent | other
deriving DecidableEq, Repr, Inhabited

inductive LeafKind | file | socket | special     -- special: symlink, fifo, device node
deriving DecidableEq, Repr, Inhabited

structure LeafF where
  lstat : Fault          -- `meta.Stat()`: the first system call on the item
  open_ : Fault          -- `meta.MakeReadable()` (regular files)
  fstat : Fault          -- `meta.Stat()` on the opened file
  typeChanged : Bool     -- no longer a regular file once opened
  read : Fault           -- reading the content in `saveFile`
  metaFault : Bool       -- incomplete metadata (xattr list/get, readlink): reported, node kept
deriving DecidableEq, Repr, Inhabited

structure DirF where
  lstat : Fault
  open_ : Fault          -- `MakeReadable` in `dirToNodeAndEntries`
  readdir : Fault        -- `Readdirnames`
  metaFault : Bool
deriving DecidableEq, Repr, Inhabited

inductive Src where
  | leaf (name : Bytes) (k : LeafKind) (f : LeafF)
  | dir (name : Bytes) (f : DirF) (children : List Src)
deriving Repr, Inhabited

/-- result of saving an item: the items handed to the `arch.Error` callback, and the paths of the
    nodes that end up in the snapshot -/
structure Res where
  errors : List Path
  included : List Path
deriving Repr, DecidableEq

mutual
/-- `Archiver.save` (with `saveDir` for directories) -/
def save (pre : Path) : Src → Res
  | .leaf name k f =>
    let p := pre ++ [name]
    match f.lstat with
    | .enoent => ⟨[], []⟩            -- filterNotExist: vanished since readdir, silently skipped
    | .other => ⟨[p], []⟩            -- filterError -> arch.error -> callback returns nil -> excluded
    | .ok =>
      match k with
      | .socket => ⟨[], []⟩          -- sockets are ignored
      | .special => if f.metaFault then ⟨[p], [p]⟩ else ⟨[], [p]⟩
      | .file =>
        if f.open_ ≠ .ok then ⟨[p], []⟩              -- MakeReadable: filterError (no filterNotExist here)
        else if f.fstat ≠ .ok then ⟨[p], []⟩
        else if f.typeChanged then ⟨[p], []⟩          -- "changed type, refusing to archive"
        else
          -- fileSaver.saveFile: NodeFromFileInfo (incomplete metadata is reported, node kept), then the content
          let e1 := if f.metaFault then [p] else []
          if f.read ≠ .ok then ⟨e1 ++ [p], []⟩       -- completeError -> treeSaver errFn -> callback, node dropped
          else ⟨e1, [p]⟩
  | .dir name f cs =>
    let p := pre ++ [name]
    match f.lstat with
    | .enoent => ⟨[], []⟩
    | .other => ⟨[p], []⟩
    | .ok =>
      if f.open_ ≠ .ok then ⟨[p], []⟩                -- saveDir returns the error, the caller's arch.error reports it
      else
        let e1 := if f.metaFault then [p] else []
        if f.readdir ≠ .ok then ⟨e1 ++ [p], []⟩
        else
          let r := saveList p cs
          ⟨e1 ++ r.errors, p :: r.included⟩
/-- the `for _, name := range names` loop of `saveDir` / `saveTree` -/
def saveList (pre : Path) : List Src → Res
  | [] => ⟨[], []⟩
  | c :: cs =>
    let a := save pre c
    let b := saveList pre cs
    ⟨a.errors ++ b.errors, a.included ++ b.included⟩
end

/-- outcome of the command -/
structure Outcome where
  exit : Nat
  snapshot : Bool
deriving Repr, DecidableEq

/-- what `runBackup` returns to `main` -/
inductive CmdErr | nil | invalidSourceData | fatal
deriving DecidableEq, Repr

/-- the exit-code switch of `main` (cmd/restic/main.go) for the errors `runBackup` can return:
    `err == nil` → 0, `err == ErrInvalidSourceData` → 3, a fatal error falls through to `default` → 1.
    Pinned against the regenerated switch by `Restic.Props.C55.exit_table`. -/
def exitCode : CmdErr → Nat
  | .nil => 0
  | .invalidSourceData => 3
  | .fatal => 1

/-- `runBackup`: `targetsSkipped` = `collectTargets` returned `ErrInvalidSourceData`; `archErr` =
    `arch.Snapshot` returned an error (fatal callback result, repository error); `rootNodes` = number
    of nodes in the root tree (0: "snapshot is empty"); `errors` = number of `arch.Error` callback
    invocations. Result: the error handed to `main` and whether a snapshot was saved. -/
def runBackupErr (targetsSkipped archErr : Bool) (rootNodes errors : Nat) : CmdErr × Bool :=
  let success := !targetsSkipped
  let success := if errors > 0 then false else success   -- arch.Error = func { success = false; … }
  if archErr || rootNodes == 0 then (.fatal, false)       -- errors.Fatalf("unable to save snapshot: …")
  else if !success then (.invalidSourceData, true)        -- return ErrInvalidSourceData
  else (.nil, true)

/-- `runBackup` + `main` -/
def runBackup (targetsSkipped archErr : Bool) (rootNodes errors : Nat) : Outcome :=
  let r := runBackupErr targetsSkipped archErr rootNodes errors
  ⟨exitCode r.1, r.2⟩

/-- the whole command on one target directory. With an absolute target path the root tree of the
    snapshot holds the chain of parent directories (`saveTree` / `dirPathToNode`), so it is never
    empty; with a relative one-component target it holds the target's node or nothing. -/
def backupCmd (absTarget : Bool) (target : Src) : Outcome × Res :=
  let r := save [] target
  (runBackup false false (if absTarget then 1 else r.included.length) r.errors.length, r)

/-! ## Specification side (independent of the funnel) -/

inductive View
  | leaf (k : LeafKind) (f : LeafF)
  | dir (f : DirF)
deriving Repr

mutual
/-- the items the traversal reaches: children of a directory are reached iff the directory could
    be lstat-ed, opened and listed -/
def visited (pre : Path) : Src → List (Path × View)
  | .leaf name k f => [(pre ++ [name], .leaf k f)]
  | .dir name f cs =>
    (pre ++ [name], .dir f) ::
      (if f.lstat = .ok ∧ f.open_ = .ok ∧ f.readdir = .ok then visitedList (pre ++ [name]) cs else [])
def visitedList (pre : Path) : List Src → List (Path × View)
  | [] => []
  | c :: cs => visited pre c ++ visitedList pre cs
end

/-- the item exists as a source item (it did not vanish before the first lstat; not a socket) -/
def View.isSourceItem : View → Bool
  | .leaf k f => f.lstat != .enoent && !(f.lstat == .ok && k == .socket)
  | .dir f => f.lstat != .enoent

/-- the item could be read completely: content and metadata -/
def View.fullyRead : View → Bool
  | .leaf k f => f.lstat == .ok && !f.metaFault &&
      (k != .file || (f.open_ == .ok && f.fstat == .ok && !f.typeChanged && f.read == .ok))
  | .dir f => f.lstat == .ok && f.open_ == .ok && f.readdir == .ok && !f.metaFault

/-- the item's content could be read (it belongs into the snapshot) -/
def View.contentRead : View → Bool
  | .leaf k f => f.lstat == .ok &&
      (k != .file || (f.open_ == .ok && f.fstat == .ok && !f.typeChanged && f.read == .ok))
  | .dir f => f.lstat == .ok && f.open_ == .ok && f.readdir == .ok

/-- source items that could not be read (completely) -/
def unreadItems (t : Src) : List Path :=
  ((visited [] t).filter fun pv => pv.2.isSourceItem && !pv.2.fullyRead).map (·.1)

/-- source items whose content was read -/
def readItems (t : Src) : List Path :=
  ((visited [] t).filter fun pv => pv.2.isSourceItem && pv.2.contentRead).map (·.1)

/-- Executable statement of C55 on what an implementation did for tree `t` (`snapshotPaths` = the
    source items found in the saved snapshot). If a snapshot was saved it contains exactly the items
    whose content was read, and the exit status is 3 iff some source item could not be read
    (completely), else 0. The command may end without a snapshot only when there was nothing to
    save, and then it must not report success. -/
def specOK (t : Src) (o : Outcome) (snapshotPaths : List Path) : Bool :=
  if o.snapshot then
    (o.exit == (if (unreadItems t).isEmpty then 0 else 3)) &&
    (readItems t).all (snapshotPaths.contains ·) && snapshotPaths.all ((readItems t).contains ·)
  else (readItems t).isEmpty && o.exit != 0

end Restic.Model.BackupErr
