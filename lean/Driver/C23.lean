import Driver.Common
import Restic.Model.Forget
/-!
Driver for C23 (forget: no group emptied, removed = reported, dry run). Records per case
(harness/main/c23.go): now/ps/pst/pol/dur/ptag as in C22, fh/ft/fp/lim/gb/arg as in C24, and
  sh <idx> <host>   sp <idx> <path>*   winl <latest_sec> <latest_nsec> <i> <sec> <nsec>
  fo <unsafe> <dryrun> <nolock>   fail <idx>*
  res ok|fatal|error|panic <hex msg>   exit <code>
  jk <g> <idx>*   jr <g> <idx>*   ngrp <n>   deleted <idx>*   rmev <n>
-/
open Driver Restic.Model.Snapshots Restic.Model.Policy Restic.Model.Forget

namespace C23

def int (s : String) : Int := s.toInt?.getD 0
def nat (s : String) : Nat := s.toNat?.getD 0
def timeOf (sec nsec : String) : Int := int sec * 1000000000 + int nsec
def strs (r : Array String) (from_ : Nat) : List String :=
  (r.toList.drop from_).map fun t => (unhexStr t).getD "?"
def nats (r : Array String) (from_ : Nat) : List Nat := (r.toList.drop from_).map nat

def fieldOf (c : Case) (key idx : String) : List String :=
  match (c.findAll key).toList.find? (fun q => q.getD 1 "" == idx) with
  | some q => strs q 2
  | none => []

def parseList (c : Case) : List PSnap :=
  (c.findAll "ps").toList.map fun r =>
    let idx := r.getD 1 "0"
    { sn := { id := nat idx, time := timeOf (r.getD 2 "0") (r.getD 3 "0"),
              host := (fieldOf c "sh" idx).headD "", paths := fieldOf c "sp" idx, tags := fieldOf c "pst" idx }
      civ := { year := int (r.getD 4 "0"), month := int (r.getD 5 "0"), day := int (r.getD 6 "0"),
               hour := int (r.getD 7 "0"), isoYear := int (r.getD 8 "0"), isoWeek := int (r.getD 9 "0") } }

def parseDur (c : Case) (i : Nat) : Dur :=
  match (c.findAll "dur").toList.find? (fun q => nat (q.getD 1 "9") == i) with
  | some q => ⟨int (q.getD 2 "0"), int (q.getD 3 "0"), int (q.getD 4 "0"), int (q.getD 5 "0")⟩
  | none => ⟨0, 0, 0, 0⟩

def parsePolicy (c : Case) : Policy :=
  let r := (c.find "pol").getD #[]
  { last := int (r.getD 1 "0"), hourly := int (r.getD 2 "0"), daily := int (r.getD 3 "0"),
    weekly := int (r.getD 4 "0"), monthly := int (r.getD 5 "0"), yearly := int (r.getD 6 "0"),
    within := parseDur c 0, withinHourly := parseDur c 1, withinDaily := parseDur c 2,
    withinWeekly := parseDur c 3, withinMonthly := parseDur c 4, withinYearly := parseDur c 5,
    tags := (c.findAll "ptag").toList.map fun r => strs r 1 }

def parseFilter (c : Case) : Filter :=
  let get (k : String) := match c.find k with | some r => strs r 1 | none => []
  { hosts := get "fh", tags := (c.findAll "ft").toList.map fun r => strs r 1, paths := get "fp", limit := none }

def parseGroupBy (c : Case) : GroupBy :=
  match c.find "gb" with
  | some r => { tag := r.getD 1 "0" == "1", host := r.getD 2 "0" == "1", path := r.getD 3 "0" == "1" }
  | none => { tag := false, host := true, path := true }

def parseArgs (c : Case) : List Arg :=
  (c.findAll "arg").toList.map fun r =>
    match r.getD 1 "" with
    | "latest" => .latest
    | "latestsub" => .latestSub
    | "id" => .id (nat (r.getD 2 "0")) (r.getD 3 "0" == "1")
    | _ => .unknown

/-- window oracle: (latest, duration) ↦ start -/
def winTable (c : Case) : List (Int × Dur × Int) :=
  (c.findAll "winl").toList.map fun r =>
    (timeOf (r.getD 1 "0") (r.getD 2 "0"), parseDur c (nat (r.getD 3 "9")), timeOf (r.getD 4 "0") (r.getD 5 "0"))

def subOf (tbl : List (Int × Dur × Int)) (latest : Int) (d : Dur) : Int :=
  match tbl.find? (fun e => e.1 == latest && e.2.1 == d) with
  | some e => e.2.2
  | none => 0

def sortNat (l : List Nat) : List Nat := l.foldr (fun x acc => (acc.filter (· < x)) ++ [x] ++ acc.filter (· ≥ x)) []

def handle (c : Case) : Verdict :=
  let list := parseList c
  let now := match c.find "now" with | some r => timeOf (r.getD 1 "0") (r.getD 2 "0") | none => 0
  let fo := (c.find "fo").getD #[]
  let o : Opts := {
    policy := parsePolicy c, unsafeAllowRemoveAll := fo.getD 1 "0" == "1", dryRun := fo.getD 2 "0" == "1",
    noLock := fo.getD 3 "0" == "1", filter := parseFilter c, groupBy := parseGroupBy c, args := parseArgs c }
  let failing := match c.find "fail" with | some r => nats r 1 | none => []
  let res := (c.find "res").getD #[]
  let kind := res.getD 1 "?"
  let msg := (unhexStr (res.getD 2 "-")).getD ""
  if kind == "panic" then .specfalse "C23:panic" msg else
  let deleted := match c.find "deleted" with | some r => nats r 1 | none => []
  let rmev := match c.find "rmev" with | some r => nat (r.getD 1 "0") | none => 0
  let ngrp := (c.find "ngrp").map fun r => nat (r.getD 1 "0")
  let reported : List GroupReport := (List.range (ngrp.getD 0)).map fun g =>
    let get (k : String) := match (c.findAll k).toList.find? (fun q => nat (q.getD 1 "999") == g) with
      | some q => nats q 2 | none => []
    { keep := get "jk", remove := get "jr" }
  -- the statement's own notion of selection and groups
  let selected := list.filter fun s => specMatches o.filter s.sn
  let classes := selected.map fun a => (selected.filter fun b => specSameGroup o.groupBy a.sn b.sn).map (·.sn.id)
  let latestRes := findLatest o.filter (list.map (·.sn))
  let named := (o.args.filterMap fun a => match a with | .id n false => some n | _ => none) ++
    (if o.args.contains .latest then (latestRes.map (·.id)).toList else [])
  let ob : Observed := { outcomeOk := kind == "ok", reported := reported, deleted := deleted, removeEvents := rmev }
  let specSig : Option String :=
    if o.dryRun && (!deleted.isEmpty || rmev != 0) then some "C23:dry-run:snapshot-removed"
    else if kind != "ok" && failing.isEmpty && (!deleted.isEmpty || rmev != 0) then some "C23:abort:removal-before-error"
    else if !specOK o classes named ob then
      some (if !o.args.isEmpty then
          (if !(deleted.all (named.contains ·)) then "C23:ids:unnamed-snapshot-removed" else "C23:ids:named-snapshot-not-removed")
        else if !(deleted.all fun i => reported.any (·.remove.contains i)) then "C23:policy:removed-but-not-reported"
        else if !(deleted.all fun i => classes.any (·.contains i)) then "C23:policy:removed-outside-selection"
        else if o.policy.empty && !deleted.isEmpty then "C23:policy:empty-policy-removed-snapshots"
        else if !o.policy.empty && classes.any (fun cl => !cl.isEmpty && cl.all (deleted.contains ·)) then "C23:policy:group-emptied"
        else "C23:policy:reported-but-not-removed")
    else none
  match specSig with
  | some sig => .specfalse sig s!"res={kind} deleted={deleted} reported={reported.map (·.remove)} rmev={rmev}"
  | none =>
  let m := runForget (subOf (winTable c)) now list latestRes failing o
  let mclass := match m.outcome with
    | .ok => "ok" | .fatal _ => "fatal" | .error _ => "error"
  let why := match m.outcome with | .ok => "" | .fatal w => w | .error w => w
  if mclass != kind then .differ "outcome" s!"model={mclass}:{why} impl={kind}:{msg}"
  else if (why == "refuse") != decide ((msg.splitOn "refusing to delete last snapshot").length > 1) then
    .differ "refuse" s!"model={why} impl={msg}"
  else if sortNat m.removed != sortNat deleted then .differ "deleted" s!"model={m.removed} impl={deleted}"
  else if ngrp.isSome && o.args.isEmpty && m.groups != reported then
    .differ "groups" s!"model={repr m.groups} impl={repr reported}"
  else
    let labels := [if o.args.isEmpty then "policy-mode" else "ids-mode", mclass] ++
      (if why != "" then [why] else []) ++
      (if o.dryRun then ["dry-run"] else []) ++ (if o.noLock then ["no-lock"] else []) ++
      (if o.unsafeAllowRemoveAll then ["unsafe"] else []) ++ (if o.policy.empty then ["empty-policy"] else []) ++
      (if !o.filter.empty then ["filter"] else []) ++ (if !failing.isEmpty then ["remove-fails"] else []) ++
      (if reported.length > 1 then ["multi-group"] else []) ++
      (if !deleted.isEmpty then ["deleted-some"] else []) ++
      (if !deleted.isEmpty && deleted.length == selected.length then ["deleted-all-selected"] else [])
    .agree (!deleted.isEmpty || why == "refuse" || (o.dryRun && !m.removeSet.isEmpty)) labels

end C23

def main : IO Unit := mainLoop C23.handle
