import Driver.Common
import Restic.Model.Select
/-!
Shared by the drivers of C28, C27 and C20 (owner: A5): stdlib oracle tables (`clean`, `glob`
records), validation of the assumed oracle laws, pattern flag records, snapshot trees from
listings.
-/
namespace Driver.FT
open Driver Restic.Model.Filter Restic.Model.Select

def strOf (tok : String) : Str := ((unhexStr tok).getD "?").toList
def showStr (s : Str) : String := String.ofList s

structure Tables where
  clean : List (Str × Str)
  glob : List ((Str × Str) × Option Bool)

def Tables.cleanF (t : Tables) (s : Str) : Str :=
  match t.clean.find? (·.1 == s) with
  | some (_, c) => c
  | none => ['\x00', '?']          -- missing oracle entry (reported separately)

def Tables.globF (t : Tables) : Glob := fun p c =>
  match t.glob.find? (fun e => e.1.1 == p && e.1.2 == c) with
  | some (_, r) => r
  | none => none

def Tables.hasGlob (t : Tables) (p c : Str) : Bool := t.glob.any fun e => e.1.1 == p && e.1.2 == c

def parseGlobRecs (recs : Array (Array String)) : List ((Str × Str) × Option Bool) :=
  recs.toList.flatMap fun r =>
    let part := strOf (r.getD 1 "-")
    let rec go : List String → List ((Str × Str) × Option Bool)
      | c :: v :: rest => ((part, strOf c), (if v == "t" then some true else if v == "f" then some false else none)) :: go rest
      | _ => []
    go (r.toList.drop 2)

def tablesOf (c : Case) : Tables := {
  clean := (c.findAll "clean").toList.map fun r => (strOf (r.getD 1 "-"), strOf (r.getD 2 "-")),
  glob := parseGlobRecs (c.findAll "glob") }

/-- the oracle laws assumed by the theorems, checked on the table of this case:
    G1 (`*` accepts exactly the components without separator), G2 (a part without special
    characters compares literally), G3 (malformedness depends on the part only) -/
def Tables.lawViolation (t : Tables) : Option String :=
  t.glob.findSome? fun e =>
    if e.1.1 == ['*'] && e.2 != some (!e.1.2.contains '/') then some s!"G1 glob(*,{showStr e.1.2})"
    else if isSimple e.1.1 && e.2 != some (e.1.1 == e.1.2) then some s!"G2 glob({showStr e.1.1},{showStr e.1.2})"
    else if e.2.isNone && t.glob.any (fun e' => e'.1.1 == e.1.1 && e'.2.isSome) then
      some s!"G3 part {showStr e.1.1} errs on some components only"
    else none

/-- every comparison the model can make for these patterns and components is in the table -/
def Tables.covers (t : Tables) (pats : List Pattern) (comps : List Str) : Bool :=
  comps.all (fun cc => t.hasGlob ['*'] cc) &&
  pats.all fun p => p.parts.all fun q => q.simple || q.pat == [] || comps.all fun cc => t.hasGlob q.pat cc

structure Flags where
  exLists : List PatList
  inLists : List PatList
  nEx : Nat
  nIn : Nat
  allValid : Bool

/-- pattern flags of restore / rewrite: `ex`, `iex`, `in`, `iin` records (raw flag values, in
    command line order) → the lists `CollectPatterns` builds (insensitive list first) -/
def flagsOf (c : Case) (t : Tables) : Except String Flags := do
  let raw (k : String) : List Str := (c.findAll k).toList.map fun r => strOf (r.getD 1 "-")
  let mk (ins : Bool) (l : List Str) : Except String (List PatList) :=
    if l.isEmpty then pure [] else
      let l' := if ins then l.map lowerStr else l
      if l'.any (fun p => !p.isEmpty && !(t.clean.any (·.1 == (if p.head? == some '!' then p.drop 1 else p)))) then
        throw "missing-clean-entry"
      else match parsePatterns t.cleanF l' with
        | .ok ps => pure [⟨ins, ps⟩]
        | _ => throw "parsePatterns-failed"
  let ex := raw "ex"; let iex := raw "iex"; let inc := raw "in"; let iin := raw "iin"
  let exL := (← mk true iex) ++ (← mk false ex)
  let inL := (← mk true iin) ++ (← mk false inc)
  let allValid := (exL ++ inL).all fun l => l.pats.all (validPattern t.globF)
  pure { exLists := exL, inLists := inL, nEx := ex.length + iex.length, nIn := inc.length + iin.length,
         allValid := allValid }

/-- names-path of a listing path string "/a/b" -/
def namesOf (path : Str) : List Str := (splitPath path).drop 1

/-- rebuild a tree from listing records `(names-path, type f|d|o, size)` -/
def buildTree (es : List (List Str × String × Nat)) : Nat → List Str → List Node
  | 0, _ => []
  | d + 1, pre =>
    (es.filter fun e => e.1.length == pre.length + 1 && e.1.take pre.length == pre).map fun e =>
      let name := e.1.getLast?.getD []
      if e.2.1 == "d" then .dir name (buildTree es d e.1)
      else if e.2.1 == "f" then .file name e.2.2
      else .other name

def listingOf (c : Case) (key : String) : List (List Str × String × Nat) :=
  (c.findAll key).toList.map fun r => (namesOf (strOf (r.getD 1 "-")), r.getD 2 "o", (r.getD 3 "0").toNat!)

def treeOf (c : Case) (key : String) : List Node :=
  let es := listingOf c key
  buildTree es ((es.map (·.1.length)).foldl max 0 + 1) []

/-- all components (and their lower-case forms) occurring in the item paths of a tree -/
def compsOfTree (root : List Node) : List Str :=
  let cs := ((entries [] root).flatMap fun e => e.path) ++ [slash, []]
  (cs ++ cs.map lowerStr).eraseDups

end Driver.FT
