import Driver.Common
import Restic.Model.Select
/-!
Shared by the drivers of C28, C27 and C20 (owner: A5): stdlib oracle tables (`clean`, `glob`
records), validation of the assumed oracle laws, pattern flag records, snapshot trees from
listings.
-/
namespace Driver.FT
open Driver Restic.Model.Filter Restic.Model.Select

def strOf (tok : String) : Str := ((unhexStr tok).getD "?").toList
def showStr (s : Str) : String := String.ofList s

structure Tables where
  clean : List (Str × Str)
  glob : List ((Str × Str) × Option Bool)

def Tables.cleanF (t : Tables) (s : Str) : Str :=
  match t.clean.find? (·.1 == s) with
  | some (_, c) => c
  | none => ['\x00', '?']          -- missing oracle entry (reported separately)

def Tables.globF (t : Tables) : Glob := fun p c =>
  match t.glob.find? (fun e => e.1.1 == p && e.1.2 == c) with
  | some (_, r) => r
  | none => none

def Tables.hasGlob (t : Tables) (p c : Str) : Bool := t.glob.any fun e => e.1.1 == p && e.1.2 == c

def parseGlobRecs (recs : Array (Array String)) : List ((Str × Str) × Option Bool) :=
  recs.toList.flatMap fun r =>
    let part := strOf (r.getD 1 "-")
    let rec go : List String → List ((Str × Str) × Option Bool)
      | c :: v :: rest => ((part, strOf c), (if v == "t" then some true else if v == "f" then some false else none)) :: go rest
      | _ => []
    go (r.toList.drop 2)

def tablesOf (c : Case) : Tables := {
  clean := (c.findAll "clean").toList.map fun r => (strOf (r.getD 1 "-"), strOf (r.getD 2 "-")),
  glob := parseGlobRecs (c.findAll "glob") }

/-- the oracle laws assumed by the theorems, checked on the table of this case:
    G1 (`*` accepts exactly the components without separator), G2 (a part without special
    characters compares literally), G3 (malformedness depends on the part only) -/
def Tables.lawViolation (t : Tables) : Option String :=
  t.glob.findSome? fun e =>
    if e.1.1 == ['*'] && e.2 != some (!e.1.2.contains '/') then some s!"G1 glob(*,{showStr e.1.2})"
    else if isSimple e.1.1 && e.2 != some (e.1.1 == e.1.2) then some s!"G2 glob({showStr e.1.1},{showStr e.1.2})"
    else if e.2.isNone && t.glob.any (fun e' => e'.1.1 == e.1.1 && e'.2.isSome) then
      some s!"G3 part {showStr e.1.1} errs on some components only"
    else none

/-- every comparison the model can make for these patterns and components is in the table -/
def Tables.covers (t : Tables) (pats : List Pattern) (comps : List Str) : Bool :=
  comps.all (fun cc => t.hasGlob ['*'] cc) &&
  pats.all fun p => p.parts.all fun q => q.simple || q.pat == [] || comps.all fun cc => t.hasGlob q.pat cc

structure Flags where
  ex : PatternOpts
  inc : PatternOpts
  exLists : List PatList          -- `none` of collectPatterns is reported through `fatal`
  inLists : List PatList
  nEx : Nat                       -- 0 iff `ExcludePatternOptions.Empty()`
  nIn : Nat
  allValid : Bool                 -- both CollectPatterns calls succeeded

/-- pattern options of restore / rewrite. Records (command line order):
    `ex|iex|in|iin <hex value>` flag values; `exf|iexf|inf|iinf <hex line>*` one record per pattern
    file with its lines. The lists are built by the model's `collectPatterns`. -/
def flagsOf (c : Case) (t : Tables) : Except String Flags := do
  let raw (k : String) : List Str := (c.findAll k).toList.map fun r => strOf (r.getD 1 "-")
  let files (k : String) : List (List Str) := (c.findAll k).toList.map fun r => (r.toList.drop 1).map strOf
  let ex : PatternOpts := ⟨raw "ex", raw "iex", files "exf", files "iexf"⟩
  let inc : PatternOpts := ⟨raw "in", raw "iin", files "inf", files "iinf"⟩
  -- every pattern string the model will clean must be in the oracle table
  let all := ex.sens ++ ex.insens ++ ex.insens.map lowerStr ++ inc.sens ++ inc.insens ++ inc.insens.map lowerStr ++
    readPatternLines ex.files ++ readPatternLines ex.ifiles ++ readPatternLines inc.files ++ readPatternLines inc.ifiles
  if all.any (fun p => !p.isEmpty && !(t.clean.any (·.1 == (if p.head? == some '!' then p.drop 1 else p)))) then
    throw "missing-clean-entry"
  let exC := collectPatterns t.cleanF t.globF ex
  let inC := collectPatterns t.cleanF t.globF inc
  pure { ex := ex, inc := inc, exLists := exC.getD [], inLists := inC.getD [],
         nEx := if ex.isEmpty then 0 else 1, nIn := if inc.isEmpty then 0 else 1,
         allValid := exC.isSome && inC.isSome }

/-- all parsed patterns the model may evaluate or validate (for the glob table coverage check) -/
def Flags.allPatterns (f : Flags) (t : Tables) : List Pattern :=
  (f.exLists ++ f.inLists).flatMap (·.pats) ++
  parsedOr t.cleanF (f.ex.sens ++ f.ex.insens ++ f.inc.sens ++ f.inc.insens)

/-- names-path of a listing path string "/a/b" -/
def namesOf (path : Str) : List Str := (splitPath path).drop 1

/-- rebuild a tree from listing records `(names-path, type f|d|o, size)` -/
def buildTree (es : List (List Str × String × Nat)) : Nat → List Str → List Node
  | 0, _ => []
  | d + 1, pre =>
    (es.filter fun e => e.1.length == pre.length + 1 && e.1.take pre.length == pre).map fun e =>
      let name := e.1.getLast?.getD []
      if e.2.1 == "d" then .dir name (buildTree es d e.1)
      else if e.2.1 == "f" then .file name e.2.2
      else .other name (e.2.1 == "s")

def listingOf (c : Case) (key : String) : List (List Str × String × Nat) :=
  (c.findAll key).toList.map fun r => (namesOf (strOf (r.getD 1 "-")), r.getD 2 "o", (r.getD 3 "0").toNat!)

def treeOf (c : Case) (key : String) : List Node :=
  let es := listingOf c key
  buildTree es ((es.map (·.1.length)).foldl max 0 + 1) []

/-- all components (and their lower-case forms) occurring in the item paths of a tree -/
def compsOfTree (root : List Node) : List Str :=
  let cs := ((entries [] root).flatMap fun e => e.path) ++ [slash, []]
  (cs ++ cs.map lowerStr).eraseDups

end Driver.FT
