import Driver.PruneLib
/-! Driver for C09 (prune safety): plan / trace / crash cases, see `Driver/PruneLib.lean`. -/
def main : IO Unit := Driver.mainLoop PruneLib.handle
