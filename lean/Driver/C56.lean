import Driver.Common
import Restic.Model.IndexMap
import Std.Data.HashMap
/-!
Driver for C56 (history correspondence of the real `indexMap` against `Restic.Model.IndexMap`).
Records of a case, processed in order:
  profile <name>
  hash <id> <u64>                     64-bit maphash of an id in this map (oracle for `hash`)
  add <id:pack:off:len:ulen>          op: m.add(...)
  prealloc <n>                        op: m.preallocate(n)
  len <numentries> <len(buckets)>     observation after every op
  q <id> <firstIndex> <get|-> <e>*    observation: firstIndex(id), get(id), valuesWithID(id)
  values <e>*                         observation: values()
  panic <hexmsg>                      the preceding op / observation panicked in the implementation
  hashmismatch <id>                   harness self-check failed
ids are hex with trailing zero bytes trimmed.
-/
open Driver Restic.Model.IndexMap

namespace C56

def parseID (s : String) : ID := (unhex s).getD []

def parseVal (s : String) : Option Val :=
  match s.splitOn ":" with
  | [i, p, o, l, u] =>
    match p.toNat?, o.toNat?, l.toNat?, u.toNat? with
    | some p, some o, some l, some u => some ⟨parseID i, p, o, l, u⟩
    | _, _, _, _ => none
  | _ => none

def parseVals (r : Array String) (from_ : Nat) : List Val :=
  (r.toList.drop from_).filterMap parseVal

structure St where
  table : Std.HashMap ID Nat := {}
  m : Res IndexMap := .ok IndexMap.empty
  ins : Array Val := #[]
  firstSeen : Std.HashMap ID Int := {}
  labels : List String := []
  verdict : Option Verdict := none   -- first spec-false (ends the case)
  differ : Option Verdict := none    -- first model/implementation difference (the case goes on: a spec-false later on wins)
  nq : Nat := 0
  maxBuckets : Nat := 0

def St.hash (s : St) : ID → Nat := fun id => s.table.getD id 0

def St.fail (s : St) (v : Verdict) : St :=
  match v with
  | .differ _ _ => if s.differ.isSome then s else { s with differ := some v }
  | _ => if s.verdict.isSome then s else { s with verdict := some v }

def St.label (s : St) (l : String) : St := if s.labels.contains l then s else { s with labels := l :: s.labels }

def showVal (v : Val) : String := s!"{hex v.id}:{v.packIndex}:{v.offset}:{v.length}:{v.ulen}"
def showVals (l : List Val) : String := "[" ++ ",".intercalate (l.map showVal) ++ "]"

def resTag {α} : Res α → String
  | .ok _ => "ok" | .panic m => "panic(" ++ m.replace " " "_" ++ ")" | .hang => "hang"

def stepRec (s : St) (r : Array String) : St :=
  if s.verdict.isSome then s else
  let key := r.getD 0 ""
  let hash := s.hash
  if key == "profile" then s.label (r.getD 1 "?")
  else if key == "hash" then { s with table := s.table.insert (parseID (r.getD 1 "-")) ((r.getD 2 "0").toNat?.getD 0) }
  else if key == "hashmismatch" then s.fail (.differ "hash-oracle" (r.getD 1 "?"))
  else if key == "add" then
    match parseVal (r.getD 1 "") with
    | none => s.fail (.differ "protocol" "bad-add")
    | some v =>
      let m' := match s.m with | .ok m => m.add hash v | e => e
      { s with m := m', ins := s.ins.push v }
  else if key == "prealloc" then
    let n := (r.getD 1 "0").toNat?.getD 0
    let m' := match s.m with | .ok m => m.preallocate hash n | e => e
    (if n == 0 then s.label "prealloc0" else s.label "prealloc") |> fun s => { s with m := m' }
  else if key == "panic" then
    -- the model has no reachable panic below 2^bloomShift entries; a panic of the real code is a violation
    s.fail (.specfalse "C56:panic" ((unhexStr (r.getD 1 "-")).getD "?" |>.replace " " "_"))
  else
  match s.m with
  | .panic msg => s.fail (.differ "model-panic" (msg.replace " " "_"))
  | .hang => s.fail (.differ "model-hang" "-")
  | .ok m =>
  if key == "len" then
    let n := (r.getD 1 "0").toNat?.getD 0
    let nb := (r.getD 2 "0").toNat?.getD 0
    -- `specLen ins n` is `n == ins.length`; the array size avoids rebuilding the list after every op
    if !(n == s.ins.size) then s.fail (.specfalse "C56:len:wrong-count" s!"len={n} inserted={s.ins.size}")
    else if m.len != n then s.fail (.differ "len" s!"model={m.len} impl={n}")
    else { s with maxBuckets := max s.maxBuckets nb }
  else
  let ins := s.ins.toList
  if key == "values" then
    let out := parseVals r 1
    if !specValues ins out then
      let sig := if ins.any (fun v => !out.contains v) then "C56:values:entry-missing" else "C56:values:entry-extra-or-repeated"
      s.fail (.specfalse sig s!"inserted={ins.length} yielded={out.length}")
    else match m.values with
      | .ok l => if (l.map (·.v)).isPerm out then s else s.fail (.differ "values" "model-differs")
      | e => s.fail (.differ "values" ("model=" ++ resTag e))
  else if key == "q" then
    let id := parseID (r.getD 1 "-")
    let fi : Int := (r.getD 2 "0").toInt?.getD 0
    let g : Option Val := if r.getD 3 "-" == "-" then none else parseVal (r.getD 3 "")
    let out := parseVals r 4
    let want := ins.filter fun v => v.id == id
    let s := { s with nq := s.nq + 1 }
    -- the property predicate on the implementation's own answers
    if !specValuesWithID ins id out then
      let sig := if want.any (fun v => !out.contains v) then "C56:valuesWithID:entry-missing"
                 else if out.any (fun v => v.id != id) then "C56:valuesWithID:entry-of-other-id"
                 else "C56:valuesWithID:entry-extra-or-repeated"
      s.fail (.specfalse sig s!"id={hex id} want={showVals want} got={showVals out}")
    else if !specGet ins id g then
      s.fail (.specfalse (if g.isNone then "C56:get:present-id-not-found" else "C56:get:not-an-inserted-entry")
        s!"id={hex id} want-one-of={showVals want} got={showVals g.toList}")
    else
    let prev := s.firstSeen.get? id
    if prev.isSome && prev != some fi then
      s.fail (.specfalse "C56:firstIndex:changed" s!"id={hex id} before={prev.getD 0} now={fi}")
    else if !specFirstIndex ins id fi then
      s.fail (.specfalse "C56:firstIndex:wrong-position" s!"id={hex id} want={firstPos ins id} got={fi}")
    else
    let s := if fi ≥ 0 then { s with firstSeen := s.firstSeen.insert id fi } else s
    -- model against implementation
    match m.valuesWithID hash id, m.get hash id, m.firstIndex hash id with
    | .ok mv, .ok mg, .ok mf =>
      if !((mv.map (·.v)).isPerm out) then s.fail (.differ "valuesWithID" s!"id={hex id}")
      else if mg.isSome != g.isSome then s.fail (.differ "get" s!"id={hex id}")
      else if mf != fi then s.fail (.differ "firstIndex" s!"id={hex id} model={mf} impl={fi}")
      else
        let s := if out.length ≥ 2 then s.label "multi" else s
        let s := if out.length ≥ 2 && out.eraseDups.length != out.length then s.label "exact-dup" else s
        let s := if out.isEmpty then s.label "absent" else s
        -- which path of the bloom early exit was taken
        let ptr := m.buckets.getD (m.hashOf hash id) 0
        let s := if out.isEmpty && ptr != 0 && bloomHasID ptr id then s.label "bloom-false-positive" else s
        let s := if out.isEmpty && ptr != 0 && !bloomHasID ptr id then s.label "bloom-early-exit" else s
        s
    | a, b, c => s.fail (.differ "query" s!"model vwi={resTag a} get={resTag b} firstIndex={resTag c}")
  else s

def log2 (n : Nat) : Nat := if n ≤ 1 then 0 else Nat.log2 n

def handle (c : Case) : Verdict :=
  let s := c.recs.foldl stepRec {}
  match s.verdict, s.differ with
  | some v, _ => v
  | none, some d => d
  | none, none =>
    let n := s.ins.size
    let sz := if n == 0 then "n0" else if n < 16 then "n<16" else if n < 256 then "n<256" else if n < 4096 then "n<4096" else "n>=4096"
    let grow := if s.maxBuckets > 64 then [s!"doublings{log2 (s.maxBuckets / 64)}"] else []
    .agree (n ≥ 2 && s.nq ≥ 1) (sz :: grow ++ s.labels)

end C56

def main : IO Unit := mainLoop C56.handle
