import Driver.Common
import Restic.Model.Incremental
/-!
Driver for C40 (records: see harness/main/c40.go). One case = one backup step on an edited source.
`cur` is the source as lstat shows it, `parent` the tree of the parent snapshot, `incr` / `full`
the trees stored by the real backup with the parent and with --force. A file's content is
represented by its path; `chunkIDs` (what chunking the current content yields) is read off the
forced backup. (a) model: `incrBackup` on (parent, cur) must equal the real `incr` tree;
(b) spec: under the hypothesis `HypOK` the real incr tree and root tree id equal the real full ones;
the snapshot is omitted iff --skip-if-unchanged ∧ parent exists ∧ parent tree = new tree.
-/
open Driver Restic.Model.Incremental

structure Flat40 where
  depth : Nat
  name : Bytes
  kind : String
  md : Nat
  fi : FileInfo
  ids : List String

def parseFlat40 (r : Array String) : Flat40 :=
  { depth := (r.getD 1 "0").toNat!, name := (unhex (r.getD 2 "-")).getD [], kind := r.getD 3 "other",
    md := (r.getD 4 "0").toNat!,
    fi := { size := (r.getD 5 "0").toNat!, mtime := (r.getD 6 "0").toInt!, ctime := (r.getD 7 "0").toInt!, inode := (r.getD 8 "0").toNat! },
    ids := if r.getD 9 "-" == "-" then [] else (r.getD 9 "-").splitOn "," }

/-- snapshot nodes at depth `d` from a preorder list -/
def buildT : Nat → Nat → List Flat40 → List (TNode String) × List Flat40
  | 0, _, l => ([], l)
  | fuel + 1, d, l =>
    match l with
    | [] => ([], [])
    | f :: rest =>
      if f.depth < d then ([], l) else
      if f.kind == "dir" then
        let (kids, rest') := buildT fuel (d + 1) rest
        let (sibs, rest'') := buildT fuel d rest'
        (TNode.dir f.name f.md kids :: sibs, rest'')
      else
        let (sibs, rest') := buildT fuel d rest
        ((if f.kind == "file" then TNode.file f.name f.md f.fi f.ids else TNode.other f.name f.md) :: sibs, rest')

/-- source items; the content of a file is represented by its path -/
def buildS : Nat → Nat → List UInt8 → List Flat40 → List Src × List Flat40
  | 0, _, _, l => ([], l)
  | fuel + 1, d, pre, l =>
    match l with
    | [] => ([], [])
    | f :: rest =>
      if f.depth < d then ([], l) else
      let p := pre ++ [47] ++ f.name
      if f.kind == "dir" then
        let (kids, rest') := buildS fuel (d + 1) p rest
        let (sibs, rest'') := buildS fuel d pre rest'
        (Src.dir f.name f.md kids :: sibs, rest'')
      else
        let (sibs, rest') := buildS fuel d pre rest
        ((if f.kind == "file" then Src.file f.name f.md f.fi p else Src.other f.name f.md) :: sibs, rest')

/-- path -> content ids in a snapshot tree -/
partial def idsByPath (pre : List UInt8) : TNode String → List (List UInt8 × List String)
  | .file n _ _ c => [(pre ++ [47] ++ n, c)]
  | .other .. => []
  | .dir n _ cs => cs.flatMap (idsByPath (pre ++ [47] ++ n))

partial def countKinds : TNode String → Nat × Nat
  | .file .. => (1, 0)
  | .other .. => (0, 0)
  | .dir _ _ cs => cs.foldl (fun a c => let r := countKinds c; (a.1 + r.1, a.2 + r.2)) (0, 1)

partial def reusedFiles (parentIDs : List (List UInt8 × List String)) (pre : List UInt8) : TNode String → Nat
  | .file n _ _ c => if !c.isEmpty && parentIDs.any (fun pc => pc.1 == pre ++ [47] ++ n && pc.2 == c) then 1 else 0
  | .other .. => 0
  | .dir n _ cs => cs.foldl (fun a c => a + reusedFiles parentIDs (pre ++ [47] ++ n) c) 0

def handleC40 (c : Case) : Verdict :=
  if (c.findAll "error").size > 0 then .specfalse "C40:backup-failed" "backup-returned-an-error" else
  match c.find "step", c.find "trees" with
  | some st, some tr =>
    let fl : Flags := cliFlags (st.getD 2 "0" == "1") (st.getD 3 "0" == "1")
    let skipReq := st.getD 4 "0" == "1"
    let flats (k : String) := (c.findAll k).toList.map parseFlat40
    let one (l : List (TNode String)) := match l with | [t] => some t | _ => none
    let curL := flats "cur"
    let cur := match (buildS (curL.length + 1) 0 [] curL).1 with | [s] => some s | _ => none
    let parent := one (buildT ((flats "parent").length + 1) 0 (flats "parent")).1
    let incr := one (buildT ((flats "incr").length + 1) 0 (flats "incr")).1
    let full := one (buildT ((flats "full").length + 1) 0 (flats "full")).1
    let created := tr.getD 4 "0" == "1"
    let incrID := tr.getD 1 "-"; let fullID := tr.getD 2 "-"; let parentTreeID := tr.getD 3 "-"
    match cur, full with
    | some cur, some full =>
      let table := idsByPath [] full
      let chunkIDs : Bytes → List String := fun p => ((table.find? (·.1 == p)).map (·.2)).getD ["<no-such-file-in-full-backup>"]
      if tr.getD 6 "-" != "-" then .specfalse "C40:force-used-a-parent" "snapshot made with --force records a parent" else
      match parent with
      | none =>
        -- no parent snapshot was used although one exists (the initial backup always precedes)
        .specfalse "C40:no-parent-selected" "incremental run did not use the latest snapshot as parent"
      | some parent =>
        let hyp := HypOK chunkIDs fl (some parent) cur
        let model := incrBackup chunkIDs (fun _ => true) fl parent cur
        let expectSkip := skipReq && (parentTreeID == fullID)
        -- spec on the implementation's own output
        let specV : Option (String × String) :=
          if hyp && !skipSpecOK skipReq true (parentTreeID == fullID) (!created) then
            some (if created then "C40:skip:snapshot-created-although-tree-equals-parent" else "C40:skip:snapshot-omitted-although-tree-differs-or-not-requested",
                  s!"skip={skipReq} parentTree={parentTreeID} newTree={fullID} created={created}")
          else if !created then none
          else match incr with
            | none => some ("C40:incr-tree-unreadable", "")
            | some incr =>
              if !specOK hyp incr full then some ("C40:tree-with-parent-differs-from-tree-without", s!"edits={st.getD 5 ""} flags={repr fl}")
              else if hyp && incrID != fullID then some ("C40:tree-id-with-parent-differs-from-id-without", s!"incr={incrID} full={fullID}")
              else none
        match specV with
        | some (sig, d) => .specfalse sig d
        | none =>
          -- model vs implementation
          let diff : Option String :=
            if !created then (if hyp && !expectSkip then some "model expects a snapshot" else none)
            else match incr with
              | some incr => if TNode.beq model incr then none else some s!"incr tree: edits={st.getD 5 ""} flags={repr fl}"
              | none => some "no incr tree"
          match diff with
          | some d => .differ "incremental-tree" d
          | none =>
            let pIDs := idsByPath [] parent
            let reused := match incr with | some i => reusedFiles pIDs [] i | none => 0
            let (nf, nd) := countKinds full
            let labels := ((st.getD 5 "").splitOn ",").map ("edit-" ++ ·) ++
              (if st.getD 2 "0" == "1" then ["opt-ignore-ctime"] else []) ++ (if st.getD 3 "0" == "1" then ["opt-ignore-inode"] else []) ++
              (if skipReq then ["skip-requested"] else []) ++ (if !created then ["snapshot-omitted"] else []) ++
              (if hyp then ["hyp-holds"] else ["hyp-violated-trees-differ-as-predicted"]) ++
              (if reused > 0 then ["content-reused"] else ["nothing-reused"]) ++
              (if nf > 5 then ["files>5"] else ["files<=5"]) ++ (if nd > 1 then ["subdirs"] else []) ++ [c.stream]
            .agree (reused > 0 || !hyp) labels.eraseDups
    | _, _ => .differ "protocol" "cur-or-full-tree-not-rebuilt"
  | _, _ => .differ "protocol" "no-step-or-trees-record"

def main : IO Unit := mainLoop handleC40
