import Driver.Common
import Restic.Model.Lru
import Restic.Gen.Consts
/-!
Driver for C47 (records: see harness/main/c47.go).
  seq:   model and implementation are run through the same controlled schedule and compared after
         every operation (returned results, free/size, LRU order with capacities, in-progress ids,
         calls inside compute()); the property predicates are evaluated on the implementation's output.
  storm: free-running goroutines; only the property predicates (on the implementation's output).
  new:   bloblru.New accepts exactly the sizes the model accepts.
-/
open Driver Restic.Model.Lru

def ov : Nat := Restic.Gen.bloblru_overhead

def splitCSV (s : String) : List String := if s == "-" then [] else s.splitOn ","

/-- `k:cap,k:cap` → entries (values unknown: 0) -/
def parseEntries (s : String) : Option (List Entry) :=
  (splitCSV s).mapM fun t =>
    match t.splitOn ":" with
    | [k, c] => do
      let k ← k.toNat?
      let c ← c.toNat?
      pure { key := k, val := 0, cap := c }
    | _ => none

def showEntries (es : List Entry) : String :=
  if es.isEmpty then "-" else ",".intercalate (es.map fun e => s!"{e.key}:{e.cap}")

def showNats (l : List Nat) : String := if l.isEmpty then "-" else ",".intercalate (l.map toString)

def insertSorted (x : Nat) : List Nat → List Nat
  | [] => [x]
  | y :: ys => if x ≤ y then x :: y :: ys else y :: insertSorted x ys
def sortNats (l : List Nat) : List Nat := l.foldr insertSorted []

/-- budget predicate on a snapshot line `<free> <size> <entries>` of the implementation -/
def snapBudget (r : Array String) (i : Nat) : Option (Bool × Cache) := do
  let free ← (r.getD i "").toInt?
  let size ← (r.getD (i+1) "").toInt?
  let es ← parseEntries (r.getD (i+2) "-")
  let c : Cache := { entries := es, free := free, size := size, maxEntries := 0, overhead := ov }
  pure (budgetOK c, c)

def budgetSig (c : Cache) : String :=
  if c.free < 0 then "C47:budget:free-negative"
  else if held c.entries > c.size then "C47:budget:held-bytes-exceed-size"
  else "C47:budget:accounting-broken"

/-- let every call that waits on a closed channel run until it blocks again -/
def wakeAll (s : Sys) : Sys := Id.run do
  let mut s := s
  for t in [0:s.threads.length] do
    s := runUntilBlocked s t 12
  return s

def handleSeq (c : Case) : Verdict := Id.run do
  let some newR := c.find "new" | return .differ "protocol" "no-new"
  let some size := (newR.getD 1 "").toInt? | return .differ "protocol" "bad-size"
  let cache ← match new ov size with
    | .ok c => pure c
    | .panic => return .differ "new" "model: New panics"
  let mut s := initSys cache
  let mut firstDiffer : Option (String × String) := none
  let mut reported : List Nat := []          -- calls whose return has been matched already
  let mut labels : List String := ["seq"]
  let add (ls : List String) (l : String) : List String := if ls.contains l then ls else ls ++ [l]
  let mut nt := false
  let mut pendingRets : List (Nat × Res) := []     -- implementation's returns since the last op
  let mut opName := ""
  for r in c.recs do
    match r.getD 0 "" with
    | "op" =>
      pendingRets := []
      opName := " ".intercalate r.toList
      if r.getD 1 "" == "call" then
        let some t := (r.getD 2 "").toNat? | return .differ "protocol" "bad-call"
        let some k := (r.getD 3 "").toNat? | return .differ "protocol" "bad-call"
        if t != s.threads.length then return .differ "protocol" "call-index"
        s := act s (.spawn k)
        s := runUntilBlocked s t 12
        match s.threads[t]? with
        | some th =>
          match th.pc with
          | .done _ => labels := add labels "hit"
          | .waiting _ => labels := add labels "wait-for-other"
          | .computing true => labels := add labels "compute-owner"
          | _ => pure ()
        | none => pure ()
      else
        let some t := (r.getD 2 "").toNat? | return .differ "protocol" "bad-finish"
        let o : Oracle :=
          if r.getD 3 "" == "ok" then .ok ((r.getD 4 "").toNat?.getD 0) ((r.getD 5 "").toNat?.getD 0) else .fail
        match s.threads[t]? with
        | some th =>
          match th.pc with
          | .computing ow =>
            if !ow then labels := add labels "compute-non-owner"
            let before := s.cache.entries.length
            s := act s (.step t o)
            s := runUntilBlocked s t 12
            s := wakeAll s
            match o with
            | .fail => labels := add labels "compute-fail"
            | .ok _ cap =>
              if ((cap + ov : Nat) : Int) > s.cache.size then labels := add labels "oversize"
              else if s.cache.entries.length ≤ before && before > 0 then labels := add labels "evicted"
              nt := true
          | _ => if firstDiffer.isNone then firstDiffer := some ("schedule", s!"model: call {t} is not in compute() at {opName}")
        | none => return .differ "protocol" "finish-unknown-call"
    | "ret" =>
      let some t := (r.getD 1 "").toNat? | return .differ "protocol" "bad-ret"
      let some th := s.threads[t]? | return .differ "protocol" "ret-unknown-call"
      let impl : Res := if r.getD 2 "" == "ok" then .ok ((r.getD 4 "").toNat?.getD 0) else .err
      -- the property on the implementation's own output
      match impl with
      | .ok v =>
        let bk := r.getD 3 ""
        if bk != "-1" && bk != toString th.key then
          return .specfalse "C47:value:blob-of-another-id" s!"call {t} key {th.key} got blob of key {bk} ({opName})"
        if !resultOK s.produced th impl then
          return .specfalse "C47:value:never-computed-for-this-id" s!"call {t} key {th.key} val {v} ({opName})"
      | .err =>
        if !resultOK s.produced th impl then
          return .specfalse "C47:value:error-of-another-caller" s!"call {t} key {th.key} ({opName})"
      pendingRets := pendingRets ++ [(t, impl)]
    | "st" =>
      -- property: budget on the implementation's snapshot
      let some (ok, ic) := snapBudget r 1 | return .differ "protocol" "bad-st"
      if !ok then return .specfalse (budgetSig ic) s!"free={ic.free} size={ic.size} entries={showEntries ic.entries} after {opName}"
      -- model vs implementation
      if firstDiffer.isNone then
        let modelRets : List (Nat × Res) := Id.run do
          let mut l := []
          for t in [0:s.threads.length] do
            match s.threads[t]? with
            | some th => match th.pc with
              | .done res => if !reported.contains t then l := l ++ [(t, res)]
              | _ => pure ()
            | none => pure ()
          return l
        let showRets (l : List (Nat × Res)) : String :=
          " ".intercalate (l.map fun (t, r) => match r with | .ok v => s!"{t}=ok:{v}" | .err => s!"{t}=err")
        let modelComputing := (List.range s.threads.length).filter fun t =>
          match s.threads[t]? with | some th => (match th.pc with | .computing _ => true | _ => false) | none => false
        let mEntries := showEntries s.cache.entries
        let mInprog := showNats (sortNats (s.inProgress.map (·.1)))
        if showRets modelRets != showRets pendingRets then
          firstDiffer := some ("returns", s!"after {opName}: model [{showRets modelRets}] impl [{showRets pendingRets}]")
        else if toString s.cache.free != r.getD 1 "" || toString s.cache.size != r.getD 2 "" then
          firstDiffer := some ("free-size", s!"after {opName}: model {s.cache.free}/{s.cache.size} impl {r.getD 1 ""}/{r.getD 2 ""}")
        else if mEntries != r.getD 3 "-" then
          firstDiffer := some ("lru-order", s!"after {opName}: model {mEntries} impl {r.getD 3 "-"}")
        else if mInprog != r.getD 4 "-" then
          firstDiffer := some ("in-progress", s!"after {opName}: model {mInprog} impl {r.getD 4 "-"}")
        else if showNats modelComputing != r.getD 5 "-" then
          firstDiffer := some ("computing", s!"after {opName}: model {showNats modelComputing} impl {r.getD 5 "-"}")
        reported := reported ++ modelRets.map (·.1)
      pendingRets := []
    | "stuck" => return .differ "stuck" (" ".intercalate r.toList)
    | _ => pure ()
  -- at the end every call has returned and nothing is in progress
  if firstDiffer.isNone && s.threads.any (fun th => match th.pc with | .done _ => false | _ => true) then
    firstDiffer := some ("end", "model: some call has not returned")
  match firstDiffer with
  | some (f, d) => return .differ f d
  | none => return .agree nt labels

def handleStorm (c : Case) : Verdict := Id.run do
  if let some r := c.find "stuck" then return .differ "stuck" (" ".intercalate r.toList)
  let prods : List (Key × Val) := (c.findAll "prod").toList.map fun r =>
    ((r.getD 1 "").toNat?.getD 0, (r.getD 2 "").toNat?.getD 0)
  let mut labels : List String := ["storm"]
  let add (ls : List String) (l : String) : List String := if ls.contains l then ls else ls ++ [l]
  let mut shared := false
  for r in c.findAll "ret" do
    let key := (r.getD 2 "").toNat?.getD 0
    if r.getD 3 "" == "ok" then
      let bk := r.getD 4 ""
      let v := (r.getD 5 "").toNat?.getD 0
      if bk != "-1" && bk != toString key then
        return .specfalse "C47:value:blob-of-another-id" s!"key {key} got blob of key {bk}"
      if !resultOK prods { key := key, pc := .start } (.ok v) then
        return .specfalse "C47:value:never-computed-for-this-id" s!"key {key} val {v}"
      labels := add labels "ok"
    else
      if r.getD 4 "" != "1" then
        return .specfalse "C47:value:error-of-another-caller" s!"key {key}"
      labels := add labels "err"
  let rets := (c.findAll "ret").size
  if rets > prods.length then shared := true
  let mut maxEntries := 0
  for r in c.findAll "snap" do
    let some (ok, ic) := snapBudget r 1 | return .differ "protocol" "bad-snap"
    if !ok then return .specfalse (budgetSig ic) s!"free={ic.free} size={ic.size} entries={showEntries ic.entries}"
    if ic.entries.length > maxEntries then maxEntries := ic.entries.length
  if shared then labels := add labels "results-shared-or-cached"
  labels := add labels s!"max-entries-{if maxEntries > 3 then "4+" else toString maxEntries}"
  return .agree (!prods.isEmpty) labels

def handleNew (c : Case) : Verdict := Id.run do
  for r in c.findAll "new" do
    let some size := (r.getD 1 "").toInt? | return .differ "protocol" "bad-size"
    let m := match new ov size with | .ok _ => "ok" | .panic => "panic"
    if m != r.getD 2 "" then return .differ "new" s!"size {size}: model {m} impl {r.getD 2 ""}"
  return .agree true ["new"]

/-- fusepath: whole blobs fetched through fuse's getBlobAt by concurrent readers under eviction
    pressure; `rdh <g> <off> <n> ok <len> <sha got> <sha of the blob stored for that id>` -/
def handleFusePath (c : Case) : Verdict := Id.run do
  if (c.find "open").map (·.getD 1 "") != some "ok" then return .differ "open" "fusepath: open failed"
  let mut n := 0
  for r in c.findAll "rdh" do
    let ctx := s!"goroutine={r.getD 1 ""} blob-at-offset={r.getD 2 ""} len={r.getD 3 ""}"
    match r.getD 4 "" with
    | "ok" =>
      if r.getD 5 "" != r.getD 3 "" then
        return .specfalse "C47:value:blob-length-differs" s!"{ctx} got-len={r.getD 5 ""}"
      if r.getD 6 "" != r.getD 7 "?" then
        return .specfalse "C47:value:blob-bytes-changed-under-eviction" s!"{ctx} sha-got={r.getD 6 ""} sha-want={r.getD 7 ""}"
      n := n + 1
    | "err" => return .specfalse "C47:value:error-without-failed-compute" s!"{ctx} {(unhexStr (r.getD 5 "-")).getD "?"}"
    | _ => return .specfalse "C47:panic" ctx
  return .agree (n > 0) ["fusepath", "concurrent-eviction"]

def handleC47 (c : Case) : Verdict :=
  match c.stream with
  | "fusepath" => handleFusePath c
  | "seq" => handleSeq c
  | "storm" => handleStorm c
  | "new" => handleNew c
  | _ => .differ "protocol" "unknown-substream"

def main : IO Unit := mainLoop handleC47
