import Driver.Common
import Restic.Model.Fuse
/-!
Driver for C46. Records per case (see harness/main/c46.go):
  blob <index size | -> <hex content> <loads 0/1>
  nodesize <declared>
  open ok <size> | open err <msg> | open panic
  rd <goroutine> <offset> <size> ok <hex> | err | panic
-/
open Driver Restic.Model.Fuse

structure Entry where
  size : Option Nat
  content : List UInt8
  loads : Bool

def parseEntry (r : Array String) : Entry :=
  { size := (r.getD 1 "-").toNat?, content := (unhex (r.getD 2 "-")).getD [], loads := r.getD 3 "1" == "1" }

def resStr : ReadRes UInt8 → String
  | .ok d => s!"ok:{hex d}"
  | .err => "err"
  | .panic => "panic"

def handleC46 (c : Case) : Verdict := Id.run do
  let entries := (c.findAll "blob").toList.map parseEntry
  let blobs := entries.map (·.content)
  let total := blobs.flatten.length
  let some openR := c.find "open" | return .differ "protocol" "no-open-record"
  let missing := entries.any (·.size.isNone)
  let baseLabels : List String :=
    [c.stream, s!"nblobs-{if entries.length > 4 then "5+" else toString entries.length}"] ++
    (if blobs.any (·.isEmpty) then ["has-empty-blob"] else []) ++
    (if entries.any (!·.loads) then ["has-failing-blob"] else [])
  -- file.Open: fails iff some content id is not in the index
  if openR.getD 1 "" == "panic" then return .specfalse "C46:open:panic" "file.Open panicked"
  if openR.getD 1 "" == "err" then
    if missing then return .agree false (baseLabels ++ ["open-error"])
    else return .specfalse "C46:open:error-on-complete-file" ((unhexStr (openR.getD 2 "-")).getD "?")
  if missing then return .differ "open" "model: id not found ⇒ Open fails; impl: ok"
  let file : List (Nat × Option (List UInt8)) :=
    entries.map fun e => (e.size.getD 0, if e.loads then some e.content else none)
  let healthy := entries.all fun e => e.loads && e.size == some e.content.length
  -- size reported after Open = sum of the index sizes
  let cs := cumsize (file.map (·.1))
  -- a model/implementation difference is remembered, but the remaining reads are still examined
  -- for a violation of the property itself (reported in preference)
  let mut firstDiffer : Option (String × String) := none
  if openR.getD 2 "" != toString (cs.getLastD 0) then
    firstDiffer := some ("open-size", s!"model={cs.getLastD 0} impl={openR.getD 2 ""}")
  let mut labels := baseLabels
  let mut nt := false
  for r in c.findAll "rd" do
    let some offI := (r.getD 2 "").toInt? | return .differ "protocol" "bad-offset"
    let some n := (r.getD 3 "").toNat? | return .differ "protocol" "bad-size"
    let off := offsetOfInt offI
    let impl : ReadRes UInt8 :=
      match r.getD 4 "" with
      | "ok" => .ok ((unhex (r.getD 5 "-")).getD [])
      | "err" => .err
      | _ => .panic
    let ctx := s!"off={offI} n={n} sizes={blobs.map (·.length)}"
    -- (b) the property on the implementation's own output
    match impl with
    | .ok out =>
      if !specOK blobs off n out then
        let want := (blobs.flatten.drop off).take n
        let sig :=
          if off ≥ total then "C46:past-eof:data-returned"
          else if out.length < want.length && out == want.take out.length then "C46:range:short-read"
          else if out.length > want.length then "C46:range:too-long"
          else "C46:range:wrong-bytes"
        return .specfalse sig s!"{ctx} want={hex want} got={hex out}"
    | .panic => return .specfalse "C46:read:panic" ctx
    | .err => if healthy then return .specfalse "C46:read:error-on-healthy-file" ctx
    -- (a) model vs implementation
    let model := readAt file off n
    if model != impl && firstDiffer.isNone then
      firstDiffer := some ("read", s!"{ctx} model={resStr model} impl={resStr impl}")
    -- labels
    let add (ls : List String) (l : String) : List String := if ls.contains l then ls else ls ++ [l]
    match impl with
    | .ok out =>
      if !out.isEmpty then nt := true
      if off ≥ total then labels := add labels "past-eof"
      if offI < 0 then labels := add labels "negative-offset"
      if n == 0 then labels := add labels "size-0"
      if cs.contains off && off < total then labels := add labels "at-boundary"
      -- the range covers at least one interior boundary
      if cs.any (fun b => off < b && b < off + out.length) then labels := add labels "crosses-boundary"
      if out.length < n && off < total then labels := add labels "cut-at-eof"
      if out.length == n && n > 0 then labels := add labels "full-read"
    | .err => labels := add labels "read-error"
    | .panic => pure ()
  match firstDiffer with
  | some (f, d) => return .differ f d
  | none => return .agree nt labels

/-- reopen: a sequence of Opens of one node (`att` records) with reads through every returned handle -/
def handleReopen (c : Case) : Verdict := Id.run do
  let entries := (c.findAll "blob").toList.map parseEntry
  let blobs := entries.map (·.content)
  let total := blobs.flatten.length
  let baseSizes : List (Option Nat) := entries.map (·.size)
  let loaded : List (Option (List UInt8)) := blobs.map some
  let mut tables : List (Nat × List Nat) := []       -- attempt number ↦ table of the model's handle
  let mut firstDiffer : Option (String × String) := none
  let mut labels : List String := ["reopen"]
  let add (ls : List String) (l : String) : List String := if ls.contains l then ls else ls ++ [l]
  let mut nt := false
  let mut failedBefore := false
  for r in c.recs do
    match r.getD 0 "" with
    | "att" =>
      let some an := (r.getD 1 "").toNat? | return .differ "protocol" "bad-att"
      let kind := r.getD 2 ""
      let param := (r.getD 3 "").toNat?
      let sizes : List (Option Nat) :=
        if kind == "missing" then
          match param with
          | some k => (List.range baseSizes.length).map fun i => if i == k then none else baseSizes.getD i none
          | none => baseSizes
        else baseSizes
      let cancelAt : Option Nat := if kind == "pre" || kind == "mid" then param else none
      let model := openNode sizes cancelAt
      let implOk := r.getD 4 "" == "ok"
      labels := add labels ("att-" ++ kind)
      if r.getD 4 "" == "panic" then return .specfalse "C46:open:panic" s!"attempt {an} {kind}"
      match model with
      | .ok cs =>
        if !implOk then
          -- nothing prevents this Open from succeeding: every id is in the index, no cancellation in time
          return .specfalse "C46:open:error-on-complete-file" s!"attempt {an} {kind} {r.getD 3 "-"} after-failed-open={failedBefore}: {(unhexStr (r.getD 5 "-")).getD "?"}"
        tables := tables ++ [(an, cs)]
        if failedBefore then labels := add labels "open-after-failed-open"
        if r.getD 5 "" != toString (cs.getLastD 0) && firstDiffer.isNone then
          firstDiffer := some ("open-size", s!"attempt {an}: model={cs.getLastD 0} impl={r.getD 5 ""}")
      | _ =>
        failedBefore := true
        if implOk then
          -- a handle although the Open was cancelled / an id is missing: remember, the reads decide
          tables := tables ++ [(an, cumsize (entries.map fun e => e.content.length))]
          if firstDiffer.isNone then
            firstDiffer := some ("open", s!"attempt {an} {kind}: model fails, impl returns a handle")
    | "rd" =>
      let some an := (r.getD 1 "").toNat? | return .differ "protocol" "bad-rd"
      let some offI := (r.getD 2 "").toInt? | return .differ "protocol" "bad-offset"
      let some n := (r.getD 3 "").toNat? | return .differ "protocol" "bad-size"
      let off := offsetOfInt offI
      let ctx := s!"handle-of-attempt={an} off={offI} n={n} sizes={blobs.map (·.length)}"
      match r.getD 4 "" with
      | "ok" =>
        let out := (unhex (r.getD 5 "-")).getD []
        if !specOK blobs off n out then
          let want := (blobs.flatten.drop off).take n
          let sig :=
            if off ≥ total then "C46:past-eof:data-returned"
            else if out.length < want.length && out == want.take out.length then "C46:reopen:short-read"
            else "C46:reopen:wrong-bytes"
          return .specfalse sig s!"{ctx} want={hex (want.take 40)} got={hex (out.take 40)} gotlen={out.length}"
        if !out.isEmpty then nt := true
        match tables.find? (·.1 == an) with
        | some (_, cs) =>
          if readWith cs loaded off n != ReadRes.ok out && firstDiffer.isNone then
            firstDiffer := some ("read", s!"{ctx} model={resStr (readWith cs loaded off n)}")
        | none => if firstDiffer.isNone then firstDiffer := some ("read", s!"{ctx}: no handle in the model")
      | "err" => return .specfalse "C46:read:error-on-healthy-file" ctx
      | _ => return .specfalse "C46:read:panic" ctx
    | _ => pure ()
  match firstDiffer with
  | some (f, d) => return .differ f d
  | none => return .agree nt labels

/-- pressure / fusepath: concurrent readers under eviction pressure; lengths and digests only -/
def handlePressure (c : Case) : Verdict := Id.run do
  let sizes : List Nat := ((c.find "bsz").map (·.toList.drop 1)).getD [] |>.filterMap String.toNat?
  let total := sizes.sum
  let some openR := c.find "open" | return .differ "protocol" "no-open"
  if openR.getD 1 "" != "ok" then return .specfalse "C46:open:error-on-complete-file" "pressure"
  if openR.getD 2 "" != toString total then return .differ "open-size" s!"{openR.getD 2 ""} vs {total}"
  let cs := cumsize sizes
  let mut nreads := 0
  let mut crossing := 0
  for r in c.findAll "rdh" do
    let off := (r.getD 2 "").toNat?.getD 0
    let n := (r.getD 3 "").toNat?.getD 0
    let ctx := s!"goroutine={r.getD 1 ""} off={off} n={n} blobsizes={sizes}"
    match r.getD 4 "" with
    | "ok" =>
      let len := (r.getD 5 "").toNat?.getD 0
      -- the length the model returns (read_length): min n (total - off)
      let wantLen := min n (total - off)
      if len != wantLen then
        return .specfalse (if len < wantLen then "C46:conc:short-read" else "C46:conc:too-long") s!"{ctx} len={len} want={wantLen}"
      if r.getD 6 "" != r.getD 7 "?" then
        return .specfalse "C46:conc:wrong-bytes-under-eviction" s!"{ctx} sha-got={r.getD 6 ""} sha-want={r.getD 7 ""}"
      nreads := nreads + 1
      if cs.any (fun b => off < b && b < off + len) then crossing := crossing + 1
    | "err" => return .specfalse "C46:read:error-on-healthy-file" s!"{ctx} {(unhexStr (r.getD 5 "-")).getD "?"}"
    | _ => return .specfalse "C46:read:panic" ctx
  return .agree (nreads > 0) ([c.stream, "concurrent-eviction"] ++ (if crossing > 0 then ["crosses-boundary"] else []))

def handleAll (c : Case) : Verdict :=
  match c.stream with
  | "reopen" => handleReopen c
  | "pressure" => handlePressure c
  | "fusepath" => handlePressure c
  | _ => handleC46 c

def main : IO Unit := mainLoop handleAll
