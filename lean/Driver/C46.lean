import Driver.Common
import Restic.Model.Fuse
/-!
Driver for C46. Records per case (see harness/main/c46.go):
  blob <index size | -> <hex content> <loads 0/1>
  nodesize <declared>
  open ok <size> | open err <msg> | open panic
  rd <goroutine> <offset> <size> ok <hex> | err | panic
-/
open Driver Restic.Model.Fuse

structure Entry where
  size : Option Nat
  content : List UInt8
  loads : Bool

def parseEntry (r : Array String) : Entry :=
  { size := (r.getD 1 "-").toNat?, content := (unhex (r.getD 2 "-")).getD [], loads := r.getD 3 "1" == "1" }

def resStr : ReadRes UInt8 → String
  | .ok d => s!"ok:{hex d}"
  | .err => "err"
  | .panic => "panic"

def handleC46 (c : Case) : Verdict := Id.run do
  let entries := (c.findAll "blob").toList.map parseEntry
  let blobs := entries.map (·.content)
  let total := blobs.flatten.length
  let some openR := c.find "open" | return .differ "protocol" "no-open-record"
  let missing := entries.any (·.size.isNone)
  let baseLabels : List String :=
    [c.stream, s!"nblobs-{if entries.length > 4 then "5+" else toString entries.length}"] ++
    (if blobs.any (·.isEmpty) then ["has-empty-blob"] else []) ++
    (if entries.any (!·.loads) then ["has-failing-blob"] else [])
  -- file.Open: fails iff some content id is not in the index
  if openR.getD 1 "" == "panic" then return .specfalse "C46:open:panic" "file.Open panicked"
  if openR.getD 1 "" == "err" then
    if missing then return .agree false (baseLabels ++ ["open-error"])
    else return .specfalse "C46:open:error-on-complete-file" ((unhexStr (openR.getD 2 "-")).getD "?")
  if missing then return .differ "open" "model: id not found ⇒ Open fails; impl: ok"
  let file : List (Nat × Option (List UInt8)) :=
    entries.map fun e => (e.size.getD 0, if e.loads then some e.content else none)
  let healthy := entries.all fun e => e.loads && e.size == some e.content.length
  -- size reported after Open = sum of the index sizes
  let cs := cumsize (file.map (·.1))
  -- a model/implementation difference is remembered, but the remaining reads are still examined
  -- for a violation of the property itself (reported in preference)
  let mut firstDiffer : Option (String × String) := none
  if openR.getD 2 "" != toString (cs.getLastD 0) then
    firstDiffer := some ("open-size", s!"model={cs.getLastD 0} impl={openR.getD 2 ""}")
  let mut labels := baseLabels
  let mut nt := false
  for r in c.findAll "rd" do
    let some offI := (r.getD 2 "").toInt? | return .differ "protocol" "bad-offset"
    let some n := (r.getD 3 "").toNat? | return .differ "protocol" "bad-size"
    let off := offsetOfInt offI
    let impl : ReadRes UInt8 :=
      match r.getD 4 "" with
      | "ok" => .ok ((unhex (r.getD 5 "-")).getD [])
      | "err" => .err
      | _ => .panic
    let ctx := s!"off={offI} n={n} sizes={blobs.map (·.length)}"
    -- (b) the property on the implementation's own output
    match impl with
    | .ok out =>
      if !specOK blobs off n out then
        let want := (blobs.flatten.drop off).take n
        let sig :=
          if off ≥ total then "C46:past-eof:data-returned"
          else if out.length < want.length && out == want.take out.length then "C46:range:short-read"
          else if out.length > want.length then "C46:range:too-long"
          else "C46:range:wrong-bytes"
        return .specfalse sig s!"{ctx} want={hex want} got={hex out}"
    | .panic => return .specfalse "C46:read:panic" ctx
    | .err => if healthy then return .specfalse "C46:read:error-on-healthy-file" ctx
    -- (a) model vs implementation
    let model := readAt file off n
    if model != impl && firstDiffer.isNone then
      firstDiffer := some ("read", s!"{ctx} model={resStr model} impl={resStr impl}")
    -- labels
    let add (ls : List String) (l : String) : List String := if ls.contains l then ls else ls ++ [l]
    match impl with
    | .ok out =>
      if !out.isEmpty then nt := true
      if off ≥ total then labels := add labels "past-eof"
      if offI < 0 then labels := add labels "negative-offset"
      if n == 0 then labels := add labels "size-0"
      if cs.contains off && off < total then labels := add labels "at-boundary"
      -- the range covers at least one interior boundary
      if cs.any (fun b => off < b && b < off + out.length) then labels := add labels "crosses-boundary"
      if out.length < n && off < total then labels := add labels "cut-at-eof"
      if out.length == n && n > 0 then labels := add labels "full-read"
    | .err => labels := add labels "read-error"
    | .panic => pure ()
  match firstDiffer with
  | some (f, d) => return .differ f d
  | none => return .agree nt labels

def main : IO Unit := mainLoop handleC46
