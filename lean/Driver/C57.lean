import Driver.Common
import Restic.Model.Find
/-!
Driver for C57 (`restic.Find`). Records per case (see harness/main/c57.go):
  ids <hex id>*      listed IDs (listing order for sub-stream `fake`, sorted otherwise)
  prefix <hex>       prefix string (bytes)
  listerr 0|1
  res ok <id> | noid <retid> | multiple <retid> | listerr <retid> | other <msg> | panic <msg>
  res found <hex of first 10 name characters> | noid | multiple           (sub-stream `cli`)
-/
open Driver Restic.Model.Find

def kindOf : Res ID32 → String
  | .ok _ => "ok" | .noID => "noid" | .multiple => "multiple" | .listErr => "listerr"

def lenLabel (n : Nat) : String :=
  if n == 0 then "plen0" else if n < 4 then "plen1-3" else if n < 64 then "plen4-63"
  else if n == 64 then "plen64" else "plen65+"

def isHexLower (b : UInt8) : Bool := (48 ≤ b && b ≤ 57) || (97 ≤ b && b ≤ 102)
def isHexAny (b : UInt8) : Bool := isHexLower b || (65 ≤ b && b ≤ 70)

def handleC57 (c : Case) : Verdict :=
  let idsR := (c.find "ids").getD #[]
  let ids? : Option (List ID32) := (idsR.toList.drop 1).mapM unhex
  let p? := (c.find "prefix").bind fun r => unhex (r.getD 1 "-")
  let lf := ((c.find "listerr").map fun r => r.getD 1 "0" == "1").getD false
  match ids?, p?, c.find "res" with
  | some ids, some p, some r =>
    let kind := r.getD 1 ""
    if kind == "panic" then .specfalse "C57:panic" s!"prefix={hex p} msg={r.getD 2 "-"}" else
    -- `FindSnapshot` resolves a full-length ID without listing (no call of Find): nothing to compare
    if c.stream == "cli" && p.length == 64 && p.all isHexAny then .agree false ["cli", "full-id-bypass"] else
    if kind == "other" then .differ "result" s!"unclassified-error {r.getD 2 "-"}" else
    let model := find hexName ids lf p
    let exp := expected hexName ids p
    let nullListed := ids.any isNull32
    let nMatch := (matching hexName ids p).length
    let labels := [c.stream, kindOf model, lenLabel p.length,
        (if ids.length == 0 then "n0" else if ids.length < 4 then "n1-3" else "n4+")] ++
      (if nullListed then ["null-listed"] else []) ++
      (if !(p.all isHexLower) then ["non-hex-prefix"] else []) ++
      (if lf then ["lister-fails"] else []) ++
      (if ids.eraseDups.length != ids.length then ["dup-listing"] else []) ++
      (if nMatch ≥ 2 then ["ambiguous"] else [])
    let nt := nMatch ≥ 1
    if c.stream == "cli" then
      -- `FindSnapshot` resolves a full-length ID without listing: nothing to compare
      if p.length == 64 && p.all isHexAny then .agree false (labels ++ ["full-id-bypass"]) else
      let implKind := if kind == "found" then "ok" else kind
      let implID := if kind == "found" then unhex (r.getD 2 "-") else none
      let ok := match exp, implKind, implID with
        | .ok x, "ok", some y => (hexName x).take 10 == y   -- the load error names 10 characters
        | .noID, "noid", _ => true
        | .multiple, "multiple", _ => true
        | _, _, _ => false
      if !ok then
        let sig := if nullListed then "C57:null-id-listed:wrong-resolution" else "C57:wrong-resolution"
        .specfalse sig s!"cli prefix={hex p} ids={ids.map hex} expected={kindOf exp} got={kind} {r.getD 2 "-"}"
      else .agree nt labels
    else
    let ret? := unhex (r.getD 2 "-")
    match ret? with
    | none => .differ "protocol" "bad-res-id"
    | some ret =>
    let impl? : Option (Res ID32) :=
      if kind == "ok" then some (.ok ret) else if kind == "noid" then some .noID
      else if kind == "multiple" then some .multiple else if kind == "listerr" then some .listErr else none
    match impl? with
    | none => .differ "protocol" s!"bad-res-kind {kind}"
    | some impl =>
      -- the property predicate on the implementation's own output (listing without lister error)
      if !lf && !specOK hexName ids p impl then
        let sig :=
          match exp, impl with
          | .multiple, .ok _ => if nullListed then "C57:null-id-listed:ambiguity-hidden" else "C57:ok-although-several-match"
          | .ok _, .noID => if nullListed then "C57:null-id-listed:unique-match-not-found" else "C57:noid-although-one-matches"
          | .multiple, .noID => if nullListed then "C57:null-id-listed:ambiguity-hidden" else "C57:noid-although-several-match"
          | .ok _, .ok _ => "C57:wrong-id-returned"
          | .ok _, .multiple => "C57:multiple-although-one-matches"
          | .noID, .ok _ => "C57:ok-although-none-matches"
          | _, _ => "C57:wrong-error-kind"
        .specfalse sig s!"prefix={hex p} ids={ids.map hex} expected={repr exp} got={repr impl}"
      else if impl != model then .differ "result" s!"prefix={hex p} ids={ids.map hex} model={repr model} impl={repr impl}"
      else if kind != "ok" && !isNull32 ret then .differ "errid" s!"non-null ID returned with error: {hex ret}"
      else .agree nt labels
  | _, _, _ => .differ "protocol" "missing-or-malformed-record"

def main : IO Unit := mainLoop handleC57
