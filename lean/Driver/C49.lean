import Driver.Common
import Restic.Model.Parse
import Restic.Gen.Consts
/-!
Driver for C49 (command-line value parsers). Record formats: see harness/main/c49.go.
-/
open Driver Restic.Model.Parse Restic.Model.Strconv

def errName : PErr → String
  | .noNumber => "nonumber" | .noUnit => "nounit" | .invalidUnit => "invalidunit"
  | .esyntax => "syntax" | .range => "range" | .emptyString => "emptystring" | .negative => "negative"
  | .emptyKey => "emptykey" | .dupKey => "dup" | .unknownOption => "unknown" | .badDuration => "badduration"
  | .unterminatedSingle => "single" | .unterminatedDouble => "double" | .emptyCommand => "empty"

def errOfName (s : String) : Option PErr :=
  [PErr.noNumber, .noUnit, .invalidUnit, .esyntax, .range, .emptyString, .negative, .emptyKey, .dupKey, .unknownOption, .badDuration,
   .unterminatedSingle, .unterminatedDouble, .emptyCommand].find? (fun e => errName e == s)

def lenLab (s : Str) : String :=
  if s.length == 0 then "len0" else if s.length ≤ 4 then "len1-4" else if s.length ≤ 12 then "len5-12"
  else if s.length ≤ 24 then "len13-24" else "len25+"

def hasLongDigits (s : Str) : Bool :=
  let rec go : Nat → Str → Bool
    | run, [] => run ≥ 19
    | run, c :: cs => if isDigit c then go (run + 1) cs else run ≥ 19 || go 0 cs
  go 0 s

def showOut {α} (f : α → String) : Out α → String
  | .ok v => s!"ok({f v})" | .err e => s!"err({errName e})" | .panic => "panic"

def durStr (d : Duration) : String := s!"h={d.hours},d={d.days},m={d.months},y={d.years}"

/-- parse `ok a b c d` starting at token index i -/
def durOf (r : Array String) (i : Nat) : Option Duration := do
  let h ← (r.getD i "").toInt?
  let d ← (r.getD (i+1) "").toInt?
  let m ← (r.getD (i+2) "").toInt?
  let y ← (r.getD (i+3) "").toInt?
  some ⟨h, d, m, y⟩

def handleDur (c : Case) (s : Str) (r : Array String) : Verdict :=
  let kind := r.getD 1 ""
  let impl? : Option (Out Duration) :=
    if kind == "panic" then some .panic
    else if kind == "err" then (errOfName (r.getD 2 "")).map .err
    else if kind == "ok" then (durOf r 2).map .ok else none
  match impl? with
  | none => .differ "dur" s!"unclassified result {r.toList} in={hex s}"
  | some impl =>
    let model := parseDuration false s
    let labels := ["dur", lenLab s] ++ (if hasLongDigits s then ["digits19+"] else []) ++
      [match model with | .ok _ => "ok" | .err e => "err:" ++ errName e | .panic => "panic"]
    if !specDuration s impl then
      let sig := match impl with
        | .panic => "C49:duration:panic-on-number-beyond-int-range"
        | .ok _ => "C49:duration:accepted-with-wrong-value-or-malformed"
        | .err _ => "C49:duration:valid-string-rejected"
      .specfalse sig s!"in={hex s} impl={showOut durStr impl}"
    else if impl != model then .differ "dur" s!"in={hex s} model={showOut durStr model} impl={showOut durStr impl}"
    else
      -- print / parse round trip on the implementation's own String()
      match impl, c.find "rt" with
      | .ok d, some rt =>
        let str := (unhex (r.getD 6 "-")).getD []
        if str != durationString d then .differ "dur-string" s!"in={hex s} String()={hex str} model={hex (durationString d)}"
        else if rt.getD 1 "" != "ok" || durOf rt 2 != some d then
          .specfalse "C49:duration:print-parse-roundtrip" s!"in={hex s} String()={hex str} reparsed={rt.toList}"
        else .agree true (labels ++ ["roundtrip"])
      | .ok _, none => .differ "protocol" "no-rt-record"
      | _, _ => .agree false labels

def handleInt (what : String) (model : Str → Out Int) (spec : Str → Out Int → Bool) (s : Str) (r : Array String) : Verdict :=
  let kind := r.getD 1 ""
  let impl? : Option (Out Int) :=
    if kind == "panic" then some .panic
    else if kind == "err" then (errOfName (r.getD 2 "")).map .err
    else if kind == "ok" then ((r.getD 2 "").toInt?).map .ok else none
  match impl? with
  | none => .differ what s!"unclassified result {r.toList} in={hex s}"
  | some impl =>
    let m := model s
    let labels := [what, lenLab s] ++ (if hasLongDigits s then ["digits19+"] else []) ++
      [match m with | .ok _ => "ok" | .err e => "err:" ++ errName e | .panic => "panic"]
    if !spec s impl then
      let sig := match impl with
        | .panic => s!"C49:{what}:panic"
        | .ok _ => s!"C49:{what}:accepted-with-wrong-value-or-malformed"
        | .err _ => s!"C49:{what}:valid-string-rejected"
      .specfalse sig s!"in={hex s} impl={showOut toString impl}"
    else if impl != m then .differ what s!"in={hex s} model={showOut toString m} impl={showOut toString impl}"
    else .agree (match m with | .ok _ => true | _ => false) labels

def parseKV (tok : String) : Option (Str × Str) :=
  match tok.splitOn "=" with
  | [k, v] => do some (← unhex k, ← unhex v)
  | _ => none

def kvLt (a b : Str × Str) : Bool := hex a.1 < hex b.1

def sortKV (l : List (Str × Str)) : List (Str × Str) := (l.toArray.qsort kvLt).toList

def handleOpts (c : Case) : Verdict :=
  match (c.find "in").bind (fun r => (r.toList.drop 1).mapM unhex), c.find "res" with
  | some ins, some r =>
    let kind := r.getD 1 ""
    let impl? : Option (Out (List (Str × Str))) :=
      if kind == "panic" then some .panic
      else if kind == "err" then (errOfName (r.getD 2 "")).map .err
      else if kind == "ok" then ((r.toList.drop 2).mapM parseKV).map .ok else none
    match impl? with
    | none => .differ "opts" s!"unclassified result {r.toList}"
    | some impl =>
      let m := optionsParse ins
      if !specOptions ins impl then
        let sig := match impl with
          | .panic => "C49:options:panic"
          | .ok _ => "C49:options:accepted-inconsistent-or-wrong-map"
          | .err _ => "C49:options:consistent-options-rejected"
        .specfalse sig s!"in={ins.map hex}"
      else
        let same := match m, impl with
          | .ok a, .ok b => sortKV a == sortKV b
          | .err a, .err b => a == b
          | _, _ => false
        if !same then .differ "opts" s!"in={ins.map hex} model={showOut (fun l => toString (l.map fun kv => (hex kv.1, hex kv.2))) m} impl={r.toList}"
        else .agree (match m with | .ok l => !l.isEmpty | _ => false)
          ["opts", s!"n{ins.length}", match m with | .ok _ => "ok" | .err e => "err:" ++ errName e | .panic => "panic"]
  | _, _ => .differ "protocol" "opts-missing-record"

def handleShell (s : Str) (r : Array String) : Verdict :=
  let kind := r.getD 1 ""
  let impl? : Option (Out (List Str)) :=
    if kind == "panic" then some .panic
    else if kind == "err" then (errOfName (r.getD 2 "")).map .err
    else if kind == "ok" then ((r.toList.drop 2).mapM unhex).map .ok else none
  match impl? with
  | none => .differ "shell" s!"unclassified result {r.toList} in={hex s}"
  | some impl =>
    let m := splitShellStrings s
    if !specShell s impl then
      let sig := match impl with
        | .panic => "C49:shell:panic"
        | .ok _ => "C49:shell:empty-field-or-wrong-plain-split"
        | .err _ => "C49:shell:plain-command-rejected"
      .specfalse sig s!"in={hex s} impl={r.toList}"
    else if impl != m then .differ "shell" s!"in={hex s} model={showOut (fun l => toString (l.map hex)) m} impl={r.toList}"
    else .agree (match m with | .ok _ => true | _ => false)
      (["shell", lenLab s, match m with | .ok l => s!"ok-fields{min l.length 4}" | .err e => "err:" ++ errName e | .panic => "panic"] ++
       (if s.any (· == 92) then ["backslash"] else []) ++ (if s.any (fun c => c == 34 || c == 39) then ["quotes"] else []))

def pctOf (s : String) : Option Pct :=
  match s with
  | "parseerr" => some .parseErr | "le0" => some .le0 | "gt100" => some .gt100
  | "inrange" => some .inRange | "nan" => some .nan | "none" => some .parseErr
  | _ => none

def flagOutOf (s : String) : Option FlagOut :=
  match s with
  | "accept" => some .accept | "together" => some .together | "invalid" => some .invalidValue
  | "badrange" => some .badRange | "toolarge" => some .tTooLarge | "pctrange" => some .pctRange
  | "sizerange" => some .sizeRange | _ => none

def handleFlags (s : Str) (inr r : Array String) : Verdict :=
  let readData := inr.getD 3 "0" == "1"
  match pctOf (inr.getD 5 ""), r.getD 1 "" with
  | none, _ => .differ "protocol" "bad-pct-class"
  | some pct, kind =>
    if kind == "panic" then .specfalse "C49:flags:panic" s!"in={hex s}" else
    match flagOutOf kind with
    | none => .differ "flags" s!"unclassified result {r.toList} in={hex s}"
    | some impl =>
      let M := Restic.Gen.check_totalBucketsMax
      let m := checkFlags false M readData s pct
      if !specFlags M readData s pct impl then
        let sig := if impl == .accept then
            (if pct == .nan then "C49:flags:nan-percentage-accepted" else "C49:flags:accepted-value-denoting-no-subset")
          else "C49:flags:valid-subset-rejected"
        .specfalse sig s!"in={hex s} readdata={readData} pct={inr.getD 5 ""} impl={kind}"
      else if impl != m then .differ "flags" s!"in={hex s} readdata={readData} model={repr m} impl={kind}"
      else .agree (impl == .accept && s != []) ["flags", lenLab s, kind, "pct:" ++ inr.getD 5 ""]

/-! Options.Apply -/

def kindOfName (s : String) : Kind :=
  match s with
  | "string" => .str | "int" => .int | "uint" => .uint | "bool" => .bool | "Duration" => .dur | _ => .other

def kindName : Kind → String
  | .str => "string" | .int => "int" | .uint => "uint" | .bool => "bool" | .dur => "duration" | .other => "unsupported"

def valOf (k : Kind) (tok : String) : Option Val :=
  match k with
  | .str => (unhex tok).map .str
  | .int => tok.toInt?.map .int
  | .uint => tok.toNat?.map .uint
  | .bool => some (.bool (tok == "1"))
  | .dur => tok.toInt?.map .dur
  | .other => none

def showVal : Val → String
  | .str s => s!"str:{hex s}" | .int i => s!"int:{i}" | .uint n => s!"uint:{n}" | .bool b => s!"bool:{b}" | .dur d => s!"dur:{d}"

def handleApply (c : Case) : Verdict := Id.run do
  let sname := ((c.find "struct").map fun r => r.getD 1 "?").getD "?"
  let mut fields : List (Str × Kind) := []
  for r in c.findAll "field" do
    match unhex (r.getD 1 "-") with
    | some t => fields := fields ++ [(t, kindOfName (r.getD 2 ""))]
    | none => return .differ "protocol" "bad-field"
  let mut opts : List (Str × Str) := []
  let mut durs : List (Str × Option Int) := []
  for r in c.findAll "opt" do
    match unhex (r.getD 1 "-"), unhex (r.getD 2 "-") with
    | some k, some v =>
      opts := opts ++ [(k, v)]
      durs := durs ++ [(v, if r.getD 4 "" == "ok" then (r.getD 5 "").toInt? else none)]
    | _, _ => return .differ "protocol" "bad-opt"
  let durFn (v : Str) : Option Int := (durs.lookup v).getD none
  let some r := c.find "res" | return .differ "protocol" "no-res"
  let kind := r.getD 1 ""
  let model := applyAll fields durFn opts
  let optKinds := opts.map fun kv => (fields.lookup kv.1).getD .other
  let unsupported := (opts.any fun kv => fields.lookup kv.1 == some Kind.other)
  let labels := ["apply", "struct:" ++ sname, s!"nopts{opts.length}"] ++ (optKinds.map kindName).eraseDups ++
    [match model with | .ok _ => "ok" | .err e => "err:" ++ errName e | .panic => "panic"]
  -- the implementation's result
  if kind == "panic" then
    if unsupported then
      return (if model == .panic then .agree false labels else .differ "apply" "impl panics, model does not")
    else return .specfalse "C49:apply:panic" s!"struct={sname} opts={opts.map fun kv => (hex kv.1, hex kv.2)} msg={r.getD 2 "-"}"
  if kind == "err" then
    let some e := errOfName (r.getD 2 "") | return .differ "apply" s!"unclassified error {r.getD 2 "-"}"
    -- spec: with one option of a known key, rejection must be justified
    match opts with
    | [(k, v)] =>
      match fields.lookup k with
      | some kd =>
        if !specApply kd v (durFn v) (.err e) then
          return .specfalse s!"C49:apply:{kindName kd}:valid-value-rejected" s!"struct={sname} key={hex k} value={hex v}"
      | none => pure ()
    | _ => pure ()
    match model with
    | .err me =>
      if opts.length == 1 && me != e then return .differ "apply" s!"error kind model={errName me} impl={errName e} opts={opts.map fun kv => (hex kv.1, hex kv.2)}"
      return .agree false labels
    | _ => return .differ "apply" s!"impl rejects, model={showOut (fun l => toString (l.map fun kv => (hex kv.1, showVal kv.2))) model} opts={opts.map fun kv => (hex kv.1, hex kv.2)}"
  if kind != "ok" then return .differ "protocol" s!"bad res {kind}"
  -- accepted: stored values
  let mut stored : List (Str × Val) := []
  for tok in r.toList.drop 2 do
    match tok.splitOn "=" with
    | [k, v] =>
      match unhex k with
      | some kb =>
        let kd := (fields.lookup kb).getD .other
        match valOf kd v with
        | some val => stored := stored ++ [(kb, val)]
        | none => return .differ "apply" s!"cannot read stored value {tok}"
      | none => return .differ "protocol" "bad-key"
    | _ => return .differ "protocol" "bad-res-token"
  for (k, v) in opts do
    match fields.lookup k, stored.lookup k with
    | some kd, some val =>
      if !specApply kd v (durFn v) (.ok val) then
        return .specfalse s!"C49:apply:{kindName kd}:accepted-with-wrong-value-or-malformed" s!"struct={sname} key={hex k} value={hex v} stored={showVal val}"
    | _, _ => return .specfalse "C49:apply:unknown-option-accepted" s!"struct={sname} key={hex k}"
  match model with
  | .ok ms =>
    if ms != stored then return .differ "apply" s!"stored values differ model={ms.map fun kv => (hex kv.1, showVal kv.2)} impl={stored.map fun kv => (hex kv.1, showVal kv.2)}"
    return .agree (!opts.isEmpty) labels
  | m => return .differ "apply" s!"impl accepts, model={showOut (fun _ => "") m} opts={opts.map fun kv => (hex kv.1, hex kv.2)}"

def handleCli (c : Case) : Verdict :=
  let what := ((c.find "what").map fun r => r.getD 1 "").getD ""
  match (c.find "in").bind (fun r => (r.toList.drop 1).mapM unhex), c.find "res" with
  | some ins, some r =>
    let kind := r.getD 1 ""
    if kind == "panic" then .specfalse s!"C49:cli-{what}:panic" s!"in={ins.map hex} msg={r.getD 2 "-"}" else
    let s := ins.headD []
    let modelOK : Bool :=
      if what == "dur" then (match parseDuration false s with | .ok _ => true | _ => false)
      else if what == "count" then (match policyCountSet s with | .ok _ => true | _ => false)
      else (match optionsParse ins with | .ok _ => true | _ => false)
    -- a value the parser accepts may still be refused later by the command (e.g. negative durations):
    -- only the flag-parsing outcome is compared
    if kind == "flagerr" && modelOK then .differ "cli" s!"{what} in={ins.map hex} model=ok impl=flag-error"
    else if kind != "flagerr" && !modelOK then .differ "cli" s!"{what} in={ins.map hex} model=err impl={kind} {r.getD 2 "-"}"
    else .agree modelOK ["cli", "cli-" ++ what, if modelOK then "ok" else "flag-error"]
  | _, _ => .differ "protocol" "cli-missing-record"

def handleC49 (c : Case) : Verdict :=
  if c.stream == "apply" then handleApply c
  else if c.stream == "opts" then handleOpts c
  else if c.stream == "cli" then handleCli c
  else
    match c.find "in", c.find "res" with
    | some inr, some r =>
      match unhex (inr.getD 1 "-") with
      | none => .differ "protocol" "bad-hex"
      | some s =>
        if c.stream == "dur" then handleDur c s r
        else if c.stream == "bytes" then handleInt "bytes" parseBytes specBytes s r
        else if c.stream == "count" then handleInt "count" policyCountSet specCount s r
        else if c.stream == "shell" then handleShell s r
        else if c.stream == "flags" then handleFlags s inr r
        else .differ "protocol" s!"unknown-stream {c.stream}"
    | _, _ => .differ "protocol" "missing-in-or-res"

def main : IO Unit := mainLoop handleC49
