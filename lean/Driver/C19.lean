import Driver.Common
import Driver.RestoreWire
import Restic.Model.FileRestore
import Restic.Model.FileRestoreFacts
/-!
Driver for C19 (stream `C19`, sub-stream `file`). Records per case:
  lbl <labels>
  node <node.Size> <rle blob>*
  pre  <missing|reg|dir|dirne|symlink|dangling> <rle bytes> <readable> <writable> <links> <mtime rel. to node>
  opt  <always|if-changed|if-newer|never> <sparse> <delete> <inproc|child>
  oracle prealloc <0/1> ; oracle zerochunk <n>
  res  hang | <exit code> <missing|reg|dir|symlink|special> [<rle bytes>]
  side <0/1>         the other hard link / the symlink's target are unchanged
Blob ids: the driver instantiates the model's hash parameter with a table built from the
node's own blobs (equal plaintexts ↔ equal ids, anything else hashes to 0).
-/
open Driver Driver.RestoreWire Restic.Model.FileRestore

/-- table hash: index (from 1) of the first blob with this plaintext, 0 if none -/
def tableHash (blobs : List Bytes) (zero : Bytes) (s : Bytes) : Nat :=
  match (blobs ++ [zero]).findIdx? (· == s) with
  | some i => i + 1
  | none => 0

def owOf : String → Option Overwrite
  | "always" => some .always
  | "if-changed" => some .ifChanged
  | "if-newer" => some .ifNewer
  | "never" => some .never
  | _ => none

def handleC19 (c : Case) : Verdict :=
  match c.find "node", c.find "pre", c.find "opt", c.find "res" with
  | some nr, some pr, some op, some rr =>
    match (nr.toList.drop 2).mapM unrle, unrle (pr.getD 2 "-"), owOf (op.getD 1 "") with
    | some blobs, some preBytes, some ow =>
      let zlen := ((c.findAll "oracle").find? (·.getD 1 "" == "zerochunk")).map (tokNat · 2) |>.getD 524288
      let prealloc := ((c.findAll "oracle").find? (·.getD 1 "" == "prealloc")).map (tokBool · 2) |>.getD true
      let zero : Bytes := List.replicate zlen 0
      let hash := tableHash blobs zero
      let node : FNode Nat := ⟨tokNat nr 1, blobs.map fun d => ⟨hash d, d⟩, 0⟩
      let mt := tokInt pr 6
      let pre : Target := match pr.getD 1 "" with
        | "reg" => .regular (fileOf preBytes) (tokBool pr 3) (tokBool pr 4) (tokNat pr 5) mt
        | "dir" => .dir true mt
        | "dirne" => .dir false mt
        | "symlink" => .symlink mt
        | "dangling" => .symlink mt
        | _ => .missing
      let cfg : Cfg := ⟨tokBool op 2, tokBool op 3, prealloc, sparseTruncFirstOfSource, hardlinkDropsStateOfSource⟩
      let lbl := ((c.find "lbl").map (·.getD 1 "-")).getD "-"
      let labels := (lbl.splitOn ",").filter (· != "-")
      -- a run that hit the harness timeout: liveness is outside the statement (C19 speaks about
      -- successful restores); reported in the label histogram, never silently dropped
      if rr.getD 1 "" == "hang" then .agree false ("hang-timeout" :: labels) else
      let exit := tokInt rr 1
      let implFinal : Option Bytes := if rr.getD 2 "" == "reg" then unrle (rr.getD 3 "-") else none
      let implKind := rr.getD 2 ""
      let consistent := node.size == totalLen node.content
      let sideOK := ((c.find "side").map (tokBool · 1)).getD true
      -- (b) the property predicate on the implementation's own result
      let preUnreadable := match pre with | .regular _ false _ _ _ => true | _ => false
      let specViolation : Option String :=
        if exit != 0 || !consistent then none
        else if !specRestore ow pre node implFinal then
          some (if !shouldOverwrite ow node pre then "C19:skip-mode:existing-item-modified"
                else if preUnreadable && cfg.sparse then "C19:sparse:unreadable-existing-file-keeps-old-bytes"
                else if decide (pre.links > 1) then "C19:hardlinked-existing-file:matching-blobs-lost"
                else "C19:content-differs:" ++ (labels.find? (·.startsWith "pre-")).getD "pre-?")
        else if !sideOK then some "C19:other-link-or-link-target-modified"
        else none
      match specViolation with
      | some sig => .specfalse sig s!"{lbl} final={implKind}"
      | none =>
      -- (a) model vs implementation
      let out := restoreFile hash cfg (hash zero) ow pre node (fun st => todoWrites node st)
      let outLbl := match out with
        | .untouched => "out-untouched" | .metadataOnly => "out-metadata-only"
        | .restored _ => "out-restored" | .failed _ => "out-failed"
      match out with
      | .failed _ =>
        if exit == 0 then .differ "exit" s!"model=failed impl=ok {lbl}"
        else .agree true (outLbl :: labels)
      | _ =>
        if exit != 0 then .differ "exit" s!"model=ok impl=exit{exit} {lbl}" else
        let mFinal := out.finalBytes pre
        if mFinal != implFinal then
          .differ "final-bytes" s!"{lbl} {outLbl} model={(mFinal.map (·.length))} impl={(implFinal.map (·.length))} kind={implKind}"
        else
          let nt := match out with | .restored _ => true | _ => false
          .agree nt (outLbl :: labels)
    | _, _, _ => .differ "protocol" "undecodable-record"
  | _, _, _, _ => .differ "protocol" "missing-record"

def main : IO Unit := mainLoop handleC19
