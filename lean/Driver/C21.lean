import Driver.Common
import Driver.RestoreWire
import Restic.Model.FileRestore
/-!
Driver for C21 (stream `C21`). Records per case (`verify`):
  lbl <tamper labels>
  node <i> <node.Size> <rle blob>*            file i of the snapshot
  cur <i> reg <rle bytes> | missing | dir | symlink | special     what is on disk when VerifyFiles runs
  trk <i> <tracked 0/1> <metadataOnly 0/1> <preexisting 0/1>      the restorer's fileList entry
  res <i> ok | err:<class>                    what VerifyFiles reported for the file
  out <err==nil 0/1> <nverified> <nerrors>  | out hang
-/
open Driver Driver.RestoreWire Restic.Model.FileRestore

def errClass : VErr → String
  | .openFailed => "open"
  | .notRegular => "notregular"
  | .size => "size"
  | .eof => "eof"
  | .content _ => "content"

structure C21File where
  idx : String
  node : FNode Bytes
  cur : Target
  tracked : Bool
  metaOnly : Bool
  res : String

def parseC21 (c : Case) : Option (List C21File) :=
  (c.findAll "node").toList.mapM fun r => do
    let i := r.getD 1 "?"
    let blobs ← (r.toList.drop 3).mapM unrle
    let node := mkNode (tokNat r 2) 0 blobs
    let cr ← (c.findAll "cur").find? fun x => x.getD 1 "" == i
    let cur : Target ← match cr.getD 2 "" with
      | "reg" => (unrle (cr.getD 3 "-")).map fun b => Target.regular (fileOf b) true true 1 1
      | "missing" => some .missing
      | "dir" => some (.dir true 1)
      | "symlink" => some (.symlink 1)
      | "special" => some (.special 1)
      | _ => none
    let tr ← (c.findAll "trk").find? fun x => x.getD 1 "" == i
    let rs ← (c.findAll "res").find? fun x => x.getD 1 "" == i
    pure { idx := i, node := node, cur := cur, tracked := tokBool tr 2, metaOnly := tokBool tr 3, res := rs.getD 2 "?" }

def handleC21 (c : Case) : Verdict :=
  if c.stream == "restore-failed" then .differ "harness" "restore-failed-before-verify" else
  match parseC21 c with
  | none => .differ "protocol" "unparsable-case"
  | some files =>
    match c.find "out" with
    | none => .differ "protocol" "no-out-record"
    | some out =>
    if out.getD 1 "" == "hang" then .agree false ["hang-timeout"] else
    -- (b) the property predicate on the implementation's own verdicts
    let specBad := files.find? fun f =>
      f.tracked && !f.metaOnly && decide (f.node.size = totalLen f.node.content) &&
        !specVerify f.cur f.node (f.res == "ok")
    match specBad with
    | some f =>
      let sig := if f.res == "ok" then "C21:difference-not-reported" else "C21:identical-file-reported"
      .specfalse sig s!"file={f.idx} res={f.res}"
    | none =>
    -- (a) model vs implementation, file by file and for the whole run
    let modelRes (f : C21File) : String :=
      match verifyTracked idHash f.tracked f.metaOnly f.cur f.node with
      | .ok _ => "ok"
      | .error e => "err:" ++ errClass e
    match files.find? fun f => modelRes f != f.res with
    | some f => .differ "file-verdict" s!"file={f.idx} model={modelRes f} impl={f.res}"
    | none =>
      let modelOK := verifyFilesOK idHash (files.map fun f => (f.tracked, f.metaOnly, f.cur, f.node))
      let implOK := out.getD 1 "" == "1" && out.getD 3 "" == "0"
      if modelOK != implOK then .differ "run-verdict" s!"model={modelOK} impl={implOK}" else
      let nChecked := (files.filter fun f => f.tracked && !f.metaOnly).length
      if modelOK && tokNat out 2 != nChecked then .differ "nverified" s!"model={nChecked} impl={tokNat out 2}" else
      let lbl := (c.find "lbl").map (·.getD 1 "-") |>.getD "-"
      let labels :=
        (if lbl == "-" then ["untampered"] else (lbl.splitOn "+")) ++
        (files.map (·.res)).eraseDups ++
        (if files.any (fun f => f.tracked && f.metaOnly) then ["has-metadata-only-file"] else []) ++
        (if files.any (fun f => decide (f.node.size ≠ totalLen f.node.content)) then ["inconsistent-node-size"] else []) ++
        (if files.any (fun f => f.node.content.length > 25) then ["large-file"] else []) ++
        (if files.any (fun f => f.node.content.any (fun b => b.data.isEmpty)) then ["empty-blob"] else [])
      .agree (!modelOK || lbl != "-") labels

def main : IO Unit := mainLoop handleC21
