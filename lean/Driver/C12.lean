import Driver.Common
import Restic.Model.Lock
import Restic.Gen.Consts
/-!
Driver for C12 (stream `sched`). Records per case:
  nproc <n>
  proc <i> locker|remover|remlocker|expired <excl 0/1> <refreshes> unlock|crash [<age_ms> <name8>]
      remlocker = `RemoveStaleLocks` (unlock) followed by a lock acquisition; expired = a holder whose lock
      file is <age_ms> old (written before scheduling starts) and who runs the forced refresh refreshStaleLock
  ghost <name8> old|deadpid|otherhost <excl 0/1> <age_ms>          lock file left by a process that is gone
  ev <t_ms> <proc> list|load|save|remove|stat <name8|-> <ok 0/1> <listed names|->   one backend operation (in execution order)
  mk <t_ms> <proc> start|acq|fail-locked|fail-err|refreshed|refresh-err|rel|unlocked|crash|remover-start|remover-done …
  status ok|hang|op-hang|proc-hang
The driver (a) evaluates the property on the implementation's own markers: the processes between
`acq` and `rel`/`crash` are pairwise non-conflicting and each has a lock file of its own in the
backend; (b) replays the trace on the model (`Restic.Model.Lock.step`): every operation must be a
step the automaton allows in the state reached so far (trace acceptance).
-/
open Driver Restic.Model.Lock

def msOf (ns : Nat) : Nat := ns / 1000000

/-- model parameters in milliseconds, from the constants of the current source; skew 0 inside one machine -/
def paramsMs : Params :=
  { S := msOf Restic.Gen.lock_staleLockTimeout_ns, R := msOf Restic.Gen.lock_refreshabilityTimeout_ns,
    M := msOf Restic.Gen.lock_refreshInterval_ns, eps := 0 }

def timeOffset : Nat := 100000000

structure DSt where
  sys : Sys
  names : Array (Option String × Option String) := #[]   -- per model process: names of f1, f2
  kinds : Array String := #[]
  kinds0 : Array String := #[]
  excls : Array Bool := #[]
  acq : Array Bool := #[]
  holders : List (Nat × Bool) := []        -- implementation: who believes to hold (from markers)
  present : List String := []              -- implementation: lock files in the backend (from ok saves/removes)
  own : List (String × Nat) := []          -- implementation: which process saved which lock file
  loaded : List (Nat × String) := []       -- implementation: which process has read which lock file successfully
  lastList : List (Nat × List String) := [] -- implementation: what each process's latest successful List returned
  oldLock : List (Nat × String) := []      -- implementation: the lock an expired holder had when its forced refresh started
  modelErr : Option Verdict := none        -- first step of the trace the model does not allow (replay stops there)
  labels : List String := []
  nacq : Nat := 0
  nlockers : Nat := 0

def DSt.label (st : DSt) (l : String) : DSt := if st.labels.contains l then st else { st with labels := l :: st.labels }

def ownerOf (st : DSt) (name : String) : Option (Nat × Bool) :=
  (List.range st.names.size).findSome? fun j =>
    let nm := st.names.getD j (none, none)
    if nm.1 == some name then some (j, false) else if nm.2 == some name then some (j, true) else none

def act (st : DSt) (i : Nat) (a : LAct) : Option DSt :=
  (step paramsMs st.sys (.proc i a)).map fun s => { st with sys := s }

def pcOf (st : DSt) (i : Nat) : PC := (st.sys.procs.getD i default).pc

/-- advance model time to `t` (ms since case start) -/
def advanceTo (st : DSt) (t : Nat) : Except Verdict DSt :=
  let target := timeOffset + t
  let rec go (fuel : Nat) (s : Sys) : Except Verdict Sys :=
    match fuel with
    | 0 => .ok s
    | fuel + 1 =>
      if s.now ≥ target then .ok s else
      match step paramsMs s .tick with
      | some s' => go fuel s'
      | none => .error (.differ "tick" s!"model: time cannot pass at {s.now} (a holder is past its deadline)")
  (go (target - st.sys.now) st.sys).map fun s => { st with sys := s }

def setName (st : DSt) (i : Nat) (f : Option String × Option String → Option String × Option String) : DSt :=
  { st with names := st.names.modify i f }

def specCheck (st : DSt) (ctx : String) : Except Verdict DSt :=
  if !holdersOK st.holders then
    let ex := (st.holders.filter (·.2)).length
    .error (.specfalse (if ex ≥ 2 then "C12:two-exclusive-holders" else "C12:exclusive-and-shared-holder") s!"{ctx} holders={st.holders}")
  else
    match st.holders.find? (fun h => !(st.own.any fun o => o.2 == h.1 && st.present.contains o.1)) with
    | some h => .error (.specfalse "C12:holder-without-lock-file" s!"{ctx} process {h.1} believes it holds the lock but none of its lock files is in the backend")
    | none =>
      if st.modelErr.isNone && !mutexB st.sys then .ok { st with modelErr := some (.differ "model" "mutexB false on the model state") } else .ok st

/-- implementation-only bookkeeping of one record (always done, also after the model replay stopped) -/
def implTrack (st : DSt) (r : Array String) : Except Verdict DSt :=
  let i := (r.getD 2 "0").toNat?.getD 0
  match r.getD 0 "" with
  | "ev" =>
    let op := r.getD 3 ""; let name := r.getD 4 "-"; let ok := r.getD 5 "0" == "1"
    if op == "list" && ok then
      let listed := if r.getD 6 "-" == "-" then [] else (r.getD 6 "-").splitOn ","
      .ok { st with lastList := (i, listed) :: st.lastList.filter (·.1 != i) }
    else if op == "load" && ok then .ok { st with loaded := (i, name) :: st.loaded }
    else if op == "load" then .ok (st.label "lock-unreadable")
    else if op == "save" && ok then .ok { st with present := name :: st.present, own := (name, i) :: st.own }
    else if op == "remove" && ok then
      -- a remover deleting the lock of a process that believes to hold it
      let owner := (st.own.find? (·.1 == name)).map (·.2)
      if st.kinds.getD i "locker" == "remover" && (match owner with | some j => st.holders.any (·.1 == j) && !(st.own.any fun o => o.2 == j && o.1 != name && st.present.contains o.1) | none => false) then
        .error (.specfalse "C12:stale-removal-of-active-lock" s!"remover {i} deleted lock {name}, the only lock file of a process that believes it holds the lock")
      else
        let st := { st with present := st.present.erase name }
        -- guard of the remover's step in the model: a lock is removed only after it was read and judged
        -- stale (or its owner dead); a lock file the remover could not read is never removed
        if st.kinds.getD i "locker" == "remover" && !st.loaded.contains (i, name) && st.modelErr.isNone then
          .ok { st with modelErr := some (.differ "remover" s!"process {i} deleted lock {name} without having read it") }
        else .ok st
    else .ok st
  | "mk" =>
    let excl := st.excls.getD i false
    match r.getD 3 "" with
    | "acq" => .ok ({ st with holders := (i, excl) :: st.holders, acq := st.acq.set! i true, nacq := st.nacq + 1 }.label (if excl then "acq-excl" else "acq-shared"))
    | "rel" | "crash" | "lost" => .ok { st with holders := st.holders.filter (·.1 != i) }
    | "sr-ok" =>
      -- removed_lock_detected on the implementation's own observations: the forced refresh may only
      -- succeed if the holder's old lock file was still listed at its (second) existence check
      let old := (st.oldLock.find? (·.1 == i)).map (·.2)
      let listed := ((st.lastList.find? (·.1 == i)).map (·.2)).getD []
      if (match old with | some o => !listed.contains o | none => false) then
        .error (.specfalse "C12:forced-refresh-succeeded-after-lock-removed" s!"process {i} resumed after its forced refresh although its lock {old.getD "?"} was not among the lock files of its last existence check {listed}")
      else .ok ({ st with holders := (i, excl) :: st.holders, acq := st.acq.set! i true, nacq := st.nacq + 1 }.label "forced-refresh-ok")
    | "remover-done" => if st.kinds0.getD i "" == "remlocker" then .ok { st with kinds := st.kinds.set! i "locker" } else .ok st
    | _ => .ok st
  | _ => .ok st

def handleEv (st : DSt) (r : Array String) : Except Verdict DSt := do
  let t := (r.getD 1 "0").toNat?.getD 0
  let i := (r.getD 2 "0").toNat?.getD 0
  let op := r.getD 3 ""; let name := r.getD 4 "-"; let ok := r.getD 5 "0" == "1"
  let st ← advanceTo st t
  let kind := st.kinds.getD i "locker"
  let excl := st.excls.getD i false
  match op with
  | "list" =>
    let listed := if r.getD 6 "-" == "-" then [] else (r.getD 6 "-").splitOn ","
    -- the model's file set and the listing agree
    let modelFiles := (st.sys.procs.map fun p => (if p.f1.isSome then 1 else 0) + (if p.f2.isSome then 1 else 0)).foldl (· + ·) 0
    if ok && modelFiles != listed.length then
      .error (.differ "file-set" s!"model has {modelFiles} lock files, List returned {listed.length} at t={t} proc={i}") else
    if kind == "remover" then .ok st else
    let clear := clearB st.sys i excl
    match pcOf st i with
    | .idle => if ok && clear then (match act st i .check1 with | some s => .ok s | none => .error (.differ "check1" "not enabled")) else .ok st
    | .checked1 => if ok && clear then .ok st else (match act st i .check1fail with | some s => .ok s | none => .error (.differ "check1fail" "not enabled"))
    | .created => if ok && clear then (match act st i .check2ok with | some s => .ok s | none => .error (.differ "check2ok" "not enabled")) else .ok st
    -- first existence check of refreshStaleLock (the second one decides at the following remove)
    | .stale0 => if ok && (st.sys.procs.getD i default).f1.isSome then (match act st i .srCheck1 with | some s => .ok s | none => .error (.differ "srCheck1" "not enabled")) else .ok st
    -- second existence check: passes iff the old lock file is still there
    | .stale2 => if ok && (st.sys.procs.getD i default).f1.isSome then (match act st i .srCheck2 with | some s => .ok s | none => .error (.differ "srCheck2" "not enabled")) else .ok st
    | _ => .ok st
  | "load" | "stat" => .ok st
  | "save" =>
    if !ok then .ok (st.label "save-failed") else
    match pcOf st i with
    | .checked1 =>
      match act st i .create with
      | some s => .ok (setName s i fun _ => (some name, none))
      | none => .error (.differ "create" "not enabled")
    | .holding =>
      match act st i .refreshCreate with
      | some s => .ok ((setName s i fun nm => (nm.1, some name)).label "refresh")
      | none => .error (.differ "refreshCreate" "not enabled")
    | .stale1 =>
      match act st i .srCreate with
      | some s => .ok ((setName s i fun nm => (nm.1, some name)).label "forced-refresh-wrote-replacement")
      | none => .error (.differ "srCreate" "not enabled")
    | pc => .error (.differ "save" s!"process {i} writes a lock file in model state {repr pc} (no passing first check before create?) t={t}")
  | "remove" =>
    let st := if ok then st else st.label "remove-of-missing-file"
    match ownerOf st name with
    | none =>
      -- a file that somebody else (the remover) already deleted: the removal fails; for a process that
      -- is giving up this was its unlock
      -- a remover whose view has idempotent removes "deletes" a lock its owner removed a moment ago
      if kind == "remover" && r.getD 6 "-" == "idempotent" then .ok (st.label "remover-removed-vanished-lock") else
      if pcOf st i == .stale3 then
        -- adoption after a passed second check; the old file was removed by the remover in between
        (if ok then
          (match act st i .srAdopt with
           | some s => .ok ((setName s i fun nm => (nm.2, none)).label "adopt-old-already-gone-idempotent-remove")
           | none => .error (.differ "srAdopt" "not enabled"))
         else
          (match act st i .srFailKeep with
           | some s => .ok ((setName s i fun nm => (nm.2, none)).label "adopt-remove-failed")
           | none => .error (.differ "srFailKeep" "not enabled"))) else
      if ok && pcOf st i != .stopping then .error (.differ "remove" s!"process {i} removes lock file {name} which is not in the model (adoption without a passed second existence check?)") else
      if pcOf st i == .stopping then
        (match act st i .cleanup with
         | some s => .ok ((setName s i fun _ => (none, none)).label "unlock-of-vanished-lock")
         | none => .error (.differ "cleanup" "not enabled"))
      else .ok (st.label "remove-of-vanished-file")
    | some (j, second) =>
      if kind == "remover" then
        if !ok then .ok st else
        let clr (s : DSt) := setName s j fun nm => if second then (nm.1, none) else (none, nm.2)
        match act st j (.removeStale second) with
        | some s => .ok ((clr s).label "stale-removed-by-age")
        | none =>
          match act st j (.removeDead second) with
          | some s => .ok ((clr s).label "stale-removed-dead-owner")
          | none =>
            .error (.differ "remover" s!"model: lock {name} of process {j} is neither stale nor its owner dead")
      else if j != i then .error (.differ "remove" s!"process {i} removes lock {name} of process {j}")
      else if second then
        -- cleanup of the replacement by a failing forced refresh
        if pcOf st i == .stale2 then
          match act st i .srFail with
          | some s => .ok ((setName s i fun nm => (nm.1, none)).label "forced-refresh-cleanup")
          | none => .error (.differ "srFail" "not enabled")
        else .error (.differ "remove" s!"process {i} removes its replacement lock {name}")
      else
        match pcOf st i with
        | .refreshing =>
          match act st i .refreshRemove with
          | some s => .ok (setName s i fun nm => (nm.2, none))
          | none => .error (.differ "refreshRemove" "not enabled")
        | .created =>
          match (act st i .check2fail).bind (fun s => act s i .cleanup) with
          | some s => .ok ((setName s i fun _ => (none, none)).label "second-check-failed")
          | none => .error (.differ "check2fail" "not enabled")
        | .holding =>
          if st.acq.getD i false then .error (.differ "remove" s!"process {i} removes its lock while it still believes to hold it") else
          match (act st i .giveUp).bind (fun s => act s i .cleanup) with
          | some s => .ok ((setName s i fun _ => (none, none)).label "second-check-failed-after-retry")
          | none => .error (.differ "giveUp" "not enabled")
        | .stale3 =>
          -- adoption of the replacement (the second existence check has passed)
          if !ok then
            -- lockID already points to the replacement, the old file could not be removed: the forced
            -- refresh fails, the replacement is removed by the following unlock
            (match act st i .srFailKeep with
             | some s => .ok ((setName s i fun nm => (nm.2, none)).label "adopt-remove-failed")
             | none => .error (.differ "srFailKeep" "not enabled")) else
          match act st i .srAdopt with
          | some s => .ok (setName s i fun nm => (nm.2, none))
          | none => .error (.differ "srAdopt" "not enabled")
        | .stale2 => .error (.differ "srAdopt" s!"process {i} adopts its replacement although its old lock {name} was not there at the second existence check")
        | .stopping =>
          match act st i .cleanup with
          | some s => .ok (setName s i fun _ => (none, none))
          | none => .error (.differ "cleanup" "not enabled")
        | pc => .error (.differ "remove" s!"process {i} removes its lock in model state {repr pc}")
  | _ => .ok st

def handleMk (st : DSt) (r : Array String) : Except Verdict DSt := do
  let t := (r.getD 1 "0").toNat?.getD 0
  let i := (r.getD 2 "0").toNat?.getD 0
  let what := r.getD 3 ""
  let st ← advanceTo st t
  match what with
  | "acq" =>
    if pcOf st i != .holding then
      .error (.differ "acq" s!"process {i} acquired the lock, the model is in state {repr (pcOf st i)} (a conflicting lock was present at its second check) t={t}") else
    .ok st
  | "rel" =>
    match act st i .giveUp with
    | some s => .ok s
    | none => .error (.differ "rel" s!"model: process {i} is not holding")
  | "crash" =>
    match act st i .crash with
    | some s => .ok (s.label "crash")
    | none => .error (.differ "crash" "not enabled")
  | "fail-locked" | "fail-err" =>
    let st := st.label what
    match pcOf st i with
    | .idle | .checked1 => (match act st i .abort with | some s => .ok s | none => .error (.differ "abort" "not enabled"))
    | .released => .ok st
    | pc => .error (.differ what s!"process {i} gave up in model state {repr pc}")
  | "sr-ok" =>
    if pcOf st i == .holding then .ok st else
      .error (.differ "sr-ok" s!"forced refresh of process {i} reported success, the model is in state {repr (pcOf st i)} (old lock file gone at the second existence check?) t={t}")
  | "sr-fail" =>
    let st := st.label "forced-refresh-failed"
    match pcOf st i with
    | .stale0 | .stale1 | .stale2 => (match act st i .srFail with | some s => .ok (setName s i fun nm => (nm.1, none)) | none => .error (.differ "srFail" "not enabled"))
    | .stopping => .ok st
    | pc => .error (.differ "sr-fail" s!"model state {repr pc}")
  | "refreshed" => if pcOf st i == .holding then .ok st else .error (.differ "refreshed" s!"model state {repr (pcOf st i)}")
  | "refresh-err" => .ok (st.label "refresh-err")
  | "unlocked" => if pcOf st i == .released then .ok st else .error (.differ "unlocked" s!"model state {repr (pcOf st i)}")
  | "remover-start" => .ok (st.label "remover")
  | _ => .ok st

def handleC12 (c : Case) : Verdict :=
  -- the machine was too busy to schedule the processes within 30 s (some goroutine still runnable):
  -- operations of the teardown are not recorded, nothing can be said about this case
  if (c.find "status").map (·.getD 1 "") == some "starved" then .agree false ["discarded-starved"] else
  if (c.find "status").map (·.getD 1 "") != some "ok" then .differ "harness" s!"status {(c.find "status").map (·.toList)}" else
  let procs := c.findAll "proc"
  let ghosts := c.findAll "ghost"
  let mprocs : List Proc :=
    (procs.toList.map fun r =>
      if r.getD 2 "" == "expired" then
        let age := (r.getD 6 "0").toNat?.getD 0
        ({ pc := .stale0, excl := r.getD 3 "0" == "1", t := timeOffset - age, f1 := some (timeOffset - age) } : Proc)
      else ({ excl := r.getD 3 "0" == "1" } : Proc)) ++
    (ghosts.toList.map fun r =>
      let age := (r.getD 4 "0").toNat?.getD 0
      ({ pc := .dead, excl := r.getD 3 "0" == "1", t := timeOffset - age, f1 := some (timeOffset - age) } : Proc))
  let st0 : DSt := {
    sys := { now := timeOffset, procs := mprocs },
    names := (procs.map fun r => if r.getD 2 "" == "expired" then (some (r.getD 7 "?"), none) else (none, none)) ++
      (ghosts.map fun r => (some (r.getD 1 "?"), none)),
    kinds := procs.map (fun r => if r.getD 2 "" == "remlocker" then "remover" else if r.getD 2 "" == "expired" then "locker" else r.getD 2 "locker"),
    kinds0 := procs.map (·.getD 2 "locker"),
    excls := procs.map (·.getD 3 "0" == "1"),
    acq := procs.map fun _ => false,
    present := ghosts.toList.map (·.getD 1 "?") ++ (procs.toList.filter (·.getD 2 "" == "expired")).map (·.getD 7 "?"),
    oldLock := (procs.toList.zipIdx.filter (·.1.getD 2 "" == "expired")).map (fun (r, k) => (k, r.getD 7 "?")),
    own := ghosts.toList.zipIdx.map (fun (r, k) => (r.getD 1 "?", procs.size + k)) ++
      (procs.toList.zipIdx.filter (·.1.getD 2 "" == "expired")).map (fun (r, k) => (r.getD 7 "?", k)),
    nlockers := (procs.filter (·.getD 2 "" == "locker")).size,
    labels := ((ghosts.toList.map fun r => s!"ghost-{r.getD 2 "?"}") ++ (procs.toList.filterMap fun r =>
      if r.getD 2 "" == "expired" || r.getD 2 "" == "remlocker" then some s!"proc-{r.getD 2 "?"}" else none)).eraseDups }
  -- model replay of one record; a step the model does not allow stops the replay (remembered), the
  -- evaluation of the property on the implementation's observations goes on
  let replay (st : DSt) (r : Array String) : DSt :=
    if st.modelErr.isSome then st else
    let res := match r.getD 0 "" with
      | "ev" => handleEv st r
      | "mk" => handleMk st r
      | _ => .ok st
    match res with
    | .ok s => s
    | .error v => { st with modelErr := some v }
  let res := c.recs.foldlM (init := st0) fun st r =>
    match r.getD 0 "" with
    | "ev" | "mk" => (implTrack (replay st r) r).bind fun s => specCheck s s!"after {r.toList}"
    | "status" => if r.getD 1 "" == "ok" then .ok st else .ok { st with modelErr := st.modelErr.orElse fun _ => some (.differ "harness" s!"status-{r.getD 1 ""}") }
    | _ => .ok st
  match res with
  | .error v => v
  | .ok st =>
    match st.modelErr with
    | some v => v
    | none =>
    let nexcl := ((List.range st.nlockers).filter fun i => st.excls.getD i false && st.kinds.getD i "" == "locker").length
    let lockers := (List.range st.kinds.size).filter fun i => st.kinds.getD i "" == "locker"
    let st := if nexcl ≥ 2 then st.label "two-exclusive-candidates" else if nexcl == 1 && lockers.length ≥ 2 then st.label "exclusive-vs-shared" else st.label "shared-only"
    let st := if st.nacq == 0 then st.label "nobody-acquired" else if st.nacq ≥ 2 then st.label "several-acquired" else st
    .agree (lockers.length ≥ 2 && st.nacq ≥ 1) (st.labels.reverse ++ [s!"nproc{st.kinds.size}"])

def main : IO Unit := mainLoop handleC12
