import Driver.RepoTraceIO
/-!
Driver for C26 (stream: harness/main/c26.go). One case = one run of `tag` / `rewrite` /
`repair snapshots`, complete or cut after `k` mutating backend operations. Records:
  cmd <hex>                      command line
  crash <k> <n> <crash|fail>     crash: backend dead after k mutations; fail: every attempt on the file of the
                                 k-th mutating operation fails, everything else keeps working; n = mutations of the complete run
  last <kind> <count>            last mutation that went through (label)
  r0pack / r0index / r0snap      initial repository
  r0check <0|1>                  real `check` on the initial repository
  ev w <event>                   recorded backend trace (mutations on packs / indexes / snapshots)
  sel <s> tag <changed> | sel <s> far <null|same|changed> <meta> <keepEmpty> <dryRun> <forget>
                                 decision inputs per selected snapshot (generator ground truth)
  emptied <key>*                 lineages the command reported as "removed empty snapshot"
  state snap <s> <key>           snapshot files really present after the run
  state check <0|1> <hex msg>    real `check` on that state
  res <exit> <complete 0|1>
-/
open Driver Driver.RT Restic.Model.RepoTrace

def kindsOf (ops : List Ev) : List String :=
  ops.filterMap fun e => match e with
    | .saveSnap _ _ => some "S"
    | .removeSnap _ => some "R"
    | _ => none

def handleC26 (c : Case) : Verdict :=
  let r0 := parseRepo c
  let tr := (parseEvents c).map (·.2)
  let rk := applyAll r0 tr
  let cmd := c.stream
  let ek : List Nat := match c.find "emptied" with
    | some r => ((r.toList.drop 1).filter (· != "-")).map natOf
    | none => []
  let sels := (c.findAll "sel").toList
  let forget := sels.any fun r => r.getD 2 "" == "far" && r.getD 7 "0" == "1"
  let stateRecs := (c.findAll "state").toList
  let realSnaps : List (Nat × Nat) := stateRecs.filterMap fun r =>
    if r.getD 1 "" == "snap" then some (natOf (r.getD 2 "0"), natOf (r.getD 3 "0")) else none
  let checkReal := stateRecs.any fun r => r.getD 1 "" == "check" && r.getD 2 "0" == "1"
  let r0check := match c.find "r0check" with | some r => r.getD 1 "0" == "1" | none => false
  let complete := match c.find "res" with | some r => r.getD 2 "0" == "1" && r.getD 1 "1" == "0" | none => false
  let realRepo : Repo := { rk with snaps := realSnaps.map fun (s, k) => (s, { key := k, tree := 0, orig := none, needs := [] }) }
  -- the property on the implementation's own output ---------------------------------------
  -- lineages that may disappear: reported as emptied, and the user asked to remove originals
  let allowed := if forget then ek else []
  let lost := r0.snaps.filter fun s => !(allowed.contains s.2.key) && !keyPresent realRepo s.2.key
  let specLineage : Option (String × String) :=
    match lost with
    | [] => none
    | s :: _ =>
      if ek.contains s.2.key then
        some (s!"C26:{cmd}:empty-snapshot-removed-without-forget", s!"snapshot {s.1} (lineage {s.2.key}) removed, nothing saved, no --forget")
      else
        let fmode := match c.find "crash" with | some r => r.getD 3 "crash" | none => "crash"
        let at_ := if fmode == "fail" then "after-failed-operation" else "at-crash-point"
        some (s!"C26:{cmd}:lineage-lost-{at_}", s!"snapshot {s.1} (lineage {s.2.key}) has no file in the state after the run")
  let specOrig : Option (String × String) :=
    tr.findSome? fun e => match e with
      | .saveSnap n sn' =>
        match r0.snaps.find? (fun s => s.2.key == sn'.key) with
        | none => some (s!"C26:{cmd}:new-snapshot-of-unknown-lineage", s!"snapshot {n}")
        | some (o, so) =>
          if !specOriginal (cmd == "tag") o so sn' then
            some (s!"C26:{cmd}:original-wrong", s!"old={o} old.original={so.orig} new.original={sn'.orig}")
          else if cmd == "tag" && sn'.tree != so.tree then
            some ("C26:tag:tree-changed", s!"old={o}")
          else
            let filtered := (sels.find? fun r => natOf (r.getD 1 "0") == o).map (·.getD 3 "")
            if cmd != "tag" && filtered == some "same" && sn'.tree != so.tree then
              some (s!"C26:{cmd}:tree-changed-without-filter", s!"old={o}")
            else none
      | _ => none
  let specCheck : Option (String × String) :=
    if r0check && !checkReal then
      some (s!"C26:{cmd}:check-fails-at-crash-point", s!"crash={(c.find "crash").map (·.toList.drop 1)}")
    else none
  match specLineage.orElse (fun _ => specOrig.orElse fun _ => specCheck) with
  | some (sig, d) => .specfalse sig d
  | none =>
    -- model vs implementation ---------------------------------------------------------------
    if !sameSet (rk.snaps.map (·.1)) (realSnaps.map (·.1)) then
      .differ "state" s!"model snapshots {rk.snaps.map (·.1)} real {realSnaps.map (·.1)}"
    else if !accept_rewrites allowed r0 none tr then
      .differ "trace-not-in-language" s!"accept_rewrites rejects {kindsOf tr}"
    else if !freshOK r0 tr then
      .differ "file-name-reused" "a save hit a name that already existed"
    else if checkOK rk != checkReal then
      .differ "check" s!"model checkOK={checkOK rk} real check={checkReal}"
    else
      -- complete run: per selected snapshot, the operations predicted by the transcribed
      -- decision logic against the recorded ones of that lineage
      let mismatch : Option String :=
        if !complete then none else
        sels.findSome? fun r =>
          let s := natOf (r.getD 1 "0")
          match lookupSnap r0 s with
          | none => some s!"selected snapshot {s} not in r0"
          | some so =>
            let predicted : List Ev :=
              if r.getD 2 "" == "tag" then changeTagsOps s so (r.getD 3 "0" == "1") 0
              else
                let filtered : Option (Nat × List Handle) := match r.getD 3 "" with
                  | "null" => none
                  | "same" => some (so.tree, so.needs)
                  | _ => some (so.tree + 1000000, [])
                (filterAndReplaceOps s so [] filtered false (r.getD 4 "0" == "1") (r.getD 5 "0" == "1")
                  (r.getD 6 "0" == "1") (r.getD 7 "0" == "1") 0).2
            let observed := tr.filter fun e => match e with
              | .saveSnap _ sn' => sn'.key == so.key
              | .removeSnap o => o == s
              | _ => false
            if kindsOf predicted != kindsOf observed then
              some s!"snapshot {s}: predicted {kindsOf predicted} observed {kindsOf observed}"
            else none
      match mismatch with
      | some d => .differ "ops" d
      | none =>
        let nt := tr.any fun e => match e with | .saveSnap _ _ | .removeSnap _ => true | _ => false
        let last := match c.find "last" with | some r => r.getD 1 "none" | none => "none"
        let labels := labelsOf c ++ [s!"last:{last}", if complete then "complete" else "crashed"] ++
          (if ek.isEmpty then [] else ["emptied"]) ++
          (if tr.any (fun e => match e with | .savePack _ _ => true | _ => false) then ["uploads"] else [])
        .agree nt labels

def main : IO Unit := mainLoop handleC26
