import Driver.Common
import Restic.Model.PackerGen
/-!
Driver for C44. Substreams (see harness/main/c44.go):

`pm`, `pmbig` (real packerManager, sequential, oracle observed):
  cfg <packSize> <packerCount> <d|t>
  save <t> <id> <len> <ulen> <slot|-1> <retsize> <nqueued> <err>
  rep <n> <t> <len> <ulen> <slotstring> <sumsize> <sumqueued> <nerr>     n saves, ids 0..n-1
  flush <nqueued> <err>
  slots <serial:count:size>...           (serial -1 = empty)
  q <serial> <t> <count> <size> <finalizeOK> <hdrbytes> <t:id:len:ulen>...   queued packers, queue order
`pmconc` (concurrent savers, predicate only):  cfg, acc <t> <id> <len> <ulen> <err>, flush, q
`repo` (whole sessions on a real repository):
  cfg <packSize> <packerCount> <threads> <reopened> <version>
  pre <handle>...
  call <i> <handle> <len> <dup> <known> <err> <done>
  sess <0|1|panic>
  pack <pid> <phase> <evpos> <hdrbytes> <listerr> <t:num:len:ulen>...
  idx <iid> <phase> <evpos> <pid>...
  early <pid>...             packs the master index already listed when their upload started
  ent <handle> <pid>...      ent2 <handle> <pid>...
-/
open Driver Restic.Model.Packer

def nat (s : String) : Nat := s.toNat?.getD 0
def int (s : String) : Int := s.toInt?.getD 0

def tpeOf (s : String) : BlobType := if s == "t" then .tree else .data

/-- `t:id:len:ulen` -/
def blobTok (s : String) : Blob :=
  match s.splitOn ":" with
  | [t, i, l, u] => ⟨tpeOf t, nat i, nat l, nat u⟩
  | _ => ⟨.data, 0, 0, 0⟩

structure QRec where
  p : Packer            -- as reported: blobs newest first, bytes/n as reported by Size()/Count()
  qtype : BlobType
  finOK : Bool
  hdr : Nat

def parseQ (r : Array String) : QRec :=
  let blobs := (r.toList.drop 7).map blobTok
  { p := ⟨nat (r.getD 1 ""), blobs.reverse, nat (r.getD 4 ""), nat (r.getD 3 "")⟩
    qtype := tpeOf (r.getD 2 ""), finOK := r.getD 5 "" == "1", hdr := nat (r.getD 6 "") }

/-- property predicate on the implementation's own queued packers; returns a signature on failure -/
def specQueued (packSize : Nat) (tpe : BlobType) (accepted : List Blob) (qs : List QRec) : Option (String × String) :=
  let ps := qs.map (·.p)
  if qs.any (fun q => !q.finOK || decide (q.hdr > genCfg.maxHeaderSize) || !q.p.finalizeOK genCfg) then
    let bad := qs.filter (fun q => !q.finOK || !q.p.finalizeOK genCfg)
    some ("C44:header-exceeds-MaxHeaderSize", s!"packers={bad.map fun q => (q.p.serial, q.p.n)}")
  else if !sameBlobs (ps.flatMap (·.blobs)) accepted then
    some ("C44:blob-not-in-exactly-one-pack", s!"accepted={accepted.length} packed={(ps.map (·.blobs.length)).sum}")
  else if !distinct (ps.map (·.serial)) then some ("C44:packer-queued-twice", "")
  else if !(qs.all fun q => q.qtype == tpe && q.p.blobs.all (·.tpe == tpe)) then some ("C44:type-mix", "")
  else if !(ps.all fun p => noAddAfterFull genCfg packSize p.blobs) then
    some ("C44:add-after-full", s!"{(ps.filter fun p => !noAddAfterFull genCfg packSize p.blobs).map fun p => (p.serial, p.n, p.bytes)}")
  else if !specOK genCfg packSize tpe accepted ps then some ("C44:spec", "")
  else none

structure PmSt where
  run : Run
  err : Option (String × String) := none     -- first model/impl difference
  accImpl : List Blob := []                  -- accepted according to the implementation
  saveErr : Bool := false
  labels : List String := []

def addLabel (st : PmSt) (l : String) : PmSt := if st.labels.contains l then st else { st with labels := l :: st.labels }

def differ (st : PmSt) (f d : String) : PmSt := if st.err.isSome then st else { st with err := some (f, d) }

/-- one SaveBlob: compare return value / queueing with the model under the observed oracle -/
def stepSave (st : PmSt) (b : Blob) (slot : Int) (ret : Option Nat) (nq : Option Nat) (err : Bool) : PmSt :=
  let pm := st.run.pm
  let st := if err then { st with saveErr := true } else { st with accImpl := b :: st.accImpl }
  let oversize := decide (b.len ≥ pm.packSize)
  let st := if oversize != decide (slot < 0) then differ st "oracle" s!"blob {b.id} len {b.len}: slot {slot} but oversize={oversize}" else st
  let idx := slot.toNat
  let (pm', out) := pm.saveBlob genCfg b idx
  let run' := runOp genCfg st.run (.save b idx)
  let st := { st with run := run' }
  match out with
  | .panic => differ st "save" s!"model panics (slot {slot} out of range) for blob {b.id}"
  | .ok size q =>
    let st := if oversize then addLabel st "oversize" else st
    let st := if q.isSome && !oversize then addLabel st "full-queued" else st
    let st := if (q.map fun p => p.headerFull genCfg) == some true && !oversize then addLabel st "header-full" else st
    let st := if b.ulen != 0 then addLabel st "compressed-entry" else st
    let st := if b.len == 0 then addLabel st "empty-blob" else st
    let st := match ret with
      | some r => if r != size then differ st "retsize" s!"blob {b.id}: model {size} impl {r}" else st
      | none => st
    let st := match nq with
      | some n => if n != (if q.isSome then 1 else 0) then differ st "queued" s!"blob {b.id}: model {q.isSome} impl {n} (slots {pm'.slots.length})" else st
      | none => st
    st

def slotTok (s : Option Packer) : String :=
  match s with
  | none => "-1:0:0"
  | some p => s!"{p.serial}:{p.n}:{p.bytes}"

def handlePm (c : Case) : Verdict :=
  match c.find "cfg" with
  | none => .differ "protocol" "no-cfg"
  | some cfg =>
    let packSize := nat (cfg.getD 1 ""); let count := nat (cfg.getD 2 ""); let tpe := tpeOf (cfg.getD 3 "")
    let st0 : PmSt := { run := ⟨PM.init packSize count, [], 0⟩ }
    let st := c.recs.foldl (init := st0) fun st r =>
      match r.getD 0 "" with
      | "save" =>
        stepSave st ⟨tpeOf (r.getD 1 ""), nat (r.getD 2 ""), nat (r.getD 3 ""), nat (r.getD 4 "")⟩ (int (r.getD 5 ""))
          (some (nat (r.getD 6 ""))) (some (nat (r.getD 7 ""))) (r.getD 8 "" != "0")
      | "rep" =>
        let n := nat (r.getD 1 ""); let t := tpeOf (r.getD 2 ""); let l := nat (r.getD 3 ""); let u := nat (r.getD 4 "")
        let slots := (r.getD 5 "").toList
        let q0 := st.run.pm.queued.length
        let st := addLabel st "boundary"
        let (st, _) := slots.foldl (init := (st, 0)) fun (st, k) ch =>
          let slot : Int := if ch == 'x' then -1 else (ch.toNat - '0'.toNat : Nat)
          (stepSave st ⟨t, k, l, u⟩ slot none none false, k + 1)
        let st := if slots.length != n then differ st "protocol" "rep-length" else st
        let st := if nat (r.getD 8 "") != 0 then { st with saveErr := true } else st
        let nq := st.run.pm.queued.length - q0
        if nq != nat (r.getD 7 "") then differ st "queued" s!"rep: model queued {nq} impl {r.getD 7 ""}" else st
      | "flush" =>
        let before := st.run.pm
        let open_ := (slotPackers before).length
        let run' := runOp genCfg st.run .flush
        let nq := run'.pm.queued.length - before.queued.length
        let st := { st with run := run' }
        let st := if open_ == 0 then addLabel st "flush-empty" else if nq < open_ then addLabel st "merged" else if open_ ≥ 2 then addLabel st "not-merged" else st
        let st := if open_ ≥ 2 && nq ≥ 2 &&
            (before.mergePackers genCfg).all (fun p => decide (p.bytes < packSize)) &&
            decide (((slotPackers before).map (·.bytes)).sum < packSize) then addLabel st "merge-refused-by-entry-count" else st
        let st := if r.getD 2 "" != "0" then { st with saveErr := true } else st
        if nq != nat (r.getD 1 "") then differ st "flush" s!"model queues {nq} impl {r.getD 1 ""}" else st
      | "slots" =>
        let m := st.run.pm.slots.map slotTok
        if m != (r.toList.drop 1) then differ st "slots" s!"model {m} impl {r.toList.drop 1}" else st
      | "panic" => differ st "panic" "implementation-panicked"
      | _ => st
    let qs := (c.findAll "q").toList.map parseQ
    if c.find "panic" |>.isSome then .specfalse "C44:panic" "SaveBlob panicked" else
    if st.saveErr then .specfalse "C44:save-error" "SaveBlob/Flush returned an error without fault injection" else
    match specQueued packSize tpe st.accImpl qs with
    | some (sig, d) => .specfalse sig d
    | none =>
      -- reported counters agree with the reported entries
      match qs.find? (fun q => q.p.n != q.p.blobs.length || q.p.bytes != sumLen q.p.blobs) with
      | some q => .differ "wf" s!"packer {q.p.serial}: Count/Size do not match its entries"
      | none =>
      match st.err with
      | some (f, d) => .differ f d
      | none =>
        let mq := st.run.pm.queued.reverse
        if mq.length != qs.length then .differ "queue" s!"model {mq.length} packers impl {qs.length}" else
        match (mq.zip qs).find? (fun (m, q) => m != q.p) with
        | some (m, q) => .differ "queue" s!"model packer {m.serial} n={m.n} bytes={m.bytes} impl {q.p.serial} n={q.p.n} bytes={q.p.bytes}"
        | none =>
        match qs.find? (fun q => q.hdr != q.p.headerBytes genCfg) with
        | some q => .differ "header-bytes" s!"packer {q.p.serial}: model {q.p.headerBytes genCfg} impl {q.hdr}"
        | none =>
          let nt := qs.length ≥ 2 || qs.any (fun q => q.p.n ≥ 2)
          .agree nt (s!"packers={count}" :: (if qs.length ≥ 3 then ["many-packs"] else []) ++ st.labels)

def handleConc (c : Case) : Verdict :=
  match c.find "cfg" with
  | none => .differ "protocol" "no-cfg"
  | some cfg =>
    let packSize := nat (cfg.getD 1 ""); let tpe := tpeOf (cfg.getD 3 "")
    let accs := (c.findAll "acc").toList
    let accepted := (accs.filter (fun r => r.getD 5 "" == "0")).map fun r =>
      (⟨tpeOf (r.getD 1 ""), nat (r.getD 2 ""), nat (r.getD 3 ""), nat (r.getD 4 "")⟩ : Blob)
    let flushErr := (c.findAll "flush").any (fun r => r.getD 2 "" != "0")
    if accepted.length != accs.length || flushErr then .specfalse "C44:save-error" "concurrent SaveBlob/Flush returned an error" else
    let qs := (c.findAll "q").toList.map parseQ
    match specQueued packSize tpe accepted qs with
    | some (sig, d) => .specfalse sig d
    | none =>
      match qs.find? (fun q => q.p.n != q.p.blobs.length || q.p.bytes != sumLen q.p.blobs || q.hdr != q.p.headerBytes genCfg) with
      | some q => .differ "wf" s!"packer {q.p.serial}: Count/Size/header bytes do not match its entries"
      | none => .agree (qs.length ≥ 2) ["concurrent"]

/-! repo substream -/

structure PackRec where
  pid : String
  phase : Nat
  pos : Nat
  hdr : Nat
  listErr : Bool
  known : Bool          -- all entries are blobs of this case
  blobs : List Blob     -- order of Add (as in the header)

def parsePack (r : Array String) : PackRec :=
  let toks := r.toList.drop 6
  { pid := r.getD 1 "", phase := nat (r.getD 2 ""), pos := nat (r.getD 3 ""), hdr := nat (r.getD 4 ""),
    listErr := r.getD 5 "" != "0", known := toks.all (fun t => (t.splitOn ":").getD 1 "?" != "?"),
    blobs := toks.map blobTok }

def handleName (b : Blob) : String := (if b.tpe == .tree then "t" else "d") ++ toString b.id

def countOf (x : String) (l : List String) : Nat := (l.filter (· == x)).length

def sortStr (l : List String) : List String := l.mergeSort (fun a b => a ≤ b)

def handleRepo (c : Case) : Verdict :=
  if c.find "harness-error" |>.isSome then .differ "harness" "harness-error" else
  match c.find "cfg", c.find "sess" with
  | some cfg, some sess =>
    let packSize := nat (cfg.getD 1 "")
    let calls := (c.findAll "call").toList
    if sess.getD 1 "" != "0" || calls.any (fun r => r.getD 6 "" != "0" || r.getD 7 "" != "1") then
      .specfalse "C44:repo:session-error" s!"sess={sess.getD 1 ""} {sess.getD 2 ""}" else
    let packs := (c.findAll "pack").toList.map parsePack
    let idxs := (c.findAll "idx").toList
    let handles := (calls.map (fun r => r.getD 2 "")).eraseDups
    let pre := (c.find "pre").map (fun r => r.toList.drop 1) |>.getD []
    if packs.any (·.listErr) then .specfalse "C44:repo:pack-unreadable" "" else
    if packs.any (fun p => !p.known) then .specfalse "C44:repo:unknown-blob-in-pack" "" else
    -- (1) every accepted save is in exactly one pack of this session
    let stores (h : String) : Nat := (calls.filter fun r => r.getD 2 "" == h && (r.getD 5 "" == "0" || r.getD 4 "" == "1")).length
    let occ (phase : Option Nat) (h : String) : List String :=
      (packs.filter fun p => phase.all (· == p.phase)).flatMap fun p => (p.blobs.filter (fun b => handleName b == h)).map fun _ => p.pid
    let total1 := ((packs.filter (·.phase == 1)).map (·.blobs.length)).sum
    match handles.find? (fun h => (occ (some 1) h).length != stores h) with
    | some h => .specfalse "C44:repo:blob-not-in-exactly-one-pack" s!"{h}: saved {stores h} times, in {(occ (some 1) h).length} pack entries"
    | none =>
    if total1 != (handles.map stores).sum then .specfalse "C44:repo:blob-not-in-exactly-one-pack" "extra entries in packs" else
    -- (2) the index (in memory and as loaded from the backend) lists exactly those packs
    let entBad (key : String) : Option String :=
      ((c.findAll key).toList.find? fun r => sortStr (r.toList.drop 2) != sortStr (occ none (r.getD 1 ""))).map fun r => r.getD 1 ""
    match entBad "ent", entBad "ent2" with
    | some h, _ => .specfalse "C44:repo:index-entry-mismatch" s!"in-memory index, {h}"
    | _, some h => .specfalse "C44:repo:index-entry-mismatch" s!"index loaded from backend, {h}"
    | none, none =>
    if (c.find "ent2err").isSome || (c.findAll "ent2").size != (c.findAll "ent").size then .specfalse "C44:repo:index-not-loadable" "" else
    -- (3) uploaded, then indexed: every pack is listed by exactly one index file saved after it
    let badOrder := packs.find? fun p =>
      let listing := idxs.filter fun r => (r.toList.drop 4).contains p.pid
      !(listing.length == 1 && listing.all fun r => nat (r.getD 3 "") > p.pos && nat (r.getD 2 "") == p.phase)
    match badOrder with
    | some p => .specfalse "C44:repo:pack-not-indexed-after-upload" p.pid
    | none =>
    if ((c.find "early").map (·.size)).getD 1 > 1 then
      .specfalse "C44:repo:indexed-before-upload" s!"{(c.find "early").map (·.toList.drop 1)}" else
    if idxs.any (fun r => (r.toList.drop 4).contains "undecodable") then .specfalse "C44:repo:index-undecodable" "" else
    -- (4) no type mix, no add after full, header bound
    if packs.any (fun p => !(p.blobs.all fun b => some b.tpe == (p.blobs.head?.map (·.tpe)))) then .specfalse "C44:repo:type-mix" "" else
    match packs.find? (fun p => !noAddAfterFull genCfg packSize p.blobs.reverse) with
    | some p => .specfalse "C44:repo:add-after-full" s!"{p.pid} lens={p.blobs.map (·.len)} packSize={packSize}"
    | none =>
    if packs.any (fun p => decide (p.hdr > genCfg.maxHeaderSize)) then .specfalse "C44:header-exceeds-MaxHeaderSize" "" else
    match packs.find? (fun p => p.hdr != (Packer.headerBytes genCfg ⟨0, p.blobs, 0, 0⟩)) with
    | some p => .differ "header-bytes" p.pid
    | none =>
      let p1 := packs.filter (·.phase == 1)
      let labels := [s!"packers={cfg.getD 2 ""}", s!"v{cfg.getD 5 ""}"] ++
        (if pre.isEmpty then [] else [if cfg.getD 4 "" == "1" then "preloaded-index" else "earlier-session"]) ++
        (if calls.any (fun r => r.getD 4 "" == "1") then ["store-duplicate"] else []) ++
        (if p1.any (fun p => p.blobs.any (·.ulen != 0)) then ["compressed"] else []) ++
        (if p1.any (fun p => p.blobs.any (fun b => decide (b.len ≥ packSize))) then ["oversize"] else []) ++
        (if idxs.length ≥ 3 then ["several-index-files"] else []) ++
        (if p1.length ≥ 3 then ["many-packs"] else [])
      .agree (p1.length ≥ 2) labels
  | _, _ => .differ "protocol" "no-cfg-or-sess"

def handleC44 (c : Case) : Verdict :=
  match c.stream with
  | "pm" | "pmbig" => handlePm c
  | "pmconc" => handleConc c
  | "repo" => handleRepo c
  | s => .differ "protocol" s!"unknown-substream-{s}"

def main : IO Unit := mainLoop handleC44
