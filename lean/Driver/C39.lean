import Driver.Common
import Restic.Model.DryRun
/-!
Driver for C39 (records: see harness/main/c39.go).
(a) the model's plumbing table (`openArg`) predicts, per command and flags, whether the repository
    is opened behind `dryrun.Backend` (no lock file, no write at all), locked (a lock file is saved
    and removed) or refused; this is compared with the recorded backend operations;
(b) `specOK` is evaluated on the implementation's own trace and before/after files.
-/
open Driver Restic.Model.BeFiles Restic.Model.DryRun

namespace C39

def nameOf (t : FType) (tok : String) : String :=
  if t == .config then "" else (unhexStr tok).getD "?"

def stateOf (c : Case) (key : String) : State :=
  (c.findAll key).toList.filterMap fun r =>
    match FType.ofString (r.getD 1 "") with
    | some t => some (⟨t, nameOf t (r.getD 2 "-")⟩, r.getD 3 "")
    | none => none

/-- every recorded operation as an event (writes count as attempted, whether or not they failed) -/
def evsOf (c : Case) : List Ev :=
  (c.findAll "ev").toList.filterMap fun r =>
    match FType.ofString (r.getD 2 "") with
    | none => none
    | some t =>
      let h : Handle := ⟨t, nameOf t (r.getD 3 "-")⟩
      match r.getD 1 "" with
      | "save" => some (.save h "")
      | "remove" => some (.remove h)
      | "load" => some (.load h)
      | "stat" => some (.stat h)
      | "list" => some (.list t)
      | _ => none

def cmdOf : String → Option Cmd
  | "backup" => some .backup
  | "forget" => some .forget
  | "prune" => some .prune
  | "rewrite" => some .rewrite
  | "repairsnapshots" => some .repairSnapshots
  | "reader" => some .reader
  | "check" => some .check
  | "listlocks" => some .listLocks
  | _ => none

def handle (c : Case) : Verdict :=
  let cmdR := (c.find "cmd").getD #[]
  let name := cmdR.getD 2 "?"
  match cmdOf (cmdR.getD 1 "") with
  | none => .differ "protocol" "unknown-cmd"
  | some cmd =>
  let fl := (c.find "flags").getD #[]
  let f : Flags := { dryRun := fl.getD 1 "0" == "1", noLock := fl.getD 2 "0" == "1" }
  let pre := stateOf c "pre"
  let post := stateOf c "post"
  let evs := evsOf c
  let resR := (c.find "res").getD #[]
  if resR.size < 2 then .differ "protocol" "no-res-record" else
  let exit := resR.getD 1 "?"
  let variant := ((c.find "repo").getD #[]).getD 1 "?"
  let deleted := (c.findAll "ev").any fun r => r.getD 1 "" == "delete"
  -- (b) the property on the implementation's own output
  if !specOK cmd f pre post evs || (inScope cmd f && deleted) then
    let sig :=
      if !sameState pre post then s!"C39:{name}:files-changed"
      else if !noDataWrites evs || deleted then s!"C39:{name}:write-reached-backend"
      else s!"C39:{name}:lock-written-in-lock-free-mode"
    let w := evs.filter (·.mutating)
    .specfalse sig s!"dry={f.dryRun} nolock={f.noLock} repo={variant} exit={exit} writes={repr (w.take 4)}"
  else
  if resR.getD 2 "" == "panic" then .differ "panic" s!"{name} {resR.getD 3 ""}" else
  -- (a) plumbing table against the trace
  let lockSaves := (evs.filter fun e => match e with | .save h _ => h.t == .lock | _ => false).length
  let lockRemoves := (evs.filter fun e => match e with | .remove h => h.t == .lock | _ => false).length
  let mode := openArg cmd f
  let verdictA : Option String :=
    match mode with
    | none =>
      if exit == "0" then some "model-refuses-impl-succeeds"
      else if !evs.isEmpty then some "model-refuses-but-backend-was-used"
      else none
    | some true =>
      if !noWrites evs then some "model-wrapped-but-writes-seen" else none
    | some false =>
      if exit == "0" && (lockSaves == 0 || lockRemoves == 0) then some s!"model-locked-but-no-lock-seen saves={lockSaves} removes={lockRemoves}"
      else none
  match verdictA with
  | some d => .differ "open-mode" s!"{name} dry={f.dryRun} nolock={f.noLock} {d}"
  | none =>
    let modeL := match mode with | none => "refused" | some true => "wrapped" | some false => "locked"
    let labels := [name, modeL, "repo-" ++ variant, if exit == "0" then "exit0" else "exit-nonzero"] ++
      (if f.dryRun then ["dry-run"] else []) ++ (if f.noLock then ["no-lock"] else []) ++
      (if inScope cmd f then [] else ["control"]) ++
      (if !inScope cmd f && !noDataWrites evs then ["control-wrote"] else [])
    .agree (inScope cmd f) labels

end C39

def main : IO Unit := mainLoop C39.handle
