import Driver.Common
import Restic.Model.Corrupt
/-!
Driver for C03. One case per mutant:
  site <pack|index|snapshot|key|config|multi> <flip|truncate|delete|none> <offset> <bit> <filelen> <region>
  part <kind> <mutation> <offset> <region>          (multi-site mutants: one per site)
  listed <0/1 …>       per original snapshot: its file is still present
  self <0/1 …>         per original snapshot: its own file was mutated
  check ok|err <exit> | check panic <msg>
  restore <same|diff|fail|panic …>     per original snapshot
  dump <same|diff|fail|panic …>
-/
open Driver Restic.Model.Corrupt

def kindOf : String → Option FileKind
  | "pack" => some .pack | "index" => some .index | "snapshot" => some .snapshot
  | "key" => some .key | "config" => some .config | "multi" => some .multi | _ => none

def mutOf : String → Option Mutation
  | "flip" => some .flip | "truncate" => some .truncate | "delete" => some .delete | "none" => some .none
  | "swapped" => some .swapped
  | _ => none

def outOf : String → Option Bool
  | "same" => some true | "diff" => some false | _ => none

def handleC03 (c : Case) : Verdict :=
  match c.find "site", c.find "listed", c.find "self", c.find "check", c.find "restore", c.find "dump" with
  | some st, some li, some se, some ch, some rs, some du =>
    match kindOf (st.getD 1 ""), mutOf (st.getD 2 "") with
    | some k, some m =>
      let tag := s!"{st.getD 1 ""}:{st.getD 2 ""}"
      let region := st.getD 6 "-"
      let toks (r : Array String) : List String := r.toList.drop 1
      if ch.getD 1 "" == "panic" then .specfalse s!"C03:check:panic:{tag}" s!"offset={st.getD 3 ""} region={region}" else
      if (toks rs).contains "panic" then .specfalse s!"C03:restore:panic:{tag}" s!"offset={st.getD 3 ""} region={region}" else
      if (toks du).contains "panic" then .specfalse s!"C03:dump:panic:{tag}" s!"offset={st.getD 3 ""} region={region}" else
      let o : Observed := { checkErr := ch.getD 1 "" != "ok", restores := (toks rs).map outOf, dumps := (toks du).map outOf }
      let listed := (toks li).map (· == "1")
      if !specOK k m listed o then
        let sig :=
          if o.restores.any (· == some false) then s!"C03:restore:ok-with-wrong-bytes:{tag}"
          else if o.dumps.any (· == some false) then s!"C03:dump:ok-with-wrong-bytes:{tag}"
          else s!"C03:check:silent:{tag}:{region}"
        .specfalse sig s!"offset={st.getD 3 ""} bit={st.getD 4 ""} len={st.getD 5 ""} check={ch.getD 1 ""} restore={toks rs} dump={toks du} listed={toks li}"
      else
        -- model: the classification's predictions
        let selfs := (toks se).map (· == "1")
        let checkBad := match expectCheck k m with | some e => e != o.checkErr | none => false
        let rBad := (List.zip selfs o.restores).any fun p => !(expectRestore k m p.1).admits p.2
        let dBad := (List.zip selfs o.dumps).any fun p => !(expectRestore k m p.1).admits p.2
        if checkBad then .differ "check" s!"{tag} region={region} offset={st.getD 3 ""} predicted={repr (expectCheck k m)} observed={ch.toList}"
        else if rBad then .differ "restore" s!"{tag} region={region} offset={st.getD 3 ""} self={toks se} observed={toks rs}"
        else if dBad then .differ "dump" s!"{tag} region={region} offset={st.getD 3 ""} self={toks se} observed={toks du}"
        else
          let outs := (toks rs).foldl (fun acc x => let l := "restore-" ++ x; if acc.contains l then acc else acc ++ [l]) []
          let douts := (toks du).foldl (fun acc x => let l := "dump-" ++ x; if acc.contains l then acc else acc ++ [l]) []
          .agree (m != .none) ([tag, "check-" ++ ch.getD 1 ""] ++ (if region != "-" then ["region-" ++ region] else []) ++ outs ++ douts)
    | _, _ => .differ "protocol" "bad-site-record"
  | _, _, _, _, _, _ => .differ "protocol" "missing-records"

def main : IO Unit := mainLoop handleC03
