import Driver.Common
import Restic.Model.Backup
/-!
Driver for C01 (records: see harness/main/c01.go). `src`/`dst` are the walks of the source and
the restored tree, `snap` the nodes of the snapshot. File contents are represented by their
SHA-256 (computed by the harness): the model is run on the source description with these digests
as contents, one chunk per file; the chunk-level data path is C17's stream.
  (a) model: `observe (restore (backup src))` must equal the real restored walk (entry by entry,
      same hard-link partition); the model's nodes must equal the real snapshot nodes;
  (b) spec: `specOK src dst` on the implementation's own output.
-/
open Driver Restic.Model.Backup

/-- Go's `utf8.Valid` -/
def validUTF8 : List UInt8 → Bool
  | [] => true
  | b0 :: r =>
    if b0 < 0x80 then validUTF8 r
    else if b0 < 0xC2 then false
    else if b0 < 0xE0 then
      match r with
      | b1 :: r' => (0x80 ≤ b1 && b1 ≤ 0xBF) && validUTF8 r'
      | _ => false
    else if b0 < 0xF0 then
      match r with
      | b1 :: b2 :: r' =>
        let lo : UInt8 := if b0 == 0xE0 then 0xA0 else 0x80
        let hi : UInt8 := if b0 == 0xED then 0x9F else 0xBF
        (lo ≤ b1 && b1 ≤ hi) && (0x80 ≤ b2 && b2 ≤ 0xBF) && validUTF8 r'
      | _ => false
    else if b0 < 0xF5 then
      match r with
      | b1 :: b2 :: b3 :: r' =>
        let lo : UInt8 := if b0 == 0xF0 then 0x90 else 0x80
        let hi : UInt8 := if b0 == 0xF4 then 0x8F else 0xBF
        (lo ≤ b1 && b1 ≤ hi) && (0x80 ≤ b2 && b2 ≤ 0xBF) && (0x80 ≤ b3 && b3 ≤ 0xBF) && validUTF8 r'
      | _ => false
    else false

def splitPath (bs : List UInt8) : Path :=
  if bs.isEmpty then [] else
  let rec go (cur : List UInt8) (acc : Path) : List UInt8 → Path
    | [] => (cur.reverse :: acc).reverse
    | b :: r => if b == 47 then go [] (cur.reverse :: acc) r else go (b :: cur) acc r
  go [] [] bs

def parseXattrs (tok : String) : List (Bytes × Bytes) :=
  if tok == "-" then [] else
  (tok.splitOn ",").map fun kv =>
    match kv.splitOn ":" with
    | [k, v] => ((unhex k).getD [], (unhex v).getD [])
    | _ => ([], [])

def parseOct (s : String) : Nat := s.toList.foldl (fun a c => a * 8 + (c.toNat - '0'.toNat)) 0

def parseKind (s : String) : Kind :=
  match s with
  | "file" => .file | "dir" => .dir | "symlink" => .symlink | "dev" => .dev
  | "chardev" => .chardev | "fifo" => .fifo | _ => .socket

def parseKey (s : String) : Nat × Nat :=
  match s.splitOn ":" with
  | [a, b] => (a.toNat!, b.toNat!)
  | _ => (0, 0)

/-- src/dst record -> Item (content = SHA-256 digest bytes) -/
def parseItem (r : Array String) : Item × Nat :=
  let k := parseKind (r.getD 2 "")
  let key := parseKey (r.getD 12 "0:0")
  ({ path := splitPath ((unhex (r.getD 1 "-")).getD []), kind := k,
     md := { mode := parseOct (r.getD 3 "0"), uid := (r.getD 4 "0").toNat!, gid := (r.getD 5 "0").toNat!,
             mtimeSec := (r.getD 6 "0").toInt!, mtimeNsec := (r.getD 7 "0").toNat!, xattrs := parseXattrs (r.getD 14 "-") },
     content := if k == .file then (unhex (r.getD 9 "-")).getD [] else [],
     target := if k == .symlink then (unhex (r.getD 10 "-")).getD [] else [],
     rdev := (r.getD 11 "0").toNat!, dev := key.1, ino := key.2, nlink := (r.getD 13 "1").toNat! },
   (r.getD 8 "0").toNat!)

structure SnapRec where
  path : Path
  kind : Kind
  md : Meta
  size : Nat
  nblobs : Nat
  blobsum : Nat
  target : Bytes
  device : Nat
  key : Nat × Nat
  links : Nat

def parseSnap (r : Array String) : SnapRec :=
  { path := splitPath ((unhex (r.getD 1 "-")).getD []), kind := parseKind (r.getD 2 ""),
    md := { mode := parseOct (r.getD 3 "0"), uid := (r.getD 4 "0").toNat!, gid := (r.getD 5 "0").toNat!,
            mtimeSec := (r.getD 6 "0").toInt!, mtimeNsec := (r.getD 7 "0").toNat!, xattrs := parseXattrs (r.getD 15 "-") },
    size := (r.getD 8 "0").toNat!, nblobs := (r.getD 9 "0").toNat!, blobsum := (r.getD 10 "0").toNat!,
    target := (unhex (r.getD 11 "-")).getD [], device := (r.getD 12 "0").toNat!, key := parseKey (r.getD 13 "0:0"),
    links := (r.getD 14 "0").toNat! }

def kindStr : Kind → String
  | .file => "file" | .dir => "dir" | .symlink => "symlink" | .dev => "dev" | .chardev => "chardev"
  | .fifo => "fifo" | .socket => "socket"

/-- `time.Time.UnixNano()` is defined only for seconds in this range -/
def inUnixNanoRange (sec : Int) : Bool := -9223372036 ≤ sec && sec ≤ 9223372035

/-- first difference between a source entry and what stands for it, as a signature -/
def entryDiff (lvl : String) (a : Item) (bpath : Path) (bkind : Kind) (bmd : Meta) (content : Option (Bytes × Bytes))
    (btarget : Bytes) (brdev : Nat) : Option String :=
  if a.path != bpath then some s!"C01:{lvl}:missing-or-extra-entry"
  else if a.kind != bkind then some s!"C01:{lvl}:type:{kindStr a.kind}"
  else if a.md.mode != bmd.mode then some s!"C01:{lvl}:mode:{kindStr a.kind}"
  else if a.md.uid != bmd.uid || a.md.gid != bmd.gid then some s!"C01:{lvl}:ownership:{kindStr a.kind}"
  else if a.md.mtimeSec != bmd.mtimeSec || a.md.mtimeNsec != bmd.mtimeNsec then
    (if !inUnixNanoRange a.md.mtimeSec then some "C01:mtime:outside-unixnano-range" else some s!"C01:{lvl}:mtime:{kindStr a.kind}")
  else if a.md.xattrs != bmd.xattrs then
    (if a.md.xattrs.any (fun kv => !validUTF8 kv.1) then some "C01:invalid-utf8-in:xattr-name" else some s!"C01:{lvl}:xattrs:{kindStr a.kind}")
  else if (match content with | some (x, y) => a.kind == Kind.file && x != y | none => false) then some s!"C01:{lvl}:content"
  else if a.kind == Kind.symlink && a.target != btarget then some s!"C01:{lvl}:linktarget"
  else if (a.kind == Kind.dev || a.kind == Kind.chardev) && a.rdev != brdev then some s!"C01:{lvl}:device-number"
  else none

def handleC01 (c : Case) : Verdict :=
  if (c.findAll "gen-error").size > 0 then .agree false ["generator-error", c.stream] else
  let errs := (c.findAll "src-error").size + (c.findAll "dst-error").size + (c.findAll "snap-error").size
  let srcP := (c.findAll "src").toList.map parseItem
  let dstP := (c.findAll "dst").toList.map parseItem
  let src := srcP.map (·.1)
  let dst := dstP.map (·.1)
  let snaps := (c.findAll "snap").toList.map parseSnap
  let res := c.find "res"
  match res with
  | none => .differ "protocol" "no-res-record"
  | some rr =>
  if rr.getD 1 "" != "0" then .specfalse "C01:backup-did-not-succeed" s!"exit={rr.getD 1 ""}" else
  if rr.getD 2 "" != "0" then .specfalse "C01:restore-did-not-succeed" s!"exit={rr.getD 2 ""}" else
  if errs > 0 then .differ "walk" "walk-error-record" else
  let s := src.filter (·.kind != .socket)
  let sSizes := (srcP.filter (·.1.kind != .socket)).map (·.2)
  -- (b1) the snapshot describes the source
  let snapV : Option (String × String) :=
    if s.length != snaps.length then some ("C01:snapshot:missing-or-extra-entry", s!"src={s.length} snap={snaps.length}") else
    ((s.zip sSizes).zip snaps).findSome? fun ((a, sz), n) =>
      match entryDiff "snapshot" a n.path n.kind n.md none n.target n.device with
      | some sig => some (sig, s!"path={hex (a.path.intersperse [47]).flatten}")
      | none =>
        if a.kind == .file && (n.size != sz || n.blobsum != sz) then some ("C01:snapshot:size", s!"path={hex (a.path.intersperse [47]).flatten} size={sz} node={n.size} blobs={n.blobsum}")
        else if (a.kind == .file) && (n.key != (a.dev, a.ino) || n.links != a.nlink) then some ("C01:snapshot:inode-or-links", s!"path={hex (a.path.intersperse [47]).flatten}")
        else none
  -- (b2) restored ≃ source
  let specV : Option (String × String) :=
    if specOK src dst then none else
    if s.length != dst.length then some ("C01:restore:missing-or-extra-entry", s!"src={s.length} dst={dst.length}") else
    match (s.zip dst).findSome? (fun (a, b) =>
        (entryDiff "restore" a b.path b.kind b.md (some (a.content, b.content)) b.target b.rdev).map fun sig => (sig, s!"path={hex (a.path.intersperse [47]).flatten} src-mtime={a.md.mtimeSec}.{a.md.mtimeNsec} dst-mtime={b.md.mtimeSec}.{b.md.mtimeNsec}")) with
    | some v => some v
    | none => some ("C01:restore:hardlink-grouping", "")
  match specV, snapV with
  | some (sig, d), _ => .specfalse sig d
  | none, some (sig, d) => .specfalse sig d
  | none, none =>
    -- (a) the model on the source description
    let bk := backup (ID := Bytes) id (fun cnt => [cnt]) src
    let nodes := bk.2
    let nodeDiff : Option String :=
      if nodes.length != snaps.length then some "node-count" else
      (nodes.zip snaps).findSome? fun (m, n) =>
        if m.path != n.path || m.kind != n.kind || m.md != n.md || m.target != n.target || m.device != n.device then some s!"node {hex (m.path.intersperse [47]).flatten}"
        else if m.kind == .file && ((m.inode, m.deviceID) != (n.key.2, n.key.1) || m.links != n.links) then some s!"node-inode {hex (m.path.intersperse [47]).flatten}"
        else if m.kind != .file && m.links != n.links then some s!"node-links {hex (m.path.intersperse [47]).flatten} model={m.links} impl={n.links}"
        else none
    match nodeDiff with
    | some d => .differ "snapshot-nodes" d
    | none =>
    match restore bk.1 nodes (fun _ => [0]) with
    | none => .differ "model-restore" "blob-missing"
    | some rs =>
      let mdst := observe rs
      if mdst.length != dst.length then .differ "restored" "entry-count" else
      match (mdst.zip dst).find? (fun (a, b) => !sameEntry a b) with
      | some (a, _) => .differ "restored" s!"entry {hex (a.path.intersperse [47]).flatten}"
      | none =>
        if !sameGrouping mdst dst then .differ "restored" "hardlink-grouping" else
        let kinds := (src.map fun a => "k-" ++ kindStr a.kind).eraseDups
        let files := srcP.filter (·.1.kind == .file)
        let labels := kinds ++
          (if src.any (fun a => a.kind == .file && a.nlink > 1) then ["hardlinks"] else []) ++
          (if src.any (fun a => !a.md.xattrs.isEmpty) then ["xattrs"] else []) ++
          (if src.any (fun a => !a.md.xattrs.isEmpty && a.kind != .file && a.kind != .dir && a.kind != .socket) then ["xattrs-on-symlink-fifo-device"] else []) ++
          (if src.any (fun a => a.path.any (fun n => !validUTF8 n)) then ["name-invalid-utf8"] else []) ++
          (if src.any (fun a => a.path.any (fun n => n.any (fun b => b < 32 || b == 127))) then ["name-control-chars"] else []) ++
          (if src.any (fun a => a.path.any (fun n => n.length > 200)) then ["name-long"] else []) ++
          (if src.any (fun a => a.kind == .symlink && !validUTF8 a.target) then ["linktarget-invalid-utf8"] else []) ++
          (if files.any (fun f => f.2 == 0) then ["file-empty"] else []) ++
          (if files.any (fun f => f.2 > 1048576) then ["file-multichunk"] else []) ++
          (if snaps.any (fun n => n.nblobs > 1) then ["blobs>1"] else []) ++
          (if src.any (fun a => a.md.mtimeSec < 0) then ["mtime-negative"] else []) ++
          (if src.any (fun a => a.md.mtimeSec > 4294967295) then ["mtime>2106"] else []) ++
          (if src.any (fun a => a.md.mode ≥ 512) then ["mode-special-bits"] else []) ++
          (match c.find "cfg" with
           | some g => ["v" ++ g.getD 1 "", "compr-" ++ g.getD 2 "", "pack" ++ g.getD 3 "", "rc" ++ g.getD 4 "", if g.getD 5 "0" == "1" then "sparse" else "nosparse"]
           | none => []) ++
          [c.stream, if src.length ≤ 8 then "entries<=8" else if src.length ≤ 30 then "entries9-30" else "entries>30"]
        .agree (src.length > 3) labels

def main : IO Unit := mainLoop handleC01
