import Driver.FilterTables
/-!
Driver for C20 (one case = one `restic restore` with pattern flags, optionally `--delete` into a
pre-populated target).
  node <hex path> f|d|o|s <size>   listing of the snapshot (s = socket)
  ex|iex|in|iin <hex pattern>      flag values
  exf|iexf|inf|iinf <hex line>*    one record per pattern file (its lines)
  delete 0|1
  pre <hex path> f|d|o             entries in the target before the restore ("/rel/path")
  clean / glob                     stdlib oracle tables
  res ok | fatal <msg> | panic
  tgt <hex path> f|d|o             entries in the target afterwards
-/
open Driver Driver.FT Restic.Model.Filter Restic.Model.Select

def showPath (p : List Str) : String := "/" ++ "/".intercalate (p.map showStr)

def handleC20 (c : Case) : Verdict := Id.run do
  let tabs := tablesOf c
  if let some v := tabs.lawViolation then return .differ "oracle-law" v
  let glob := tabs.globF
  let root := treeOf c "node"
  let fl ← match flagsOf c tabs with
    | .ok f => pure f
    | .error e => return .differ "oracle" e
  let pre : List (List Str) := (c.findAll "pre").toList.map fun r => namesOf (strOf (r.getD 1 "-"))
  let comps := (compsOfTree root ++ (pre.flatMap id) ++ (pre.flatMap id).map lowerStr).eraseDups
  if !(tabs.covers (fl.allPatterns tabs) comps) then return .differ "oracle" "missing-glob-entry"
  let delete := ((c.find "delete").map (·.getD 1 "0")) == some "1"
  let selO := restoreFilter tabs.cleanF glob fl.ex fl.inc
  let sel : List Str → Bool → Bool × Bool := selO.getD fun _ _ => (true, true)
  let exMode := !fl.exLists.isEmpty
  let inMode := !exMode && !fl.inLists.isEmpty
  let eo := entries [] root
  let labels : List String :=
    [if inMode then "include" else if exMode then "exclude" else "nofilter"] ++
    (if !fl.ex.files.isEmpty || !fl.ex.ifiles.isEmpty || !fl.inc.files.isEmpty || !fl.inc.ifiles.isEmpty then ["pattern-file"] else []) ++
    (if (entries [] root).any (·.sock) then ["socket"] else []) ++
    (if delete then ["delete"] else []) ++ (if pre.isEmpty then ["empty-target"] else ["prepopulated"]) ++
    (if (fl.exLists ++ fl.inLists).any (·.insensitive) then ["insensitive"] else []) ++
    (if (fl.exLists ++ fl.inLists).any (fun l => l.pats.any (·.negated)) then ["negated"] else []) ++
    (if (fl.exLists ++ fl.inLists).any (fun l => l.pats.any (fun p => countDW p.parts > 0)) then ["dw"] else []) ++
    [s!"entries{min (eo.length / 4 * 4) 16}"]
  let modelFatal := selO.isNone
  match c.find "res" with
  | none => return .differ "protocol" "no-res-record"
  | some r =>
    let kind := r.getD 1 ""
    if kind == "panic" then return .specfalse "C20:panic" "restore panicked"
    if kind == "fatal" then
      if modelFatal then return .agree false (labels ++ ["fatal"])
      else return .differ "result" s!"model accepts, impl fatal {(unhexStr (r.getD 2 "-")).getD ""}"
    if !fl.allValid then return .specfalse "C20:options:invalid-pattern-accepted" ""
    if selO.isNone then return .specfalse "C20:options:include-and-exclude-accepted" ""
    let tgt : List (List Str) := (c.findAll "tgt").toList.map fun r => namesOf (strOf (r.getD 1 "-"))
    -- the property on the implementation's own output
    if pre.isEmpty then
      if !specRestoreOK sel exMode root ([] :: tgt) then
        let want (e : Entry) : Bool :=
          !e.sock && (if exMode then (sel e.path e.isDir).1 && (ancestors e.path).all fun a => (sel a true).1
          else (sel e.path e.isDir).1)
        let sig :=
          if eo.any (fun e => !e.isDir && want e && !tgt.contains e.path) then "C20:restore:selected-item-not-written"
          else if eo.any (fun e => !e.isDir && !want e && tgt.contains e.path) then "C20:restore:unselected-item-written"
          else if tgt.any (fun p => !eo.any (fun e => e.path == p)) then "C20:restore:path-not-in-snapshot"
          else "C20:restore:wrong-directories"
        return .specfalse sig s!"target={tgt.map showPath}"
    else
      -- non-directory snapshot items that did not exist before: present iff selected
      for e in eo do
        if !e.isDir && !pre.contains e.path then
          let want := !e.sock && (sel e.path false).1 && reachable sel e.path
          if tgt.contains e.path != want then
            return .specfalse (if want then "C20:restore:selected-item-not-written" else "C20:restore:unselected-item-written") (showPath e.path)
    if delete then
      if !specDeleteOK sel root false pre tgt then
        if pre.any (fun e => eo.any (fun x => x.path == e) && !tgt.contains e) then
          return .specfalse "C20:delete:entry-with-snapshot-name-removed" s!"pre={pre.map showPath} target={tgt.map showPath}"
        let removedUnsel := pre.any fun e => !tgt.contains e && !(List.range (e.length + 1)).any fun k => k > 0 && (sel (e.take k) false).1
        return .specfalse (if removedUnsel then "C20:delete:unselected-entry-removed" else "C20:delete:wrong-entries-removed")
          s!"pre={pre.map showPath} target={tgt.map showPath}"
      if !specDeleteOK sel root true pre tgt then
        return .specfalse "C20:delete:selected-stale-entry-survives-in-dir-without-restored-item"
          s!"pre={pre.map showPath} target={tgt.map showPath}"
    else
      if pre.any (fun e => !tgt.contains e) then return .specfalse "C20:nodelete:pre-existing-entry-removed" ""
    -- model vs implementation: membership of every candidate path
    let cand := (eo.map (·.path) ++ pre ++ tgt).eraseDups
    for p in cand do
      let m := afterRestore sel root delete pre p
      if m != tgt.contains p then
        return .differ "target" s!"{showPath p} model={m} impl={tgt.contains p}"
    let evs := traverse sel root
    let nvis := evs.filter fun | .visit _ _ => true | _ => false
    return .agree (!nvis.isEmpty) (labels ++ (if nvis.isEmpty then ["nothing-restored"] else ["restored-some"]) ++
      (if delete && !(deletedTops sel evs pre).isEmpty then ["deleted-some"] else []) ++
      (if nvis.length < (eo.filter (!·.isDir)).length then ["pruned-some"] else []))

def main : IO Unit := mainLoop handleC20
