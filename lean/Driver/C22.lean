import Driver.Common
import Restic.Model.Policy
/-!
Driver for C22 (retention policy). Records per case (harness/main/c22.go), `<X>` = "" or "2":
  now <sec> <nsec>
  ps <idx> <sec> <nsec> <year> <month> <day> <hour> <isoYear> <isoWeek>      pst <idx> <tag>*
  pol<X> <last> <hourly> <daily> <weekly> <monthly> <yearly>
  dur<X> <i> <hours> <days> <months> <years>        ptag<X> <tag>*
  latest <sec> <nsec>          win<X> <i> <sec> <nsec>     (window start latest − duration, oracle)
  keep<X> <idx>*   remove<X> <idx>*   reason<X> <idx> <hex reason>*   ctr<X> <idx> <6 counters>
  res panic|refuse|error <msg>
-/
open Driver Restic.Model.Snapshots Restic.Model.Policy

namespace C22

def int (s : String) : Int := s.toInt?.getD 0
def nat (s : String) : Nat := s.toNat?.getD 0
def timeOf (sec nsec : String) : Int := int sec * 1000000000 + int nsec

def strs (r : Array String) (from_ : Nat) : List String :=
  (r.toList.drop from_).map fun t => (unhexStr t).getD "?"

def parseList (c : Case) : List PSnap :=
  (c.findAll "ps").toList.map fun r =>
    let idx := r.getD 1 "0"
    let tags := match (c.findAll "pst").toList.find? (fun q => q.getD 1 "" == idx) with
      | some q => strs q 2
      | none => []
    { sn := { id := nat idx, time := timeOf (r.getD 2 "0") (r.getD 3 "0"), host := "", paths := [], tags := tags }
      civ := { year := int (r.getD 4 "0"), month := int (r.getD 5 "0"), day := int (r.getD 6 "0"),
               hour := int (r.getD 7 "0"), isoYear := int (r.getD 8 "0"), isoWeek := int (r.getD 9 "0") } }

def parseDur (c : Case) (x : String) (i : Nat) : Dur :=
  match (c.findAll ("dur" ++ x)).toList.find? (fun q => nat (q.getD 1 "9") == i) with
  | some q => ⟨int (q.getD 2 "0"), int (q.getD 3 "0"), int (q.getD 4 "0"), int (q.getD 5 "0")⟩
  | none => ⟨0, 0, 0, 0⟩

def parsePolicy (c : Case) (x : String) : Policy :=
  let r := (c.find ("pol" ++ x)).getD #[]
  { last := int (r.getD 1 "0"), hourly := int (r.getD 2 "0"), daily := int (r.getD 3 "0"),
    weekly := int (r.getD 4 "0"), monthly := int (r.getD 5 "0"), yearly := int (r.getD 6 "0"),
    within := parseDur c x 0, withinHourly := parseDur c x 1, withinDaily := parseDur c x 2,
    withinWeekly := parseDur c x 3, withinMonthly := parseDur c x 4, withinYearly := parseDur c x 5,
    tags := (c.findAll ("ptag" ++ x)).toList.map fun r => strs r 1 }

/-- the `AddDate/Add` oracle as a table: duration ↦ (window start as computed by the source, exact seconds) -/
def winTable (c : Case) : List (Dur × Int) :=
  (["", "2"].flatMap fun x =>
    (c.findAll ("win" ++ x)).toList.map fun r =>
      (parseDur c x (nat (r.getD 1 "9")), timeOf (r.getD 2 "0") (r.getD 3 "0")))

/-- the overflowed window starts (durations beyond the range of `time.Duration` only) -/
def rawTable (c : Case) : List (Dur × Int) :=
  (["", "2"].flatMap fun x =>
    (c.findAll ("winraw" ++ x)).toList.map fun r =>
      (parseDur c x (nat (r.getD 1 "9")), timeOf (r.getD 2 "0") (r.getD 3 "0")))

def subOf (tbl : List (Dur × Int)) (_latest : Int) (d : Dur) : Int :=
  match tbl.find? (fun e => e.1 == d) with
  | some e => e.2
  | none => 0

/-- more hours than a `time.Duration` can hold (2562047 h) -/
def hugeHours (d : Dur) : Bool := d.hours > 2562047

def nats (r : Array String) (from_ : Nat) : List Nat := (r.toList.drop from_).map nat

def kindsUsed (p : Policy) : List String :=
  (countKinds.filterMap fun k => if p.countOf k != 0 then some (repr k).pretty else none).map (fun s => (s.splitOn ".").getLast!) ++
  (withinKinds.filterMap fun k => if !(p.withinOf k).zero then some ("within-" ++ ((repr k).pretty.splitOn ".").getLast!) else none) ++
  (if !p.within.zero then ["within"] else []) ++ (if !p.tags.isEmpty then ["tags"] else []) ++
  (if countKinds.any (fun k => p.countOf k == -1) then ["unlimited"] else []) ++
  (if p.empty then ["empty-policy"] else [])

structure Outcome where
  keep : List Nat
  remove : List Nat
  reasons : List (Nat × List String)
  counters : List (Nat × List Int)

def parseOutcome (c : Case) (x : String) : Option Outcome :=
  match c.find ("keep" ++ x), c.find ("remove" ++ x) with
  | some k, some r => some {
      keep := nats k 1, remove := nats r 1
      reasons := (c.findAll ("reason" ++ x)).toList.map fun q => (nat (q.getD 1 "0"), strs q 2)
      counters := (c.findAll ("ctr" ++ x)).toList.map fun q => (nat (q.getD 1 "0"), (q.toList.drop 2).map int) }
  | _, _ => none

/-- compare one run of the implementation with the model and the spec; returns labels on success -/
def checkRun (c : Case) (x : String) (list : List PSnap) (now latestImpl : Int) (tbl : List (Dur × Int))
    (o : Outcome) : Except Verdict (List String) := do
  let p := parsePolicy c x
  let sub := subOf tbl
  let subRaw := subOf (rawTable c ++ tbl)
  -- every window the policy needs must be in the oracle table (when the list is non-empty)
  let needed := ([p.within] ++ withinKinds.map p.withinOf).filter (!·.zero)
  if !list.isEmpty && needed.any (fun d => !(tbl.any (·.1 == d))) then
    throw (.differ "oracle" "window-start-missing")
  if !specOK sub latestImpl list p o.keep o.remove (o.reasons.map (·.2.length)) then
    let sorted := sortNewestFirst list
    let sig :=
      if (o.keep ++ o.remove).length != list.length || !(list.all fun s => (o.keep ++ o.remove).count s.sn.id == 1) then
        "C22:partition:keep-remove-do-not-partition-the-list"
      else if o.reasons.any (·.2.isEmpty) || o.reasons.length != o.keep.length then "C22:reasons:kept-without-reason"
      else if needed.any hugeHours && specOK subRaw latestImpl list p o.keep o.remove (o.reasons.map (·.2.length)) then
        -- explained exactly by the overflow of `time.Hour * time.Duration(-hours)`
        "C22:within:hours-beyond-time.Duration-range"
      else if keysRegular sorted then "C22:rules:kept-set-differs-from-documented-rules"
      else "C22:rules:kept-set-differs-irregular-keys"
    throw (.specfalse sig s!"keep={o.keep} remove={o.remove}")
  match applyPolicy sub now list p with
  | .panic => throw (.differ "model-panic" "applyPolicy")
  | .ok ds =>
    let mk := (keepOf ds).map (·.sn.id)
    let mr := (removeOf ds).map (·.sn.id)
    if mk != o.keep then throw (.differ ("keep" ++ x) s!"model={mk} impl={o.keep}")
    if mr != o.remove then throw (.differ ("remove" ++ x) s!"model={mr} impl={o.remove}")
    let mreasons := (reasonsOf ds).map fun e => (e.1.sn.id, e.2)
    -- a window beyond the range of time.Duration that only shows in the reasons is the same
    -- failing input class as one that changes the kept set
    if mreasons != o.reasons && needed.any hugeHours then
      match applyPolicy subRaw now list p with
      | .ok ds' =>
        if ((reasonsOf ds').map fun e => (e.1.sn.id, e.2)) == o.reasons then
          throw (.specfalse "C22:within:hours-beyond-time.Duration-range" s!"reasons model={mreasons} impl={o.reasons}")
      | .panic => pure ()
    if mreasons != o.reasons then throw (.differ ("reasons" ++ x) s!"model={mreasons} impl={o.reasons}")
    if !o.counters.isEmpty then
      let mc := (ds.filter (·.keep)).map fun d => (d.snap.sn.id, d.counters)
      if mc != o.counters then throw (.differ ("counters" ++ x) s!"model={mc} impl={o.counters}")
    let sorted := sortNewestFirst list
    pure (kindsUsed p ++
      (if o.reasons.any (fun e => e.2.any (·.startsWith "oldest")) then ["oldest-kept"] else []) ++
      (if list.isEmpty then ["empty-list"] else if o.remove.isEmpty then ["all-kept"] else if o.keep.isEmpty then ["none-kept"] else ["some-kept"]) ++
      (if keysRegular sorted then ["regular-keys"] else ["irregular-keys"]))

def handle (c : Case) : Verdict :=
  let list := parseList c
  let now := match c.find "now" with | some r => timeOf (r.getD 1 "0") (r.getD 2 "0") | none => 0
  let tbl := winTable c
  match c.find "res" with
  | some r =>
    let kind := r.getD 1 ""
    if kind == "panic" then .specfalse s!"C22:{c.stream}:panic" ((unhexStr (r.getD 2 "-")).getD "?")
    else if kind == "refuse" then
      -- forget refused to delete the last snapshot: the model must keep nothing
      match applyPolicy (subOf tbl) now list (parsePolicy c "") with
      | .ok ds => if (keepOf ds).isEmpty then .agree false ["cli", "refused-keep-nothing"] else .differ "refuse" "model-keeps-something"
      | .panic => .differ "model-panic" "applyPolicy"
    else .differ "unexpected-error" ((unhexStr (r.getD 2 "-")).getD "?")
  | none =>
  -- oracle sanity: the civil fields must be in their ranges (laws assumed by the injectivity theorems)
  if list.any (fun s => s.civ.month < 1 || s.civ.month > 12 || s.civ.day < 1 || s.civ.day > 31 || s.civ.hour < 0 ||
      s.civ.hour > 23 || s.civ.isoWeek < 1 || s.civ.isoWeek > 53) then .differ "oracle" "civil-field-out-of-range" else
  let latestImpl : Option Int := (c.find "latest").map fun r => timeOf (r.getD 1 "0") (r.getD 2 "0")
  let sorted := sortNewestFirst list
  -- findLatestTimestamp
  let latestCheck : Option Verdict :=
    match latestImpl, findLatestTimestamp now sorted with
    | some li, some lm =>
      if !specLatestTs now list li then some (.specfalse "C22:latest:not-the-newest-non-future-timestamp" s!"latest={li}")
      else if li != lm then some (.differ "latest" s!"model={lm} impl={li}") else none
    | none, none => none
    | _, _ => some (.differ "latest" "presence")
  match latestCheck with
  | some v => v
  | none =>
  match parseOutcome c "" with
  | none => .differ "protocol" "no-keep-record"
  | some o =>
    match checkRun c "" list now (latestImpl.getD zeroTime) tbl o with
    | .error v => v
    | .ok labels =>
      let common := [c.stream] ++
        (if list.any (fun s => s.time ≥ now) then ["future"] else []) ++
        (if (list.map (·.time)).eraseDups.length != list.length then ["ties"] else []) ++
        (if latestImpl == some zeroTime then ["zero-latest"] else [])
      if c.stream == "mono" then
        match parseOutcome c "2" with
        | none => .differ "protocol" "no-keep2-record"
        | some o2 =>
          -- the property on the implementation's outputs: nothing kept before is removed now
          if !(o.keep.all fun i => o2.keep.contains i) then
            let p := parsePolicy c ""; let q := parsePolicy c "2"
            let lawBroken := ([0,1,2,3,4,5] : List Nat).any fun i =>
              let d := parseDur c "" i; let d' := parseDur c "2" i
              !d.zero && subOf tbl 0 d' > subOf tbl 0 d
            let rawExplains := match applyPolicy (subOf (rawTable c ++ tbl)) now list q with
              | .ok ds => (keepOf ds).map (·.sn.id) == o2.keep
              | .panic => false
            let sig := if ([0,1,2,3,4,5] : List Nat).any (fun i => hugeHours (parseDur c "2" i)) && rawExplains then
                "C22:within:hours-beyond-time.Duration-range"
              else if lawBroken then "C22:monotone:longer-duration-gives-later-window-start"
              else if p.tags.length != q.tags.length then "C22:monotone:tags-or-counts" else "C22:monotone:counts-or-durations"
            .specfalse sig s!"keep={o.keep} keep2={o2.keep}"
          else
            match checkRun c "2" list now (latestImpl.getD zeroTime) tbl o2 with
            | .error v => v
            | .ok _ => .agree (!o.keep.isEmpty && !o.remove.isEmpty)
                (common ++ labels ++ (if o2.keep.length > o.keep.length then ["raised-keeps-more"] else ["raised-keeps-same"]))
      else .agree (!o.keep.isEmpty && !o.remove.isEmpty) (common ++ labels)

end C22

def main : IO Unit := mainLoop C22.handle
