import Driver.Common
import Restic.Model.RepoTrace
/-!
Record parsing shared by the drivers of C11, C14, C26 (wire format: harness/main/a12_util.go).
-/
namespace Driver.RT
open Driver Restic.Model.RepoTrace

def natOf (s : String) : Nat := s.toNat?.getD 0

def optNat (s : String) : Option Nat := if s == "-" then none else s.toNat?

def parseBlob (t : String) : Blob :=
  match t.splitOn "." with
  | [a, b, c, d] => ⟨natOf a, natOf b, natOf c, natOf d⟩
  | _ => default

def parseHandle (t : String) : Handle :=
  match t.splitOn "." with
  | [a, b] => (natOf a, natOf b)
  | _ => (0, 0)

/-- `| p blob* | p blob*` -/
def parseIndexEntries (toks : List String) : List IndexEntry :=
  let groups : List (List String) := toks.foldl (fun (acc : List (List String)) t =>
    if t == "|" then [] :: acc
    else match acc with
      | g :: rest => (t :: g) :: rest
      | [] => []) []
  groups.reverse.filterMap fun g =>
    match g.reverse with
    | p :: bs => some (natOf p, bs.map parseBlob)
    | [] => none

/-- `<s> <key> <tree> <orig> <handle>*` -/
def parseSnap (toks : List String) : Nat × Snap :=
  match toks with
  | s :: key :: tree :: orig :: hs =>
    (natOf s, { key := natOf key, tree := natOf tree, orig := optNat orig, needs := hs.map parseHandle })
  | _ => (0, default)

/-- initial repository from the `r0pack` / `r0index` / `r0snap` records (prefix configurable) -/
def parseRepo (c : Case) (pre : String := "r0") : Repo :=
  { packs := (c.findAll (pre ++ "pack")).toList.map fun r =>
      (natOf (r.getD 1 "0"), (r.toList.drop 2).map parseBlob)
    indexes := (c.findAll (pre ++ "index")).toList.map fun r =>
      (natOf (r.getD 1 "0"), parseIndexEntries (r.toList.drop 2))
    snaps := (c.findAll (pre ++ "snap")).toList.map fun r => parseSnap (r.toList.drop 1) }

/-- `ev <proc> <kind> ...` -/
def parseEv (r : Array String) : Option (String × Ev) :=
  let proc := r.getD 1 "?"
  let rest := r.toList.drop 3
  match r.getD 2 "" with
  | "savepack" => match rest with
    | p :: bs => some (proc, .savePack (natOf p) (bs.map parseBlob))
    | _ => none
  | "saveindex" => match rest with
    | i :: es => some (proc, .saveIndex (natOf i) (parseIndexEntries es))
    | _ => none
  | "savesnap" => let (s, sn) := parseSnap rest; some (proc, .saveSnap s sn)
  | "rmpack" => some (proc, .removePack (natOf (rest.headD "0")))
  | "rmindex" => some (proc, .removeIndex (natOf (rest.headD "0")))
  | "rmsnap" => some (proc, .removeSnap (natOf (rest.headD "0")))
  | _ => none

def parseEvents (c : Case) : List (String × Ev) :=
  (c.findAll "ev").toList.filterMap parseEv

def labelsOf (c : Case) : List String :=
  match c.find "labels" with
  | some r => r.toList.drop 1
  | none => []

def sameSet (a b : List Nat) : Bool := a.all (b.contains ·) && b.all (a.contains ·)

end Driver.RT
