import Driver.Common
import Restic.Model.Sema
/-!
Driver for C37. Records per case (stream `sched`):
  n <connections>
  cmd start <i> <op> <type> <isLock 0/1> <valid 0/1> <cancelled 0/1> <invalidBy|->
  cmd release <i> | cmd freeze | cmd unfreeze
  cmd cancel <i>                         the caller cancels the context of call <i> (at a settled moment)
  obs <settled 0/1> <freezeReturned 0/1|-> <inner ids|-> <called ids|-> <returned ids|->    after every cmd
  ret <i> <nil|ctx|perm|other>          error class of every returned call (end of case)
-/
open Driver Restic.Model.Sema

def idList (s : String) : List Nat :=
  if s == "-" then [] else (s.splitOn ",").filterMap String.toNat?

structure St where
  sys : Sys
  prev : List Obs := []
  attrs : Array (Bool × Bool × Bool) := #[]      -- isLock, valid, cancelled per call id
  frozen : Bool := false                          -- a Freeze() completed and no Unfreeze() since
  pendingFreeze : Bool := false
  frozenBefore : Bool := false
  labels : List String := []
  maxInner : Nat := 0
  sawFullFrozenLock : Bool := false
  modelErr : Option Verdict := none   -- first observation the model does not accept (replay stops, spec goes on)

/-- apply a model step unless the replay has already stopped; a disabled step stops it -/
def St.mdl (st : St) (f : Sys → Option Sys) (err : Verdict) : St :=
  if st.modelErr.isSome then st else
  match f st.sys with
  | some s' => { st with sys := s' }
  | none => { st with modelErr := some err }

def mkObs (st : St) (inner called returned : List Nat) : List Obs :=
  (List.range st.attrs.size).map fun i =>
    let a := st.attrs.getD i (false, true, false)
    { isLock := a.1, valid := a.2.1, cancelled := a.2.2,
      inner := inner.contains i, called := called.contains i, returned := returned.contains i }

def addLabel (st : St) (l : String) : St := if st.labels.contains l then st else { st with labels := l :: st.labels }

/-- process one record; `Except.error` carries the verdict that ends the case -/
def stepRec (st : St) (r : Array String) : Except Verdict St :=
  match r.getD 0 "" with
  | "cmd" =>
    match r.getD 1 "" with
    | "start" =>
      let isLock := r.getD 5 "0" == "1"; let valid := r.getD 6 "1" == "1"; let canc := r.getD 7 "0" == "1"
      let st := { st with attrs := st.attrs.push (isLock, valid, canc),
                          sys := { st.sys with threads := st.sys.threads ++ [{ isLock := isLock, valid := valid, cancelled := canc }] },
                          frozenBefore := st.frozen }
      let st := addLabel st (if isLock then "lock-call" else "nonlock-call")
      let st := if !valid then addLabel st s!"invalid-{r.getD 8 "-"}" else st
      let st := if canc then addLabel st "cancelled" else st
      .ok (addLabel st s!"op-{r.getD 3 "?"}")
    | "release" =>
      let i := (r.getD 2 "0").toNat?.getD 0
      .ok { st.mdl (fun s => step s (.finish i)) (.differ "release" s!"model: call {i} is not inside the wrapped backend") with frozenBefore := st.frozen }
    | "cancel" =>
      let i := (r.getD 2 "0").toNat?.getD 0
      -- cancelled before the wrapper's context check iff the call has not reached the wrapped backend yet
      let early := !((st.prev.getD i default).called)
      let a := st.attrs.getD i (false, true, false)
      let st := if early then { st with attrs := st.attrs.set! i (a.1, a.2.1, true) } else st
      .ok (addLabel { st.mdl (fun s => step s (.cancel i)) (.differ "cancel" s!"model: unknown call {i}") with frozenBefore := st.frozen }
        (if early then (if st.frozen then "cancel-while-parked-frozen" else "cancel-while-waiting") else "cancel-late"))
    | "freeze" =>
      .ok (addLabel { st.mdl (fun s => step s .freeze) (.differ "freeze" "model: already frozen") with pendingFreeze := true, frozenBefore := st.frozen } "freeze")
    | "unfreeze" =>
      .ok (addLabel { st.mdl (fun s => step s .unfreeze) (.differ "unfreeze" "model: not frozen") with frozen := false, frozenBefore := st.frozen } "unfreeze")
    | c => .error (.differ "protocol" s!"unknown-cmd-{c}")
  | "obs" =>
    -- not settled within 20 s: a harness goroutine stayed runnable (machine starved); nothing can be
    -- said about this case, it is counted as trivial
    if r.getD 1 "0" != "1" then .error (.agree false ["discarded-unsettled"]) else
    let cur := mkObs st (idList (r.getD 3 "-")) (idList (r.getD 4 "-")) (idList (r.getD 5 "-"))
    -- a Freeze() that does not return although the mutex is free in the model
    if st.pendingFreeze && r.getD 2 "-" != "1" then
      .error (.specfalse "C37:freeze-blocked" s!"Freeze() did not return; n={st.sys.n} obs={r.toList}") else
    let st := if st.pendingFreeze then { st with frozen := true, pendingFreeze := false } else st
    -- the property predicate on the implementation's own observation
    match specObs st.sys.n st.frozenBefore st.frozen st.prev cur with
    | some clause => .error (.specfalse s!"C37:{clause}" s!"n={st.sys.n} frozen={st.frozen} obs={r.toList}")
    | none =>
    -- model: replay the observed progress, then check nothing is left that the model would do
    let st := { st with prev := cur }
    if st.modelErr.isSome then .ok st else
    match advance st.sys cur with
    | .error e => .ok { st with modelErr := some (.differ "progress" s!"{e} n={st.sys.n} frozen={st.frozen} obs={r.toList}") }
    | .ok s' =>
      match stuck s' with
      | some i => .ok { st with modelErr := some (.differ "blocked" s!"call {i} waits although the model enables it; n={s'.n} tokens={s'.tokens} frozen={s'.frozen} obs={r.toList}") }
      | none =>
        if !specState s' then .ok { st with modelErr := some (.differ "model" "specState false on the model state") } else
        let nInner := cur.countP (fun o => !o.isLock && o.inner)
        let st := { st with sys := s', maxInner := max st.maxInner nInner }
        let st := if nInner == s'.n then addLabel st "all-slots-taken" else st
        let waiting := cur.any (fun o => !o.isLock && !o.inner && !o.returned)
        let st := if waiting && !st.frozen then addLabel st "waits-for-slot" else st
        let st := if waiting && st.frozen then addLabel st "waits-frozen" else st
        let lockIn := cur.any (fun o => o.isLock && o.inner)
        let st := if lockIn && st.frozen && nInner == s'.n then addLabel st "lock-op-while-full-and-frozen" else st
        let st := if lockIn && st.frozen then addLabel st "lock-op-while-frozen" else st
        let st := if lockIn && nInner == s'.n then addLabel st "lock-op-while-full" else st
        .ok st
  | "ret" =>
    let i := (r.getD 1 "0").toNat?.getD 0
    let a := st.attrs.getD i (false, true, false)
    let want := if !a.2.1 then "perm" else if a.2.2 then "ctx" else "nil"
    if r.getD 2 "" != want && st.modelErr.isNone then .ok { st with modelErr := some (.differ "error-class" s!"call {i}: model {want} impl {r.getD 2 ""}") } else .ok st
  | _ => .ok st

def handleC37 (c : Case) : Verdict :=
  let n := match c.find "n" with | some r => (r.getD 1 "1").toNat?.getD 1 | none => 1
  if (c.find "nofreeze").isSome then .specfalse "C37:no-freeze-interface" "sema.NewBackend does not provide Freeze/Unfreeze" else
  let st0 : St := { sys := init n [] }
  match c.recs.foldlM stepRec st0 with
  | .error v => v
  | .ok st =>
    match st.modelErr with
    | some v => v
    | none =>
    let allDone := st.prev.all (·.returned)
    if !allDone then .differ "drain" "calls left unreturned at the end of the case" else
    .agree (st.attrs.size ≥ 2) (st.labels.reverse ++ [s!"n{n}", s!"maxinner{st.maxInner}"])

def main : IO Unit := mainLoop handleC37
