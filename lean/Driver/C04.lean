import Driver.Common
import Restic.Model.Secrecy
/-!
Driver for C04 (a TEST of the symbolic model against real repositories). One case per repository:
  cfg <vN> <comp-…> <pruned 0/1> | markers <#secret> <#informational>
  save pack <nblobs> | save unpacked <type> | save key 1     every successful backend Save, in order
  n <16 bytes> <blob|header|key|index|snapshot|config|lock>  nonce of every encrypted object found
  leak <marker kind> <raw|hex|base64> <file type> <len>      a secret marker found in stored bytes
  found <#leaks> <#informational markers found in key files> <#objects>
-/
open Driver Restic.Model.Secrecy

def opsOf (saves : Array (Array String)) : List Op :=
  saves.toList.flatMap fun r =>
    match r.getD 1 "" with
    | "pack" => (List.replicate (r.getD 2 "0").toNat! (Op.saveBlob [] false)) ++ [Op.finalizePack []]
    | "key" => [Op.addKey [] 0 []]
    | _ => [Op.saveUnpacked [] false]

def handleC04 (c : Case) : Verdict :=
  match c.find "found", c.find "cfg" with
  | some f, some cfg =>
    let nonces := (c.findAll "n").toList.map fun r => (unhex (r.getD 1 "-")).getD []
    let leaks := (c.findAll "leak").size
    if !specOK leaks nonces then
      if leaks > 0 then
        let l := (c.findAll "leak")[0]!
        .specfalse s!"C04:leak:{l.getD 1 "?"}:{l.getD 2 "?"}:in-{l.getD 3 "?"}-file" s!"leaks={leaks}"
      else
        -- name the kinds of the two objects sharing a nonce
        let recs : List (Array String) := (c.findAll "n").toList
        let same (r : Array String) : List (Array String) := recs.filter fun (q : Array String) => q.getD 1 "" == r.getD 1 ""
        let dup := recs.find? fun (r : Array String) => (same r).length > 1
        let kinds : List String := match dup with
          | some r => (same r).map fun (q : Array String) => q.getD 2 "?"
          | none => []
        .specfalse s!"C04:nonce-reused:{"+".intercalate (kinds.take 2)}" s!"objects={nonces.length} distinct={nonces.eraseDups.length}"
    else
      -- model: the write operations behind the recorded Saves; every one of them seals exactly once
      let st := run (opsOf (c.findAll "save"))
      if st.seals.length != nonces.length then
        .differ "seal-count" s!"model={st.seals.length} objects-found={nonces.length}"
      else if (f.getD 1 "0").toNat! != leaks || (f.getD 3 "0").toNat! != nonces.length then
        .differ "protocol" "found-record-inconsistent"
      else if nonces.any (·.length != 16) then .differ "protocol" "nonce-length"
      else if (f.getD 2 "0").toNat! == 0 then
        .differ "scan" "informational-key-fields-not-found-in-key-file(the-scanner-would-miss-leaks)"
      else
        .agree true ([cfg.getD 1 "", cfg.getD 2 "", (if cfg.getD 3 "0" == "1" then "pruned" else "not-pruned"),
          s!"objects>={nonces.length / 25 * 25}"])
  | _, _ => .differ "protocol" "missing-records"

def main : IO Unit := mainLoop handleC04
