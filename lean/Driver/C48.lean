import Driver.Common
import Restic.Model.AssocSet
/-!
Driver for C48 (history correspondence of the real `AssociatedSet[uint8]` against
`Restic.Model.AssocSet`). Records, processed in order:
  profile <name>
  newidx <k>                         index.NewIndex()
  pack <k> <packid> <t:id:off:len:ulen>*   idx_k.StorePack
  fin <k> <indexid|->                Finalize (+ SetID)
  ins <k>                            mi.Insert(idx_k)
  merge                              mi.MergeFinalIndexes()
  new <S> | set <S> <h> <v> | insert <S> <h> | delete <S> <h> | intersect <S> <A> <B> | sub <S> <A> <B>
  obs <S> <Len> <h=v>*               Len() and All() of S after the op
  keys <S> <h>*                      Keys() of S
  get <S> <h> <v|-> <has>            Get / Has
  panic <hexmsg>
Handles are `d:<id>` / `t:<id>`.
-/
open Driver Restic.Model.IndexMap Restic.Model.Index Restic.Model.AssocSet

namespace C48

def parseID (s : String) : ID := (unhex s).getD []

def parseType (s : String) : BlobType := if s == "t" then .tree else .data

def parseHandle (s : String) : Handle :=
  match s.splitOn ":" with
  | [t, i] => ⟨parseType t, parseID i⟩
  | _ => ⟨.data, []⟩

def parseBlob (s : String) : Option Blob :=
  match s.splitOn ":" with
  | [t, i, o, l, u] =>
    match o.toNat?, l.toNat?, u.toNat? with
    | some o, some l, some u => some ⟨parseType t, parseID i, o, l, u⟩
    | _, _, _ => none
  | _ => none

def parseKV (s : String) : Handle × Nat :=
  match s.splitOn "=" with
  | [h, v] => (parseHandle h, v.toNat?.getD 0)
  | _ => (⟨.data, []⟩, 0)

def showHandle (h : Handle) : String := (if h.type == .tree then "t:" else "d:") ++ hex h.id

structure St where
  idxs : List (Nat × Index) := []
  mi : MasterIndex := MasterIndex.new
  sets : List (String × ASet × Ref) := []
  labels : List String := []
  verdict : Option Verdict := none   -- first spec-false (ends the case)
  differ : Option Verdict := none    -- first model/implementation difference (the case goes on: a spec-false later on wins)
  nobs : Nat := 0
  maxLen : Nat := 0

def St.fail (s : St) (v : Verdict) : St :=
  match v with
  | .differ _ _ => if s.differ.isSome then s else { s with differ := some v }
  | _ => if s.verdict.isSome then s else { s with verdict := some v }
def St.label (s : St) (l : String) : St := if s.labels.contains l then s else { s with labels := l :: s.labels }
def St.getIdx (s : St) (k : Nat) : Index := ((s.idxs.find? fun p => p.1 == k).map (·.2)).getD Index.new
def St.setIdx (s : St) (k : Nat) (i : Index) : St := { s with idxs := (k, i) :: s.idxs.filter fun p => p.1 != k }
def St.getSet (s : St) (n : String) : Option (ASet × Ref) := (s.sets.find? fun p => p.1 == n).map (·.2)
def St.setSet (s : St) (n : String) (a : ASet) (r : Ref) : St := { s with sets := (n, a, r) :: s.sets.filter fun p => p.1 != n }

def outTag {α} : Out α → String
  | .ok _ => "ok" | .err m => "err(" ++ m.replace " " "_" ++ ")" | .panic m => "panic(" ++ m.replace " " "_" ++ ")"

/-- is `h` stored several times in the master index (the situation of finding F4)? -/
def dupInIndex (mi : MasterIndex) (h : Handle) : Bool := ((allHandles mi).filter (· == h)).length ≥ 2

def stepRec (s : St) (r : Array String) : St :=
  if s.verdict.isSome then s else
  let key := r.getD 0 ""
  let nat (i : Nat) : Nat := (r.getD i "0").toNat?.getD 0
  if key == "profile" then s.label (r.getD 1 "?")
  else if key == "newidx" then s.setIdx (nat 1) Index.new
  else if key == "pack" then
    let blobs := (r.toList.drop 3).filterMap parseBlob
    match (s.getIdx (nat 1)).storePack (parseID (r.getD 2 "-")) blobs with
    | .ok i => s.setIdx (nat 1) i
    | e => s.fail (.differ "model-storePack" (outTag e))
  else if key == "fin" then
    let i := s.getIdx (nat 1)
    let i := { i with final := true }
    let i := if r.getD 2 "-" == "-" then i else { i with ids := i.ids ++ [parseID (r.getD 2 "-")] }
    s.setIdx (nat 1) i
  else if key == "ins" then
    let s := if (s.getIdx (nat 1)).final then s else s.label "nonfinal-index"
    { s with mi := s.mi.insert (s.getIdx (nat 1)) }
  else if key == "merge" then
    match s.mi.mergeFinalIndexes with
    | .ok mi => { s with mi := mi }
    | e => s.fail (.differ "model-merge" (outTag e))
  else if key == "panic" then
    s.fail (.specfalse "C48:panic" ((unhexStr (r.getD 1 "-")).getD "?" |>.replace " " "_"))
  else
  let mi := s.mi
  let name := r.getD 1 "?"
  if key == "new" then
    (s.setSet name (ASet.new mi) []).label (if s.sets.isEmpty then "new" else "new-after-growth")
  else if key == "intersect" || key == "sub" then
    match s.getSet (r.getD 2 "?"), s.getSet (r.getD 3 "?") with
    | some (a, ra), some (b, rb) =>
      if key == "intersect" then (s.setSet name (a.intersect mi b) (ra.intersect rb)).label "intersect"
      else (s.setSet name (a.subtract mi b) (ra.subtract rb)).label "sub"
    | _, _ => s.fail (.differ "protocol" "unknown-set")
  else
  match s.getSet name with
  | none => s.fail (.differ "protocol" ("unknown-set-" ++ name))
  | some (a, ref) =>
  if key == "set" then
    let h := parseHandle (r.getD 2 ""); let v := nat 3
    s.setSet name (a.set mi h v) (ref.set h v)
  else if key == "insert" then
    let h := parseHandle (r.getD 2 "")
    s.setSet name (a.insert mi h) (ref.set h 0)
  else if key == "delete" then
    let h := parseHandle (r.getD 2 "")
    s.setSet name (a.delete mi h) (ref.delete h)
  else if key == "obs" then
    let len := nat 2
    let all := (r.toList.drop 3).map parseKV
    let s := { s with nobs := s.nobs + 1, maxLen := max s.maxLen ref.length }
    -- the property on the implementation's own output
    if !specAll ref all then
      let ks := all.map (·.1)
      let sig :=
        if ks.eraseDups.length != ks.length then "C48:All:member-reported-more-than-once"
        else if ref.any (fun p => !ks.contains p.1) then "C48:All:member-missing"
        else if ks.any (fun k => (ref.get k).isNone) then "C48:All:non-member-reported"
        else "C48:All:wrong-value"
      s.fail (.specfalse sig s!"members={ref.length} reported={all.length} keys={ks.map showHandle}")
    else if !specLen ref len then
      s.fail (.specfalse "C48:Len:not-number-of-distinct-members" s!"members={ref.length} Len={len}")
    else
      let ml := a.all mi
      if !(ml.isPerm all) then s.fail (.differ "All" s!"model={ml.length} impl={all.length}")
      else if a.len mi != len then s.fail (.differ "Len" s!"model={a.len mi} impl={len}")
      else
        let s := if ref.any (fun p => dupInIndex mi p.1) then s.label "member-stored-several-times" else s
        let s := if !a.overflow.isEmpty then s.label "overflow" else s
        let s := if a.overflow.any (fun p => firstPos (mi.first.byType p.1.type) p.1.id != -1) then s.label "overflow-now-in-main-index" else s
        let s := if !mi.rest.isEmpty then s.label "unmerged-index" else s
        s
  else if key == "keys" then
    let keys := (r.toList.drop 2).map parseHandle
    if !specKeys ref keys then
      let sig := if keys.eraseDups.length != keys.length then "C48:Keys:member-reported-more-than-once"
                 else "C48:Keys:wrong-members"
      s.fail (.specfalse sig s!"members={ref.length} keys={keys.map showHandle}")
    else if !((a.keys mi).isPerm keys) then s.fail (.differ "Keys" "-") else s
  else if key == "get" then
    let h := parseHandle (r.getD 2 "")
    let out : Option Nat := if r.getD 3 "-" == "-" then none else (r.getD 3 "").toNat?
    let has := r.getD 4 "0" == "1"
    if !specGet ref h out then s.fail (.specfalse "C48:Get:wrong-value-or-membership" s!"h={showHandle h} want={ref.get h} got={out}")
    else if has != out.isSome then s.fail (.specfalse "C48:Has:differs-from-Get" (showHandle h))
    else if a.get mi h != out then s.fail (.differ "Get" (showHandle h))
    else s
  else s

def handle (c : Case) : Verdict :=
  let s := c.recs.foldl stepRec {}
  match s.verdict, s.differ with
  | some v, _ => v
  | none, some d => d
  | none, none =>
    let sz := if s.maxLen == 0 then "members0" else if s.maxLen < 4 then "members<4" else "members>=4"
    .agree (s.nobs ≥ 2 && s.maxLen ≥ 1) (sz :: s.labels)

end C48

def main : IO Unit := mainLoop C48.handle
